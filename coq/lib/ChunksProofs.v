(** Facts about the splitting loop and the flat-memory copy built on it. *)
From Coq Require Import List NArith Bool Lia ZifyN ZifyNat ZifyBool.
From VLib Require Import Chunks.
Import ListNotations.
Open Scope N_scope.

(** The shape of the piece list produced by a terminating run of the loop. *)
Inductive Tiles (look : lookup) : N -> N -> N -> list piece -> Prop :=
| T_nil : forall off addr, Tiles look off addr 0 []
| T_cons : forall off addr left pa room l,
    0 < left -> look addr = Some (pa, room) ->
    Tiles look (off + N.min left room) (addr + N.min left room) (left - N.min left room) l ->
    Tiles look off addr left (mkPiece off addr pa (N.min left room) :: l).

Lemma chunks_tiles : forall look fuel off addr left l,
  chunks look fuel off addr left = Ok l -> Tiles look off addr left l.
Proof.
  induction fuel as [|f IH]; intros off addr left l H; cbn [chunks] in H.
  - destruct (left =? 0) eqn:E; [|discriminate].
    apply N.eqb_eq in E. subst. inversion H. constructor.
  - destruct (left =? 0) eqn:E.
    + apply N.eqb_eq in E. subst. inversion H. constructor.
    + apply N.eqb_neq in E.
      destruct (look addr) as [[pa room]|] eqn:L; [|discriminate].
      cbv zeta in H.
      destruct (chunks look f (off + N.min left room) (addr + N.min left room) (left - N.min left room)) eqn:C;
        cbn in H; try discriminate.
      inversion H; subst. econstructor; eauto. lia.
Qed.

Definition look_pos (look : lookup) := forall a pa r, look a = Some (pa, r) -> 0 < r.

Lemma chunks_total : forall look, look_pos look -> forall fuel off addr left,
  (N.to_nat left <= fuel)%nat ->
  (forall a, addr <= a < addr + left -> look a <> None) ->
  exists l, chunks look fuel off addr left = Ok l.
Proof.
  intros look Hp. induction fuel as [|f IH]; intros off addr left Hf Hm; cbn [chunks].
  - assert (left = 0) by lia. subst. exists []. reflexivity.
  - destruct (left =? 0) eqn:E; [eexists; reflexivity|]. apply N.eqb_neq in E.
    destruct (look addr) as [[pa room]|] eqn:L.
    2:{ exfalso. apply (Hm addr); [lia|assumption]. }
    pose proof (Hp _ _ _ L) as Hr. cbv zeta.
    destruct (IH (off + N.min left room) (addr + N.min left room) (left - N.min left room)) as [l' El'].
    + lia.
    + intros a Ha. apply Hm. lia.
    + rewrite El'. eexists. reflexivity.
Qed.

(** Contiguity and exact cover. *)
Fixpoint total (l : list piece) : N :=
  match l with [] => 0 | p :: r => p_len p + total r end.

Fixpoint contig (o : N) (l : list piece) : Prop :=
  match l with [] => True | p :: r => p_off p = o /\ contig (o + p_len p) r end.

Definition covers (i : N) (p : piece) : bool := (p_off p <=? i) && (i <? p_off p + p_len p).

Lemma tiles_contig : forall look off addr left l,
  Tiles look off addr left l -> contig off l /\ total l = left.
Proof.
  induction 1; cbn; [auto|]. destruct IHTiles as [Hc Ht]. split; [split; auto|]. rewrite Ht. lia.
Qed.

Lemma tiles_bounds : forall look off addr left l,
  Tiles look off addr left l ->
  Forall (fun p => off <= p_off p /\ p_off p + p_len p <= off + left /\
                   p_va p = addr + (p_off p - off)) l.
Proof.
  induction 1; constructor.
  - cbn. repeat split; lia.
  - eapply Forall_impl; [|exact IHTiles]. cbn. intros p (A & B & C). repeat split; try lia.
Qed.

Lemma tiles_unit : forall look off addr left l,
  Tiles look off addr left l ->
  Forall (fun p => exists room, look (p_va p) = Some (p_pa p, room) /\ p_len p <= room) l.
Proof.
  induction 1; constructor; auto. cbn. exists room. split; [assumption|lia].
Qed.

Lemma tiles_none_outside : forall look off addr left l,
  Tiles look off addr left l -> forall i, i < off \/ off + left <= i ->
  filter (covers i) l = [].
Proof.
  induction 1; intros i Hi; cbn; [reflexivity|].
  unfold covers at 1. cbn.
  replace ((off <=? i) && (i <? off + N.min left room)) with false by lia.
  apply IHTiles. lia.
Qed.

Lemma tiles_once : forall look, look_pos look -> forall off addr left l,
  Tiles look off addr left l -> forall i, off <= i < off + left ->
  length (filter (covers i) l) = 1%nat.
Proof.
  intros look Hp. induction 1; intros i Hi; [lia|]. cbn [filter].
  unfold covers at 1. cbn [p_off p_len].
  pose proof (Hp _ _ _ H0) as Hr.
  destruct (N.ltb_spec i (off + N.min left room)) as [Hlt|Hge].
  - replace ((off <=? i) && true) with true by lia. cbn.
    rewrite (tiles_none_outside _ _ _ _ _ H1); [reflexivity|lia].
  - replace ((off <=? i) && false) with false by lia. apply IHTiles. lia.
Qed.

(** Flat memory. *)
Definition look_linear (look : lookup) := forall a pa r i,
  look a = Some (pa, r) -> i < r -> look (a + i) = Some (pa + i, r - i).

Lemma tr_linear : forall look a pa r i, look_linear look ->
  look a = Some (pa, r) -> i < r -> tr look (a + i) = pa + i.
Proof. intros look a pa r i Hl L Hi. unfold tr. rewrite (Hl _ _ _ _ L Hi). reflexivity. Qed.

Lemma h2d_cons : forall data p l m,
  h2d data (p :: l) m = h2d data l (blit m (p_pa p) (p_len p) (fun i => data (p_off p + i))).
Proof. reflexivity. Qed.

Lemma d2h_cons : forall m p l b,
  d2h m (p :: l) b = d2h m l (blit b (p_off p) (p_len p) (fun i => m (p_pa p + i))).
Proof. reflexivity. Qed.

Lemma h2d_frame : forall look, look_linear look -> forall off addr left l,
  Tiles look off addr left l -> forall data m x,
  (forall v, addr <= v < addr + left -> tr look v <> x) -> h2d data l m x = m x.
Proof.
  intros look Hl. induction 1; intros data m x Hx; [reflexivity|].
  rewrite h2d_cons. cbn [p_pa p_len p_off].
  rewrite IHTiles by (intros v Hv; apply Hx; lia).
  unfold blit.
  destruct ((pa <=? x) && (x <? pa + N.min left room)) eqn:E; [|reflexivity].
  exfalso. apply (Hx (addr + (x - pa))); [lia|].
  rewrite (tr_linear _ _ _ _ _ Hl H0); lia.
Qed.

Definition inj_on (look : lookup) (addr left : N) := forall v1 v2,
  addr <= v1 < addr + left -> addr <= v2 < addr + left -> tr look v1 = tr look v2 -> v1 = v2.

Lemma h2d_hit : forall look, look_linear look -> forall off addr left l,
  Tiles look off addr left l -> forall data m v,
  inj_on look addr left -> addr <= v < addr + left ->
  h2d data l m (tr look v) = data (off + (v - addr)).
Proof.
  intros look Hl. induction 1; intros data m v Hinj Hv; [lia|].
  rewrite h2d_cons. cbn [p_pa p_len p_off].
  destruct (N.ltb_spec v (addr + N.min left room)) as [Hlt|Hge].
  - rewrite (h2d_frame _ Hl _ _ _ _ H1).
    + assert (E : tr look v = pa + (v - addr)).
      { replace v with (addr + (v - addr)) at 1 by lia.
        rewrite (tr_linear _ _ _ _ _ Hl H0) by lia. reflexivity. }
      rewrite E. unfold blit.
      replace ((pa <=? pa + (v - addr)) && (pa + (v - addr) <? pa + N.min left room)) with true by lia.
      f_equal. lia.
    + intros v' Hv' E. apply Hinj in E; lia.
  - rewrite IHTiles; try lia.
    + f_equal. lia.
    + intros v1 v2 H1' H2'. apply Hinj; lia.
Qed.

Lemma d2h_frame : forall look off addr left l,
  Tiles look off addr left l -> forall m b i, i < off \/ off + left <= i ->
  d2h m l b i = b i.
Proof.
  induction 1; intros m b i Hi; [reflexivity|].
  rewrite d2h_cons. cbn [p_pa p_len p_off]. rewrite IHTiles by lia.
  unfold blit. replace ((off <=? i) && (i <? off + N.min left room)) with false by lia. reflexivity.
Qed.

Lemma d2h_hit : forall look, look_linear look -> forall off addr left l,
  Tiles look off addr left l -> forall m b i, off <= i < off + left ->
  d2h m l b i = m (tr look (addr + (i - off))).
Proof.
  intros look Hl. induction 1; intros m b i Hi; [lia|].
  rewrite d2h_cons. cbn [p_pa p_len p_off].
  destruct (N.ltb_spec i (off + N.min left room)) as [Hlt|Hge].
  - rewrite (d2h_frame _ _ _ _ _ H1) by lia.
    unfold blit. replace ((off <=? i) && (i <? off + N.min left room)) with true by lia.
    rewrite (tr_linear _ _ _ _ _ Hl H0) by lia. reflexivity.
  - rewrite IHTiles by lia. f_equal. f_equal. lia.
Qed.

(** The two statements every copy path instantiates. *)
Theorem copy_roundtrip : forall look, look_linear look -> forall addr len l,
  Tiles look 0 addr len l -> inj_on look addr len ->
  forall data m buf i, i < len -> d2h (h2d data l m) l buf i = data i.
Proof.
  intros look Hl addr len l HT Hinj data m buf i Hi.
  rewrite (d2h_hit _ Hl _ _ _ _ HT) by lia.
  rewrite (h2d_hit _ Hl _ _ _ _ HT) by (auto; lia). f_equal. lia.
Qed.

Theorem copy_frame : forall look, look_linear look -> forall addr len l,
  Tiles look 0 addr len l ->
  forall data m x, (forall v, addr <= v < addr + len -> tr look v <> x) ->
  h2d data l m x = m x.
Proof. intros. eapply h2d_frame; eauto. Qed.

(** The unit lookup of the DMA engine. *)
Lemma pow2_pos : forall lg, 0 < 2 ^ lg.
Proof. intros. apply N.neq_0_lt_0. apply N.pow_nonzero. lia. Qed.

Lemma mod_add_small : forall a i u, 0 < u -> i < u - a mod u -> (a + i) mod u = a mod u + i.
Proof.
  intros a i u Hu Hi. symmetry. apply (N.mod_unique _ _ (a / u)); [lia|].
  pose proof (N.div_mod' a u). lia.
Qed.

Lemma div_add_small : forall a i u, 0 < u -> i < u - a mod u -> (a + i) / u = a / u.
Proof.
  intros a i u Hu Hi. symmetry. apply (N.div_unique _ _ _ (a mod u + i)); [lia|].
  pose proof (N.div_mod' a u). lia.
Qed.

Lemma look_unit_pos : forall lg, look_pos (look_unit lg).
Proof.
  intros lg a pa r H. unfold look_unit in H. cbv zeta in H. injection H as <- <-.
  pose proof (pow2_pos lg). pose proof (N.mod_lt a (2 ^ lg)). lia.
Qed.

Lemma look_unit_linear : forall lg, look_linear (look_unit lg).
Proof.
  intros lg a pa r i H Hi. unfold look_unit in *. cbv zeta in *. injection H as <- <-.
  rewrite mod_add_small by (auto using pow2_pos). f_equal. f_equal. lia.
Qed.

Lemma tr_unit : forall lg v, tr (look_unit lg) v = v.
Proof. reflexivity. Qed.

Lemma split_unit_ok : forall lg addr len, exists l, split (look_unit lg) addr len = Ok l.
Proof.
  intros. apply chunks_total; [apply look_unit_pos|lia|]. intros a _. discriminate.
Qed.

(** More consequences of [Tiles]. *)
Lemma tiles_pos : forall look, look_pos look -> forall off addr left l,
  Tiles look off addr left l -> Forall (fun p => 0 < p_len p) l.
Proof.
  intros look Hp. induction 1; constructor; auto. cbn. pose proof (Hp _ _ _ H0). lia.
Qed.

Lemma tiles_mapped : forall look, look_linear look -> forall off addr left l,
  Tiles look off addr left l -> forall v, addr <= v < addr + left -> look v <> None.
Proof.
  intros look Hl. induction 1; intros v Hv; [lia|].
  destruct (N.ltb_spec v (addr + N.min left room)) as [Hlt|Hge].
  - replace v with (addr + (v - addr)) by lia.
    rewrite (Hl _ _ _ (v - addr) H0) by lia. discriminate.
  - apply IHTiles. lia.
Qed.

Lemma split_tiles : forall look addr len l, split look addr len = Ok l -> Tiles look 0 addr len l.
Proof. intros. eapply chunks_tiles; eauto. Qed.

Lemma split_total : forall look, look_pos look -> forall addr len,
  (forall a, addr <= a < addr + len -> look a <> None) -> exists l, split look addr len = Ok l.
Proof. intros. apply chunks_total; auto. Qed.

(** Everything the property says about a piece list, in one place. *)
Definition exact_pieces (look : lookup) (addr len : N) (l : list piece) : Prop :=
  contig 0 l /\ total l = len /\
  (forall i, i < len -> length (filter (covers i) l) = 1%nat) /\
  (forall i, len <= i -> filter (covers i) l = []) /\
  Forall (fun p => 0 < p_len p /\ p_va p = addr + p_off p /\ p_off p + p_len p <= len /\
                   exists room, look (p_va p) = Some (p_pa p, room) /\ p_len p <= room) l.

Lemma tiles_exact : forall look, look_pos look -> forall addr len l,
  Tiles look 0 addr len l -> exact_pieces look addr len l.
Proof.
  intros look Hp addr len l HT. unfold exact_pieces.
  destruct (tiles_contig _ _ _ _ _ HT) as [Hc Ht].
  split; [exact Hc|]. split; [exact Ht|]. split; [|split].
  - intros i Hi. eapply tiles_once; eauto. lia.
  - intros i Hi. eapply tiles_none_outside; eauto; lia.
  - pose proof (tiles_pos _ Hp _ _ _ _ HT) as H1.
    pose proof (tiles_bounds _ _ _ _ _ HT) as H2.
    pose proof (tiles_unit _ _ _ _ _ HT) as H3.
    rewrite Forall_forall in *. intros p Hin.
    specialize (H1 p Hin). specialize (H2 p Hin). specialize (H3 p Hin). cbn in *.
    destruct H2 as (A & B & C).
    split; [exact H1|]. split; [rewrite C; f_equal; lia|]. split; [lia|exact H3].
Qed.
