(** Shared vocabulary for the Akita component models: messages and bounded
    port buffers.  No proofs about components live here. *)
From Coq Require Export List NArith Bool Lia.
Export ListNotations.
Open Scope N_scope.

(** Message kinds that travel between the memory-side components. *)
Inductive kind := KRead | KWrite | KDataReady | KWriteDone | KCtrl | KOther.

Definition kind_eqb (a b : kind) : bool :=
  match a, b with
  | KRead, KRead | KWrite, KWrite | KDataReady, KDataReady
  | KWriteDone, KWriteDone | KCtrl, KCtrl | KOther, KOther => true
  | _, _ => false
  end.

(** A message.  [m_id] is an opaque identifier (the Go string ID renumbered by
    the harness); [m_src]/[m_dst] are port names renumbered likewise.
    [m_flags] carries the boolean fields of control messages as a bit set. *)
Record msg := mkMsg {
  m_id    : N;
  m_kind  : kind;
  m_src   : N;
  m_dst   : N;
  m_rspto : N;
  m_addr  : N;
  m_size  : N;
  m_pid   : N;
  m_data  : list N;
  m_mask  : list bool;
  m_flags : N
}.

Definition list_eqb {A} (eqb : A -> A -> bool) :=
  fix go (a b : list A) : bool :=
    match a, b with
    | [], [] => true
    | x :: a', y :: b' => eqb x y && go a' b'
    | _, _ => false
    end.

Definition msg_eqb (a b : msg) : bool :=
  (m_id a =? m_id b) && kind_eqb (m_kind a) (m_kind b) &&
  (m_src a =? m_src b) && (m_dst a =? m_dst b) &&
  (m_rspto a =? m_rspto b) && (m_addr a =? m_addr b) &&
  (m_size a =? m_size b) && (m_pid a =? m_pid b) &&
  list_eqb N.eqb (m_data a) (m_data b) &&
  list_eqb Bool.eqb (m_mask a) (m_mask b) && (m_flags a =? m_flags b).

(** Control-message flag bits (mem.ControlMsg). *)
Definition F_DISCARD : N := 1.
Definition F_RESTART : N := 2.
Definition F_NOTIFYDONE : N := 4.
Definition F_ENABLE : N := 8.
Definition F_DRAIN : N := 16.
Definition F_FLUSH : N := 32.
Definition F_PAUSE : N := 64.
Definition F_INVALID : N := 128.
Definition has_flag (m : msg) (f : N) : bool := negb (N.land (m_flags m) f =? 0).

(** Bounded FIFO buffer as in akita's sim.Buffer: push at the back when
    not full, pop/peek at the front. *)
Definition can_push (cap : nat) (b : list msg) : bool := Nat.ltb (length b) cap.
Definition push (b : list msg) (m : msg) : list msg := b ++ [m].

(** Names of ports in the renumbered world; a component's own ports and
    its neighbours get fixed small numbers, chosen by each model. *)
