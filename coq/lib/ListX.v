(** Small list facts shared by the component proofs. *)
From Coq Require Import List Arith Lia.
Import ListNotations.

(** order-preserving sub-sequence *)
Inductive subseq {A} : list A -> list A -> Prop :=
| subseq_nil : subseq [] []
| subseq_skip x l1 l2 : subseq l1 l2 -> subseq l1 (x :: l2)
| subseq_take x l1 l2 : subseq l1 l2 -> subseq (x :: l1) (x :: l2).

Lemma subseq_refl {A} (l : list A) : subseq l l.
Proof. induction l; [constructor|apply subseq_take; auto]. Qed.

Lemma subseq_nil_l {A} (l : list A) : subseq [] l.
Proof. induction l; constructor; auto. Qed.

Lemma subseq_app {A} (a b c d : list A) : subseq a b -> subseq c d -> subseq (a ++ c) (b ++ d).
Proof. induction 1; simpl; intros; auto; [apply subseq_skip|apply subseq_take]; auto. Qed.

Lemma subseq_trans {A} (a b c : list A) : subseq a b -> subseq b c -> subseq a c.
Proof.
  intros Hab Hbc; revert a Hab; induction Hbc; intros a Hab.
  - inversion Hab; constructor.
  - apply subseq_skip; auto.
  - inversion Hab; subst; [apply subseq_skip|apply subseq_take]; auto.
Qed.

Lemma subseq_filter {A} (f : A -> bool) (l : list A) : subseq (filter f l) l.
Proof. induction l; simpl; [constructor|]. destruct (f a); [apply subseq_take|apply subseq_skip]; auto. Qed.

Lemma subseq_map {A B} (f : A -> B) (a b : list A) : subseq a b -> subseq (map f a) (map f b).
Proof. induction 1; simpl; [constructor|apply subseq_skip|apply subseq_take]; auto. Qed.

Lemma subseq_In {A} (a b : list A) x : subseq a b -> In x a -> In x b.
Proof. induction 1; simpl; intuition. Qed.

Lemma subseq_NoDup {A} (a b : list A) : subseq a b -> NoDup b -> NoDup a.
Proof.
  induction 1; intros Hn; auto.
  - inversion Hn; auto.
  - inversion Hn; subst; constructor; auto. intro Hin; eapply subseq_In in Hin; eauto.
Qed.

Lemma subseq_app_l {A} (a b : list A) : subseq a (a ++ b).
Proof. rewrite <- (app_nil_r a) at 1. apply subseq_app; [apply subseq_refl|apply subseq_nil_l]. Qed.

Lemma subseq_app_r {A} (a b : list A) : subseq b (a ++ b).
Proof. change b with ([] ++ b) at 1. apply subseq_app; [apply subseq_nil_l|apply subseq_refl]. Qed.

Lemma subseq_length {A} (a b : list A) : subseq a b -> length a <= length b.
Proof. induction 1; simpl; lia. Qed.

Lemma Forall_app_iff {A} (P : A -> Prop) l1 l2 : Forall P (l1 ++ l2) <-> Forall P l1 /\ Forall P l2.
Proof. apply Forall_app. Qed.

Lemma NoDup_app_intro {A} (l1 l2 : list A) :
  NoDup l1 -> NoDup l2 -> (forall x, In x l1 -> ~ In x l2) -> NoDup (l1 ++ l2).
Proof.
  induction l1; simpl; intros H1 H2 H; auto.
  inversion H1; subst. constructor.
  - rewrite in_app_iff; intros [Hin|Hin]; [tauto|]. apply (H a); auto.
  - apply IHl1; auto.
Qed.

Lemma NoDup_app_l {A} (l1 l2 : list A) : NoDup (l1 ++ l2) -> NoDup l1.
Proof. intros; eapply subseq_NoDup; [apply subseq_app_l|eauto]. Qed.

Lemma NoDup_app_r {A} (l1 l2 : list A) : NoDup (l1 ++ l2) -> NoDup l2.
Proof. intros; eapply subseq_NoDup; [apply subseq_app_r|eauto]. Qed.

Lemma NoDup_app_disj {A} (l1 l2 : list A) x : NoDup (l1 ++ l2) -> In x l1 -> In x l2 -> False.
Proof.
  induction l1; simpl; intros Hn H1 H2; [tauto|].
  inversion Hn; subst. destruct H1 as [->|H1].
  - apply H3. rewrite in_app_iff; auto.
  - eauto.
Qed.
