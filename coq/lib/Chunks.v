(** Splitting a byte range into unit-bounded pieces (pages, cache lines) and
    moving the pieces to / from a flat byte memory.  Shared by the models of
    the driver's copy loops (VDrv.MemCopy), the DMA engine (VCp.Dma) and the
    emulator's storage accessor (VMem.StorageAccessor).  Definitions only;
    proofs are in ChunksProofs.v. *)
From Coq Require Import List NArith Bool.
Import ListNotations.
Open Scope N_scope.

(** One piece: offset in the host buffer, first virtual address, translated
    (physical) address, length. *)
Record piece := mkPiece { p_off : N; p_va : N; p_pa : N; p_len : N }.

(** [Panic]: the Go loop reached a panic (page not found).  [Diverge]: the Go
    loop would not terminate (a unit with no room left). *)
Inductive res := Ok (l : list piece) | Panic | Diverge.

Definition res_cons (p : piece) (r : res) : res :=
  match r with Ok l => Ok (p :: l) | Panic => Panic | Diverge => Diverge end.

(** What the loop learns about an address: its translation and the number of
    bytes from the address to the end of its unit. *)
Definition lookup := N -> option (N * N).

(** The common loop
      for left > 0 { room := ...; n := min(left, room); emit; left -= n; addr += n; off += n } *)
Fixpoint chunks (look : lookup) (fuel : nat) (off addr left : N) {struct fuel} : res :=
  if left =? 0 then Ok [] else
  match fuel with
  | O => Diverge
  | S f =>
    match look addr with
    | None => Panic
    | Some (pa, room) =>
      let n := N.min left room in
      res_cons (mkPiece off addr pa n) (chunks look f (off + n) (addr + n) (left - n))
    end
  end.

Definition split (look : lookup) (addr len : N) : res :=
  chunks look (N.to_nat len) 0 addr len.

(** Byte arrays (memories, host buffers) as total functions index -> byte. *)
Definition bytes := N -> N.

(** copy(dst[o:o+n], src[0:n]) *)
Definition blit (dst : bytes) (o n : N) (src : bytes) : bytes :=
  fun x => if (o <=? x) && (x <? o + n) then src (x - o) else dst x.

(** Host-to-device: every piece writes its slice of [data] at its translated address. *)
Definition h2d (data : bytes) (l : list piece) (m : bytes) : bytes :=
  fold_left (fun m p => blit m (p_pa p) (p_len p) (fun i => data (p_off p + i))) l m.

(** Device-to-host: every piece reads [p_len] bytes at its translated address
    and copies them to its offset of the host buffer. *)
Definition d2h (m : bytes) (l : list piece) (buf : bytes) : bytes :=
  fold_left (fun b p => blit b (p_off p) (p_len p) (fun i => m (p_pa p + i))) l buf.

(** Translation of a single virtual byte address. *)
Definition tr (look : lookup) (v : N) : N :=
  match look v with Some (pa, _) => pa | None => 0 end.

(** Conversions used by the correspondence checks. *)
Definition of_list (d : list N) : bytes := fun i => nth (N.to_nat i) d 0.
Definition to_list (b : bytes) (a n : N) : list N :=
  map (fun i => b (a + N.of_nat i)) (seq 0 (N.to_nat n)).

(** Cache-line / access-unit lookup of the DMA engine: identity translation,
    room = unit - addr mod unit  (addr & (^0 << lg) is the unit's first byte). *)
Definition look_unit (lg : N) : lookup :=
  fun a => let u := 2 ^ lg in Some (a, u - a mod u).
