(** A small tactic for [Permutation] goals whose two sides are the same
    appended blocks in a different order ([perm_ac]). *)
From Coq Require Import List Permutation.
Import ListNotations.

Lemma perm_front {A} (a x t t' : list A) :
  Permutation t (a ++ t') -> Permutation (x ++ t) (a ++ x ++ t').
Proof. intros ->. apply Permutation_app_swap_app. Qed.

Lemma perm_last {A} (a : list A) : Permutation a (a ++ []).
Proof. now rewrite app_nil_r. Qed.

Lemma perm_step {A} (a r R t' : list A) :
  Permutation R (a ++ t') -> Permutation r t' -> Permutation (a ++ r) R.
Proof. intros -> ->. reflexivity. Qed.

(** goal: [Permutation R (a ++ ?t)] with R a right-nested append containing the block [a] *)
Ltac perm_find a :=
  lazymatch goal with
  | |- Permutation (a ++ _) _ => apply Permutation_refl
  | |- Permutation a _ => apply perm_last
  | |- Permutation (_ ++ _) _ => apply perm_front; perm_find a
  end.

Ltac perm_ac_go :=
  rewrite ?app_nil_r;
  lazymatch goal with
  | |- Permutation (?a ++ ?r) ?R => eapply perm_step; [perm_find a | perm_ac_go]
  | |- Permutation ?a ?R => reflexivity
  end.

Ltac perm_ac := rewrite <- ?app_assoc; perm_ac_go.

Example perm_ac_demo {A} (a b c d : list A) : Permutation (a ++ (b ++ c) ++ d) ((d ++ b) ++ c ++ a).
Proof. perm_ac. Qed.
