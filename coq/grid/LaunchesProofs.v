(** Proofs about sequences of unified multi-GPU launches (VGrid.Launches),
    on top of the split arithmetic proved for property C18. *)
From Coq Require Import ZArith List Bool Lia Permutation.
From VLib Require Import ListX.
From VDrv Require Import Distribute DistributeProofs.
From VGrid Require Import Grid GridProofs Launches.
Import ListNotations.
Open Scope Z_scope.

Lemma NoDup_flat_map_disj {A B} (f : A -> list B) (l : list A) :
  NoDup l -> (forall a, In a l -> NoDup (f a)) ->
  (forall a b x, In a l -> In b l -> In x (f a) -> In x (f b) -> a = b) -> NoDup (flat_map f l).
Proof.
  induction l as [|a l IH]; simpl; intros Hn Hf Hd; [constructor|].
  inversion Hn; subst. apply NoDup_app_intro; auto.
  - apply IH; auto. intros; eapply Hd; eauto.
  - intros x Hx Hin. apply in_flat_map in Hin. destruct Hin as [b [Hb Hxb]].
    assert (a = b) by (eapply Hd; eauto). subst. contradiction.
Qed.

Lemma flat_map_map_l {A B C} (h : A -> B) (f : B -> list C) (l : list A) :
  flat_map f (map h l) = flat_map (fun a => f (h a)) l.
Proof. induction l; simpl; congruence. Qed.

Lemma sum_counts_lengths (rs : list (nat * Z * list wg)) :
  Forall (fun r => snd (fst r) = Z.of_nat (length (snd r))) rs ->
  sum_counts rs = Z.of_nat (length (all_of rs)).
Proof.
  induction 1 as [|r rs Hr _ IH]; simpl; [reflexivity|].
  unfold all_of in *. simpl. rewrite app_length, Hr, IH. lia.
Qed.

Lemma split_n_eq g : good_geom g -> gx g < 4294967296 -> gy g < 4294967296 -> gz g < 4294967296 ->
  Split.nx (sgeom g) = nx g /\ Split.ny (sgeom g) = ny g /\ Split.nz (sgeom g) = nz g.
Proof.
  intros (Hgx & Hgy & Hgz & Hsx & Hsy & Hsz) Bx By Bz.
  unfold Split.nx, Split.ny, Split.nz, nx, ny, nz, nwg, sgeom; simpl.
  change Split.W32 with 4294967296 in *.
  destruct (SplitP.num_wg_ok (gx g) (sx g)) as [-> _]; [unfold Split.W32; lia|lia|].
  destruct (SplitP.num_wg_ok (gy g) (sy g)) as [-> _]; [unfold Split.W32; lia|lia|].
  destruct (SplitP.num_wg_ok (gz g) (sz g)) as [-> _]; [unfold Split.W32; lia|lia|].
  auto.
Qed.

(** one launch: its requests partition its own grid *)
Lemma run_launch_partition l : launch_ok l ->
  exists rs, run_launch l = Some rs /\
    Forall (fun r => snd (fst r) = Z.of_nat (length (snd r))) rs /\
    sum_counts rs = nx (fst l) * ny (fst l) * nz (fst l) /\
    Permutation (all_of rs) (all_wgs (fst l)).
Proof.
  destruct l as [g cus]. intros (Hg & Bx & By & Bz & Btot & Hcus & Hsum). simpl fst.
  destruct (split_n_eq g Hg Bx By Bz) as (Enx & Eny & Enz).
  pose proof Hg as (Hgx & Hgy & Hgz & Hsx & Hsy & Hsz).
  destruct (SplitP.gpu_split_partition_proof (sgeom g) cus) as (d & Hd & Hlen & H0 & Hstep & Hlast & Hpart);
    try (unfold sgeom, Split.W32; simpl; lia); auto.
  { rewrite Enx, Eny, Enz. exact Btot. }
  unfold run_launch. rewrite Hd.
  set (idxs := launched_gpus d (length cus)).
  set (F := gpu_filter g d).
  eexists. split; [reflexivity|].
  assert (Hid : forall i, id_only (F i)) by (intros i w; reflexivity).
  assert (Hprod : forall i, all_produced g (Some (F i)) = filter (F i) (all_wgs g)).
  { intros i. rewrite all_produced_spec by auto. reflexivity. }
  assert (Hfa : Forall (fun r : nat * Z * list wg => snd (fst r) = Z.of_nat (length (snd r)))
                  (map (fun i => (i, count_wg g (Some (F i)), all_produced g (Some (F i)))) idxs)).
  { apply Forall_forall. intros r Hr. apply in_map_iff in Hr. destruct Hr as [i [<- _]]. cbn [fst snd].
    apply count_wg_spec; auto. intros h E. inversion E; subst. apply Hid. }
  assert (Hperm : Permutation (all_of (map (fun i => (i, count_wg g (Some (F i)), all_produced g (Some (F i)))) idxs))
                              (all_wgs g)).
  { unfold all_of. rewrite flat_map_map_l. simpl.
    apply NoDup_Permutation.
    - apply NoDup_flat_map_disj.
      + unfold idxs, launched_gpus. apply NoDup_filter, seq_NoDup.
      + intros i _. rewrite Hprod. apply NoDup_filter, NoDup_all_wgs.
      + intros i j w Hi Hj Hwi Hwj. rewrite Hprod in Hwi, Hwj.
        apply filter_In in Hwi. apply filter_In in Hwj. destruct Hwi as [Hw Fi]. destruct Hwj as [_ Fj].
        apply in_all_wgs in Hw. destruct Hw as (a & b & c & Ha & Hb & Hc & ->).
        unfold idxs, launched_gpus in Hi, Hj. apply filter_In in Hi. apply filter_In in Hj.
        destruct Hi as [Hi _]. destruct Hj as [Hj _]. apply in_seq in Hi. apply in_seq in Hj.
        destruct (Hpart a b c) as (_ & k & _ & _ & _ & Huniq); try (rewrite ?Enx, ?Eny, ?Enz; lia).
        unfold F, gpu_filter in Fi, Fj. simpl in Fi, Fj.
        rewrite (Huniq i), (Huniq j); auto; lia.
    - apply NoDup_all_wgs.
    - intros w. rewrite in_flat_map. split.
      + intros [i [_ Hw]]. rewrite Hprod in Hw. apply filter_In in Hw. tauto.
      + intros Hw. pose proof Hw as Hw0. apply in_all_wgs in Hw. destruct Hw as (a & b & c & Ha & Hb & Hc & ->).
        destruct (Hpart a b c) as (_ & k & Hk & Hfk & Hlk & _); try (rewrite ?Enx, ?Eny, ?Enz; lia).
        exists k. split.
        * unfold idxs, launched_gpus. apply filter_In. split; [apply in_seq; lia|exact Hlk].
        * rewrite Hprod. apply filter_In. split; auto. }
  split; [exact Hfa|]. split; [|exact Hperm].
  rewrite sum_counts_lengths by exact Hfa. rewrite (Permutation_length Hperm), length_all_wgs by auto.
  pose proof (good_n g Hg). rewrite Z2Nat.id; [reflexivity|].
  apply Z.mul_nonneg_nonneg; [apply Z.mul_nonneg_nonneg|]; lia.
Qed.

(** any list of launches: the result of launch i is [run_launch] of launch i
    alone, and its requests partition its own grid *)
Lemma run_launches_partition ls i l : nth_error ls i = Some l -> launch_ok l ->
  exists rs, nth_error (run_launches ls) i = Some (run_launch l) /\ run_launch l = Some rs /\
    Forall (fun r => snd (fst r) = Z.of_nat (length (snd r))) rs /\
    sum_counts rs = nx (fst l) * ny (fst l) * nz (fst l) /\
    Permutation (all_of rs) (all_wgs (fst l)).
Proof.
  intros Hn Hok. destruct (run_launch_partition l Hok) as (rs & E & A & B & C).
  exists rs. split; [unfold run_launches; apply map_nth_error; exact Hn|]. auto.
Qed.
