(** Sequences of unified multi-GPU kernel launches (definitions only).

    amd/driver/driver.go processUnifiedMultiGPULaunchKernelCommand builds, for
    every GPU of the unified device whose range is not empty, a
    LaunchKernelReq whose WGFilter closure accepts the work-groups with
    wgDist[i] <= flattened id < wgDist[i+1]; wgDist comes from
    distributeWGToGPUs.  The arithmetic is VDrv.Distribute.Split (property
    C18); here it is connected to the grid builder of VGrid.Grid: what every
    GPU announces (countWG) and produces (NextWG) for each launch of a
    sequence of launches.  In the model the filters of a launch are a function
    of that launch's geometry and of the CU counts only. *)
From Coq Require Import ZArith List Bool.
From VDrv Require Import Distribute.
From VGrid Require Import Grid.
Import ListNotations.
Open Scope Z_scope.

Definition sgeom (g : geom) : Split.geom := Split.mkGeom (gx g) (gy g) (gz g) (sx g) (sy g) (sz g).

(** the closure of GPU index [i] (it reads IDX, IDY, IDZ and its own packet) *)
Definition gpu_filter (g : geom) (d : list Z) (i : nat) : wg -> bool :=
  fun w => Split.wg_filter (sgeom g) d i (idx w) (idy w) (idz w).

(** GPU indices that get a request *)
Definition launched_gpus (d : list Z) (ngpu : nat) : list nat := filter (Split.launched d) (seq 0 ngpu).

(** a launch: geometry and the CU counts of the GPUs of the unified device *)
Definition launch := (geom * list Z)%type.

(** per request of the launch: GPU index, NumWG, the work-groups NextWG hands
    out until nil.  [None] = the driver panics. *)
Definition run_launch (l : launch) : option (list (nat * Z * list wg)) :=
  let '(g, cus) := l in
  match Split.wg_dist (sgeom g) cus with
  | None => None
  | Some d => Some (map (fun i => (i, count_wg g (Some (gpu_filter g d i)), all_produced g (Some (gpu_filter g d i))))
                        (launched_gpus d (length cus)))
  end.

(** any number of launches in flight, evaluated in any order *)
Definition run_launches (ls : list launch) : list (option (list (nat * Z * list wg))) := map run_launch ls.

Definition launch_ok (l : launch) : Prop :=
  let '(g, cus) := l in
  good_geom g /\ gx g < 4294967296 /\ gy g < 4294967296 /\ gz g < 4294967296 /\
  nx g * ny g * nz g < 4294967296 /\ Forall (fun c => 0 <= c) cus /\ 1 <= Split.sumZ cus.

Definition sum_counts (rs : list (nat * Z * list wg)) : Z := fold_right (fun r a => snd (fst r) + a) 0 rs.
Definition all_of (rs : list (nat * Z * list wg)) : list wg := flat_map (fun r => snd r) rs.

(** * Correspondence checker *)

Definition oreq := (nat * Z * list t3)%type.
Record lcase := mkLCase { l_cus : list Z; l_launches : list (geom * list oreq); l_crash : bool }.

Definition oreq_eqb (a b : oreq) : bool :=
  let '(ai, an, al) := a in let '(bi, bn, bl) := b in
  Nat.eqb ai bi && (an =? bn) && list_eqb t3_eqb al bl.

Definition model_reqs (g : geom) (cus : list Z) : option (list oreq) :=
  option_map (map (fun r : nat * Z * list wg =>
                     (fst (fst r), snd (fst r), map (fun w => (idx w, idy w, idz w)) (snd r))))
             (run_launch (g, cus)).

Fixpoint check_launch_list (cus : list Z) (ls : list (geom * list oreq)) (k : Z) : Z :=
  match ls with
  | [] => 0
  | (g, obs) :: r =>
      match model_reqs g cus with
      | None => 2000 + k
      | Some m => if list_eqb oreq_eqb obs m then check_launch_list cus r (k + 1) else 1000 + k
      end
  end.

Definition check_lcase (c : lcase) : Z :=
  if l_crash c then 9 else check_launch_list (l_cus c) (l_launches c) 0.

Fixpoint lmismatches_from (k : Z) (cs : list lcase) : list (Z * Z) :=
  match cs with
  | [] => []
  | c :: r => let d := check_lcase c in
              (if d =? 0 then [] else [(k, d)]) ++ lmismatches_from (k + 1) r
  end.

Definition lmismatches (cs : list lcase) : list (Z * Z) := lmismatches_from 0 cs.
