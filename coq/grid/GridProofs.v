(** Proofs about the grid-partition model VGrid.Grid. *)
From Coq Require Import ZArith List Bool Lia Permutation.
From VLib Require Import ListX.
From VGrid Require Import Grid.
Import ListNotations.
Open Scope Z_scope.

(** * Generic list facts *)

Lemma NoDup_map_inj_in {A B} (f : A -> B) (l : list A) :
  (forall x y, In x l -> In y l -> f x = f y -> x = y) -> NoDup l -> NoDup (map f l).
Proof.
  induction l as [|a l IH]; simpl; intros Hinj Hn; [constructor|].
  inversion Hn; subst. constructor.
  - rewrite in_map_iff. intros [y [Hy Hin]]. apply Hinj in Hy; auto. subst; auto.
  - apply IH; auto.
Qed.

Lemma NoDup_flat_map_key {A B} (key : B -> A) (f : A -> list B) (l : list A) :
  NoDup l -> (forall a, In a l -> NoDup (f a)) ->
  (forall a x, In a l -> In x (f a) -> key x = a) -> NoDup (flat_map f l).
Proof.
  induction l as [|a l IH]; simpl; intros Hn Hf Hk; [constructor|].
  inversion Hn; subst. apply NoDup_app_intro; auto.
  intros x Hx Hin. apply in_flat_map in Hin. destruct Hin as [b [Hb Hxb]].
  assert (key x = a) by (apply Hk; auto).
  assert (key x = b) by (apply Hk; auto). congruence.
Qed.

Lemma NoDup_flat_map_piece {A B} (f : A -> list B) (l : list A) a :
  NoDup (flat_map f l) -> In a l -> NoDup (f a).
Proof.
  induction l as [|b l IH]; simpl; [tauto|]. intros Hn [->|Hin].
  - eapply NoDup_app_l; eauto.
  - apply IH; auto. eapply NoDup_app_r; eauto.
Qed.

Lemma Permutation_flat_map_ext {A B} (f h : A -> list B) (l : list A) :
  (forall a, In a l -> Permutation (f a) (h a)) -> Permutation (flat_map f l) (flat_map h l).
Proof.
  induction l as [|a l IH]; simpl; intros H; [constructor|].
  apply Permutation_app; auto.
Qed.

Lemma Permutation_filter {A} (f : A -> bool) (l l' : list A) :
  Permutation l l' -> Permutation (filter f l) (filter f l').
Proof.
  induction 1; simpl; auto.
  - destruct (f x); auto.
  - destruct (f x), (f y); auto. constructor.
  - etransitivity; eauto.
Qed.

Lemma flat_map_map_comm {A B C} (h : B -> C) (f : A -> list B) (l : list A) :
  flat_map (fun a => map h (f a)) l = map h (flat_map f l).
Proof. induction l; simpl; auto. rewrite map_app. congruence. Qed.

Lemma filter_map_comm {A B} (h : A -> B) (p : B -> bool) (l : list A) :
  filter p (map h l) = map h (filter (fun a => p (h a)) l).
Proof. induction l; simpl; auto. destruct (p (h a)); simpl; congruence. Qed.

Lemma filter_true {A} (l : list A) : filter (fun _ => true) l = l.
Proof. induction l; simpl; congruence. Qed.

Lemma existsb_In {A} (e : A -> A -> bool) (x : A) (l : list A) :
  (forall a b, e a b = true -> a = b) -> existsb (e x) l = true -> In x l.
Proof.
  intros He H. apply existsb_exists in H. destruct H as [y [Hy Hxy]]. apply He in Hxy. subst; auto.
Qed.

(** * Ranges and products *)

Lemma zrange_nil a b : b <= a -> zrange a b = [].
Proof. intros. unfold zrange. replace (Z.to_nat (b - a)) with 0%nat by lia. reflexivity. Qed.

Lemma zrange_cons a b : a < b -> zrange a b = a :: zrange (a + 1) b.
Proof.
  intros. unfold zrange.
  replace (Z.to_nat (b - a)) with (S (Z.to_nat (b - (a + 1)))) by lia.
  simpl. f_equal; [lia|]. rewrite <- seq_shift, map_map. apply map_ext. intros; lia.
Qed.

Lemma zrange_single a : zrange a (a + 1) = [a].
Proof. rewrite zrange_cons by lia. rewrite zrange_nil by lia. reflexivity. Qed.

Lemma in_zrange a b x : In x (zrange a b) <-> a <= x < b.
Proof.
  unfold zrange. rewrite in_map_iff. split.
  - intros [i [Hi Hin]]. apply in_seq in Hin. lia.
  - intros H. exists (Z.to_nat (x - a)). split; [lia|]. apply in_seq. lia.
Qed.

Lemma NoDup_zrange a b : NoDup (zrange a b).
Proof. unfold zrange. apply NoDup_map_inj_in; [intros; lia|apply seq_NoDup]. Qed.

Lemma length_zrange a b : length (zrange a b) = Z.to_nat (b - a).
Proof. unfold zrange. rewrite map_length, seq_length. reflexivity. Qed.

Lemma in_prod3 {A B C} (la : list A) (lb : list B) (lc : list C) a b c :
  In (a, b, c) (prod3 la lb lc) <-> In a la /\ In b lb /\ In c lc.
Proof.
  unfold prod3. rewrite in_flat_map. split.
  - intros [c' [Hc H]]. apply in_flat_map in H. destruct H as [b' [Hb H]].
    apply in_map_iff in H. destruct H as [a' [E Ha]]. inversion E; subst. auto.
  - intros [Ha [Hb Hc]]. exists c. split; auto. apply in_flat_map. exists b. split; auto.
    apply in_map_iff. exists a. auto.
Qed.

Lemma NoDup_prod3 {A B C} (la : list A) (lb : list B) (lc : list C) :
  NoDup la -> NoDup lb -> NoDup lc -> NoDup (prod3 la lb lc).
Proof.
  intros Ha Hb Hc. unfold prod3.
  apply NoDup_flat_map_key with (key := fun p : A * B * C => snd p); auto.
  - intros c _. apply NoDup_flat_map_key with (key := fun p : A * B * C => snd (fst p)); auto.
    + intros b _. apply NoDup_map_inj_in; auto. intros x y _ _ E. inversion E; auto.
    + intros b x _ Hx. apply in_map_iff in Hx. destruct Hx as [a [<- _]]. reflexivity.
  - intros c x _ Hx. apply in_flat_map in Hx. destruct Hx as [b [_ Hx]].
    apply in_map_iff in Hx. destruct Hx as [a [<- _]]. reflexivity.
Qed.

Lemma length_prod3 {A B C} (la : list A) (lb : list B) (lc : list C) :
  length (prod3 la lb lc) = (length la * length lb * length lc)%nat.
Proof.
  unfold prod3. induction lc as [|c lc IH]; simpl; [lia|].
  rewrite app_length, IH.
  assert (E : length (flat_map (fun b : B => map (fun a : A => (a, b, c)) la) lb) = (length la * length lb)%nat).
  { clear. induction lb as [|b lb IH]; simpl; [lia|]. rewrite app_length, map_length, IH. lia. }
  rewrite E. lia.
Qed.

(** * The few nonlinear facts *)

Lemma left_iff g s i : 1 <= s -> (g - i * s <= 0 <-> nwg g s <= i).
Proof.
  intros Hs. unfold nwg. split; intros H.
  - enough ((g - 1) / s < i) by lia. apply Z.div_lt_upper_bound; lia.
  - enough (~ i * s <= g - 1) by lia. intros Hc.
    enough (i <= (g - 1) / s) by lia. apply Z.div_le_lower_bound; lia.
Qed.

Lemma nwg_pos g s : 1 <= g -> 1 <= s -> 1 <= nwg g s.
Proof. intros. unfold nwg. enough (0 <= (g - 1) / s) by lia. apply Z.div_pos; lia. Qed.

Lemma axis_in g s X : 1 <= s -> 0 <= X < g ->
  0 <= X / s < nwg g s /\ 0 <= X mod s < Z.min (g - X / s * s) s /\ X / s * s + X mod s = X.
Proof.
  intros Hs HX.
  pose proof (Z.div_mod X s ltac:(lia)) as E.
  pose proof (Z.mod_pos_bound X s ltac:(lia)) as Hm.
  assert (0 <= X / s) by (apply Z.div_pos; lia).
  assert (X / s <= (g - 1) / s) by (apply Z.div_le_mono; lia).
  unfold nwg. replace (X / s * s) with (s * (X / s)) by ring. lia.
Qed.

Lemma axis_out g s i x : 1 <= s -> 0 <= i -> 0 <= x < Z.min (g - i * s) s -> 0 <= i * s + x < g.
Proof. intros. assert (0 <= i * s) by (apply Z.mul_nonneg_nonneg; lia). lia. Qed.

Lemma axis_div s i x : 1 <= s -> 0 <= x < s -> (i * s + x) / s = i.
Proof. intros. rewrite Z.div_add_l by lia. rewrite Z.div_small by lia. lia. Qed.

(** decode is a left inverse of the flattened id on items of a work-group *)
Lemma decode_flat g x y z :
  1 <= sx g -> 1 <= sy g -> 0 <= x < sx g -> 0 <= y < sy g -> 0 <= z ->
  decode g (flat_id g (x, y, z)) = (x, y, z).
Proof.
  intros Hsx Hsy Hx Hy Hz. unfold decode, flat_id.
  set (P := sx g * sy g). set (r := y * sx g + x).
  assert (Hr : 0 <= r < P).
  { subst r P. split; [assert (0 <= y * sx g) by (apply Z.mul_nonneg_nonneg; lia); lia|].
    assert (y * sx g <= (sy g - 1) * sx g) by (apply Z.mul_le_mono_nonneg_r; lia).
    replace ((sy g - 1) * sx g) with (sx g * sy g - sx g) in * by ring. lia. }
  replace (z * sx g * sy g + y * sx g + x) with (z * P + r) by (subst P r; ring).
  assert (E1 : (z * P + r) / P = z) by (rewrite Z.div_add_l by lia; rewrite Z.div_small by lia; lia).
  assert (E2 : (z * P + r) mod P = r).
  { rewrite Z.add_comm, Z_mod_plus_full. apply Z.mod_small; lia. }
  rewrite E1, E2. subst r.
  rewrite Z.div_add_l by lia. rewrite (Z.div_small x) by lia.
  rewrite Z.add_comm, Z_mod_plus_full, Z.mod_small by lia.
  rewrite Z.add_0_r. reflexivity.
Qed.

(** * The cursor enumerates the work-groups in order *)

Definition row (g : geom) (y z x : Z) : list wg := map (fun i => mkwg g i y z) (zrange x (nx g)).
Definition plane_rest (g : geom) (z y : Z) : list wg := flat_map (fun j => row g j z 0) (zrange y (ny g)).
Definition planes (g : geom) (z : Z) : list wg := flat_map (fun k => plane_rest g k 0) (zrange z (nz g)).

(** what is still to be produced from a cursor position *)
Definition rest (g : geom) (c : cursor) : list wg :=
  let '(x, y, z) := c in
  if z <? nz g then row g y z x ++ plane_rest g z (y + 1) ++ planes g (z + 1) else [].

Definition valid (g : geom) (c : cursor) : Prop :=
  let '(x, y, z) := c in
  (0 <= x < nx g /\ 0 <= y < ny g /\ 0 <= z < nz g) \/ (x = 0 /\ y = 0 /\ z = nz g).

Lemma row_cons g y z x : x < nx g -> row g y z x = mkwg g x y z :: row g y z (x + 1).
Proof. intros. unfold row. rewrite zrange_cons by lia. reflexivity. Qed.

Lemma row_nil g y z x : nx g <= x -> row g y z x = [].
Proof. intros. unfold row. rewrite zrange_nil by lia. reflexivity. Qed.

Lemma plane_rest_cons g z y : y < ny g -> plane_rest g z y = row g y z 0 ++ plane_rest g z (y + 1).
Proof. intros. unfold plane_rest. rewrite zrange_cons by lia. reflexivity. Qed.

Lemma plane_rest_nil g z y : ny g <= y -> plane_rest g z y = [].
Proof. intros. unfold plane_rest. rewrite zrange_nil by lia. reflexivity. Qed.

Lemma planes_cons g z : z < nz g -> planes g z = plane_rest g z 0 ++ planes g (z + 1).
Proof. intros. unfold planes. rewrite zrange_cons by lia. reflexivity. Qed.

Lemma planes_nil g z : nz g <= z -> planes g z = [].
Proof. intros. unfold planes. rewrite zrange_nil by lia. reflexivity. Qed.

Lemma good_n g : good_geom g -> 1 <= nx g /\ 1 <= ny g /\ 1 <= nz g.
Proof. unfold good_geom, nx, ny, nz. intros. repeat split; apply nwg_pos; lia. Qed.

Lemma rest_step g c :
  good_geom g -> valid g c ->
  match next1 g c with
  | None => rest g c = []
  | Some (w, c') => rest g c = w :: rest g c' /\ valid g c'
  end.
Proof.
  intros Hg Hv. pose proof (good_n g Hg) as [Hnx [Hny Hnz]].
  destruct Hg as (Hgx & Hgy & Hgz & Hsx & Hsy & Hsz).
  destruct c as [[x y] z]. unfold valid in Hv. unfold next1.
  pose proof (left_iff (gx g) (sx g) x Hsx) as Lx. fold (nx g) in Lx.
  pose proof (left_iff (gy g) (sy g) y Hsy) as Ly. fold (ny g) in Ly.
  pose proof (left_iff (gz g) (sz g) z Hsz) as Lz. fold (nz g) in Lz.
  pose proof (left_iff (gx g) (sx g) (x + 1) Hsx) as Lx1. fold (nx g) in Lx1.
  pose proof (left_iff (gy g) (sy g) (y + 1) Hsy) as Ly1. fold (ny g) in Ly1.
  replace ((x + 1) * sx g) with (x * sx g + sx g) in Lx1 by ring.
  replace ((y + 1) * sy g) with (y * sy g + sy g) in Ly1 by ring.
  set (xl := gx g - x * sx g) in *. set (yl := gy g - y * sy g) in *. set (zl := gz g - z * sz g) in *.
  destruct Hv as [(Hx & Hy & Hz)|(-> & -> & ->)].
  - assert (E : (xl <=? 0) || (yl <=? 0) || (zl <=? 0) = false).
    { rewrite !orb_false_iff, !Z.leb_gt. lia. }
    rewrite E. fold (mkwg g x y z) in *.
    change (mkWG x y z (Z.min xl (sx g)) (Z.min yl (sy g)) (Z.min zl (sz g))) with (mkwg g x y z).
    destruct (Z.leb_spec (xl - Z.min xl (sx g)) 0) as [Hxe|Hxe].
    + assert (x + 1 = nx g) by lia.
      destruct (Z.leb_spec (yl - Z.min yl (sy g)) 0) as [Hye|Hye].
      * assert (y + 1 = ny g) by lia.
        unfold rest. replace (z <? nz g) with true by (symmetry; apply Z.ltb_lt; lia).
        rewrite row_cons, row_nil, plane_rest_nil by lia. simpl.
        destruct (Z.ltb_spec (z + 1) (nz g)).
        -- split; [|left; lia]. f_equal. rewrite planes_cons, plane_rest_cons by lia.
           rewrite <- app_assoc. replace (0 + 1) with 1 by lia. replace (z + 1 + 1) with (z + 1 + 1) by lia. reflexivity.
        -- split; [|right; lia]. rewrite planes_nil by lia. reflexivity.
      * assert (y + 1 < ny g) by lia.
        unfold rest. replace (z <? nz g) with true by (symmetry; apply Z.ltb_lt; lia).
        split; [|left; lia].
        rewrite row_cons, row_nil by lia. simpl. f_equal.
        rewrite (plane_rest_cons g z (y + 1)) by lia. rewrite <- app_assoc. reflexivity.
    + assert (x + 1 < nx g) by lia.
      unfold rest. replace (z <? nz g) with true by (symmetry; apply Z.ltb_lt; lia).
      split; [|left; lia]. rewrite row_cons by lia. reflexivity.
  - assert (E : (xl <=? 0) || (yl <=? 0) || (zl <=? 0) = true).
    { rewrite !orb_true_iff, !Z.leb_le. lia. }
    rewrite E. unfold rest. rewrite Z.ltb_irrefl. reflexivity.
Qed.

Definition acc (f : option (wg -> bool)) : wg -> bool :=
  match f with None => fun _ => true | Some h => h end.

Lemma next_wg_acc fuel g f c : next_wg fuel g f c = next_wg fuel g (Some (acc f)) c.
Proof.
  destruct f as [h|]; [reflexivity|]. revert c. induction fuel as [|n IH]; intros c; simpl; auto.
Qed.

Lemma next_wg_spec g h : good_geom g ->
  forall l fuel c, valid g c -> rest g c = l -> (length l < fuel)%nat ->
  match next_wg fuel g (Some h) c with
  | Nil c' => filter h l = [] /\ rest g c' = [] /\ valid g c'
  | Got w c' => exists l1, l = l1 ++ w :: rest g c' /\ filter h l1 = [] /\ h w = true /\ valid g c'
  | OutOfFuel => False
  end.
Proof.
  intros Hg. induction l as [|w0 l IH]; intros fuel c Hv Hr Hf.
  - destruct fuel as [|n]; [simpl in Hf; lia|]. simpl.
    pose proof (rest_step g c Hg Hv) as Hs. destruct (next1 g c) as [[w c']|].
    + destruct Hs as [Hs _]. congruence.
    + auto.
  - destruct fuel as [|n]; [simpl in Hf; lia|]. simpl.
    pose proof (rest_step g c Hg Hv) as Hs. destruct (next1 g c) as [[w c']|]; [|congruence].
    destruct Hs as [Hs Hv']. rewrite Hr in Hs. inversion Hs; subst w0 l.
    destruct (h w) eqn:Hw.
    + exists []. simpl. auto.
    + specialize (IH n c' Hv' eq_refl ltac:(simpl in Hf; lia)).
      destruct (next_wg n g (Some h) c') as [c''|w2 c''|]; auto.
      destruct IH as [l1 (E & F & A & V)]. exists (w :: l1). simpl. rewrite Hw.
      split; [f_equal; exact E|auto].
Qed.

Lemma produce_spec g h : good_geom g ->
  forall n fuel l c, valid g c -> rest g c = l -> (length l < fuel)%nat ->
  (length (filter h l) < n)%nat -> produce n fuel g (Some h) c = filter h l.
Proof.
  intros Hg. induction n as [|n IH]; intros fuel l c Hv Hr Hf Hn; [lia|].
  simpl. pose proof (next_wg_spec g h Hg l fuel c Hv Hr Hf) as Hs.
  destruct (next_wg fuel g (Some h) c) as [c'|w c'|]; [| |tauto].
  - destruct Hs as [E _]. rewrite E. reflexivity.
  - destruct Hs as [l1 (E & F & A & V)]. subst l. rewrite E in *.
    rewrite filter_app in *. rewrite F in *. simpl in *. rewrite A in *. f_equal.
    apply IH; auto.
    + rewrite app_length in Hf. simpl in Hf. lia.
    + simpl in Hn. lia.
Qed.

Lemma flat_map_map_mk {A B C D} (mk : A * B * C -> D) (la : list A) (lb : list B) (lc : list C) :
  flat_map (fun c => flat_map (fun b => map (fun a => mk (a, b, c)) la) lb) lc = map mk (prod3 la lb lc).
Proof.
  unfold prod3. rewrite <- flat_map_map_comm. apply flat_map_ext. intros c.
  rewrite <- flat_map_map_comm. apply flat_map_ext. intros b. rewrite map_map. reflexivity.
Qed.

Lemma rest_origin g : good_geom g -> rest g (0, 0, 0) = all_wgs g.
Proof.
  intros Hg. pose proof (good_n g Hg) as [Hnx [Hny Hnz]].
  unfold rest. replace (0 <? nz g) with true by (symmetry; apply Z.ltb_lt; lia).
  rewrite app_assoc. rewrite <- plane_rest_cons, <- planes_cons by lia.
  unfold planes, plane_rest, row, all_wgs, all_ids.
  rewrite <- (flat_map_map_mk (fun '(i, j, k) => mkwg g i j k)). reflexivity.
Qed.

Lemma valid_origin g : good_geom g -> valid g (0, 0, 0).
Proof. intros Hg. pose proof (good_n g Hg). left. lia. Qed.

Lemma length_all_wgs g : good_geom g -> length (all_wgs g) = Z.to_nat (nx g * ny g * nz g).
Proof.
  intros Hg. pose proof (good_n g Hg) as [Hnx [Hny Hnz]].
  unfold all_wgs, all_ids. rewrite map_length, length_prod3, !length_zrange.
  rewrite !Z.sub_0_r. rewrite !Z2Nat.inj_mul by lia. reflexivity.
Qed.

Lemma all_produced_spec g f : good_geom g -> all_produced g f = filter (acc f) (all_wgs g).
Proof.
  intros Hg. unfold all_produced.
  assert (E : forall n fuel c, produce n fuel g f c = produce n fuel g (Some (acc f)) c).
  { induction n; intros; simpl; auto. rewrite next_wg_acc.
    destruct (next_wg fuel g (Some (acc f)) c); auto. f_equal; auto. }
  rewrite E. apply produce_spec; auto using valid_origin, rest_origin.
  - rewrite length_all_wgs by auto. unfold wg_fuel. lia.
  - pose proof (subseq_length _ _ (subseq_filter (acc f) (all_wgs g))). rewrite length_all_wgs in H by auto.
    unfold wg_fuel. lia.
Qed.

(** the fuel of the filter loop always suffices, and the cursor stays at the
    end once nil has been returned *)
Lemma next_wg_fuel_enough g f c l :
  good_geom g -> valid g c -> rest g c = l -> (length l < wg_fuel g)%nat ->
  next_wg (wg_fuel g) g f c <> OutOfFuel.
Proof.
  intros Hg Hv Hr Hl. rewrite next_wg_acc.
  pose proof (next_wg_spec g (acc f) Hg l _ c Hv Hr Hl) as H.
  destruct (next_wg (wg_fuel g) g (Some (acc f)) c); [discriminate|discriminate|tauto].
Qed.

Lemma nil_is_stable g f c fuel : good_geom g -> valid g c -> rest g c = [] ->
  next_wg (S fuel) g f c = Nil c.
Proof.
  intros Hg Hv Hr. simpl. pose proof (rest_step g c Hg Hv) as Hs.
  destruct (next1 g c) as [[w c']|]; auto. destruct Hs; congruence.
Qed.

(** * countWG *)

Definition id_only (h : wg -> bool) : Prop :=
  forall w, h w = h (mkWG (idx w) (idy w) (idz w) 0 0 0).

Definition sw (t : Z * Z * Z) : Z * Z * Z := let '(k, j, i) := t in (i, j, k).

Lemma NoDup_all_ids g : NoDup (all_ids g).
Proof. apply NoDup_prod3; apply NoDup_zrange. Qed.

Lemma count_filter_length g h : id_only h ->
  length (filter h (count_list g)) = length (filter h (all_wgs g)).
Proof.
  intros Hid.
  set (kji := prod3 (zrange 0 (nz g)) (zrange 0 (ny g)) (zrange 0 (nx g))).
  assert (E1 : count_list g = map (fun t => let '(i, j, k) := sw t in mkWG i j k 0 0 0) kji).
  { unfold count_list, kji. rewrite <- flat_map_map_mk. reflexivity. }
  set (H := fun t : Z * Z * Z => h (let '(i, j, k) := t in mkwg g i j k)).
  assert (E2 : length (filter h (count_list g)) = length (filter H (map sw kji))).
  { rewrite E1, !filter_map_comm, !map_length. f_equal. apply filter_ext.
    intros [[k j] i]. unfold H, sw. rewrite (Hid (mkwg g i j k)). reflexivity. }
  rewrite E2. unfold all_wgs.
  rewrite (filter_map_comm (fun '(i, j, k) => mkwg g i j k) h (all_ids g)), map_length.
  change (fun a : Z * Z * Z => h (let '(i, j, k) := a in mkwg g i j k)) with H.
  apply Permutation_length, Permutation_filter, NoDup_Permutation.
  - apply NoDup_map_inj_in; [|apply NoDup_prod3; apply NoDup_zrange].
    intros [[a b] c] [[a' b'] c'] _ _ E. unfold sw in E. congruence.
  - apply NoDup_all_ids.
  - intros [[i j] k]. unfold all_ids. rewrite in_prod3, in_map_iff. split.
    + intros [[[k' j'] i'] [E Hin]]. unfold sw in E. inversion E; subst.
      unfold kji in Hin. apply in_prod3 in Hin. tauto.
    + intros (Hi & Hj & Hk). exists (k, j, i). split; [reflexivity|].
      unfold kji. apply in_prod3. tauto.
Qed.

Lemma count_wg_spec g f : good_geom g -> (forall h, f = Some h -> id_only h) ->
  count_wg g f = Z.of_nat (length (all_produced g f)).
Proof.
  intros Hg Hid. rewrite all_produced_spec by auto. destruct f as [h|]; simpl.
  - rewrite count_filter_length; auto.
  - rewrite filter_true, length_all_wgs by auto. pose proof (good_n g Hg).
    rewrite Z2Nat.id; [reflexivity|]. apply Z.mul_nonneg_nonneg; [apply Z.mul_nonneg_nonneg|]; lia.
Qed.

(** * Wavefront formation *)

Definition wf_ids (v : wf) : list Z := map (fun l => first v + l) (lanes v).
Definition lane_ok (v : wf) : Prop := Forall (fun l => 0 <= l < 64) (lanes v).

Lemma form_step_ids acc id :
  flat_map wf_ids (rev (form_step acc id)) = flat_map wf_ids (rev acc) ++ [id].
Proof.
  assert (E : id / 64 * 64 + id mod 64 = id) by (pose proof (Z.div_mod id 64 ltac:(lia)); lia).
  unfold form_step. destruct acc as [|w acc'].
  - simpl. unfold wf_ids. simpl. rewrite E. reflexivity.
  - destruct (Z.eqb_spec (first w) (id / 64 * 64)) as [Hf|Hf].
    + simpl. rewrite !flat_map_app. simpl. rewrite !app_nil_r, <- app_assoc. f_equal.
      unfold wf_ids. simpl. rewrite map_app. simpl. rewrite Hf, E. reflexivity.
    + change (rev (mkWf (id / 64 * 64) [id mod 64] :: w :: acc')) with (rev (w :: acc') ++ [mkWf (id / 64 * 64) [id mod 64]]).
      rewrite flat_map_app. f_equal. simpl. unfold wf_ids. simpl. rewrite E. reflexivity.
Qed.

Lemma form_step_ok acc id : Forall lane_ok acc -> Forall lane_ok (form_step acc id).
Proof.
  intros H. pose proof (Z.mod_pos_bound id 64 ltac:(lia)) as Hm.
  unfold form_step. destruct acc as [|w acc'].
  - constructor; auto. constructor; auto.
  - inversion H; subst. destruct (first w =? id / 64 * 64).
    + constructor; auto. unfold lane_ok in *. simpl. apply Forall_app. split; auto.
    + constructor; auto. constructor; auto.
Qed.

Lemma form_fold ids : forall acc,
  flat_map wf_ids (rev (fold_left form_step ids acc)) = flat_map wf_ids (rev acc) ++ ids /\
  (Forall lane_ok acc -> Forall lane_ok (fold_left form_step ids acc)).
Proof.
  induction ids as [|id ids IH]; intros acc; simpl.
  - rewrite app_nil_r. auto.
  - destruct (IH (form_step acc id)) as [E O]. split.
    + rewrite E, form_step_ids, <- app_assoc. reflexivity.
    + intros H. apply O, form_step_ok, H.
Qed.

Lemma form_ids_spec ids :
  flat_map wf_ids (form_ids ids) = ids /\ Forall lane_ok (form_ids ids).
Proof.
  unfold form_ids. destruct (form_fold ids []) as [E O]. split; [exact E|].
  apply Forall_rev, O. constructor.
Qed.

(** * Exec mask *)

Lemma testbit_fold ls : forall m l, 0 <= l -> Forall (fun a => 0 <= a) ls ->
  Z.testbit (fold_left (fun m l => Z.lor m (Z.shiftl 1 l)) ls m) l = Z.testbit m l || existsb (Z.eqb l) ls.
Proof.
  induction ls as [|a ls IH]; intros m l Hl Hls; simpl.
  - rewrite orb_false_r. reflexivity.
  - inversion Hls; subst. rewrite IH by auto. rewrite Z.lor_spec, Z.shiftl_1_l, Z.pow2_bits_eqb by auto.
    rewrite (Z.eqb_sym l a), orb_assoc. reflexivity.
Qed.

(** bridging lemma: bit l of the exec mask is set iff lane l holds a work-item *)
Lemma testbit_mask_of ls l : 0 <= l -> Forall (fun a => 0 <= a) ls ->
  (Z.testbit (mask_of ls) l = true <-> In l ls).
Proof.
  intros Hl Hls. unfold mask_of. rewrite testbit_fold by auto. rewrite Z.bits_0. simpl.
  rewrite existsb_exists. split.
  - intros [x [Hin E]]. apply Z.eqb_eq in E. subst; auto.
  - intros Hin. exists l. split; auto. apply Z.eqb_refl.
Qed.

Lemma enabled_perm ls : NoDup ls -> Forall (fun l => 0 <= l < 64) ls ->
  Permutation (enabled (mask_of ls)) ls.
Proof.
  intros Hn Hr. apply NoDup_Permutation; auto.
  - unfold enabled. apply NoDup_filter, NoDup_zrange.
  - intros l. unfold enabled. rewrite filter_In, in_zrange. split.
    + intros [Hl Ht]. apply testbit_mask_of in Ht; auto; [lia|].
      eapply Forall_impl; [|exact Hr]. simpl; intros; lia.
    + intros Hin. rewrite Forall_forall in Hr. pose proof (Hr l Hin). split; [lia|].
      apply testbit_mask_of; auto; [lia|]. apply Forall_forall. intros a Ha. apply Hr in Ha. lia.
Qed.

(** * Coverage *)

Definition fits (g : geom) (w : wg) : Prop := cx w <= sx g /\ cy w <= sy g /\ cz w <= sz g.

Lemma in_items w x y z : In (x, y, z) (items w) <-> 0 <= x < cx w /\ 0 <= y < cy w /\ 0 <= z < cz w.
Proof. unfold items. rewrite in_prod3, !in_zrange. tauto. Qed.

Lemma NoDup_items w : NoDup (items w).
Proof. apply NoDup_prod3; apply NoDup_zrange. Qed.

Lemma in_all_wgs g w : In w (all_wgs g) <->
  exists i j k, 0 <= i < nx g /\ 0 <= j < ny g /\ 0 <= k < nz g /\ w = mkwg g i j k.
Proof.
  unfold all_wgs, all_ids. rewrite in_map_iff. split.
  - intros [[[i j] k] [E Hin]]. apply in_prod3 in Hin. rewrite !in_zrange in Hin.
    exists i, j, k. intuition.
  - intros (i & j & k & Hi & Hj & Hk & E). exists (i, j, k). split; auto.
    apply in_prod3. rewrite !in_zrange. tauto.
Qed.

Lemma mkwg_fits g i j k : fits g (mkwg g i j k).
Proof. unfold fits, mkwg; simpl. lia. Qed.

Lemma NoDup_all_wgs g : NoDup (all_wgs g).
Proof.
  unfold all_wgs. apply NoDup_map_inj_in; [|apply NoDup_all_ids].
  intros [[i j] k] [[i' j'] k'] _ _ E. unfold mkwg in E. inversion E; subst. reflexivity.
Qed.

Lemma flat_id_inj g w : 1 <= sx g -> 1 <= sy g -> fits g w ->
  forall a b, In a (items w) -> In b (items w) -> flat_id g a = flat_id g b -> a = b.
Proof.
  intros Hsx Hsy (Fx & Fy & _) [[x y] z] [[x' y'] z'] Ha Hb E.
  apply in_items in Ha. apply in_items in Hb.
  rewrite <- (decode_flat g x y z), <- (decode_flat g x' y' z') by lia. rewrite E. reflexivity.
Qed.

(** lanes of one work-group: a permutation of its work-items *)
Lemma wg_lanes_perm g w : 1 <= sx g -> 1 <= sy g -> fits g w ->
  Permutation
    (flat_map (fun v => map (fun l => glob g w (decode g (first v + l))) (enabled (mask_of (lanes v)))) (form g w))
    (map (glob g w) (items w)).
Proof.
  intros Hsx Hsy Hfit. unfold form.
  set (ids := map (flat_id g) (items w)).
  destruct (form_ids_spec ids) as [E O].
  assert (Hn : NoDup ids).
  { apply NoDup_map_inj_in; [apply flat_id_inj; auto|apply NoDup_items]. }
  etransitivity.
  - apply Permutation_flat_map_ext with (h := fun v => map (fun i => glob g w (decode g i)) (wf_ids v)).
    intros v Hv. unfold wf_ids. rewrite map_map. apply Permutation_map, enabled_perm.
    + rewrite <- E in Hn. pose proof (NoDup_flat_map_piece _ _ v Hn Hv) as Hp.
      unfold wf_ids in Hp. eapply NoDup_map_inv; eauto.
    + rewrite Forall_forall in O. apply O; auto.
  - rewrite flat_map_map_comm, E. unfold ids. rewrite map_map.
    erewrite map_ext_in; [reflexivity|]. intros [[x y] z] Hin. apply in_items in Hin.
    destruct Hfit as (Fx & Fy & _). rewrite decode_flat by lia. reflexivity.
Qed.

Definition cov_items (g : geom) : list (Z * Z * Z) :=
  flat_map (fun w => map (glob g w) (items w)) (all_wgs g).

Lemma covered_perm g : good_geom g -> Permutation (covered g) (cov_items g).
Proof.
  intros Hg. unfold covered, covered_by, cov_items.
  rewrite all_produced_spec by auto. simpl. rewrite filter_true.
  apply Permutation_flat_map_ext. intros w Hw. apply in_all_wgs in Hw.
  destruct Hw as (i & j & k & _ & _ & _ & ->). destruct Hg as (_ & _ & _ & Hsx & Hsy & _).
  apply wg_lanes_perm; auto using mkwg_fits.
Qed.

Definition wg_of (g : geom) (p : Z * Z * Z) : wg :=
  let '(X, Y, Z) := p in mkwg g (X / sx g) (Y / sy g) (Z / sz g).

Lemma NoDup_cov_items g : good_geom g -> NoDup (cov_items g).
Proof.
  intros Hg. destruct Hg as (_ & _ & _ & Hsx & Hsy & Hsz). unfold cov_items.
  apply NoDup_flat_map_key with (key := wg_of g).
  - apply NoDup_all_wgs.
  - intros w _. apply NoDup_map_inj_in; [|apply NoDup_items].
    intros [[x y] z] [[x' y'] z'] _ _ E. unfold glob in E. inversion E. f_equal; [f_equal|]; lia.
  - intros w p Hw Hp. apply in_all_wgs in Hw. destruct Hw as (i & j & k & _ & _ & _ & ->).
    apply in_map_iff in Hp. destruct Hp as [[[x y] z] [<- Hin]]. apply in_items in Hin.
    simpl in Hin. unfold glob, wg_of. simpl.
    rewrite !axis_div by lia. reflexivity.
Qed.

Lemma in_cov_items g p : good_geom g -> (In p (cov_items g) <-> in_box g p).
Proof.
  intros Hg. destruct Hg as (_ & _ & _ & Hsx & Hsy & Hsz). unfold cov_items.
  rewrite in_flat_map. destruct p as [[X Y] Z]. split.
  - intros [w [Hw Hp]]. apply in_all_wgs in Hw. destruct Hw as (i & j & k & Hi & Hj & Hk & ->).
    apply in_map_iff in Hp. destruct Hp as [[[x y] z] [E Hin]]. apply in_items in Hin.
    simpl in Hin. unfold glob in E. simpl in E. inversion E; subst. unfold in_box.
    destruct Hin as (Hx & Hy & Hz).
    pose proof (axis_out (gx g) (sx g) i x). pose proof (axis_out (gy g) (sy g) j y).
    pose proof (axis_out (gz g) (sz g) k z). lia.
  - intros (HX & HY & HZ).
    destruct (axis_in (gx g) (sx g) X Hsx HX) as (Hi & Hx & Ex).
    destruct (axis_in (gy g) (sy g) Y Hsy HY) as (Hj & Hy & Ey).
    destruct (axis_in (gz g) (sz g) Z Hsz HZ) as (Hk & Hz & Ez).
    exists (mkwg g (X / sx g) (Y / sy g) (Z / sz g)). split.
    + apply in_all_wgs. exists (X / sx g), (Y / sy g), (Z / sz g). auto.
    + apply in_map_iff. exists (X mod sx g, Y mod sy g, Z mod sz g). split.
      * unfold glob. simpl. congruence.
      * apply in_items. simpl. auto.
Qed.

Theorem partition_exact g : good_geom g ->
  NoDup (covered g) /\ forall p, In p (covered g) <-> in_box g p.
Proof.
  intros Hg. pose proof (covered_perm g Hg) as P. split.
  - eapply Permutation_NoDup; [apply Permutation_sym; exact P|apply NoDup_cov_items; auto].
  - intros p. rewrite <- (in_cov_items g p Hg). split; apply Permutation_in; auto using Permutation_sym.
Qed.

(** every enabled lane of a produced wavefront decodes to a work-item of its work-group *)
Lemma enabled_lane_is_item g w v l : 1 <= sx g -> 1 <= sy g -> fits g w ->
  In v (form g w) -> 0 <= l -> Z.testbit (mask_of (lanes v)) l = true ->
  0 <= l < 64 /\ In (decode g (first v + l)) (items w) /\ flat_id g (decode g (first v + l)) = first v + l.
Proof.
  intros Hsx Hsy Hfit Hv Hl Ht. unfold form in Hv.
  destruct (form_ids_spec (map (flat_id g) (items w))) as [E O].
  rewrite Forall_forall in O. pose proof (O v Hv) as Hok. unfold lane_ok in Hok.
  apply testbit_mask_of in Ht; auto; [|eapply Forall_impl; [|exact Hok]; simpl; intros; lia].
  rewrite Forall_forall in Hok. split; [apply Hok; auto|].
  assert (Hin : In (first v + l) (map (flat_id g) (items w))).
  { rewrite <- E. apply in_flat_map. exists v. split; auto. unfold wf_ids. apply in_map_iff. eauto. }
  apply in_map_iff in Hin. destruct Hin as [[[x y] z] [Eid Hit]]. rewrite <- Eid.
  pose proof Hit as Hit'. apply in_items in Hit'. destruct Hfit as (Fx & Fy & _).
  rewrite decode_flat by lia. auto.
Qed.

(** * Skip *)

Lemma skip_spec g h : good_geom g ->
  forall n m fuel l c, valid g c -> rest g c = l -> (length l < fuel)%nat -> (length l < m)%nat ->
  produce m fuel g (Some h) (skip n fuel g (Some h) c) = skipn n (filter h l).
Proof.
  intros Hg. induction n as [|n IH]; intros m fuel l c Hv Hr Hf Hm.
  - simpl. apply produce_spec; auto.
    pose proof (subseq_length _ _ (subseq_filter h l)). lia.
  - simpl. pose proof (next_wg_spec g h Hg l fuel c Hv Hr Hf) as Hs.
    destruct (next_wg fuel g (Some h) c) as [c'|w c'|]; [| |tauto].
    + destruct Hs as (E & R & V). rewrite E. rewrite (IH m fuel [] c' V R); simpl; try lia.
      destruct n; reflexivity.
    + destruct Hs as [l1 (E & F & A & V)]. subst l. rewrite E in *.
      rewrite filter_app, F. simpl. rewrite A. simpl.
      rewrite app_length in *. simpl in *. apply IH; auto; lia.
Qed.

(** * V5 packing *)

Lemma land_low_high a b n : 0 <= n -> 0 <= a < 2 ^ n -> Z.land a (Z.shiftl b n) = 0.
Proof.
  intros Hn Ha. apply Z.bits_inj'. intros m Hm. rewrite Z.land_spec, Z.bits_0.
  destruct (Z.lt_ge_cases m n) as [Hlt|Hge].
  - rewrite Z.shiftl_spec_low by lia. apply andb_false_r.
  - assert (Z.testbit a m = false); [|rewrite H; reflexivity].
    destruct (Z.eq_dec a 0) as [->|Hne]; [apply Z.bits_0|].
    apply Z.bits_above_log2; [lia|]. apply Z.log2_lt_pow2; [lia|].
    assert (2 ^ n <= 2 ^ m) by (apply Z.pow_le_mono_r; lia). lia.
Qed.

Lemma lor_low_high a b n : 0 <= n -> 0 <= a < 2 ^ n -> Z.lor a (Z.shiftl b n) = a + b * 2 ^ n.
Proof.
  intros Hn Ha. pose proof (land_low_high a b n Hn Ha) as E.
  rewrite <- Z.lxor_lor by auto. rewrite <- Z.add_nocarry_lxor by auto.
  rewrite Z.shiftl_mul_pow2 by lia. reflexivity.
Qed.

Lemma pack_v5_value x y z : 0 <= x < 1024 -> 0 <= y < 1024 -> 0 <= z < 1024 ->
  pack_v5 x y z = x + y * 1024 + z * 1048576.
Proof.
  intros Hx Hy Hz. unfold pack_v5, u32.
  rewrite (Z.mod_small x), (Z.mod_small y), (Z.mod_small z) by lia.
  rewrite (Z.shiftl_mul_pow2 y 10), (Z.shiftl_mul_pow2 z 20) by lia.
  change (2 ^ 10) with 1024. change (2 ^ 20) with 1048576.
  rewrite (Z.mod_small (y * 1024)), (Z.mod_small (z * 1048576)) by lia.
  replace (z * 1048576) with (Z.shiftl z 20) by (rewrite Z.shiftl_mul_pow2 by lia; reflexivity).
  rewrite (lor_low_high (y * 1024) z 20) by (change (2 ^ 20) with 1048576; lia).
  change (2 ^ 20) with 1048576.
  replace (y * 1024 + z * 1048576) with (Z.shiftl (y + z * 1024) 10)
    by (rewrite Z.shiftl_mul_pow2 by lia; change (2 ^ 10) with 1024; lia).
  rewrite (lor_low_high x (y + z * 1024) 10) by (change (2 ^ 10) with 1024; lia).
  rewrite Z.shiftl_mul_pow2 by lia. change (2 ^ 10) with 1024. change (2 ^ 20) with 1048576. lia.
Qed.

(** a V5 kernel's unpacking of v0 recovers the three work-item IDs *)
Lemma unpack_pack_v5 x y z : 0 <= x < 1024 -> 0 <= y < 1024 -> 0 <= z < 1024 ->
  unpack_v5 (pack_v5 x y z) = (x, y, z).
Proof.
  intros Hx Hy Hz. rewrite pack_v5_value by auto. unfold unpack_v5.
  change 1023 with (Z.ones 10). rewrite !Z.land_ones, !Z.shiftr_div_pow2 by lia.
  change (2 ^ 10) with 1024. change (2 ^ 20) with 1048576.
  set (p := x + y * 1024 + z * 1048576).
  assert (E1 : p mod 1024 = x) by (symmetry; apply Zmod_unique with (q := y + z * 1024); subst p; lia).
  assert (E2 : p / 1024 = y + z * 1024) by (symmetry; apply Zdiv_unique with (r := x); subst p; lia).
  assert (E3 : p / 1048576 = z) by (symmetry; apply Zdiv_unique with (r := x + y * 1024); subst p; lia).
  rewrite E1, E2, E3.
  assert (E4 : (y + z * 1024) mod 1024 = y) by (symmetry; apply Zmod_unique with (q := z); lia).
  rewrite E4, (Z.mod_small z) by lia. reflexivity.
Qed.

(** * Lane registers *)

Lemma in_all_produced g f w : good_geom g -> In w (all_produced g f) -> In w (all_wgs g) /\ acc f w = true.
Proof. intros Hg H. rewrite all_produced_spec in H by auto. apply filter_In in H. exact H. Qed.

Definition fst3 (t : Z * Z * Z) : Z := fst (fst t).

Lemma lane_regs g f w v l vgpr : good_geom g ->
  sx g < 4294967296 -> sy g < 4294967296 -> sz g < 4294967296 ->
  In w (all_produced g f) -> In v (form g w) -> 0 <= l -> Z.testbit (mask_of (lanes v)) l = true ->
  let i := first v + l in
  let it := decode g i in
  l < 64 /\ In it (items w) /\ flat_id g it = i /\ in_box g (glob g w it) /\
  emu_lane_regs 3 2 g i = it /\ tim_lane_regs 2 g i = it /\
  (sx g <= 1024 -> sy g <= 1024 -> sz g <= 1024 -> unpack_v5 (fst3 (emu_lane_regs 5 vgpr g i)) = it).
Proof.
  intros Hg Bx By Bz Hw Hv Hl Ht i it.
  destruct (in_all_produced g f w Hg Hw) as [Hall _].
  pose proof Hg as (_ & _ & _ & Hsx & Hsy & Hsz).
  assert (Hfit : fits g w).
  { apply in_all_wgs in Hall. destruct Hall as (a & b & c & _ & _ & _ & ->). apply mkwg_fits. }
  destruct (enabled_lane_is_item g w v l Hsx Hsy Hfit Hv Hl Ht) as (Hl64 & Hin & Hflat).
  fold i in Hin, Hflat. fold it in Hin, Hflat.
  assert (Hbox : in_box g (glob g w it)).
  { apply in_cov_items; auto. unfold cov_items. apply in_flat_map. exists w. split; auto.
    apply in_map. exact Hin. }
  split; [lia|]. split; [exact Hin|]. split; [exact Hflat|]. split; [exact Hbox|].
  clear Hbox Hflat.
  unfold emu_lane_regs, tim_lane_regs. fold it. destruct it as [[x y] z].
  apply in_items in Hin. destruct Hfit as (Fx & Fy & Fz). simpl. unfold u32.
  rewrite !Z.mod_small by lia.
  split; [reflexivity|]. split; [reflexivity|].
  intros. unfold fst3. simpl. apply unpack_pack_v5; lia.
Qed.

(** * SGPR slots *)

Lemma place_below ins : forall ptr f a, (a < ptr)%nat -> place ptr ins f a = f a.
Proof.
  induction ins as [|i r IH]; intros ptr f a Ha; simpl; auto.
  destruct (in_en i).
  - rewrite IH by lia. destruct (in_val i) as [v|]; auto. unfold fwrite.
    replace (ptr <=? a)%nat with false by (symmetry; apply Nat.leb_gt; lia). reflexivity.
  - apply IH; auto.
Qed.

Definition sized (i : sinput) : Prop := forall v, in_val i = Some v -> length v = in_size i.

(** An enabled input is found at the dword offset equal to the dwords of the
    enabled inputs before it — whatever the other enables are. *)
Lemma place_slot ins : forall k ptr f i v j,
  Forall sized ins -> nth_error ins k = Some i -> in_en i = true -> in_val i = Some v -> (j < in_size i)%nat ->
  place ptr ins f (ptr + slot_of k ins + j) = nth j v 0.
Proof.
  induction ins as [|i0 r IH]; intros k ptr f i v j Hs Hn He Hv Hj; [destruct k; discriminate|].
  inversion Hs as [|? ? Hs0 Hsr]; subst. destruct k as [|k]; simpl in Hn.
  - inversion Hn; subst i0. simpl. rewrite He, Hv. rewrite place_below by lia.
    unfold fwrite. rewrite (Hs0 v Hv).
    replace (ptr <=? ptr + 0 + j)%nat with true by (symmetry; apply Nat.leb_le; lia).
    replace (ptr + 0 + j <? ptr + in_size i)%nat with true by (symmetry; apply Nat.ltb_lt; lia).
    simpl. f_equal. lia.
  - simpl. destruct (in_en i0).
    + replace (ptr + (in_size i0 + slot_of k r) + j)%nat with (ptr + in_size i0 + slot_of k r + j)%nat by lia.
      eapply IH; eauto.
    + simpl. eapply IH; eauto.
Qed.

Lemma sgpr_inputs_sized m g w pa ka : Forall sized (sgpr_inputs m g w pa ka).
Proof. unfold sgpr_inputs. repeat constructor; intros v E; simpl in E; inversion E; reflexivity. Qed.

Lemma sgpr_file_nth m g w a : (a < NSREG)%nat ->
  nth a (sgpr_file m g w) 0 = place 0 (sgpr_inputs m g w PACKET_ADDR KERNARG_ADDR) (fun _ => UNWRITTEN) a.
Proof.
  intros Ha. unfold sgpr_file.
  rewrite (nth_indep _ 0 (place 0 (sgpr_inputs m g w PACKET_ADDR KERNARG_ADDR) (fun _ => UNWRITTEN) 0%nat))
    by (rewrite map_length, seq_length; exact Ha).
  rewrite map_nth. rewrite seq_nth by exact Ha. reflexivity.
Qed.

Lemma slot_of_le_total ins : forall k, (slot_of k ins <= fold_right (fun i a => in_size i + a) 0 ins)%nat.
Proof.
  induction ins as [|i r IH]; intros k; destruct k; simpl; try lia.
  specialize (IH k). destruct (in_en i); lia.
Qed.

Lemma slot_of_bound m g w pa ka k : (slot_of k (sgpr_inputs m g w pa ka) <= 21)%nat.
Proof. pose proof (slot_of_le_total (sgpr_inputs m g w pa ka) k) as H. simpl in H. exact H. Qed.

(** the three work-group IDs, for every enable mask *)
Lemma wg_id_sgprs m g w :
  let ins := sgpr_inputs m g w PACKET_ADDR KERNARG_ADDR in
  (Z.testbit m 10 = true -> nth (slot_of 10 ins) (sgpr_file m g w) 0 = u32 (idx w)) /\
  (Z.testbit m 11 = true -> nth (slot_of 11 ins) (sgpr_file m g w) 0 = u32 (idy w)) /\
  (Z.testbit m 12 = true -> nth (slot_of 12 ins) (sgpr_file m g w) 0 = u32 (idz w)).
Proof.
  intros ins.
  assert (H : forall k i x, nth_error ins k = Some i -> in_en i = true -> in_val i = Some [x] -> in_size i = 1%nat ->
              nth (slot_of k ins) (sgpr_file m g w) 0 = x).
  { intros k i x Hn He Hv Hsz. pose proof (slot_of_bound m g w PACKET_ADDR KERNARG_ADDR k). fold ins in H.
    rewrite sgpr_file_nth by (unfold NSREG; lia). fold ins.
    pose proof (place_slot ins k 0%nat (fun _ => UNWRITTEN) i [x] 0%nat (sgpr_inputs_sized _ _ _ _ _) Hn He Hv ltac:(lia)) as P.
    simpl in P. rewrite Nat.add_0_r in P. exact P. }
  repeat split; intros Hb; eapply H; try reflexivity; simpl; auto.
Qed.
