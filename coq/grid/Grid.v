(** Model of the dispatch-grid partition of mgpusim (definitions only).

    Transcribed from
      amd/kernels/gridbuilder.go   countWG, NextWG, Skip, spawnWorkItems, formWavefronts
      amd/kernels/grid.go          WorkItem.FlattenedID
      amd/emu/computeunit.go       initWfRegs           (work-item-ID VGPRs, work-group-ID SGPRs)
      amd/timing/cu/wfdispatcher.go initRegisters        (same)
    All quantities are non-negative machine integers well below 2^63 (grid
    extents are uint32, group sizes uint16), so Go's [/] and [%] agree with
    [Z.div] and [Z.modulo] and no operation overflows. *)
From Coq Require Import ZArith List Bool.
Import ListNotations.
Open Scope Z_scope.

(** * Geometry, work-groups, cursor *)

Record geom := mkGeom { gx : Z; gy : Z; gz : Z; sx : Z; sy : Z; sz : Z }.

(** A produced work-group: its IDs and its current (possibly partial) sizes.
    The nominal sizes SizeX/Y/Z are always the geometry's [sx sy sz]. *)
Record wg := mkWG { idx : Z; idy : Z; idz : Z; cx : Z; cy : Z; cz : Z }.

Definition cursor := (Z * Z * Z)%type.   (* xid, yid, zid *)

(** countWG: [int(GridSize-1)/int(WorkgroupSize) + 1] *)
Definition nwg (g s : Z) : Z := (g - 1) / s + 1.
Definition nx (g : geom) := nwg (gx g) (sx g).
Definition ny (g : geom) := nwg (gy g) (sy g).
Definition nz (g : geom) := nwg (gz g) (sz g).

(** the integers a, a+1, ..., b-1 *)
Definition zrange (a b : Z) : list Z := map (fun i => a + Z.of_nat i) (seq 0 (Z.to_nat (b - a))).

(** One pass through the body of the [for] loop of NextWG, up to (not
    including) the filter test: [None] is [return nil]. *)
Definition next1 (g : geom) (c : cursor) : option (wg * cursor) :=
  let '(x, y, z) := c in
  let xl := gx g - x * sx g in
  let yl := gy g - y * sy g in
  let zl := gz g - z * sz g in
  if (xl <=? 0) || (yl <=? 0) || (zl <=? 0) then None
  else
    let xa := Z.min xl (sx g) in
    let ya := Z.min yl (sy g) in
    let za := Z.min zl (sz g) in
    let w := mkWG x y z xa ya za in
    let c' :=
      if xl - xa <=? 0
      then (if yl - ya <=? 0 then (0, 0, z + 1) else (0, y + 1, z))
      else (x + 1, y, z) in
    Some (w, c').

Inductive nres := Nil (c : cursor) | Got (w : wg) (c : cursor) | OutOfFuel.

(** NextWG including the filter loop.  The loop is bounded by [fuel]
    iterations; [wg_fuel] below always suffices (theorem next_wg_fuel_enough). *)
Fixpoint next_wg (fuel : nat) (g : geom) (f : option (wg -> bool)) (c : cursor) : nres :=
  match fuel with
  | O => OutOfFuel
  | S n =>
      match next1 g c with
      | None => Nil c
      | Some (w, c') =>
          match f with
          | None => Got w c'
          | Some ff => if ff w then Got w c' else next_wg n g f c'
          end
      end
  end.

Definition wg_fuel (g : geom) : nat := S (Z.to_nat (nx g * ny g * nz g)).

(** Calling NextWG until it returns nil (at most [n] times). *)
Fixpoint produce (n fuel : nat) (g : geom) (f : option (wg -> bool)) (c : cursor) : list wg :=
  match n with
  | O => []
  | S n' =>
      match next_wg fuel g f c with
      | Got w c' => w :: produce n' fuel g f c'
      | _ => []
      end
  end.

Definition all_produced (g : geom) (f : option (wg -> bool)) : list wg :=
  produce (wg_fuel g) (wg_fuel g) g f (0, 0, 0).

(** Skip(n): n calls of NextWG whose results are dropped. *)
Fixpoint skip (n fuel : nat) (g : geom) (f : option (wg -> bool)) (c : cursor) : cursor :=
  match n with
  | O => c
  | S n' =>
      match next_wg fuel g f c with
      | Got _ c' => skip n' fuel g f c'
      | Nil c' => skip n' fuel g f c'
      | OutOfFuel => c
      end
  end.

(** The work-group with IDs (i,j,k) as NextWG fills it in. *)
Definition mkwg (g : geom) (i j k : Z) : wg :=
  mkWG i j k (Z.min (gx g - i * sx g) (sx g)) (Z.min (gy g - j * sy g) (sy g)) (Z.min (gz g - k * sz g) (sz g)).

(** [prod3 la lb lc]: all (a,b,c), a fastest, c slowest. *)
Definition prod3 {A B C} (la : list A) (lb : list B) (lc : list C) : list (A * B * C) :=
  flat_map (fun c => flat_map (fun b => map (fun a => (a, b, c)) la) lb) lc.

Definition all_ids (g : geom) : list (Z * Z * Z) :=
  prod3 (zrange 0 (nx g)) (zrange 0 (ny g)) (zrange 0 (nz g)).

(** All work-groups of the grid in dispatch order (x fastest). *)
Definition all_wgs (g : geom) : list wg := map (fun '(i, j, k) => mkwg g i j k) (all_ids g).

(** countWG.  With a filter, the three nested loops (i outermost, k innermost)
    call the filter on a WorkGroup in which only IDX/IDY/IDZ are set. *)
Definition count_list (g : geom) : list wg :=
  flat_map (fun i => flat_map (fun j => map (fun k => mkWG i j k 0 0 0) (zrange 0 (nz g)))
                                (zrange 0 (ny g))) (zrange 0 (nx g)).

Definition count_wg (g : geom) (f : option (wg -> bool)) : Z :=
  match f with
  | None => nx g * ny g * nz g
  | Some ff => Z.of_nat (length (filter ff (count_list g)))
  end.

(** * Work-items and wavefronts *)

(** spawnWorkItems: z outermost, x innermost, over the *current* sizes *)
Definition items (w : wg) : list (Z * Z * Z) :=
  prod3 (zrange 0 (cx w)) (zrange 0 (cy w)) (zrange 0 (cz w)).

(** inWGID / FlattenedID *)
Definition flat_id (g : geom) (it : Z * Z * Z) : Z :=
  let '(x, y, z) := it in z * sx g * sy g + y * sx g + x.

(** A wavefront: FirstWiFlatID and the lane numbers of its work-items in the
    order they were appended.  InitExecMask is [mask_of lanes]. *)
Record wf := mkWf { first : Z; lanes : list Z }.

Definition mask_of (ls : list Z) : Z := fold_left (fun m l => Z.lor m (Z.shiftl 1 l)) ls 0.

(** lanes enabled by a 64-bit exec mask *)
Definition enabled (m : Z) : list Z := filter (Z.testbit m) (zrange 0 64).

(** formWavefronts after the repair: a new wavefront whenever the wavefront
    index inWGID/64 differs from the current one.  The accumulator holds the
    wavefronts in reverse order. *)
Definition form_step (acc : list wf) (id : Z) : list wf :=
  let k := id / 64 in
  let l := id mod 64 in
  match acc with
  | w :: acc' =>
      if first w =? k * 64 then mkWf (first w) (lanes w ++ [l]) :: acc'
      else mkWf (k * 64) [l] :: acc
  | [] => [mkWf (k * 64) [l]]
  end.

Definition form_ids (ids : list Z) : list wf := rev (fold_left form_step ids []).
Definition form (g : geom) (w : wg) : list wf := form_ids (map (flat_id g) (items w)).

(** formWavefronts as it was before the repair: a new wavefront only when the
    item with inWGID mod 64 = 0 is present; [None] = nil dereference. *)
Definition form_old_step (acc : option (list wf)) (id : Z) : option (list wf) :=
  match acc with
  | None => None
  | Some acc =>
      let acc1 := if id mod 64 =? 0 then mkWf id [] :: acc else acc in
      match acc1 with
      | [] => None
      | w :: r => Some (mkWf (first w) (lanes w ++ [id mod 64]) :: r)
      end
  end.

Definition form_old (g : geom) (w : wg) : option (list wf) :=
  option_map (@rev wf) (fold_left form_old_step (map (flat_id g) (items w)) (Some [])).

(** * Lane IDs *)

(** Both initialisers: for flat id i = FirstWiFlatID + lane
      z = i / (SX*SY);  y = i % (SX*SY) / SX;  x = i % (SX*SY) % SX *)
Definition decode (g : geom) (i : Z) : Z * Z * Z :=
  let p := sx g * sy g in
  (i mod p mod sx g, i mod p / sx g, i / p).

Definition u32 (v : Z) : Z := v mod 4294967296.

(** * User and system SGPRs (emu initWfRegs and timing initRegisters: the same
    sequence of independent enables, each enabled input takes the next
    [in_size] dwords; inputs the simulator does not support reserve their
    dwords without writing them) *)

Record sinput := mkIn { in_en : bool; in_size : nat; in_val : option (list Z) }.

Definition fwrite (ptr : nat) (v : list Z) (f : nat -> Z) : nat -> Z :=
  fun a => if (ptr <=? a)%nat && (a <? ptr + length v)%nat then nth (a - ptr) v 0 else f a.

(** the SGPRPtr walk *)
Fixpoint place (ptr : nat) (ins : list sinput) (f : nat -> Z) : nat -> Z :=
  match ins with
  | [] => f
  | i :: r =>
      if in_en i
      then place (ptr + in_size i) r (match in_val i with Some v => fwrite ptr v f | None => f end)
      else place ptr r f
  end.

(** dwords taken by the enabled inputs before input number [k] *)
Fixpoint slot_of (k : nat) (ins : list sinput) : nat :=
  match k, ins with
  | S k', i :: r => (if in_en i then in_size i else 0) + slot_of k' r
  | _, _ => 0
  end.

Definition lo32 (v : Z) : Z := v mod 4294967296.
Definition hi32 (v : Z) : Z := (v / 4294967296) mod 4294967296.

(** (GridSize + uint32(WorkgroupSize) - 1) / uint32(WorkgroupSize) in uint32 *)
Definition wg_count (gr s : Z) : Z := u32 (gr + s - 1) / s.

(** enable mask: bit 0 private segment buffer, 1 dispatch ptr, 2 queue ptr,
    3 kernarg segment ptr, 4 dispatch id, 5 flat scratch init, 6 private
    segment size, 7/8/9 grid work-group count X/Y/Z, 10/11/12 work-group ID
    X/Y/Z (compute_pgm_rsrc2 bits 7/8/9) *)
Definition sgpr_inputs (m : Z) (g : geom) (w : wg) (packet_addr kernarg_addr : Z) : list sinput :=
  let b := Z.testbit m in
  [ mkIn (b 0) 4 None;
    mkIn (b 1) 2 (Some [lo32 packet_addr; hi32 packet_addr]);
    mkIn (b 2) 2 None;
    mkIn (b 3) 2 (Some [lo32 kernarg_addr; hi32 kernarg_addr]);
    mkIn (b 4) 2 None;
    mkIn (b 5) 2 None;
    mkIn (b 6) 1 None;
    mkIn (b 7) 1 (Some [wg_count (gx g) (sx g)]);
    mkIn (b 8) 1 (Some [wg_count (gy g) (sy g)]);
    mkIn (b 9) 1 (Some [wg_count (gz g) (sz g)]);
    mkIn (b 10) 1 (Some [u32 (idx w)]);
    mkIn (b 11) 1 (Some [u32 (idy w)]);
    mkIn (b 12) 1 (Some [u32 (idz w)]) ].

(** value found in a register the initialiser did not write (harness pre-fill) *)
Definition UNWRITTEN : Z := 4008636142.

Definition NSREG : nat := 24.
Definition PACKET_ADDR : Z := 4294983680.    (* 0x100004000, harness constant *)
Definition KERNARG_ADDR : Z := 8609023232.   (* 0x201234500 *)

(** s0..s23 after initialisation *)
Definition sgpr_file (m : Z) (g : geom) (w : wg) : list Z :=
  map (place 0 (sgpr_inputs m g w PACKET_ADDR KERNARG_ADDR) (fun _ => UNWRITTEN)) (seq 0 NSREG).

(** emu, V5 objects: uint32(x) | uint32(y)<<10 | uint32(z)<<20 *)
Definition pack_v5 (x y z : Z) : Z :=
  Z.lor (u32 x) (Z.lor (u32 (Z.shiftl (u32 y) 10)) (u32 (Z.shiftl (u32 z) 20))).

Definition unpack_v5 (p : Z) : Z * Z * Z :=
  (Z.land p 1023, Z.land (Z.shiftr p 10) 1023, Z.land (Z.shiftr p 20) 1023).

(** (v0, v1, v2) of one lane after emu initWfRegs *)
Definition emu_lane_regs (ver vgpr : Z) (g : geom) (i : Z) : Z * Z * Z :=
  let '(x, y, z) := decode g i in
  if ver =? 5 then (pack_v5 x y z, UNWRITTEN, UNWRITTEN)
  else (u32 x, if 0 <? vgpr then u32 y else UNWRITTEN, if 1 <? vgpr then u32 z else UNWRITTEN).

(** (v0, v1, v2) of one lane after timing initRegisters: never packed *)
Definition tim_lane_regs (vgpr : Z) (g : geom) (i : Z) : Z * Z * Z :=
  let '(x, y, z) := decode g i in
  (u32 x, if 0 <? vgpr then u32 y else UNWRITTEN, if 1 <? vgpr then u32 z else UNWRITTEN).

(** global coordinates of a work-item *)
Definition glob (g : geom) (w : wg) (it : Z * Z * Z) : Z * Z * Z :=
  let '(x, y, z) := it in (idx w * sx g + x, idy w * sy g + y, idz w * sz g + z).

(** Everything the dispatched grid executes: for every produced work-group,
    every wavefront, every lane enabled in its exec mask, the global
    coordinates built from the work-group IDs and the lane's decoded IDs. *)
Definition covered_by (g : geom) (frm : geom -> wg -> list wf) (wgs : list wg) : list (Z * Z * Z) :=
  flat_map (fun w =>
    flat_map (fun v => map (fun l => glob g w (decode g (first v + l))) (enabled (mask_of (lanes v))))
             (frm g w)) wgs.

Definition covered (g : geom) : list (Z * Z * Z) := covered_by g form (all_produced g None).

Definition in_box (g : geom) (p : Z * Z * Z) : Prop :=
  let '(x, y, z) := p in 0 <= x < gx g /\ 0 <= y < gy g /\ 0 <= z < gz g.

Definition good_geom (g : geom) : Prop :=
  1 <= gx g /\ 1 <= gy g /\ 1 <= gz g /\ 1 <= sx g /\ 1 <= sy g /\ 1 <= sz g.

(** * Correspondence checker (evaluated by the check on recorded cases) *)

Inductive fspec := FNil | FAll | FMod (a b c d m t : Z) | FRange (lo hi : Z) | FFull.

Definition filter_of (g : geom) (s : fspec) : option (wg -> bool) :=
  match s with
  | FNil => None
  | FAll => Some (fun _ => true)
  | FMod a b c d m t => Some (fun w => (a * idx w + b * idy w + c * idz w + d) mod m <? t)
  | FRange lo hi => Some (fun w =>
      let flat := idz w * nx g * ny g + idy w * nx g + idx w in (lo <=? flat) && (flat <? hi))
  | FFull => Some (fun w => (cx w =? sx g) && (cy w =? sy g) && (cz w =? sz g))
  end.

Definition t3 := (Z * Z * Z)%type.
Definition owg := (t3 * t3 * Z * list t3)%type.   (* ids, current sizes, #items, wavefronts (first, exec, #items) *)
Definition osmp := (nat * nat * list Z * list Z * Z * Z * list t3 * list t3)%type.

Record ccase := mkCase {
  c_g : geom; c_f : fspec; c_ver : Z; c_vgpr : Z; c_sgpr : Z; c_skip : nat;
  o_numwg : Z; o_wgs : list owg; o_nil : bool; o_crash : bool; o_smp : list osmp }.

Definition t3_eqb (a b : t3) : bool :=
  let '(a1, a2, a3) := a in let '(b1, b2, b3) := b in (a1 =? b1) && (a2 =? b2) && (a3 =? b3).

Fixpoint list_eqb {A} (e : A -> A -> bool) (a b : list A) : bool :=
  match a, b with
  | [], [] => true
  | x :: a', y :: b' => e x y && list_eqb e a' b'
  | _, _ => false
  end.

Definition owg_eqb (a b : owg) : bool :=
  let '(ai, ac, an, aw) := a in let '(bi, bc, bn, bw) := b in
  t3_eqb ai bi && t3_eqb ac bc && (an =? bn) && list_eqb t3_eqb aw bw.

Definition zlen {A} (l : list A) : Z := Z.of_nat (length l).

Definition model_wg (g : geom) (w : wg) : owg :=
  ((idx w, idy w, idz w), (cx w, cy w, cz w), zlen (items w),
   map (fun v => (first v, mask_of (lanes v), zlen (lanes v))) (form g w)).

Definition model_wgs (c : ccase) : list wg :=
  let g := c_g c in let f := filter_of g (c_f c) in let fuel := wg_fuel g in
  produce fuel fuel g f (skip (c_skip c) fuel g f (0, 0, 0)).

Fixpoint first_diff {A} (e : A -> A -> bool) (a b : list A) (k : Z) : option Z :=
  match a, b with
  | [], [] => None
  | x :: a', y :: b' => if e x y then first_diff e a' b' (k + 1) else Some k
  | _, _ => Some k
  end.

Definition check_smp (c : ccase) (wgs : list wg) (s : osmp) : bool :=
  let '(iw, iv, esg, tsg, eexec, texec, elanes, tlanes) := s in
  let g := c_g c in
  match nth_error wgs iw with
  | None => false
  | Some w =>
      match nth_error (form g w) iv with
      | None => false
      | Some v =>
          let ids := map (fun l => first v + l) (zrange 0 64) in
          let sg := sgpr_file (c_sgpr c) g w in
          let m := mask_of (lanes v) in
          let tmodel := map (tim_lane_regs (c_vgpr c) g) ids in
          let emodel := map (emu_lane_regs (c_ver c) (c_vgpr c) g) ids in
          list_eqb Z.eqb esg sg && list_eqb Z.eqb tsg sg && (eexec =? m) && (texec =? m) &&
          list_eqb t3_eqb elanes emodel &&
          (* timing: as coded (never packed); a tree in which the timing
             dispatcher packs V5 ids like the emulator is accepted as well *)
          (list_eqb t3_eqb tlanes tmodel || list_eqb t3_eqb tlanes emodel)
      end
  end.

(** 0 = the model reproduces every observation; otherwise a code telling
    which observation differs first. *)
Definition check_case (c : ccase) : Z :=
  let g := c_g c in
  if o_crash c then 9
  else if negb (o_numwg c =? count_wg g (filter_of g (c_f c))) then 1
  else
    let wgs := model_wgs c in
    match first_diff owg_eqb (o_wgs c) (map (model_wg g) wgs) 0 with
    | Some k => 1000 + k
    | None =>
        if negb (o_nil c) then 3
        else match first_diff (fun s _ => check_smp c wgs s) (o_smp c) (o_smp c) 0 with
             | Some k => 100 + k
             | None => 0
             end
    end.

Fixpoint mismatches_from (k : Z) (cs : list ccase) : list (Z * Z) :=
  match cs with
  | [] => []
  | c :: r => let d := check_case c in
              (if d =? 0 then [] else [(k, d)]) ++ mismatches_from (k + 1) r
  end.

Definition mismatches (cs : list ccase) : list (Z * Z) := mismatches_from 0 cs.
