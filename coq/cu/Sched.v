(** Executable model of the decision automaton of the timing compute unit's
    scheduler (amd/timing/cu/scheduler.go): EvaluateInternalInst, evalSBarrier,
    evalSEndPgm, evalSWaitCnt, passBarrier and their helpers, plus the three
    places outside the scheduler that touch the same state (issue, completion
    of an instruction in an execution unit, arrival of a memory response).
    A second small model covers the emulator's barrier loop
    (amd/emu/computeunit.go: runWG, runWfUntilBarrier, resolveBarrier).

    Definitions only; proofs are in SchedProofs.v.

    [fx] selects the code: [false] = the code as found (areAllWfInWGAtBarrier
    requires every wavefront to be AtBarrier), [true] = the repaired code
    (commit "fix: a wavefront that already ended counts as arrived at a
    barrier" of branch work-c14).

    Abstracted (over-approximated by the environment): which Ready wavefront
    issues next and when (fetch, decode, issue arbiter, scoreboard), how long
    an execution unit takes, when memory answers, whether the dispatch port
    accepts the work-group completion message. *)
From Coq Require Import List Arith NArith Bool Lia.
Import ListNotations.

(** wavefront.WfState, restricted to the values a simulated wavefront takes
    (WfDispatching is overwritten by WfReady in handleMapWGReq before the first
    cycle; WfSampledCompleted exists only in sampling mode). *)
Inductive wstate := WReady | WRunning | WCompleted | WAtBarrier.

(** what the current dynamic instruction of a wavefront is, as far as the
    scheduler distinguishes it *)
Inductive ikind :=
| KNone                                   (* nothing issued yet *)
| KEnd | KBar | KWait (vm lgkm : N) | KSpec   (* ExeUnitSpecial: s_endpgm, s_barrier, s_waitcnt, others (s_nop ...) *)
| KPlain | KSLoad | KFlat.                (* executed by a unit: no memory, scalar load, flat load/store *)

Definition is_special (k : ikind) : bool :=
  match k with KEnd | KBar | KWait _ _ | KSpec => true | _ => false end.

Record wf := mkWf {
  w_wg : nat;          (* work-group (identity of wf.WG) *)
  w_st : wstate;
  w_inst : ikind;
  w_ns : N;            (* scalar loads in flight (entries of InFlightScalarMemAccess that are the last of their instruction) *)
  w_nv : N;            (* flat instructions in flight (likewise, InFlightVectorMemAccess) *)
  (* ghost, never read by the transition function *)
  w_arr : nat;         (* s_barrier instructions issued *)
  w_pass : nat;        (* times released by passBarrier *)
  w_pc : nat           (* calls of cu.UpdatePCAndSetReady: how many instructions the wavefront has moved past *)
}.

(** OutstandingScalarMemAccess / OutstandingVectorMemAccess: a flat
    instruction increments and decrements both *)
Definition out_s (w : wf) : N := (w_ns w + w_nv w)%N.
Definition out_v (w : wf) : N := w_nv w.

Definition st_eqb (a b : wstate) : bool :=
  match a, b with
  | WReady, WReady | WRunning, WRunning | WCompleted, WCompleted | WAtBarrier, WAtBarrier => true
  | _, _ => false
  end.

(** a state change; a change to Ready here is always UpdatePCAndSetReady (the
    completion of the current instruction), which also moves the PC *)
Definition set_st (w : wf) (s : wstate) : wf :=
  mkWf (w_wg w) s (w_inst w) (w_ns w) (w_nv w) (w_arr w) (w_pass w)
       (match s with WReady => S (w_pc w) | _ => w_pc w end).

(** cu.UpdatePCAndSetReady as called from setAllWfStateToReady *)
Definition release (w : wf) : wf :=
  match w_st w with
  | WCompleted => w
  | _ => mkWf (w_wg w) WReady (w_inst w) (w_ns w) (w_nv w) (w_arr w) (S (w_pass w)) (S (w_pc w))
  end.

Record cu := mkCu {
  wfs : list wf;          (* every wavefront ever mapped to the CU, in mapping order *)
  internal : list nat;    (* SchedulerImpl.internalExecuting *)
  bbuf : list nat;        (* SchedulerImpl.barrierBuffer *)
  bcap : nat;             (* barrierBufferSize *)
  sent : list nat;        (* work-groups whose WGCompletionMsg was sent, in order *)
  crashed : bool          (* panic("never") reached *)
}.

Definition init : cu := mkCu [] [] [] 16 [] false.

Definition set_wfs (s : cu) (l : list wf) : cu := mkCu l (internal s) (bbuf s) (bcap s) (sent s) (crashed s).
Definition set_internal (s : cu) (l : list nat) : cu := mkCu (wfs s) l (bbuf s) (bcap s) (sent s) (crashed s).
Definition set_bbuf (s : cu) (l : list nat) : cu := mkCu (wfs s) (internal s) l (bcap s) (sent s) (crashed s).
Definition add_sent (s : cu) (g : nat) : cu := mkCu (wfs s) (internal s) (bbuf s) (bcap s) (sent s ++ [g]) (crashed s).
Definition crash (s : cu) : cu := mkCu (wfs s) (internal s) (bbuf s) (bcap s) (sent s) true.

Fixpoint upd {A} (i : nat) (x : A) (l : list A) : list A :=
  match l, i with
  | [], _ => []
  | _ :: r, O => x :: r
  | a :: r, S i' => a :: upd i' x r
  end.

Definition get (s : cu) (i : nat) : option wf := nth_error (wfs s) i.
Definition setw (s : cu) (i : nat) (w : wf) : cu := set_wfs s (upd i w (wfs s)).
Definition wg_of (s : cu) (i : nat) : nat :=
  match get s i with Some w => w_wg w | None => 0 end.

(** "for _, wf := range wg.Wfs { if !p(wf) { return false } } return true" *)
Definition all_in (g : nat) (p : wf -> bool) (l : list wf) : bool :=
  forallb (fun w => negb (w_wg w =? g) || p w) l.

(** the same loop with "if wf == currWf { continue }" ([j] = index of the head) *)
Fixpoint all_others (j g i : nat) (p : wf -> bool) (l : list wf) : bool :=
  match l with
  | [] => true
  | w :: r => (negb (w_wg w =? g) || (j =? i) || p w) && all_others (S j) g i p r
  end.

Definition exists_in (g : nat) (p : wf -> bool) (l : list wf) : bool :=
  existsb (fun w => (w_wg w =? g) && p w) l.

Definition is_completed (w : wf) := st_eqb (w_st w) WCompleted.
Definition is_atbarrier (w : wf) := st_eqb (w_st w) WAtBarrier.
(** areAllWfInWGAtBarrier: before the fix only AtBarrier qualifies *)
Definition arrived (fx : bool) (w : wf) := is_atbarrier w || (fx && is_completed w).
(** areAllOtherWfsInWGAtBarrier *)
Definition arrived_or_done (w : wf) := is_atbarrier w || is_completed w.
(** atLeaseOneWfIsExecuting *)
Definition is_executing (w : wf) := st_eqb (w_st w) WRunning || st_eqb (w_st w) WReady.

Definition not_wg (s : cu) (g : nat) (i : nat) : bool := negb (wg_of s i =? g).

(** passBarrier = removeAllWfFromBarrierBuffer + setAllWfStateToReady *)
Definition pass_barrier (s : cu) (g : nat) : cu :=
  set_wfs (set_bbuf s (filter (not_wg s g) (bbuf s)))
          (map (fun w => if w_wg w =? g then release w else w) (wfs s)).

(** evalSBarrier: new state, instCompleted, passBarrier *)
Definition eval_barrier (fx : bool) (s : cu) (i : nat) (w : wf) : cu * bool * bool :=
  let s1 := setw s i (set_st w WAtBarrier) in
  let g := w_wg w in
  if all_in g (arrived fx) (wfs s1) then (pass_barrier s1 g, true, true)
  else if length (bbuf s1) <? bcap s1 then (set_bbuf s1 (bbuf s1 ++ [i]), true, false)
  else (s1, false, false).

(** evalSEndPgm: new state, remaining send budget, instCompleted, passBarrier.
    [budget] = how many more Send calls on the dispatch port succeed in this
    cycle. *)
Definition eval_endpgm (fx : bool) (s : cu) (i : nat) (w : wf) (budget : nat) : cu * nat * bool * bool :=
  let g := w_wg w in
  if ((0 <? out_v w) || (0 <? out_s w))%N then (s, budget, false, false)
  else if all_others 0 g i is_completed (wfs s) then
    match budget with
    | O => (s, O, false, false)                               (* Send failed: retry next cycle *)
    | S b => (add_sent (setw s i (set_st w WCompleted)) g, b, true, false)
    end
  else if all_others 0 g i arrived_or_done (wfs s) then
    let s1 := pass_barrier s g in                              (* also sets wf itself Ready ... *)
    match get s1 i with
    | Some w1 => (setw s1 i (set_st w1 WCompleted), budget, true, fx)   (* ... then Completed *)
    | None => (s1, budget, true, fx)
    end
  else if exists_in g is_executing (wfs s) then
    (setw s i (set_st w WCompleted), budget, true, false)
  else (crash s, budget, false, false).

(** evalSWaitCnt *)
Definition waitcnt_done (w : wf) (vm lgkm : N) : bool :=
  negb (lgkm <? out_s w)%N && negb (vm <? out_v w)%N.

Definition remove_wg (s : cu) (g : nat) (l : list nat) : list nat := filter (not_wg s g) l.

(** one iteration of the loop of EvaluateInternalInst.
    State of the loop: the CU, newExecuting, the send budget. *)
Definition eval_one (fx : bool) (acc : cu * list nat * nat) (i : nat) : cu * list nat * nat :=
  let '(s, newx, b) := acc in
  match get s i with
  | None => acc
  | Some w =>
    if fx && st_eqb (w_st w) WReady then acc          (* repaired code: released earlier in this pass *)
    else
    match w_inst w with
    | KEnd =>
      let '(s1, b1, compl, pass) := eval_endpgm fx s i w b in
      let newx1 := if pass then remove_wg s (w_wg w) newx else newx in
      (s1, if compl then newx1 else newx1 ++ [i], b1)
    | KBar =>
      let '(s1, compl, pass) := eval_barrier fx s i w in
      let newx1 := if pass then remove_wg s (w_wg w) newx else newx in
      (s1, if compl then newx1 else newx1 ++ [i], b)
    | KWait vm lgkm =>
      if waitcnt_done w vm lgkm then (setw s i (set_st w WReady), newx, b)
      else (s, newx ++ [i], b)
    | _ => (setw s i (set_st w WReady), newx, b)      (* default: UpdatePCAndSetReady *)
    end
  end.

(** EvaluateInternalInst. The range loop iterates over the slice as it was
    when the loop started. *)
Definition eval (fx : bool) (budget : nat) (s : cu) : cu :=
  let '(s1, newx, _) := fold_left (eval_one fx) (internal s) (s, [], budget) in
  set_internal s1 newx.

(** environment events *)
Inductive ev :=
| EMap (g n : nat)             (* handleMapWGReq: work-group g with n wavefronts, all Ready *)
| EIssue (i : nat) (k : ikind) (* DoIssue picks wavefront i whose next instruction is of kind k *)
| EDone (i : nat)              (* the execution unit finished wavefront i's instruction *)
| ERsp (i : nat) (flat : bool) (* last response of a scalar load / flat access of wavefront i *)
| EEval (budget : nat)         (* one EvaluateInternalInst pass *)
| EFlush                       (* ComputeUnit.flushPipeline (CUPipelineFlushReq from the command processor) *)
| ERestart.                    (* CUPipelineRestartReq: the in-flight accesses are replayed from the shadow buffers *)

(** flushPipeline: populateShadowBuffers (the in-flight tables move to the
    shadow buffers: every access stays outstanding, its reply will come from
    the replayed request), setWavesToReady (every wavefront that has not ended
    becomes Ready *without* UpdatePC: the instruction it was executing, e.g.
    an s_waitcnt, s_barrier or s_endpgm held by the scheduler, is executed
    again after the restart), Scheduler.Flush (barrierBuffer and
    internalExecuting dropped), all execution units emptied.  The wait
    counters are not touched.  Ghost: an s_barrier that is rolled back no
    longer counts as executed. *)
Definition unwind (w : wf) : wf :=
  match w_st w with
  | WCompleted => w
  | _ => mkWf (w_wg w) WReady (w_inst w) (w_ns w) (w_nv w) (w_pass w) (w_pass w) (w_pc w)
  end.

Definition flush (s : cu) : cu :=
  mkCu (map unwind (wfs s)) [] [] (bcap s) (sent s) (crashed s).

Definition fresh_wf (g : nat) : wf := mkWf g WReady KNone 0 0 0 0 0.

Definition step (fx : bool) (s : cu) (e : ev) : cu :=
  if crashed s then s else
  match e with
  | EMap g n =>
    if existsb (fun w => w_wg w =? g) (wfs s) then s
    else set_wfs s (wfs s ++ repeat (fresh_wf g) n)
  | EIssue i k =>
    match get s i with
    | Some w =>
      match w_st w, k with
      | _, KNone => s
      | WReady, _ =>
        let w' := mkWf (w_wg w) WRunning k (w_ns w) (w_nv w)
                       (match k with KBar => S (w_arr w) | _ => w_arr w end) (w_pass w) (w_pc w) in
        let s1 := setw s i w' in
        if is_special k then set_internal s1 (internal s1 ++ [i]) else s1   (* issueToInternal *)
      | _, _ => s
      end
    | None => s
    end
  | EDone i =>
    match get s i with
    | Some w =>
      match w_st w, w_inst w with
      | WRunning, KPlain => setw s i (set_st w WReady)
      | WRunning, KSLoad => setw s i (mkWf (w_wg w) WReady (w_inst w) (w_ns w + 1) (w_nv w) (w_arr w) (w_pass w) (S (w_pc w)))
      | WRunning, KFlat => setw s i (mkWf (w_wg w) WReady (w_inst w) (w_ns w) (w_nv w + 1) (w_arr w) (w_pass w) (S (w_pc w)))
      | _, _ => s
      end
    | None => s
    end
  | ERsp i flat =>
    match get s i with
    | Some w =>
      if flat then
        if (0 <? w_nv w)%N then setw s i (mkWf (w_wg w) (w_st w) (w_inst w) (w_ns w) (w_nv w - 1) (w_arr w) (w_pass w) (w_pc w)) else s
      else
        if (0 <? w_ns w)%N then setw s i (mkWf (w_wg w) (w_st w) (w_inst w) (w_ns w - 1) (w_nv w) (w_arr w) (w_pass w) (w_pc w)) else s
    | None => s
    end
  | EEval b => eval fx b s
  | EFlush => flush s
  | ERestart => s     (* replayed requests get new IDs; nothing the scheduler reads changes *)
  end.

Definition run (fx : bool) (s : cu) (evs : list ev) : cu := fold_left (step fx) evs s.

(** ------------------------------------------------------------------
    Correspondence: a recorded run of the real compute unit is a list of
    environment events interleaved with check points (the state the real
    scheduler was in after a cycle). *)
Record snap := mkSnap {
  sn_st : list N;        (* wavefront.WfState codes *)
  sn_sc : list N;        (* OutstandingScalarMemAccess *)
  sn_vc : list N;        (* OutstandingVectorMemAccess *)
  sn_int : list nat;
  sn_bar : list nat
}.

(** [TChkD]: only the wavefronts whose observable fields changed since the
    previous check point (index, state code, scalar count, vector count), plus
    the two scheduler lists in full. *)
Inductive tev := TEv (e : ev) | TChk (c : snap) | TChkD (l : list (nat * N * N * N)) (int bar : list nat).

Definition st_code (s : wstate) : N :=
  match s with WReady => 1 | WRunning => 2 | WCompleted => 3 | WAtBarrier => 4 end.

Fixpoint list_eqb {A} (eqb : A -> A -> bool) (a b : list A) : bool :=
  match a, b with
  | [], [] => true
  | x :: a', y :: b' => eqb x y && list_eqb eqb a' b'
  | _, _ => false
  end.

Definition snap_ok (s : cu) (c : snap) : bool :=
  negb (crashed s) &&
  list_eqb N.eqb (map (fun w => st_code (w_st w)) (wfs s)) (sn_st c) &&
  list_eqb N.eqb (map out_s (wfs s)) (sn_sc c) &&
  list_eqb N.eqb (map out_v (wfs s)) (sn_vc c) &&
  list_eqb Nat.eqb (internal s) (sn_int c) &&
  list_eqb Nat.eqb (bbuf s) (sn_bar c).

Definition snapd_ok (s : cu) (l : list (nat * N * N * N)) (int bar : list nat) : bool :=
  negb (crashed s) &&
  forallb (fun '(i, st, sc, vc) =>
             match get s i with
             | Some w => N.eqb (st_code (w_st w)) st && N.eqb (out_s w) sc && N.eqb (out_v w) vc
             | None => false
             end) l &&
  list_eqb Nat.eqb (internal s) int &&
  list_eqb Nat.eqb (bbuf s) bar.

(** index of the first check point that differs, if any *)
Fixpoint replay (fx : bool) (k : nat) (s : cu) (t : list tev) : option nat * cu :=
  match t with
  | [] => (None, s)
  | TEv e :: r => replay fx (S k) (step fx s e) r
  | TChk c :: r => if snap_ok s c then replay fx (S k) s r else (Some k, s)
  | TChkD l a b :: r => if snapd_ok s l a b then replay fx (S k) s r else (Some k, s)
  end.

(** a recorded case: the trace, and the work-groups reported complete, in order *)
Record tcase := mkTCase { tc_trace : list tev; tc_sent : list nat }.

Definition check_tcase (fx : bool) (c : tcase) : option nat :=
  match replay fx 0 init (tc_trace c) with
  | (Some k, _) => Some k
  | (None, s) => if list_eqb Nat.eqb (sent s) (tc_sent c) then None else Some (length (tc_trace c))
  end.

Fixpoint mismatches_from (fx : bool) (i : nat) (cs : list tcase) : list (nat * nat) :=
  match cs with
  | [] => []
  | c :: r => match check_tcase fx c with
              | None => mismatches_from fx (S i) r
              | Some k => (i, k) :: mismatches_from fx (S i) r
              end
  end.
(** short names used by the generated case files *)
Definition em g n := TEv (EMap g n).
Definition ei i k := TEv (EIssue i k).
Definition ed i := TEv (EDone i).
Definition er i f := TEv (ERsp i f).
Definition ee b := TEv (EEval b).
Definition ck := TChkD.
Definition ef := TEv EFlush.
Definition es := TEv ERestart.

Definition mismatches := mismatches_from true 0.
Definition mismatches_old := mismatches_from false 0.

(** ------------------------------------------------------------------
    The emulator's barrier loop (amd/emu/computeunit.go).
    A wavefront's program, as far as the loop is concerned, is the list of the
    ways its successive run-until-barrier segments end. *)
Inductive seg := SBar | SEnd.

Record ewf := mkEwf { e_prog : list seg; e_completed : bool; e_atbarrier : bool }.

Inductive elog := LBar (i : nat) | LEnd (i : nat).

(** runWfUntilBarrier for every wavefront in order; [j] = index of the head.
    A wavefront whose program is exhausted without s_endpgm would run into
    undecodable memory: modelled as a crash. *)
Fixpoint run_all (j : nat) (l : list ewf) : list ewf * list elog * bool :=
  match l with
  | [] => ([], [], false)
  | w :: r =>
    let '(r', lg, cr) := run_all (S j) r in
    if e_completed w then (w :: r', lg, cr)
    else match e_prog w with
         | [] => (w :: r', lg, true)
         | SBar :: p => (mkEwf p false true :: r', LBar j :: lg, cr)
         | SEnd :: p => (mkEwf p true (e_atbarrier w) :: r', LEnd j :: lg, cr)
         end
  end.

(** resolveBarrier: None = log.Panic("not all wavefronts at barrier") *)
Definition resolve (fx : bool) (l : list ewf) : option (list ewf) :=
  if forallb e_completed l then Some l
  else if forallb (fun w => (fx && e_completed w) || e_atbarrier w) l
       then Some (map (fun w => if fx && e_completed w then w else mkEwf (e_prog w) (e_completed w) false) l)
       else None.

Inductive eresult := EOk | EPanic | ECrash | EFuel.

(** runWG: "for !isAllWfCompleted { for wf { runWfUntilBarrier }; resolveBarrier }" *)
Fixpoint run_wg (fx : bool) (fuel : nat) (l : list ewf) : eresult * list elog :=
  if forallb e_completed l then (EOk, [])
  else match fuel with
       | O => (EFuel, [])
       | S f =>
         let '(l1, lg, cr) := run_all 0 l in
         if cr then (ECrash, lg)
         else match resolve fx l1 with
              | None => (EPanic, lg)
              | Some l2 => let '(r, lg2) := run_wg fx f l2 in (r, lg ++ lg2)
              end
       end.

Definition emu_init (progs : list (list seg)) : list ewf := map (fun p => mkEwf p false false) progs.

(** enough rounds for any program: every round consumes one segment of every
    live wavefront *)
Definition emu_fuel (progs : list (list seg)) : nat := S (fold_right (fun p n => length p + n) 0 progs).

Definition emu_run (fx : bool) (progs : list (list seg)) : eresult * list elog :=
  run_wg fx (emu_fuel progs) (emu_init progs).

Definition elog_eqb (a b : elog) : bool :=
  match a, b with
  | LBar i, LBar j | LEnd i, LEnd j => i =? j
  | _, _ => false
  end.

(** emulator correspondence case: programs (per wavefront), observed outcome
    (0 ok, 1 panic), observed log *)
Record ecase := mkECase { ec_progs : list (list seg); ec_result : nat; ec_log : list elog }.

Definition check_ecase (fx : bool) (c : ecase) : bool :=
  let '(r, lg) := emu_run fx (ec_progs c) in
  match r, ec_result c with
  | EOk, 0 => list_eqb elog_eqb lg (ec_log c)
  | EPanic, 1 => true
  | _, _ => false
  end.

Fixpoint emismatches_from (fx : bool) (i : nat) (cs : list ecase) : list (nat * nat) :=
  match cs with
  | [] => []
  | c :: r => if check_ecase fx c then emismatches_from fx (S i) r else (i, 0) :: emismatches_from fx (S i) r
  end.
Definition emismatches := emismatches_from true 0.
