(** Proofs for C02: the timing-mode re-implementations (wavefront register
    initialisation, FLAT coalescing + write-back, scalar load splitting) compute
    what the emulator computes.  Models: InitRegs.v, Coalescer.v. *)
From Coq Require Import List Arith NArith Bool Lia ZifyN ZifyNat ZifyBool.
From VCu Require Import InitRegs Coalescer.
Import ListNotations.
Open Scope N_scope.

(** * 1. wavefront register initialisation *)

Lemma init_agree_fixed : forall f p w, emu_init fixed f p w = timing_init fixed f p w.
Proof. intros. reflexivity. Qed.

(** the code as found: equal when the code object is not V5 and neither of
    the two unsupported user-SGPR flags is set *)
Lemma init_agree_as_found : forall f p w,
  f_version f <> 5 -> f_queue_ptr f = false -> f_priv_seg_size f = false ->
  emu_init as_found f p w = timing_init as_found f p w.
Proof.
  intros f p w Hv Hq Hp. unfold emu_init, timing_init, as_found, sgprs, vgprs; simpl.
  rewrite Hq, Hp. unfold step at 3 6 9 12; simpl.
  apply N.eqb_neq in Hv. rewrite Hv. simpl. reflexivity.
Qed.

(** * generic list facts *)

Lemma nth_firstn_lt {A} (i k : nat) (l : list A) d : (i < k)%nat -> nth i (firstn k l) d = nth i l d.
Proof.
  revert k l; induction i; intros k l H; destruct k; try lia; destruct l; simpl; auto.
  apply IHi; lia.
Qed.

Lemma nth_skipn_add {A} (i k : nat) (l : list A) d : nth i (skipn k l) d = nth (k + i) l d.
Proof.
  revert l; induction k; intros l; simpl; auto. destruct l; simpl; auto. destruct i; auto.
Qed.

Lemma read_length m a n : length (read m a n) = n.
Proof. unfold read. rewrite map_length, seq_length. reflexivity. Qed.

Lemma nth_read m a n i : (i < n)%nat -> nth i (read m a n) 0 = m (a + N.of_nat i).
Proof.
  intros H. unfold read. set (f := fun i : nat => m (a + N.of_nat i)).
  rewrite (nth_indep _ 0 (f O)) by (rewrite map_length, seq_length; lia).
  rewrite map_nth, seq_nth by lia. reflexivity.
Qed.

Lemma nth_error_read m a n i : (i < n)%nat -> nth_error (read m a n) i = Some (m (a + N.of_nat i)).
Proof.
  intros H. rewrite <- (nth_read m a n i H). apply nth_error_nth'. rewrite read_length. lia.
Qed.

Lemma le32_ext a b : (forall i, (i < 4)%nat -> nth i a 0 = nth i b 0) -> le32 a = le32 b.
Proof. intros H. unfold le32. rewrite !H by lia. reflexivity. Qed.

Lemma le32_read m a : le32 (read m a 4) = m a + 256 * m (a + 1) + 65536 * m (a + 2) + 16777216 * m (a + 3).
Proof. unfold le32. rewrite !nth_read by lia. simpl. rewrite N.add_0_r. reflexivity. Qed.

(** [collect]: succeeds iff every element does; the result is the union *)
Lemma collect_spec {A B} (f : A -> option (list B)) l :
  (forall x, In x l -> exists y, f x = Some y) ->
  exists r, collect f l = Some r /\
            (forall b, In b r <-> exists x y, In x l /\ f x = Some y /\ In b y).
Proof.
  induction l as [|x l IH]; intros H; simpl.
  - exists []. split; auto. intros b; split; [intros []|intros (x & y & [] & _)].
  - destruct (H x (or_introl eq_refl)) as [y Hy]. rewrite Hy.
    destruct IH as (r & Hr & Hin). { intros; apply H; right; auto. }
    rewrite Hr. exists (y ++ r). split; auto. intros b. rewrite in_app_iff, Hin. split.
    + intros [Hb|(x' & y' & Hx' & Hy' & Hb)].
      * exists x, y; auto.
      * exists x', y'; auto.
    + intros (x' & y' & [->|Hx'] & Hy' & Hb).
      * rewrite Hy in Hy'. inversion Hy'; subst. auto.
      * right. exists x', y'; auto.
Qed.

(** * register files: writes that all agree with one function of the key *)

Lemma vkey_eqb_eq a b : vkey_eqb a b = true <-> a = b.
Proof.
  unfold vkey_eqb. destruct a, b; simpl. rewrite andb_true_iff, !N.eqb_eq. split; [intros []; subst; auto|intros H; inversion H; auto].
Qed.

Lemma apply_v_consistent (f : vkey -> N) ws : forall rf k,
  (forall kv, In kv ws -> snd kv = f (fst kv)) ->
  apply_v ws rf k = if existsb (vkey_eqb k) (map fst ws) then f k else rf k.
Proof.
  unfold apply_v. induction ws as [|kv ws IH]; intros rf k H; simpl; auto.
  rewrite IH by (intros; apply H; right; auto).
  destruct (existsb (vkey_eqb k) (map fst ws)); [rewrite orb_true_r; auto|].
  rewrite orb_false_r. destruct (vkey_eqb k (fst kv)) eqn:E; auto.
  apply vkey_eqb_eq in E. subst. apply H. left; auto.
Qed.

Lemma existsb_vkey_In k l : existsb (vkey_eqb k) l = true <-> In k l.
Proof.
  rewrite existsb_exists. split.
  - intros (x & Hx & E). apply vkey_eqb_eq in E. subst; auto.
  - intros H. exists k. split; auto. apply vkey_eqb_eq; auto.
Qed.

Lemma apply_v_same_keys (f : vkey -> N) w1 w2 rf k :
  (forall kv, In kv w1 -> snd kv = f (fst kv)) ->
  (forall kv, In kv w2 -> snd kv = f (fst kv)) ->
  (forall k, In k (map fst w1) <-> In k (map fst w2)) ->
  apply_v w1 rf k = apply_v w2 rf k.
Proof.
  intros H1 H2 Hk. rewrite (apply_v_consistent f w1), (apply_v_consistent f w2) by auto.
  destruct (existsb (vkey_eqb k) (map fst w1)) eqn:E1, (existsb (vkey_eqb k) (map fst w2)) eqn:E2; auto.
  - apply existsb_vkey_In, Hk, existsb_vkey_In in E1. congruence.
  - apply existsb_vkey_In, Hk, existsb_vkey_In in E2. congruence.
Qed.

(** * 2. cache-line arithmetic *)
Section WithLine.
Variable lg : N.
Notation LSz := (LS lg).
Notation lineOf := (line lg).
Notation offOf := (off lg).

Lemma LS_pos : 0 < LSz.
Proof. unfold LS. apply N.neq_0_lt_0. apply N.pow_nonzero. discriminate. Qed.

Lemma line_off a : a = lineOf a + offOf a.
Proof. unfold line, off. pose proof LS_pos. rewrite N.mul_comm. apply N.div_mod. lia. Qed.

Lemma off_lt a : offOf a < LSz.
Proof. unfold off. apply N.mod_lt. pose proof LS_pos; lia. Qed.

Lemma line_aligned a : lineOf a mod LSz = 0.
Proof. unfold line. apply N.mod_mul. pose proof LS_pos; lia. Qed.

Lemma line_idem a : lineOf (lineOf a) = lineOf a.
Proof. unfold line. rewrite N.div_mul by (pose proof LS_pos; lia). reflexivity. Qed.

Lemma line_of_aligned r : r mod LSz = 0 -> lineOf r = r.
Proof.
  intros H. unfold line. pose proof LS_pos.
  rewrite (N.div_mod r LSz) at 2 by lia. rewrite H. lia.
Qed.

Lemma line_range r x : r mod LSz = 0 -> (r <= x < r + LSz <-> lineOf x = r).
Proof.
  intros Hr. pose proof LS_pos as Hp. split.
  - intros [H1 H2]. unfold line.
    assert (Hq : r = LSz * (r / LSz)) by (rewrite (N.div_mod r LSz) at 1 by lia; rewrite Hr; lia).
    assert (x / LSz = r / LSz).
    { symmetry. apply (N.div_unique x LSz (r / LSz) (x - r)); lia. }
    rewrite H. lia.
  - intros <-. pose proof (line_off x). pose proof (off_lt x). lia.
Qed.

(** * 3. FLAT loads *)

Lemma in_lanes l : In l lanes <-> l < 64.
Proof.
  unfold lanes. rewrite in_map_iff. split.
  - intros (i & <- & Hi). apply in_seq in Hi. lia.
  - intros H. exists (N.to_nat l). split; [lia|]. apply in_seq. lia.
Qed.

Lemma in_accesses exec addrs rc l j x :
  In (l, j, x) (accesses exec addrs rc) <->
  In l lanes /\ N.testbit exec l = true /\ (exists j', (j' < rc)%nat /\ j = N.of_nat j') /\
  x = nth (N.to_nat l) addrs 0 + 4 * j.
Proof.
  unfold accesses. rewrite in_flat_map. split.
  - intros (l' & Hl & Hin). destruct (N.testbit exec l') eqn:E; [|destruct Hin].
    apply in_map_iff in Hin. destruct Hin as (j' & Heq & Hj). inversion Heq; subst.
    apply in_seq in Hj. repeat split; auto. exists j'. split; [lia|auto].
  - intros (Hl & E & (j' & Hj & ->) & ->). exists l. split; auto. rewrite E.
    apply in_map_iff. exists j'. split; auto. apply in_seq. lia.
Qed.

Lemma add_line_incl reqs a r : In r reqs -> In r (add_line lg reqs a).
Proof. unfold add_line. destruct (existsb _ reqs); auto. intros; apply in_or_app; auto. Qed.

Lemma fold_add_line_incl xs : forall reqs r, In r reqs -> In r (fold_left (add_line lg) xs reqs).
Proof. induction xs; simpl; auto. intros. apply IHxs, add_line_incl; auto. Qed.

Lemma fold_add_line_covers xs : forall reqs x, In x xs ->
  exists r, In r (fold_left (add_line lg) xs reqs) /\ lineOf x = lineOf r.
Proof.
  induction xs as [|y xs IH]; intros reqs x []; simpl.
  - subst y. unfold add_line at 2. destruct (existsb _ reqs) eqn:E.
    + apply existsb_exists in E. destruct E as (r & Hr & E). apply N.eqb_eq in E.
      exists r. split; auto. apply fold_add_line_incl; auto.
    + exists (lineOf x). split; [|rewrite line_idem; auto].
      apply fold_add_line_incl. apply in_or_app. right. left. auto.
  - apply IH; auto.
Qed.

Lemma fold_add_line_aligned xs : forall reqs,
  (forall r, In r reqs -> r mod LSz = 0) ->
  forall r, In r (fold_left (add_line lg) xs reqs) -> r mod LSz = 0.
Proof.
  induction xs as [|y xs IH]; simpl; auto. intros reqs H. apply IH.
  intros r. unfold add_line. destruct (existsb _ reqs); auto. rewrite in_app_iff.
  intros [Hr|[<-|[]]]; auto. apply line_aligned.
Qed.

Lemma read_reqs_aligned exec addrs rc r : In r (read_reqs lg exec addrs rc) -> r mod LSz = 0.
Proof. unfold read_reqs. apply fold_add_line_aligned. intros ? []. Qed.

(** value a correct load leaves in register [snd k] of lane [fst k] *)
Definition expect (op : N) (addrs : list N) (dst : N) (m : mem) (k : vkey) : N :=
  let a := nth (N.to_nat (fst k)) addrs 0 + 4 * (snd k - dst) in
  if op =? 16 then m a
  else if op =? 17 then sext8 (m a)
  else if op =? 18 then m a + 256 * m (a + 1)
  else le32 (read m a 4).

(** no dword (byte, short) of an active lane's access crosses a line boundary *)
Definition no_straddle (op exec : N) (addrs : list N) (rc : nat) : Prop :=
  forall l j x, In (l, j, x) (accesses exec addrs rc) ->
    if (op =? 16) || (op =? 17) then True
    else if op =? 18 then offOf x + 2 <= LSz
    else offOf x + 4 <= LSz.

Lemma wb_lane_ok op d l r x m rr :
  emu_load_op op = true -> rr mod LSz = 0 -> lineOf x = rr -> d = read m rr (N.to_nat LSz) ->
  (if (op =? 16) || (op =? 17) then True else if op =? 18 then offOf x + 2 <= LSz else offOf x + 4 <= LSz) ->
  exists v, wb_lane fixed op d (l, r, offOf x) = Some [((l, r), v)] /\
            v = (if op =? 16 then m x else if op =? 17 then sext8 (m x)
                 else if op =? 18 then m x + 256 * m (x + 1) else le32 (read m x 4)).
Proof.
  intros Hop Hal Hline Hd Hns. pose proof (off_lt x) as Ho. pose proof (line_off x) as Hx. rewrite Hline in Hx.
  assert (Hlen : length d = N.to_nat LSz) by (subst d; apply read_length).
  assert (Hnth : forall i, (N.to_nat (offOf x) + i < N.to_nat LSz)%nat -> nth (N.to_nat (offOf x) + i) d 0 = m (x + N.of_nat i)).
  { intros i Hi. subst d. rewrite nth_read by lia. f_equal. lia. }
  assert (Hne : nth_opt d (N.to_nat (offOf x)) = Some (m x)).
  { unfold nth_opt. subst d. rewrite nth_error_read by lia. f_equal. f_equal. lia. }
  unfold wb_lane. cbn [fst snd v_subdword_wb fixed].
  unfold emu_load_op in Hop. simpl in Hop.
  destruct (op =? 16) eqn:E16.
  { rewrite Hne. eexists; split; eauto. }
  destruct (op =? 17) eqn:E17.
  { simpl. rewrite Hne. eexists; split; eauto. }
  destruct (op =? 18) eqn:E18.
  { simpl in *. destruct (length d <? N.to_nat (offOf x) + 2)%nat eqn:El.
    - apply Nat.ltb_lt in El. lia.
    - eexists; split; eauto. pose proof (Hnth 0%nat) as H0. pose proof (Hnth 1%nat) as H1.
      rewrite Nat.add_0_r in H0. rewrite H0, H1 by lia. simpl. rewrite N.add_0_r. reflexivity. }
  simpl in Hns. simpl.
  assert (El : (length d <? N.to_nat (offOf x) + 4)%nat = false) by (apply Nat.ltb_ge; lia).
  rewrite El. simpl.
  replace (Nat.min (N.to_nat (offOf x) + 4) (length d) - N.to_nat (offOf x))%nat with 4%nat by lia.
  assert (Hl4 : length (firstn 4 (skipn (N.to_nat (offOf x)) d)) = 4%nat).
  { rewrite firstn_length, skipn_length. lia. }
  rewrite Hl4. change (4 <? 4)%nat with false. cbv iota. eexists; split; eauto.
  apply le32_ext. intros i Hi. rewrite nth_firstn_lt, nth_skipn_add, Hnth, nth_read by lia. reflexivity.
Qed.

End WithLine.

Definition valof (op : N) (m : mem) (x : N) : N :=
  if op =? 16 then m x else if op =? 17 then sext8 (m x)
  else if op =? 18 then m x + 256 * m (x + 1) else le32 (read m x 4).

Lemma in_combine_seq {A} (vals : list A) d : forall s n j v,
  In (j, v) (combine (seq s n) vals) <-> (s <= j < s + Nat.min n (length vals))%nat /\ v = nth (j - s) vals d.
Proof.
  induction vals as [|a vals IH]; intros s n j v.
  - destruct n; simpl; split; try tauto; intros [H _]; lia.
  - destruct n; simpl; [split; [tauto|intros [H _]; lia]|].
    rewrite IH. split.
    + intros [H|[H ->]]; [inversion H; subst; split; [lia|rewrite Nat.sub_diag; auto]|].
      split; [lia|]. replace (j - s)%nat with (S (j - S s)) by lia. reflexivity.
    + intros [H ->]. destruct (Nat.eq_dec j s) as [->|Hne].
      * left. rewrite Nat.sub_diag. reflexivity.
      * right. split; [lia|]. replace (j - s)%nat with (S (j - S s)) by lia. reflexivity.
Qed.

Lemma dword_of_read m a n j : (4 * j + 4 <= n)%nat -> dword_of (read m a n) j = le32 (read m (a + 4 * N.of_nat j) 4).
Proof.
  intros H. unfold dword_of. apply le32_ext. intros i Hi.
  rewrite nth_firstn_lt, nth_skipn_add, !nth_read by lia. f_equal. lia.
Qed.

Lemma emu_lane_spec op m a rc : emu_load_op op = true -> reg_count op = Some rc ->
  length (emu_lane_load op m a) = rc /\
  forall j, (j < rc)%nat -> nth j (emu_lane_load op m a) 0 = valof op m (a + 4 * N.of_nat j).
Proof.
  intros Hop Hrc. unfold emu_load_op in Hop. simpl in Hop. rewrite !orb_true_iff, !N.eqb_eq in Hop.
  destruct Hop as [H|[H|[H|[H|[H|[H|H]]]]]]; try discriminate H; subst op; simpl in Hrc; inversion Hrc; subst rc;
    (split; [reflexivity|]); intros j Hj; unfold valof; simpl.
  - destruct j; [|lia]. simpl. unfold le32; simpl. rewrite !N.add_0_r. lia.
  - destruct j; [|lia]. simpl. rewrite !N.add_0_r. reflexivity.
  - destruct j; [|lia]. simpl. unfold le32; simpl. rewrite !N.add_0_r. lia.
  - destruct j; [|lia]. simpl. rewrite (dword_of_read m a 4 0) by lia. reflexivity.
  - destruct j as [|[|j]]; try lia; simpl;
      [rewrite (dword_of_read m a 8 0) by lia|rewrite (dword_of_read m a 8 1) by lia]; reflexivity.
  - destruct j as [|[|[|[|j]]]]; try lia; simpl;
      [rewrite (dword_of_read m a 16 0) by lia|rewrite (dword_of_read m a 16 1) by lia
      |rewrite (dword_of_read m a 16 2) by lia|rewrite (dword_of_read m a 16 3) by lia]; reflexivity.
Qed.

Lemma reg_count_le4 op rc : reg_count op = Some rc -> (rc <= 4)%nat.
Proof.
  unfold reg_count. repeat match goal with |- context [if ?c then _ else _] => destruct c end;
    intros H; inversion H; lia.
Qed.

Section Loads.
Variable lg : N.

(** what a correct FLAT load writes: for every access (lane, j, x) the value at x *)
Definition Wr (op exec : N) (addrs : list N) (rc : nat) (dst : N) (m : mem) (kv : vwrite) : Prop :=
  exists l j x, In (l, j, x) (accesses exec addrs rc) /\ kv = ((l, dst + j), valof op m x).

Lemma emu_writes op exec addrs dst m rc : emu_load_op op = true -> reg_count op = Some rc ->
  exists we, emu_load op exec addrs dst m = Some we /\ forall kv, In kv we <-> Wr op exec addrs rc dst m kv.
Proof.
  intros Hop Hrc. unfold emu_load. rewrite Hop. eexists; split; [reflexivity|].
  pose proof (reg_count_le4 _ _ Hrc) as H4.
  intros kv. rewrite in_flat_map. unfold Wr. split.
  - intros (l & Hl & Hin). destruct (N.testbit exec l) eqn:E; [|destruct Hin].
    apply in_map_iff in Hin. destruct Hin as ((j & v) & <- & Hjv).
    apply (in_combine_seq _ 0) in Hjv. destruct Hjv as [Hj ->].
    destruct (emu_lane_spec op m (nth (N.to_nat l) addrs 0) rc Hop Hrc) as [Hlen Hv].
    rewrite Hlen in Hj. cbn [fst snd] in *.
    exists l, (N.of_nat j), (nth (N.to_nat l) addrs 0 + 4 * N.of_nat j). split.
    + apply in_accesses. repeat split; auto. exists j. split; [lia|auto].
    + rewrite Nat.sub_0_r, Hv by lia. reflexivity.
  - intros (l & j & x & Hacc & ->). apply in_accesses in Hacc.
    destruct Hacc as (Hl & E & (j' & Hj & ->) & ->). exists l. split; auto. rewrite E.
    apply in_map_iff. exists (j', valof op m (nth (N.to_nat l) addrs 0 + 4 * N.of_nat j')). split; [reflexivity|].
    destruct (emu_lane_spec op m (nth (N.to_nat l) addrs 0) rc Hop Hrc) as [Hlen Hv].
    apply (in_combine_seq _ 0). rewrite Hlen. split; [lia|]. rewrite Nat.sub_0_r, Hv by lia. reflexivity.
Qed.

Lemma timing_writes op exec addrs dst m rc ts : emu_load_op op = true ->
  no_straddle lg op exec addrs rc ->
  (forall t, In t ts <-> In t (read_txns lg exec addrs rc dst)) ->
  exists wt, timing_load_on lg fixed op m ts = Some wt /\ forall kv, In kv wt <-> Wr op exec addrs rc dst m kv.
Proof.
  intros Hop Hns Hts. unfold timing_load_on.
  (* every lane-info entry of every transaction writes the expected value *)
  assert (Hlane : forall t, In t ts -> forall li, In li (snd t) ->
            exists l j x, In (l, j, x) (accesses exec addrs rc) /\ line lg x = fst t /\
              wb_lane fixed op (read m (fst t) (N.to_nat (LS lg))) li = Some [((l, dst + j), valof op m x)]).
  { intros t Ht li Hli. apply Hts in Ht. unfold read_txns in Ht. apply in_map_iff in Ht.
    destruct Ht as (r & <- & Hr). simpl in *. unfold lane_info in Hli. apply in_map_iff in Hli.
    destruct Hli as (((l & j) & x) & <- & Hf). apply filter_In in Hf. destruct Hf as [Hacc Hline].
    simpl in *. apply N.eqb_eq in Hline. pose proof (read_reqs_aligned lg _ _ _ _ Hr) as Hal.
    rewrite (line_of_aligned lg r Hal) in Hline.
    exists l, j, x. split; auto. split; auto.
    destruct (wb_lane_ok lg op _ l (dst + j) x m r Hop Hal Hline eq_refl (Hns _ _ _ Hacc)) as (v & Hw & ->).
    exact Hw. }
  destruct (collect_spec (wb_txn lg fixed op m) ts) as (wt & Hwt & Hin).
  { intros t Ht. unfold wb_txn.
    destruct (collect_spec (wb_lane fixed op (read m (fst t) (N.to_nat (LS lg)))) (snd t)) as (y & Hy & _).
    - intros li Hli. destruct (Hlane t Ht li Hli) as (l & j & x & _ & _ & H). eauto.
    - eauto. }
  exists wt. split; auto. intros kv. rewrite Hin. unfold Wr. split.
  - intros (t & y & Ht & Hy & Hkv). unfold wb_txn in Hy.
    destruct (collect_spec (wb_lane fixed op (read m (fst t) (N.to_nat (LS lg)))) (snd t)) as (y' & Hy' & Hin').
    { intros li Hli. destruct (Hlane t Ht li Hli) as (l & j & x & _ & _ & H). eauto. }
    rewrite Hy in Hy'. inversion Hy'; subst y'. apply Hin' in Hkv.
    destruct Hkv as (li & z & Hli & Hz & Hkv). destruct (Hlane t Ht li Hli) as (l & j & x & Hacc & _ & H).
    rewrite H in Hz. inversion Hz; subst z. destruct Hkv as [<-|[]]. eauto.
  - intros (l & j & x & Hacc & ->).
    (* the line of x has a transaction *)
    destruct (fold_add_line_covers lg (map snd (accesses exec addrs rc)) [] x) as (r & Hr & Hline).
    { apply in_map_iff. exists (l, j, x). auto. }
    fold (read_reqs lg exec addrs rc) in Hr.
    set (t := (r, lane_info lg r exec addrs rc dst)).
    assert (Ht : In t ts). { apply Hts. unfold read_txns. apply in_map_iff. exists r. auto. }
    assert (Hli : In (l, dst + j, off lg x) (snd t)).
    { simpl. unfold lane_info. apply in_map_iff. exists (l, j, x). split; auto.
      apply filter_In. split; auto. simpl. apply N.eqb_eq. auto. }
    destruct (Hlane t Ht _ Hli) as (l' & j' & x' & Hacc' & Hl' & Hw).
    destruct (collect_spec (wb_lane fixed op (read m (fst t) (N.to_nat (LS lg)))) (snd t)) as (y & Hy & Hin').
    { intros li Hli'. destruct (Hlane t Ht li Hli') as (? & ? & ? & _ & _ & H). eauto. }
    exists t, y. split; auto. split; [exact Hy|]. apply Hin'.
    (* compute the write of this very entry *)
    pose proof (read_reqs_aligned lg _ _ _ _ Hr) as Hal.
    rewrite (line_of_aligned lg r Hal) in Hline.
    destruct (wb_lane_ok lg op (read m r (N.to_nat (LS lg))) l (dst + j) x m r Hop Hal Hline eq_refl (Hns _ _ _ Hacc)) as (v & Hw2 & ->).
    exists (l, dst + j, off lg x). eexists. split; [exact Hli|]. split; [exact Hw2|]. left. reflexivity.
Qed.

Lemma Wr_expect op exec addrs rc dst m kv : Wr op exec addrs rc dst m kv -> snd kv = expect op addrs dst m (fst kv).
Proof.
  intros (l & j & x & Hacc & ->). apply in_accesses in Hacc. destruct Hacc as (_ & _ & _ & ->).
  unfold expect, valof. simpl. replace (dst + j - dst) with j by lia. reflexivity.
Qed.

Theorem load_eq op exec addrs dst m rf rc ts :
  emu_load_op op = true -> reg_count op = Some rc -> no_straddle lg op exec addrs rc ->
  (forall t, In t ts <-> In t (read_txns lg exec addrs rc dst)) ->
  exists we wt, emu_load op exec addrs dst m = Some we /\
                timing_load_on lg fixed op m ts = Some wt /\
                forall k, apply_v wt rf k = apply_v we rf k.
Proof.
  intros Hop Hrc Hns Hts.
  destruct (emu_writes op exec addrs dst m rc Hop Hrc) as (we & He & Hwe).
  destruct (timing_writes op exec addrs dst m rc ts Hop Hns Hts) as (wt & Ht & Hwt).
  exists we, wt. repeat split; auto. intros k.
  apply (apply_v_same_keys (expect op addrs dst m)).
  - intros kv H. apply Hwt in H. eapply Wr_expect; eauto.
  - intros kv H. apply Hwe in H. eapply Wr_expect; eauto.
  - intros k'. rewrite !in_map_iff. split; intros (kv & <- & H); exists kv; split; auto.
    + apply Hwe, Hwt; auto.
    + apply Hwt, Hwe; auto.
Qed.

End Loads.

(** * 4. FLAT stores *)
Section Stores.
Variable lg : N.
Notation LSz := (LS lg).

(** memory after a sequence of byte-string writes *)
Definition seq_mem (ws : list (N * list N)) (m : mem) : mem :=
  fold_left (fun m w => write m (fst w) (snd w)) ws m.

Definition wf_req (r : wreq) : Prop := wq_addr r mod LSz = 0 /\ length (wq_bytes r) = N.to_nat LSz.
Definition wf_reqs (rs : list wreq) : Prop := Forall wf_req rs /\ NoDup (map wq_addr rs).

Lemma apply_wreqs_ext rs : forall m1 m2, (forall x, m1 x = m2 x) -> forall x, apply_wreqs rs m1 x = apply_wreqs rs m2 x.
Proof.
  unfold apply_wreqs. induction rs as [|r rs IH]; simpl; auto. intros m1 m2 H. apply IH.
  intros x. unfold apply_wreq. rewrite H. reflexivity.
Qed.

Lemma write_in m a bs x : a <= x < a + N.of_nat (length bs) -> write m a bs x = nth (N.to_nat (x - a)) bs 0.
Proof. intros H. unfold write. replace ((a <=? x) && (x <? a + N.of_nat (length bs))) with true by lia. reflexivity. Qed.

Lemma write_out m a bs x : ~ (a <= x < a + N.of_nat (length bs)) -> write m a bs x = m x.
Proof. intros H. unfold write. replace ((a <=? x) && (x <? a + N.of_nat (length bs))) with false by lia. reflexivity. Qed.

(** a request for another line commutes with a write that stays inside its own line *)
Lemma apply_wreq_commute m q a bs x :
  wf_req q -> wq_addr q <> line lg a -> off lg a + N.of_nat (length bs) <= LSz ->
  apply_wreq (write m a bs) q x = write (apply_wreq m q) a bs x.
Proof.
  intros [Hal Hlen] Hne Hfit. pose proof (line_off lg a) as Ha. pose proof (line_aligned lg a) as Hla.
  destruct (N.le_gt_cases a x) as [H1|H1]; [destruct (N.lt_ge_cases x (a + N.of_nat (length bs))) as [H2|H2]|].
  - (* x inside the written range: in line(a), hence outside q *)
    rewrite (write_in _ a bs x) by lia.
    assert (Hx : line lg x = line lg a). { apply (line_range lg (line lg a) x Hla). lia. }
    unfold apply_wreq. rewrite Hlen.
    destruct ((wq_addr q <=? x) && (x <? wq_addr q + N.of_nat (N.to_nat LSz))) eqn:E.
    + exfalso. apply Hne. rewrite <- Hx. symmetry. apply (line_range lg _ x Hal). lia.
    + apply write_in. lia.
  - rewrite (write_out _ a bs x) by lia. unfold apply_wreq. rewrite (write_out m a bs x) by lia. reflexivity.
  - rewrite (write_out _ a bs x) by lia. unfold apply_wreq. rewrite (write_out m a bs x) by lia. reflexivity.
Qed.

Lemma apply_wreqs_commute rs : forall m a bs x,
  Forall wf_req rs -> ~ In (line lg a) (map wq_addr rs) -> off lg a + N.of_nat (length bs) <= LSz ->
  apply_wreqs rs (write m a bs) x = write (apply_wreqs rs m) a bs x.
Proof.
  unfold apply_wreqs. induction rs as [|q rs IH]; intros m a bs x Hwf Hni Hfit; simpl; auto.
  inversion Hwf; subst. simpl in Hni.
  rewrite <- IH by tauto. apply apply_wreqs_ext. intros y. apply apply_wreq_commute; auto.
Qed.

Lemma nth_overlay o bs l i : (o + length bs <= length l)%nat ->
  nth i (overlay o bs l) None =
  if (o <=? i)%nat && (i <? o + length bs)%nat then Some (nth (i - o) bs 0) else nth i l None.
Proof.
  intros H. unfold overlay.
  assert (Hf : length (firstn o l) = o) by (rewrite firstn_length; lia).
  destruct (Nat.ltb_spec i o) as [Hi|Hi].
  - rewrite app_nth1 by lia. replace (o <=? i)%nat with false by lia. simpl. apply nth_firstn_lt; auto.
  - rewrite app_nth2 by lia. rewrite Hf. replace (o <=? i)%nat with true by lia. simpl.
    destruct (Nat.ltb_spec i (o + length bs)) as [Hj|Hj].
    + rewrite app_nth1 by (rewrite map_length; lia).
      rewrite (nth_indep _ None (Some 0)) by (rewrite map_length; lia). rewrite (map_nth Some). reflexivity.
    + rewrite app_nth2 by (rewrite map_length; lia). rewrite map_length, nth_skipn_add. f_equal. lia.
Qed.

Lemma overlay_length o bs l : (o + length bs <= length l)%nat -> length (overlay o bs l) = length l.
Proof. intros H. unfold overlay. rewrite !app_length, firstn_length, map_length, skipn_length. lia. Qed.

(** merging into the request of the same line = that request, then the write *)
Lemma merge_ok r a bs : wf_req r -> wq_addr r = line lg a -> off lg a + N.of_nat (length bs) <= LSz ->
  exists r', merge lg r a bs = Some r' /\ wf_req r' /\ wq_addr r' = wq_addr r /\
             forall m x, apply_wreq m r' x = write (apply_wreq m r) a bs x.
Proof.
  intros [Hal Hlen] Hr Hfit. pose proof (line_off lg a) as Ha. pose proof (off_lt lg a) as Ho.
  unfold merge. replace (a <? wq_addr r) with false by lia.
  replace (wq_addr r + N.of_nat (length (wq_bytes r)) <? a + N.of_nat (length bs)) with false by lia.
  eexists; split; [reflexivity|]. simpl.
  assert (Hov : (N.to_nat (off lg a) + length bs <= length (wq_bytes r))%nat) by lia.
  split; [split; simpl; [auto|rewrite overlay_length; auto]|]. split; auto.
  intros m x. unfold apply_wreq at 1. simpl. rewrite overlay_length by auto. rewrite Hlen.
  destruct ((wq_addr r <=? x) && (x <? wq_addr r + N.of_nat (N.to_nat LSz))) eqn:E.
  - rewrite nth_overlay by auto.
    destruct ((N.to_nat (off lg a) <=? N.to_nat (x - wq_addr r))%nat && (N.to_nat (x - wq_addr r) <? N.to_nat (off lg a) + length bs)%nat) eqn:E2.
    + rewrite write_in by lia. f_equal. lia.
    + rewrite write_out by lia. unfold apply_wreq. rewrite Hlen, E. reflexivity.
  - rewrite write_out by lia. unfold apply_wreq. rewrite Hlen, E. reflexivity.
Qed.

Lemma fresh_ok a bs : off lg a + N.of_nat (length bs) <= LSz ->
  exists r', merge lg (mkW (line lg a) (repeat None (N.to_nat LSz))) a bs = Some r' /\ wf_req r' /\
             wq_addr r' = line lg a /\ forall m x, apply_wreq m r' x = write m a bs x.
Proof.
  intros Hfit.
  assert (Hwf : wf_req (mkW (line lg a) (repeat None (N.to_nat LSz)))).
  { split; simpl; [apply line_aligned|apply repeat_length]. }
  destruct (merge_ok _ a bs Hwf eq_refl Hfit) as (r' & Hm & Hwf' & Had & Hap).
  exists r'. repeat split; auto; try apply Hwf'. intros m x. rewrite Hap.
  destruct (N.le_gt_cases a x) as [H1|H1]; [destruct (N.lt_ge_cases x (a + N.of_nat (length bs))) as [H2|H2]|].
  - rewrite !write_in by lia. reflexivity.
  - rewrite !write_out by lia. unfold apply_wreq. simpl.
    destruct (_ && _); auto. rewrite nth_repeat. reflexivity.
  - rewrite !write_out by lia. unfold apply_wreq. simpl.
    destruct (_ && _); auto. rewrite nth_repeat. reflexivity.
Qed.

Lemma foc_ok rs : forall a bs, wf_reqs rs -> off lg a + N.of_nat (length bs) <= LSz ->
  exists rs', foc lg rs a bs = Some rs' /\ wf_reqs rs' /\
    (forall y, In y (map wq_addr rs') <-> In y (map wq_addr rs) \/ y = line lg a) /\
    forall m x, apply_wreqs rs' m x = write (apply_wreqs rs m) a bs x.
Proof.
  induction rs as [|r rs IH]; intros a bs [Hwf Hnd] Hfit; simpl.
  - destruct (fresh_ok a bs Hfit) as (r' & -> & Hwf' & Had & Hap).
    eexists; split; [reflexivity|]. split; [split; [constructor; auto|simpl; constructor; auto; constructor]|].
    split; [simpl; rewrite Had; intuition|]. intros m x. apply Hap.
  - inversion Hwf as [|? ? Hr Hrs]; subst. simpl in Hnd. inversion Hnd as [|? ? Hni Hnd']; subst.
    rewrite (line_of_aligned lg (wq_addr r)) by apply Hr.
    destruct (line lg a =? wq_addr r) eqn:E.
    + apply N.eqb_eq in E. destruct (merge_ok r a bs Hr (eq_sym E) Hfit) as (r' & -> & Hwf' & Had & Hap).
      eexists; split; [reflexivity|]. split; [split; [constructor; auto|simpl; rewrite Had; constructor; auto]|].
      split; [simpl; rewrite Had; intros y; split; [intuition|intros [H|H]; [auto|left; congruence]]|].
      intros m x. unfold apply_wreqs; simpl. fold (apply_wreqs rs (apply_wreq m r')). fold (apply_wreqs rs (apply_wreq m r)).
      rewrite <- apply_wreqs_commute by (auto; rewrite E; auto).
      apply apply_wreqs_ext. intros y. apply Hap.
    + apply N.eqb_neq in E. destruct (IH a bs (conj Hrs Hnd') Hfit) as (rs' & -> & [Hwf' Hnd''] & Hkeys & Hap).
      eexists; split; [reflexivity|]. split; [split; [constructor; auto|]|].
      * simpl. constructor; auto. intros Hin. apply Hkeys in Hin. destruct Hin; auto.
      * split; [simpl; intros y; rewrite Hkeys; intuition|].
        intros m x. unfold apply_wreqs; simpl. apply Hap.
Qed.

Lemma foc_all_ok ws : forall rs,
  wf_reqs rs -> (forall w, In w ws -> off lg (fst w) + N.of_nat (length (snd w)) <= LSz) ->
  exists rs', foc_all lg ws rs = Some rs' /\ wf_reqs rs' /\
    forall m x, apply_wreqs rs' m x = seq_mem ws (apply_wreqs rs m) x.
Proof.
  unfold foc_all, seq_mem. induction ws as [|w ws IH]; intros rs Hwf Hfit; simpl.
  - exists rs. auto.
  - destruct (foc_ok rs (fst w) (snd w) Hwf (Hfit w (or_introl eq_refl))) as (rs1 & -> & Hwf1 & _ & Hap1).
    destruct (IH rs1 Hwf1 (fun w' H => Hfit w' (or_intror H))) as (rs' & Hf & Hwf' & Hap).
    exists rs'. split; auto. split; auto. intros m x. rewrite Hap.
    (* seq_mem respects pointwise equality *)
    clear - Hap1. revert x. generalize (apply_wreqs rs1 m) (write (apply_wreqs rs m) (fst w) (snd w)) (Hap1 m).
    induction ws as [|w' ws IHws]; intros m1 m2 H x; simpl; auto.
    apply IHws. intros y. unfold write. rewrite H. reflexivity.
Qed.

End Stores.

Lemma seq_mem_ext ws : forall m1 m2, (forall x, m1 x = m2 x) -> forall x, seq_mem ws m1 x = seq_mem ws m2 x.
Proof.
  unfold seq_mem. induction ws as [|w ws IH]; simpl; auto. intros m1 m2 H. apply IH.
  intros y. unfold write. rewrite H. reflexivity.
Qed.

Lemma seq_mem_app w1 w2 m : seq_mem (w1 ++ w2) m = seq_mem w2 (seq_mem w1 m).
Proof. unfold seq_mem. apply fold_left_app. Qed.

Lemma write_app m a b1 b2 x : write m a (b1 ++ b2) x = write (write m a b1) (a + N.of_nat (length b1)) b2 x.
Proof.
  destruct (N.le_gt_cases a x) as [H1|H1].
  - destruct (N.lt_ge_cases x (a + N.of_nat (length b1))) as [H2|H2].
    + rewrite write_in by (rewrite app_length; lia). rewrite (write_out _ (a + N.of_nat (length b1))) by lia.
      rewrite write_in by lia. apply app_nth1. lia.
    + destruct (N.lt_ge_cases x (a + N.of_nat (length b1) + N.of_nat (length b2))) as [H3|H3].
      * rewrite write_in by (rewrite app_length; lia). rewrite write_in by lia.
        rewrite app_nth2 by lia. f_equal. lia.
      * rewrite !write_out by (try rewrite app_length; lia). reflexivity.
  - rewrite !write_out by (try rewrite app_length; lia). reflexivity.
Qed.

Fixpoint chunks_at (a : N) (cs : list (list N)) : list (N * list N) :=
  match cs with [] => [] | c :: r => (a, c) :: chunks_at (a + 4) r end.

Lemma write_concat cs : forall m a x, (forall c, In c cs -> length c = 4%nat) ->
  write m a (concat cs) x = seq_mem (chunks_at a cs) m x.
Proof.
  induction cs as [|c cs IH]; intros m a x H; simpl.
  - apply write_out. simpl. lia.
  - rewrite write_app, (H c) by (left; auto). unfold seq_mem; simpl. fold (seq_mem (chunks_at (a + 4) cs) (write m a c)).
    apply IH. intros; apply H; right; auto.
Qed.

Lemma map_chunks (f : nat -> list N) a n : forall s,
  map (fun j => (a + 4 * N.of_nat j, f j)) (seq s n) = chunks_at (a + 4 * N.of_nat s) (map f (seq s n)).
Proof.
  induction n; intros s; cbn [seq map chunks_at]; auto. f_equal. rewrite IHn. f_equal. lia.
Qed.

Lemma bytes32_length v : length (bytes32 v) = 4%nat.
Proof. reflexivity. Qed.

Section StoreThm.
Variable lg : N.
Local Arguments N.mul : simpl never.
Local Arguments N.add : simpl never.
Local Arguments N.of_nat : simpl never.

Lemma emu_store_seq op exec addrs data rc : emu_store_op op = true -> reg_count op = Some rc ->
  forall m, exists me, emu_store op exec addrs data m = Some me /\
    forall x, me x = seq_mem (store_accesses exec addrs data rc) m x.
Proof.
  intros Hop Hrc m. unfold emu_store. rewrite Hop. eexists; split; [reflexivity|].
  assert (Erc : emu_store_rc op = rc).
  { unfold emu_store_op in Hop. simpl in Hop. rewrite !orb_true_iff, !N.eqb_eq in Hop.
    destruct Hop as [H|[H|[H|[H|H]]]]; try discriminate H; subst op; simpl in Hrc; inversion Hrc; reflexivity. }
  rewrite Erc. unfold store_accesses, accesses. revert m. generalize lanes as ls.
  induction ls as [|l ls IH]; intros m x; simpl; auto.
  rewrite map_app, seq_mem_app. rewrite IH. apply seq_mem_ext. clear. intros x.
  destruct (N.testbit exec l); simpl; auto.
  rewrite map_map. simpl. rewrite flat_map_concat_map.
  rewrite write_concat by (intros c Hc; apply in_map_iff in Hc; destruct Hc as (? & <- & _); apply bytes32_length).
  rewrite (map_ext _ (fun j => (nth (N.to_nat l) addrs 0 + 4 * N.of_nat j,
                                bytes32 (u32 (nth j (nth (N.to_nat l) data []) 0)))))
    by (intros j; rewrite Nat2N.id; reflexivity).
  rewrite (map_chunks (fun j => bytes32 (u32 (nth j (nth (N.to_nat l) data []) 0)))).
  change (N.of_nat 0) with 0. rewrite N.mul_0_r, N.add_0_r. reflexivity.
Qed.

Theorem store_eq op exec addrs data m rc :
  emu_store_op op = true -> reg_count op = Some rc -> no_straddle lg op exec addrs rc ->
  exists reqs me, timing_store lg op exec addrs data = Some reqs /\
                  emu_store op exec addrs data m = Some me /\
                  NoDup (map wq_addr reqs) /\
                  forall x, apply_wreqs reqs m x = me x.
Proof.
  intros Hop Hrc Hns. unfold timing_store. rewrite Hrc.
  destruct (emu_store_seq op exec addrs data rc Hop Hrc m) as (me & He & Hme).
  destruct (foc_all_ok lg (store_accesses exec addrs data rc) []) as (reqs & Hf & [_ Hnd] & Hap).
  { split; constructor. }
  { intros w Hw. unfold store_accesses in Hw. apply in_map_iff in Hw. destruct Hw as (((l & j) & x) & <- & Hacc).
    simpl. specialize (Hns _ _ _ Hacc).
    unfold emu_store_op in Hop. simpl in Hop. rewrite !orb_true_iff, !N.eqb_eq in Hop.
    destruct Hop as [H|[H|[H|[H|H]]]]; try discriminate H; subst op; simpl in Hns; lia. }
  exists reqs, me. repeat split; auto. intros x. rewrite Hap, Hme. reflexivity.
Qed.

End StoreThm.

(** * 5. scalar loads: cache-line splitting *)
Section Smem.
Variable lg : N.
Hypothesis Hlg : 2 <= lg.
Local Arguments N.mul : simpl never.
Local Arguments N.add : simpl never.
Local Arguments N.of_nat : simpl never.
Local Arguments N.div : simpl never.
Local Arguments N.modulo : simpl never.
Local Arguments N.min : simpl never.

Definition Kdw : N := 2 ^ (lg - 2).          (* dwords per line *)

Lemma LS_4K : LS lg = 4 * Kdw.
Proof. unfold LS, Kdw. replace lg with (2 + (lg - 2)) at 1 by lia. rewrite N.pow_add_r. reflexivity. Qed.

Lemma Kdw_pos : 0 < Kdw.
Proof. unfold Kdw. apply N.neq_0_lt_0, N.pow_nonzero. discriminate. Qed.

Lemma off_4 a : off lg (4 * a) = 4 * (a mod Kdw).
Proof. unfold off. rewrite LS_4K. apply N.mul_mod_distr_l; pose proof Kdw_pos; lia. Qed.

(** the splitting loop in dword units: (first dword index, number of dwords) *)
Fixpoint dw_pieces (fuel : nat) (s c r : N) : list (N * N) :=
  match fuel with
  | O => []
  | S f => if r =? 0 then []
           else let q := N.min (Kdw - (s + c) mod Kdw) r in (c, q) :: dw_pieces f s (c + q) (r - q)
  end.

Lemma pieces_dw fuel s dst : forall c r,
  smem_pieces lg fuel (4 * s) (4 * (s + c)) (4 * r) dst =
  map (fun p => (4 * (s + fst p), 4 * snd p, dst + fst p)) (dw_pieces fuel s c r).
Proof.
  induction fuel as [|f IH]; intros c r; [reflexivity|].
  cbn [smem_pieces dw_pieces].
  replace (4 * r =? 0) with (r =? 0) by (destruct (N.eqb_spec r 0), (N.eqb_spec (4 * r) 0); lia).
  destruct (r =? 0) eqn:Er; [reflexivity|].
  rewrite off_4, LS_4K. pose proof Kdw_pos as HK. pose proof (N.mod_lt (s + c) Kdw ltac:(lia)) as Hm.
  set (x := (s + c) mod Kdw) in *.
  replace (N.min (4 * Kdw - 4 * x) (4 * r)) with (4 * N.min (Kdw - x) r) by lia.
  set (q := N.min (Kdw - x) r).
  cbn [map fst snd]. f_equal.
  - f_equal. f_equal. replace (4 * (s + c) - 4 * s) with (c * 4) by lia. rewrite N.div_mul by lia. reflexivity.
  - replace (4 * (s + c) + 4 * q) with (4 * (s + (c + q))) by lia.
    replace (4 * r - 4 * q) with (4 * (r - q)) by lia. apply IH.
Qed.

Lemma dw_pieces_spec fuel s : forall c r, (N.to_nat r <= fuel)%nat ->
  (forall p, In p (dw_pieces fuel s c r) -> 1 <= snd p /\ c <= fst p /\ fst p + snd p <= c + r) /\
  (forall j, c <= j < c + r -> exists p, In p (dw_pieces fuel s c r) /\ fst p <= j < fst p + snd p).
Proof.
  induction fuel as [|f IH]; intros c r Hf.
  - split; [intros p []|intros j Hj; lia].
  - cbn [dw_pieces]. destruct (N.eqb_spec r 0) as [->|Hr]; [split; [intros p []|intros j Hj; lia]|].
    pose proof Kdw_pos as HK. pose proof (N.mod_lt (s + c) Kdw ltac:(lia)) as Hm.
    set (q := N.min (Kdw - (s + c) mod Kdw) r) in *.
    assert (Hq : 1 <= q <= r) by lia.
    destruct (IH (c + q) (r - q) ltac:(lia)) as [H1 H2]. split.
    + intros p [<-|Hp]; [simpl; lia|]. apply H1 in Hp. lia.
    + intros j Hj. destruct (N.lt_ge_cases j (c + q)) as [Hlt|Hge].
      * exists (c, q). split; [left; auto|simpl; lia].
      * destruct (H2 j ltac:(lia)) as (p & Hp & Hr'). exists p. split; [right; auto|auto].
Qed.

Lemma smem_wb_ok m a q d : 1 <= q ->
  exists ws, smem_wb m (a, 4 * q, d) = Some ws /\
    forall kv, In kv ws <-> exists k, k < q /\ kv = (d + k, le32 (read m (a + 4 * k) 4)).
Proof.
  intros Hq. unfold smem_wb. cbn [fst snd].
  assert (Hn : N.to_nat (4 * q) = (4 * N.to_nat q)%nat) by lia. rewrite Hn.
  replace (4 * N.to_nat q / 4)%nat with (N.to_nat q) by (rewrite Nat.mul_comm, Nat.div_mul; lia).
  replace (N.to_nat q =? 0)%nat with false by (symmetry; apply Nat.eqb_neq; lia).
  replace (4 * N.to_nat q <? N.to_nat q * 4)%nat with false by (symmetry; apply Nat.ltb_ge; lia).
  eexists; split; [reflexivity|]. intros kv. rewrite in_map_iff. split.
  - intros (k & <- & Hk). apply in_seq in Hk. exists (N.of_nat k). split; [lia|]. f_equal.
    apply le32_ext. intros i Hi. rewrite nth_firstn_lt, nth_skipn_add, !nth_read by lia. f_equal. lia.
  - intros (k & Hk & ->). exists (N.to_nat k). split; [|apply in_seq; lia].
    f_equal; [lia|]. apply le32_ext. intros i Hi. rewrite nth_firstn_lt, nth_skipn_add, !nth_read by lia. f_equal. lia.
Qed.

Lemma apply_s_consistent (f : N -> N) ws : forall rf k,
  (forall kv, In kv ws -> snd kv = f (fst kv)) ->
  apply_s ws rf k = if existsb (N.eqb k) (map fst ws) then f k else rf k.
Proof.
  unfold apply_s. induction ws as [|kv ws IH]; intros rf k H; [reflexivity|]. cbn [fold_left map existsb].
  rewrite IH by (intros; apply H; right; auto).
  destruct (existsb (N.eqb k) (map fst ws)); [rewrite orb_true_r; auto|].
  rewrite orb_false_r. destruct (N.eqb_spec k (fst kv)); auto. subst. apply H. left; auto.
Qed.

Theorem smem_eq op start dst m rf sz :
  smem_size op = Some sz ->
  exists wt we, timing_smem lg op start dst m = Some wt /\ emu_smem op start dst m = Some we /\
    forall k, apply_s wt rf k = apply_s we rf k.
Proof.
  intros Hsz. unfold timing_smem, emu_smem. rewrite Hsz.
  assert (Hsz4 : exists r, sz = 4 * r /\ 1 <= r /\ r <= 16 /\ emu_smem_size op = Some sz).
  { unfold smem_size in Hsz. unfold emu_smem_size.
    repeat match type of Hsz with (if ?c then _ else _) = _ => destruct c end; inversion Hsz; subst;
      [exists 1|exists 2|exists 4|exists 8|exists 16]; repeat split; lia. }
  destruct Hsz4 as (r & -> & Hr1 & Hr16 & Hemu). rewrite Hemu.
  set (s := start / 4). unfold smem_align. fold s. replace (s * 4) with (4 * s) by lia.
  pose proof (pieces_dw (S (N.to_nat (4 * r))) s dst 0 r) as Hp. rewrite N.add_0_r in Hp. rewrite Hp.
  destruct (dw_pieces_spec (S (N.to_nat (4 * r))) s 0 r ltac:(lia)) as [Hin Hcov].
  set (ps := dw_pieces (S (N.to_nat (4 * r))) s 0 r) in *.
  set (f := fun k => le32 (read m (4 * s + 4 * (k - dst)) 4)).
  destruct (collect_spec (smem_wb m) (map (fun p => (4 * (s + fst p), 4 * snd p, dst + fst p)) ps)) as (wt & Hwt & Hwin).
  { intros x Hx. apply in_map_iff in Hx. destruct Hx as (p & <- & Hpin). destruct (Hin p Hpin) as (H1 & _).
    destruct (smem_wb_ok m (4 * (s + fst p)) (snd p) (dst + fst p) H1) as (ws & Hws & _). eauto. }
  eexists; eexists. split; [exact Hwt|]. split; [reflexivity|]. intros k.
  rewrite (apply_s_consistent f wt), (apply_s_consistent f).
  - (* same key sets *)
    assert (Hk : forall l1 l2 : list N, (forall y, In y l1 <-> In y l2) -> existsb (N.eqb k) l1 = existsb (N.eqb k) l2).
    { intros l1 l2 H. destruct (existsb (N.eqb k) l1) eqn:E1, (existsb (N.eqb k) l2) eqn:E2; auto.
      - apply existsb_exists in E1. destruct E1 as (y & Hy & Ey). apply N.eqb_eq in Ey. subst y.
        apply H in Hy. assert (existsb (N.eqb k) l2 = true) by (apply existsb_exists; exists k; split; auto; apply N.eqb_refl). congruence.
      - apply existsb_exists in E2. destruct E2 as (y & Hy & Ey). apply N.eqb_eq in Ey. subst y.
        apply H in Hy. assert (existsb (N.eqb k) l1 = true) by (apply existsb_exists; exists k; split; auto; apply N.eqb_refl). congruence. }
    rewrite (Hk _ (map fst (map (fun k0 => (dst + N.of_nat k0, dword_of (read m (4 * s) (N.to_nat (4 * r))) k0)) (seq 0 (N.to_nat (4 * r) / 4))))); [reflexivity|].
    intros y. rewrite !in_map_iff. split.
    + intros (kv & <- & Hkv). apply Hwin in Hkv. destruct Hkv as (x & ws & Hx & Hws & Hkv).
      apply in_map_iff in Hx. destruct Hx as (p & <- & Hpin). destruct (Hin p Hpin) as (H1 & H0 & Hle).
      destruct (smem_wb_ok m (4 * (s + fst p)) (snd p) (dst + fst p) H1) as (ws' & Hws' & Hin').
      rewrite Hws in Hws'. inversion Hws'; subst ws'. apply Hin' in Hkv. destruct Hkv as (j & Hj & ->).
      exists (dst + N.of_nat (N.to_nat (fst p + j)), dword_of (read m (4 * s) (N.to_nat (4 * r))) (N.to_nat (fst p + j))).
      split; [simpl; lia|]. apply in_map_iff. exists (N.to_nat (fst p + j)). split; auto. apply in_seq.
      replace (N.to_nat (4 * r) / 4)%nat with (N.to_nat r) by (replace (N.to_nat (4 * r)) with (N.to_nat r * 4)%nat by lia; rewrite Nat.div_mul; lia). lia.
    + intros (kv & <- & Hkv). apply in_map_iff in Hkv. destruct Hkv as (j & <- & Hj). apply in_seq in Hj.
      replace (N.to_nat (4 * r) / 4)%nat with (N.to_nat r) in Hj by (replace (N.to_nat (4 * r)) with (N.to_nat r * 4)%nat by lia; rewrite Nat.div_mul; lia).
      destruct (Hcov (N.of_nat j) ltac:(lia)) as (p & Hpin & Hpj). destruct (Hin p Hpin) as (H1 & H0 & Hle).
      destruct (smem_wb_ok m (4 * (s + fst p)) (snd p) (dst + fst p) H1) as (ws & Hws & Hin').
      exists (dst + fst p + (N.of_nat j - fst p), le32 (read m (4 * (s + fst p) + 4 * (N.of_nat j - fst p)) 4)).
      split; [simpl; lia|]. apply Hwin. exists (4 * (s + fst p), 4 * snd p, dst + fst p), ws.
      split; [apply in_map_iff; exists p; auto|]. split; auto. apply Hin'. exists (N.of_nat j - fst p). split; [lia|reflexivity].
  - (* emu writes agree with f *)
    intros kv Hkv. apply in_map_iff in Hkv. destruct Hkv as (j & <- & Hj). apply in_seq in Hj. cbn [fst snd]. unfold f.
    replace (N.to_nat (4 * r) / 4)%nat with (N.to_nat r) in Hj by (replace (N.to_nat (4 * r)) with (N.to_nat r * 4)%nat by lia; rewrite Nat.div_mul; lia).
    rewrite dword_of_read by lia. f_equal. f_equal. lia.
  - (* timing writes agree with f *)
    intros kv Hkv. apply Hwin in Hkv. destruct Hkv as (x & ws & Hx & Hws & Hkv).
    apply in_map_iff in Hx. destruct Hx as (p & <- & Hpin). destruct (Hin p Hpin) as (H1 & H0 & Hle).
    destruct (smem_wb_ok m (4 * (s + fst p)) (snd p) (dst + fst p) H1) as (ws' & Hws' & Hin').
    rewrite Hws in Hws'. inversion Hws'; subst ws'. apply Hin' in Hkv. destruct Hkv as (j & Hj & ->).
    cbn [fst snd]. unfold f. f_equal. f_equal. lia.
Qed.

End Smem.
