(** Proofs for C02, FLAT / GLOBAL effective addresses: the address the timing
    coalescer computes for a lane (readFlatAddr) is the address the emulator ALU
    of the same architecture computes (flatPrecomputeScalarBase +
    flatAddrWithScalar), for every register value and instruction field; and the
    bytes selected by the lane information of the read transactions are exactly
    the bytes of the active lanes' accesses.  Models: Coalescer.v. *)
From Coq Require Import List Arith NArith Bool Lia ZifyN ZifyNat ZifyBool.
From VCu Require Import InitRegs Coalescer C02Proofs.
Import ListNotations.
Open Scope N_scope.

Lemma mode_agree cdna3 saddr :
  timing_has_saddr (decode_addr_regcount cdna3 saddr) = emu_has_saddr cdna3 saddr.
Proof.
  destruct cdna3; unfold timing_has_saddr, decode_addr_regcount, emu_has_saddr;
    destruct (saddr =? 127), (saddr =? 0); reflexivity.
Qed.

Lemma read_addr_operand_lt rc vlo vhi : read_addr_operand rc vlo vhi < 18446744073709551616.
Proof.
  unfold read_addr_operand, u32. destruct (rc =? 1).
  - pose proof (N.mod_upper_bound vlo 4294967296). lia.
  - pose proof (N.mod_upper_bound vlo 4294967296). pose proof (N.mod_upper_bound vhi 4294967296). lia.
Qed.

Lemma u64_small x : x < 18446744073709551616 -> u64 x = x.
Proof. intros. unfold u64. apply N.mod_small. auto. Qed.

Lemma u64_idem x : u64 (u64 x) = u64 x.
Proof. unfold u64. apply N.mod_mod. lia. Qed.

(** every lane, every register value, every SADDR field, every Offset0 *)
Lemma flat_addr_agree cdna3 saddr sbase vlo vhi off0 :
  timing_flat_addr (decode_addr_regcount cdna3 saddr) sbase vlo vhi off0 =
  emu_flat_addr cdna3 saddr sbase vlo vhi off0.
Proof.
  unfold timing_flat_addr, emu_flat_addr.
  change (decode_addr_regcount cdna3 saddr =? 1) with (timing_has_saddr (decode_addr_regcount cdna3 saddr)).
  rewrite mode_agree.
  destruct (off0 =? 0); [|reflexivity].
  rewrite N.add_0_r. destruct (emu_has_saddr cdna3 saddr).
  - apply u64_idem.
  - apply u64_small, read_addr_operand_lt.
Qed.

(** the closed form: base (SGPR pair, or nothing) + lane part (low register
    zero-extended, or the register pair) + sign-extended immediate, mod 2^64 *)
Lemma timing_flat_addr_spec rc sbase vlo vhi off0 :
  timing_flat_addr rc sbase vlo vhi off0 =
  u64 ((if rc =? 1 then u64 sbase + u32 vlo else u32 vlo + 4294967296 * u32 vhi) + sext32 off0).
Proof.
  unfold timing_flat_addr, read_addr_operand.
  assert (Hs : (if off0 =? 0 then 0 else sext32 off0) = sext32 off0).
  { destruct (off0 =? 0) eqn:E; auto. apply N.eqb_eq in E. subst. reflexivity. }
  rewrite Hs. destruct (rc =? 1); [|reflexivity].
  unfold u32 at 1. rewrite N.mod_mod by lia. fold (u32 vlo).
  unfold u64. rewrite N.add_mod_idemp_l by lia. reflexivity.
Qed.

(** immediates: -4096 .. 4095 as 64-bit two's complement *)
Lemma sext32_decode_off13 raw :
  sext32 (decode_off13 raw) =
  if raw mod 8192 <? 4096 then raw mod 8192 else 18446744073709551616 - (8192 - raw mod 8192).
Proof.
  unfold decode_off13, sext32. pose proof (N.mod_upper_bound raw 8192).
  destruct (4096 <=? raw mod 8192) eqn:E.
  - apply N.leb_le in E.
    destruct (raw mod 8192 + 4294959104 <? 2147483648) eqn:E1; [apply N.ltb_lt in E1; lia|].
    destruct (raw mod 8192 <? 4096) eqn:E2; [apply N.ltb_lt in E2; lia|]. lia.
  - apply N.leb_gt in E.
    destruct (raw mod 8192 <? 2147483648) eqn:E1; [|apply N.ltb_ge in E1; lia].
    destruct (raw mod 8192 <? 4096) eqn:E2; [|apply N.ltb_ge in E2; lia]. reflexivity.
Qed.

Lemma addr_maps_agree cdna3 saddr sbase off0 (vs : list (N * N)) :
  map (fun v => timing_flat_addr (decode_addr_regcount cdna3 saddr) sbase (fst v) (snd v) off0) vs =
  map (fun v => emu_flat_addr cdna3 saddr sbase (fst v) (snd v) off0) vs.
Proof. apply map_ext. intros. apply flat_addr_agree. Qed.

Section Cover.
Variable lg : N.

(** the bytes the lane information of the read transactions selects are exactly
    the bytes of the accesses of the active lanes (no guard: line + offset = address) *)
Lemma load_cover op exec addrs rc dst b :
  load_txn_byte op (read_txns lg exec addrs rc dst) b <-> lane_byte op exec addrs rc b.
Proof.
  unfold load_txn_byte, lane_byte, read_txns. split.
  - intros (t & li & Ht & Hli & Hb). apply in_map_iff in Ht. destruct Ht as (r & <- & Hr).
    simpl in Hli, Hb. unfold lane_info in Hli. apply in_map_iff in Hli.
    destruct Hli as (((l & j) & x) & <- & Hf). apply filter_In in Hf. destruct Hf as (Hacc & Hl).
    apply N.eqb_eq in Hl. simpl in Hb, Hl.
    exists l, j, x. split; auto.
    pose proof (read_reqs_aligned lg _ _ _ _ Hr) as Hal.
    rewrite (line_of_aligned lg r Hal) in Hl. subst r.
    pose proof (line_off lg x). lia.
  - intros (l & j & x & Hacc & Hb).
    destruct (fold_add_line_covers lg (map snd (accesses exec addrs rc)) [] x) as (r & Hr & Hl).
    { apply in_map_iff. exists (l, j, x). auto. }
    exists (r, lane_info lg r exec addrs rc dst), (l, dst + j, off lg x). split.
    + apply in_map_iff. exists r. auto.
    + split.
      * simpl. unfold lane_info. apply in_map_iff. exists (l, j, x). split; auto.
        apply filter_In. split; auto. simpl. apply N.eqb_eq. auto.
      * simpl. pose proof (read_reqs_aligned lg exec addrs rc r Hr) as Hal.
        rewrite (line_of_aligned lg r Hal) in Hl. subst r.
        pose proof (line_off lg x). lia.
Qed.

End Cover.
