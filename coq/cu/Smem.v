(** The read requests of one scalar load (amd/timing/cu/scalarunit.go,
    executeSMEMLoad): the byte range [start, start+size) is cut at 64-byte
    lines; every request except the one generated last carries
    CanWaitForCoalesce, and only the reply to a request without that flag makes
    handleScalarDataLoadReturn decrement OutstandingScalarMemAccess (the
    [ERsp _ false] event of VCu.Sched).  Definitions and their proofs. *)
From Coq Require Import List NArith Bool Lia.
Import ListNotations.
Local Open Scope N_scope.

(** (address, bytes, CanWaitForCoalesce) *)
Definition sreq : Type := N * N * bool.

(** the loop "for bytesLeft > 0" with byteInCacheline *)
Fixpoint smem_split (fuel : nat) (curr left : N) : list sreq :=
  match fuel with
  | O => []
  | S f =>
    if left =? 0 then []
    else
      let inline := N.min left (64 - curr mod 64) in
      let left' := left - inline in
      (curr, inline, 0 <? left') :: smem_split f (curr + inline) left'
  end.

(** executeSMEMLoad: the two low bits of the address are ignored *)
Definition smem_reqs (addr size : N) : list sreq :=
  let start := addr - addr mod 4 in
  smem_split (N.to_nat size) start size.

Definition flag (r : sreq) : bool := snd r.
Definition bytes (r : sreq) : N := snd (fst r).

(** all requests but the last carry the flag, the last does not *)
Inductive closing_last : list bool -> Prop :=
| cl_one : closing_last [false]
| cl_cons l : closing_last l -> closing_last (true :: l).

Lemma split_zero f curr : smem_split f curr 0 = [].
Proof. destruct f; reflexivity. Qed.

Lemma inline_pos curr left : 0 < left -> 0 < N.min left (64 - curr mod 64).
Proof.
  intros H. assert (curr mod 64 < 64) by (apply N.mod_lt; lia). lia.
Qed.

Lemma split_closing_last f : forall curr left,
  0 < left -> (N.to_nat left <= f)%nat ->
  closing_last (map flag (smem_split f curr left)) /\
  fold_right (fun r n => bytes r + n) 0 (smem_split f curr left) = left /\
  Forall (fun r => 0 < bytes r /\ fst (fst r) mod 64 + bytes r <= 64) (smem_split f curr left).
Proof.
  induction f; intros curr left Hl Hf; [lia|]. cbn [smem_split].
  destruct (N.eqb_spec left 0); [lia|].
  set (inline := N.min left (64 - curr mod 64)).
  assert (Hi : 0 < inline) by (apply inline_pos; auto).
  assert (Hm : curr mod 64 < 64) by (apply N.mod_lt; lia).
  assert (Hle : inline <= left) by (unfold inline; lia).
  destruct (N.ltb_spec 0 (left - inline)) as [Hpos|Hz].
  - destruct (IHf (curr + inline) (left - inline) Hpos) as (C & S & F); [lia|].
    split; [cbn [map flag snd]; constructor; exact C|]. split.
    + cbn [fold_right]. rewrite S. unfold bytes; cbn [fst snd]. lia.
    + constructor; auto. unfold bytes; cbn [fst snd]. unfold inline. lia.
  - assert (E : left - inline = 0) by lia. rewrite E, split_zero.
    split; [cbn [map flag snd]; constructor|]. split; [cbn [fold_right]; unfold bytes; cbn [fst snd]; lia|].
    constructor; auto. unfold bytes; cbn [fst snd]. unfold inline. lia.
Qed.

(** the property C14 relies on: for every address and every size, exactly
    the request generated last closes the instruction, the requests cover the
    size, and none crosses a line *)
Theorem smem_closing_request_is_last addr size :
  0 < size ->
  closing_last (map flag (smem_reqs addr size)) /\
  fold_right (fun r n => bytes r + n) 0 (smem_reqs addr size) = size /\
  Forall (fun r => 0 < bytes r /\ fst (fst r) mod 64 + bytes r <= 64) (smem_reqs addr size).
Proof. intros H. unfold smem_reqs. apply split_closing_last; auto. Qed.

(** correspondence: requests observed on the scalar-memory port of the real CU *)
Definition sreq_eqb (a b : sreq) : bool :=
  let '(a1, a2, a3) := a in let '(b1, b2, b3) := b in
  (a1 =? b1) && (a2 =? b2) && Bool.eqb a3 b3.

Fixpoint sreqs_eqb (a b : list sreq) : bool :=
  match a, b with
  | [], [] => true
  | x :: a', y :: b' => sreq_eqb x y && sreqs_eqb a' b'
  | _, _ => false
  end.

(** (address of the first request, total size, observed requests) *)
Definition scase : Type := N * N * list sreq.

Fixpoint smismatches_from (i : nat) (cs : list scase) : list (nat * nat) :=
  match cs with
  | [] => []
  | (a, n, l) :: r =>
    if sreqs_eqb (smem_reqs a n) l then smismatches_from (S i) r
    else (i, 0%nat) :: smismatches_from (S i) r
  end.
Definition smismatches := smismatches_from 0.

Example straddle_x2 : smem_reqs 0x103c 8 = [(0x103c, 4, true); (0x1040, 4, false)].
Proof. reflexivity. Qed.
Example straddle_x8 : smem_reqs 0x107c 32 = [(0x107c, 4, true); (0x1080, 28, false)].
Proof. reflexivity. Qed.
