(** Proofs about the scheduler automaton of Sched.v (repaired code, [fx = true]),
    the refutation for the code as found, and the emulator loop. *)
From Coq Require Import List Arith NArith Bool Lia Permutation.
From VCu Require Import Sched.
Import ListNotations.
Arguments eval_one : simpl never.
Arguments eval_endpgm : simpl never.
Arguments eval_barrier : simpl never.

(** * lists *)

Lemma upd_length {A} i (x : A) l : length (upd i x l) = length l.
Proof. revert i; induction l; destruct i; simpl; auto. Qed.

Lemma nth_upd {A} (l : list A) j x u i :
  nth_error l j = Some u ->
  nth_error (upd j x l) i = if i =? j then Some x else nth_error l i.
Proof.
  revert j i; induction l; intros j i H; destruct j; simpl in *; try discriminate.
  - destruct i; simpl; auto.
  - destruct i; simpl; auto.
Qed.

Lemma upd_oob {A} (l : list A) j x : nth_error l j = None -> upd j x l = l.
Proof.
  revert j; induction l; intros j H; destruct j; simpl in *; try discriminate; auto.
  f_equal; auto.
Qed.

Lemma nth_upd' {A} (l : list A) j x i :
  nth_error (upd j x l) i = if (i =? j) && (j <? length l) then Some x else nth_error l i.
Proof.
  destruct (nth_error l j) eqn:E.
  - erewrite nth_upd by eauto. assert (j < length l) by (apply nth_error_Some; congruence).
    destruct (i =? j); simpl; auto. destruct (Nat.ltb_spec j (length l)); auto; lia.
  - rewrite upd_oob by auto. apply nth_error_None in E.
    destruct (Nat.ltb_spec j (length l)); try lia. rewrite andb_false_r; auto.
Qed.

Lemma all_in_true g p l :
  all_in g p l = true <-> (forall i w, nth_error l i = Some w -> w_wg w = g -> p w = true).
Proof.
  unfold all_in; rewrite forallb_forall; split; intros H.
  - intros i w Hn Hg. apply nth_error_In in Hn. specialize (H _ Hn).
    subst g. rewrite Nat.eqb_refl in H; simpl in H; auto.
  - intros w Hin. apply In_nth_error in Hin as [i Hn].
    destruct (Nat.eqb_spec (w_wg w) g); simpl; auto. eapply H; eauto.
Qed.

Lemma all_in_false g p l :
  all_in g p l = false -> exists i w, nth_error l i = Some w /\ w_wg w = g /\ p w = false.
Proof.
  unfold all_in; induction l; simpl; intros H; try discriminate.
  apply andb_false_iff in H as [H|H].
  - exists 0, a; simpl. apply orb_false_iff in H as [H1 H2].
    apply negb_false_iff, Nat.eqb_eq in H1; auto.
  - destruct (IHl H) as (i & w & ? & ? & ?). exists (S i), w; auto.
Qed.

Lemma all_others_true j0 g i p l :
  all_others j0 g i p l = true <->
  (forall k w, nth_error l k = Some w -> w_wg w = g -> j0 + k <> i -> p w = true).
Proof.
  revert j0; induction l; intros j0; simpl.
  - split; auto. intros _ k w H; destruct k; discriminate.
  - rewrite andb_true_iff, IHl. split.
    + intros [H1 H2] k w Hn Hg Hne. destruct k; simpl in Hn.
      * inversion Hn; subst a. subst g. rewrite Nat.eqb_refl in H1; simpl in H1.
        apply orb_true_iff in H1 as [H1|H1]; auto. apply Nat.eqb_eq in H1; lia.
      * eapply H2; eauto; lia.
    + intros H; split.
      * destruct (Nat.eqb_spec (w_wg a) g); simpl; auto.
        destruct (Nat.eqb_spec j0 i); simpl; auto. apply (H 0 a); simpl; auto; lia.
      * intros k w Hn Hg Hne. apply (H (S k) w); simpl; auto; lia.
Qed.

Lemma all_others_false j0 g i p l :
  all_others j0 g i p l = false ->
  exists k w, nth_error l k = Some w /\ w_wg w = g /\ j0 + k <> i /\ p w = false.
Proof.
  revert j0; induction l; intros j0; simpl; intros H; try discriminate.
  apply andb_false_iff in H as [H|H].
  - apply orb_false_iff in H as [H H3]. apply orb_false_iff in H as [H1 H2].
    exists 0, a; simpl. apply negb_false_iff, Nat.eqb_eq in H1. apply Nat.eqb_neq in H2.
    repeat split; auto; lia.
  - destruct (IHl _ H) as (k & w & ? & ? & ? & ?). exists (S k), w; simpl; repeat split; auto; lia.
Qed.

Lemma exists_in_true g p l :
  exists_in g p l = true <-> exists i w, nth_error l i = Some w /\ w_wg w = g /\ p w = true.
Proof.
  unfold exists_in; rewrite existsb_exists; split.
  - intros (w & Hin & H). apply andb_true_iff in H as [H1 H2]. apply Nat.eqb_eq in H1.
    apply In_nth_error in Hin as [i Hn]. eauto.
  - intros (i & w & Hn & Hg & Hp). exists w; split; [eapply nth_error_In; eauto|].
    subst g; rewrite Nat.eqb_refl; auto.
Qed.

Lemma st_eqb_eq a b : st_eqb a b = true <-> a = b.
Proof. destruct a, b; simpl; split; intros; congruence. Qed.

(** * what one iteration / one pass does to a single wavefront (any state, both
      variants of the code): used for the wait-count and end-of-program theorems *)

Definition same_but_state (w w1 : wf) : Prop :=
  w_wg w1 = w_wg w /\ w_inst w1 = w_inst w /\ w_ns w1 = w_ns w /\ w_nv w1 = w_nv w /\ w_arr w1 = w_arr w.

Lemma release_same w : same_but_state w (release w).
Proof. unfold release, same_but_state; destruct (w_st w); simpl; auto. Qed.

Lemma set_st_same w s : same_but_state w (set_st w s).
Proof. unfold same_but_state; simpl; auto. Qed.

Lemma sbs_trans a b c : same_but_state a b -> same_but_state b c -> same_but_state a c.
Proof. unfold same_but_state; intuition congruence. Qed.

Lemma sbs_refl a : same_but_state a a.
Proof. unfold same_but_state; auto. Qed.

Lemma get_pass_barrier s g i :
  get (pass_barrier s g) i = option_map (fun w => if w_wg w =? g then release w else w) (get s i).
Proof. unfold get, pass_barrier; simpl. apply nth_error_map. Qed.

Lemma get_setw s j x u i :
  get s j = Some u -> get (setw s j x) i = if i =? j then Some x else get s i.
Proof. unfold get, setw; simpl. apply nth_upd. Qed.

Lemma get_set_bbuf s l i : get (set_bbuf s l) i = get s i. Proof. reflexivity. Qed.
Lemma get_add_sent s g i : get (add_sent s g) i = get s i. Proof. reflexivity. Qed.
Lemma get_crash s i : get (crash s) i = get s i. Proof. reflexivity. Qed.
Lemma get_set_internal s l i : get (set_internal s l) i = get s i. Proof. reflexivity. Qed.

(** effect of one loop iteration on wavefront [i]: identity is preserved, the
    state may change; it becomes Completed only through its own s_endpgm with
    both counters at zero; a wavefront running s_waitcnt stops running only
    when the counts are at or below the thresholds *)
Definition wf_step_ok (w w1 : wf) : Prop :=
  same_but_state w w1 /\
  (w_st w1 = WCompleted -> w_st w = WCompleted \/ (w_inst w = KEnd /\ out_s w = 0%N /\ out_v w = 0%N)) /\
  (forall vm lgkm, w_inst w = KWait vm lgkm -> w_st w = WRunning -> w_st w1 <> WRunning ->
                   waitcnt_done w vm lgkm = true).

Lemma wf_step_refl w : wf_step_ok w w.
Proof. split; [apply sbs_refl|]. split; auto; intros; congruence. Qed.

Lemma zero_counts w : ((0 <? out_v w) || (0 <? out_s w))%N = false -> out_s w = 0%N /\ out_v w = 0%N.
Proof.
  intros H. apply orb_false_iff in H as [H1 H2].
  apply N.ltb_ge in H1, H2. lia.
Qed.

Lemma eval_one_wf fx s newx b j s1 newx1 b1 i w :
  eval_one fx (s, newx, b) j = (s1, newx1, b1) ->
  get s i = Some w ->
  exists w1, get s1 i = Some w1 /\ wf_step_ok w w1.
Proof.
  unfold eval_one. intros H Hi.
  destruct (get s j) as [u|] eqn:Hj; [|inversion H; subst; eauto using wf_step_refl].
  destruct (fx && st_eqb (w_st u) WReady); [inversion H; subst; eauto using wf_step_refl|].
  assert (Hready : forall s', s' = setw s j (set_st u WReady) ->
            (w_inst u <> KEnd) ->
            (forall vm lgkm, w_inst u = KWait vm lgkm -> waitcnt_done u vm lgkm = true) ->
            exists w1, get s' i = Some w1 /\ wf_step_ok w w1).
  { intros s' -> Hne Hw. erewrite get_setw by eauto. destruct (Nat.eqb_spec i j).
    - subst i. rewrite Hi in Hj; inversion Hj; subst u. eexists; split; eauto.
      split; [apply set_st_same|]. split; simpl; [discriminate|]. intros; eauto.
    - eauto using wf_step_refl. }
  destruct (w_inst u) eqn:Hinst.
  - inversion H; subst. eapply Hready; eauto; congruence.
  - (* KEnd *)
    unfold eval_endpgm in H.
    destruct ((0 <? out_v u) || (0 <? out_s u))%N eqn:Hc.
    { inversion H; subst; eauto using wf_step_refl. }
    apply zero_counts in Hc.
    assert (Hcompl : forall s', (forall k, get s' k = get (setw s j (set_st u WCompleted)) k) ->
              exists w1, get s' i = Some w1 /\ wf_step_ok w w1).
    { intros s' E. rewrite E. erewrite get_setw by eauto. destruct (Nat.eqb_spec i j).
      - subst i. rewrite Hi in Hj; inversion Hj; subst u. eexists; split; eauto.
        split; [apply set_st_same|]. split; simpl; [intros _; right; tauto|].
        intros; congruence.
      - eauto using wf_step_refl. }
    destruct (all_others 0 (w_wg u) j is_completed (wfs s)) eqn:Hall.
    { destruct b; inversion H; subst; eauto using wf_step_refl. }
    destruct (all_others 0 (w_wg u) j arrived_or_done (wfs s)) eqn:Harr.
    { (* pass barrier, then Completed *)
      rewrite all_others_true in Harr.
      assert (Hju : get (pass_barrier s (w_wg u)) j = Some (release u)).
      { rewrite get_pass_barrier, Hj; simpl. rewrite Nat.eqb_refl; auto. }
      rewrite Hju in H. inversion H; subst s1; clear H.
      erewrite get_setw by eauto. destruct (Nat.eqb_spec i j).
      - subst i. rewrite Hi in Hj; inversion Hj; subst u. eexists; split; eauto.
        split; [eapply sbs_trans; [apply release_same|apply set_st_same]|].
        split; simpl; [intros _; right; tauto|]. intros; congruence.
      - rewrite get_pass_barrier, Hi; simpl. eexists; split; eauto.
        destruct (Nat.eqb_spec (w_wg w) (w_wg u)); [|apply wf_step_refl].
        assert (Ha : arrived_or_done w = true) by (eapply (Harr i); eauto).
        unfold arrived_or_done, is_atbarrier, is_completed in Ha.
        split; [apply release_same|]. unfold release.
        apply orb_true_iff in Ha as [Ha|Ha]; apply st_eqb_eq in Ha; rewrite Ha; simpl; split; auto;
          try discriminate; intros; congruence. }
    destruct (exists_in (w_wg u) is_executing (wfs s)).
    + inversion H; subst. apply Hcompl; auto.
    + inversion H; subst. rewrite get_crash. eauto using wf_step_refl.
  - (* KBar *)
    unfold eval_barrier in H.
    set (sa := setw s j (set_st u WAtBarrier)) in *.
    assert (Hsa : exists wa, get sa i = Some wa /\ same_but_state w wa /\
                  (wa = w \/ (i = j /\ w_st wa = WAtBarrier /\ w_inst w = KBar))).
    { unfold sa. erewrite get_setw by eauto. destruct (Nat.eqb_spec i j).
      - subst i. rewrite Hi in Hj; inversion Hj; subst u. eexists; split; eauto.
        split; [apply set_st_same|]. right; auto.
      - eexists; split; eauto. split; [apply sbs_refl|auto]. }
    destruct Hsa as (wa & Hga & Hsame & Hwa).
    assert (Hnoend : w_st wa = WCompleted -> w_st w = WCompleted).
    { destruct Hwa as [->|(_ & Hst & _)]; auto. congruence. }
    assert (Hwait : forall vm lgkm, w_inst w = KWait vm lgkm -> wa = w).
    { intros vm lgkm Hk. destruct Hwa as [->|(_ & _ & Hb)]; auto. congruence. }
    destruct (all_in (w_wg u) (arrived fx) (wfs sa)) eqn:Hall.
    + inversion H; subst s1; clear H. rewrite get_pass_barrier, Hga; simpl.
      eexists; split; eauto. rewrite all_in_true in Hall.
      destruct (Nat.eqb_spec (w_wg wa) (w_wg u)).
      * assert (Ha : arrived fx wa = true) by (eapply Hall; eauto).
        split; [eapply sbs_trans; [eauto|apply release_same]|].
        unfold arrived, is_atbarrier, is_completed in Ha. unfold release.
        apply orb_true_iff in Ha as [Ha|Ha].
        -- apply st_eqb_eq in Ha. rewrite Ha; simpl. split; [discriminate|].
           intros vm lgkm Hk Hr _. rewrite (Hwait _ _ Hk) in Ha. congruence.
        -- apply andb_true_iff in Ha as [_ Ha]. apply st_eqb_eq in Ha. rewrite Ha; simpl.
           split; [auto|]. intros vm lgkm Hk Hr _. rewrite (Hwait _ _ Hk) in Ha. congruence.
      * split; auto. split; auto. intros vm lgkm Hk Hr. rewrite (Hwait _ _ Hk). congruence.
    + assert (exists w1, get sa i = Some w1 /\ wf_step_ok w w1).
      { eexists; split; eauto. split; auto. split; auto.
        intros vm lgkm Hk Hr. rewrite (Hwait _ _ Hk). congruence. }
      destruct (length (bbuf sa) <? bcap sa); inversion H; subst; auto.
  - (* KWait *)
    destruct (waitcnt_done u vm lgkm) eqn:Hd.
    + inversion H; subst.
      eapply Hready; [reflexivity|congruence|intros vm' lgkm' E; inversion E; subst; auto].
    + inversion H; subst. eauto using wf_step_refl.
  - inversion H; subst. eapply Hready; eauto; congruence.
  - inversion H; subst. eapply Hready; eauto; congruence.
  - inversion H; subst. eapply Hready; eauto; congruence.
  - inversion H; subst. eapply Hready; eauto; congruence.
Qed.

Lemma wf_step_trans a b c : wf_step_ok a b -> wf_step_ok b c -> wf_step_ok a c.
Proof.
  intros (S1 & C1 & W1) (S2 & C2 & W2). split; [eapply sbs_trans; eauto|].
  destruct S1 as (E1 & E2 & E3 & E4 & E5).
  assert (Eo : out_s b = out_s a /\ out_v b = out_v a) by (unfold out_s, out_v; rewrite E3, E4; auto).
  destruct Eo as [Eo1 Eo2]. split.
  - intros Hc. destruct (C2 Hc) as [Hb|Hb]; auto. right. rewrite <- E2, <- Eo1, <- Eo2; auto.
  - intros vm lgkm Hk Hr Hn.
    assert (Hd : forall x, waitcnt_done b vm lgkm = x -> waitcnt_done a vm lgkm = x).
    { unfold waitcnt_done. rewrite Eo1, Eo2; auto. }
    destruct b as [bg bst bi bns bnv ba bp bpc]; simpl in *. destruct bst.
    + apply (W1 vm lgkm); auto; discriminate.
    + apply Hd. apply W2; auto. simpl. congruence.
    + apply (W1 vm lgkm); auto; discriminate.
    + apply (W1 vm lgkm); auto; discriminate.
Qed.

Lemma fold_wf fx l : forall s newx b s1 newx1 b1 i w,
  fold_left (eval_one fx) l (s, newx, b) = (s1, newx1, b1) ->
  get s i = Some w ->
  exists w1, get s1 i = Some w1 /\ wf_step_ok w w1.
Proof.
  induction l; simpl; intros s newx b s1 newx1 b1 i w H Hi.
  - inversion H; subst. eauto using wf_step_refl.
  - destruct (eval_one fx (s, newx, b) a) as [[s2 newx2] b2] eqn:E.
    destruct (eval_one_wf _ _ _ _ _ _ _ _ _ _ E Hi) as (w2 & H2 & Hok2).
    destruct (IHl _ _ _ _ _ _ _ _ H H2) as (w1 & H1 & Hok1).
    eauto using wf_step_trans.
Qed.

Lemma eval_one_len fx s newx b j s1 newx1 b1 :
  eval_one fx (s, newx, b) j = (s1, newx1, b1) -> length (wfs s1) = length (wfs s).
Proof.
  unfold eval_one. intros H.
  destruct (get s j) as [u|] eqn:Hj; [|inversion H; subst; auto].
  destruct (fx && st_eqb (w_st u) WReady); [inversion H; subst; auto|].
  destruct (w_inst u); try (inversion H; subst; simpl; apply upd_length).
  - unfold eval_endpgm in H.
    destruct ((0 <? out_v u) || (0 <? out_s u))%N; [inversion H; subst; auto|].
    destruct (all_others 0 (w_wg u) j is_completed (wfs s)).
    { destruct b; inversion H; subst; simpl; auto. apply upd_length. }
    destruct (all_others 0 (w_wg u) j arrived_or_done (wfs s)).
    { destruct (get (pass_barrier s (w_wg u)) j); inversion H; subst; simpl;
        rewrite ?upd_length, map_length; auto. }
    destruct (exists_in (w_wg u) is_executing (wfs s)); inversion H; subst; simpl; auto.
    apply upd_length.
  - unfold eval_barrier in H.
    destruct (all_in (w_wg u) (arrived fx) (wfs (setw s j (set_st u WAtBarrier)))).
    { inversion H; subst; simpl. rewrite map_length, upd_length; auto. }
    destruct (length (bbuf (setw s j (set_st u WAtBarrier))) <? bcap (setw s j (set_st u WAtBarrier)));
      inversion H; subst; simpl; apply upd_length.
  - destruct (waitcnt_done u vm lgkm); inversion H; subst; simpl; auto. apply upd_length.
Qed.

Lemma fold_len fx l : forall s newx b s1 newx1 b1,
  fold_left (eval_one fx) l (s, newx, b) = (s1, newx1, b1) -> length (wfs s1) = length (wfs s).
Proof.
  induction l; simpl; intros s newx b s1 newx1 b1 H.
  - inversion H; auto.
  - destruct (eval_one fx (s, newx, b) a) as [[s2 newx2] b2] eqn:E.
    rewrite (IHl _ _ _ _ _ _ H). eapply eval_one_len; eauto.
Qed.

(** an iteration either leaves a wavefront alone or leaves it not Running *)
Lemma release_nr w : release w = w \/ w_st (release w) <> WRunning.
Proof. unfold release. destruct (w_st w) eqn:E; auto; right; simpl; discriminate. Qed.

Lemma eval_one_nr fx s newx b j s1 newx1 b1 i w :
  eval_one fx (s, newx, b) j = (s1, newx1, b1) ->
  get s i = Some w ->
  exists w1, get s1 i = Some w1 /\ (w1 = w \/ w_st w1 <> WRunning).
Proof.
  unfold eval_one. intros H Hi.
  destruct (get s j) as [u|] eqn:Hj; [|inversion H; subst; eauto].
  destruct (fx && st_eqb (w_st u) WReady); [inversion H; subst; eauto|].
  assert (Hset : forall x, w_st x <> WRunning ->
            exists w1, get (setw s j x) i = Some w1 /\ (w1 = w \/ w_st w1 <> WRunning)).
  { intros x Hx. erewrite get_setw by eauto. destruct (Nat.eqb_spec i j); eauto. }
  assert (Hpass : forall s', (exists w', get s' i = Some w' /\ (w' = w \/ w_st w' <> WRunning)) ->
            exists w1, get (pass_barrier s' (w_wg u)) i = Some w1 /\ (w1 = w \/ w_st w1 <> WRunning)).
  { intros s' (w' & E & Hw'). rewrite get_pass_barrier, E; simpl. eexists; split; eauto.
    destruct (w_wg w' =? w_wg u); auto. destruct (release_nr w') as [->|Hr]; auto. }
  destruct (w_inst u); try (inversion H; subst; apply Hset; simpl; discriminate).
  - unfold eval_endpgm in H.
    destruct ((0 <? out_v u) || (0 <? out_s u))%N; [inversion H; subst; eauto|].
    destruct (all_others 0 (w_wg u) j is_completed (wfs s)).
    { destruct b; inversion H; subst; eauto. rewrite get_add_sent. apply Hset; simpl; discriminate. }
    destruct (all_others 0 (w_wg u) j arrived_or_done (wfs s)).
    { assert (Hju : get (pass_barrier s (w_wg u)) j = Some (release u)).
      { rewrite get_pass_barrier, Hj; simpl. rewrite Nat.eqb_refl; auto. }
      rewrite Hju in H. inversion H; subst. erewrite get_setw by eauto.
      destruct (Nat.eqb_spec i j); [eexists; split; eauto; right; simpl; discriminate|].
      apply Hpass; eauto. }
    destruct (exists_in (w_wg u) is_executing (wfs s)); inversion H; subst; eauto.
    apply Hset; simpl; discriminate.
  - unfold eval_barrier in H.
    assert (Ha : exists w', get (setw s j (set_st u WAtBarrier)) i = Some w' /\ (w' = w \/ w_st w' <> WRunning))
      by (apply Hset; simpl; discriminate).
    destruct (all_in (w_wg u) (arrived fx) (wfs (setw s j (set_st u WAtBarrier)))).
    { inversion H; subst. apply Hpass; auto. }
    destruct (length (bbuf (setw s j (set_st u WAtBarrier))) <? bcap (setw s j (set_st u WAtBarrier)));
      inversion H; subst; auto.
  - destruct (waitcnt_done u vm lgkm); inversion H; subst; eauto. apply Hset; simpl; discriminate.
Qed.

Lemma fold_nr fx l : forall s newx b s1 newx1 b1 i w,
  fold_left (eval_one fx) l (s, newx, b) = (s1, newx1, b1) ->
  get s i = Some w ->
  exists w1, get s1 i = Some w1 /\ (w1 = w \/ w_st w1 <> WRunning).
Proof.
  induction l; simpl; intros s newx b s1 newx1 b1 i w H Hi.
  - inversion H; subst. eauto.
  - destruct (eval_one fx (s, newx, b) a) as [[s2 newx2] b2] eqn:E.
    destruct (eval_one_nr _ _ _ _ _ _ _ _ _ _ E Hi) as (w2 & H2 & Hor2).
    destruct (IHl _ _ _ _ _ _ _ _ H H2) as (w1 & H1 & Hor1).
    exists w1. split; auto. destruct Hor1 as [->|?]; auto.
Qed.

(** ** per-event version *)
Definition wf_ev_ok (w w1 : wf) : Prop :=
  w_wg w1 = w_wg w /\
  (w_st w1 = WCompleted ->
     (w_st w = WCompleted /\ w_inst w1 = w_inst w /\ w_ns w1 = w_ns w /\ w_nv w1 = w_nv w) \/
     (w_inst w1 = KEnd /\ w_inst w = KEnd /\ out_s w = 0%N /\ out_v w = 0%N /\ out_s w1 = 0%N /\ out_v w1 = 0%N)) /\
  (forall vm lgkm, w_inst w = KWait vm lgkm -> w_st w = WRunning -> w_pc w1 <> w_pc w ->
                   waitcnt_done w vm lgkm = true).

Lemma wf_ev_refl w : wf_ev_ok w w.
Proof. split; auto. split; [intros; left; auto|intros; congruence]. Qed.

Lemma step_ok_ev w w1 : wf_step_ok w w1 -> (w1 = w \/ w_st w1 <> WRunning) -> wf_ev_ok w w1.
Proof.
  intros ((E1 & E2 & E3 & E4 & E5) & C & W) Hnr. split; auto. split;
    [|intros vm lgkm Hk Hr Hpc; apply W; auto; destruct Hnr as [->|?]; auto; congruence].
  intros Hc. destruct (C Hc) as [H|(H1 & H2 & H3)]; [left; auto|right].
  unfold out_s, out_v in *. rewrite E2, E3, E4. repeat split; auto.
Qed.

Lemma get_eval fx b s i w :
  get s i = Some w -> exists w1, get (eval fx b s) i = Some w1 /\ wf_step_ok w w1 /\ (w1 = w \/ w_st w1 <> WRunning).
Proof.
  unfold eval. destruct (fold_left (eval_one fx) (internal s) (s, [], b)) as [[s1 nx] b1] eqn:E.
  intros Hi. destruct (fold_wf _ _ _ _ _ _ _ _ _ _ E Hi) as (w1 & H1 & Hok).
  destruct (fold_nr _ _ _ _ _ _ _ _ _ _ E Hi) as (w1' & H1' & Hnr). rewrite H1 in H1'; inversion H1'; subst w1'.
  eauto.
Qed.

Lemma eval_len fx b s : length (wfs (eval fx b s)) = length (wfs s).
Proof.
  unfold eval. destruct (fold_left (eval_one fx) (internal s) (s, [], b)) as [[s1 nx] b1] eqn:E.
  simpl. eapply fold_len; eauto.
Qed.

Lemma step_wf fx s e i w :
  get s i = Some w ->
  (w_st w = WCompleted -> w_ns w = 0%N /\ w_nv w = 0%N) ->
  exists w1, get (step fx s e) i = Some w1 /\ wf_ev_ok w w1.
Proof.
  intros Hi HP. unfold step. destruct (crashed s); [eauto using wf_ev_refl|].
  destruct e as [g n|j k|j|j fl|b| |]; [| | | | | |eauto using wf_ev_refl].
  - destruct (existsb _ _); [eauto using wf_ev_refl|].
    exists w; split; [|apply wf_ev_refl]. unfold get, set_wfs; simpl.
    rewrite nth_error_app1; auto. apply nth_error_Some. unfold get in Hi; congruence.
  - destruct (get s j) as [u|] eqn:Hj; [|eauto using wf_ev_refl].
    assert (Hsame : exists w1, get s i = Some w1 /\ wf_ev_ok w w1) by eauto using wf_ev_refl.
    destruct (w_st u) eqn:Hst; destruct k; auto;
    match goal with |- context [setw s j ?x] =>
      assert (Hx : exists w1, get (setw s j x) i = Some w1 /\ wf_ev_ok w w1);
      [ erewrite get_setw by eauto; destruct (Nat.eqb_spec i j); [|eauto using wf_ev_refl];
        subst i; rewrite Hi in Hj; inversion Hj; subst u; eexists; split; eauto;
        split; simpl; auto; split; [discriminate|intros; congruence]
      | simpl; try rewrite get_set_internal; auto ] end.
  - destruct (get s j) as [u|] eqn:Hj; [|eauto using wf_ev_refl].
    destruct (w_st u) eqn:Hst; eauto using wf_ev_refl.
    destruct (w_inst u) eqn:Hin; eauto using wf_ev_refl;
      (erewrite get_setw by eauto; destruct (Nat.eqb_spec i j); [|eauto using wf_ev_refl];
       subst i; rewrite Hi in Hj; inversion Hj; subst u; eexists; split; eauto;
       split; simpl; auto; split; [discriminate|intros; congruence]).
  - destruct (get s j) as [u|] eqn:Hj; [|eauto using wf_ev_refl].
    destruct fl.
    + destruct (0 <? w_nv u)%N eqn:Hc; [|eauto using wf_ev_refl].
      erewrite get_setw by eauto; destruct (Nat.eqb_spec i j); [|eauto using wf_ev_refl].
      subst i; rewrite Hi in Hj; inversion Hj; subst u; eexists; split; eauto.
      split; simpl; auto. split; [|intros; congruence].
      intros Hcm. destruct (HP Hcm) as [_ Hz]. rewrite Hz in Hc. discriminate.
    + destruct (0 <? w_ns u)%N eqn:Hc; [|eauto using wf_ev_refl].
      erewrite get_setw by eauto; destruct (Nat.eqb_spec i j); [|eauto using wf_ev_refl].
      subst i; rewrite Hi in Hj; inversion Hj; subst u; eexists; split; eauto.
      split; simpl; auto. split; [|intros; congruence].
      intros Hcm. destruct (HP Hcm) as [Hz _]. rewrite Hz in Hc. discriminate.
  - destruct (get_eval fx b s i w Hi) as (w1 & H1 & Hok & Hnr). eauto using step_ok_ev.
  - (* EFlush *)
    exists (unwind w). split; [unfold get, flush; simpl; rewrite nth_error_map; unfold get in Hi; rewrite Hi; auto|].
    unfold unwind. destruct (w_st w) eqn:Es; try apply wf_ev_refl;
      (split; simpl; auto; split; [discriminate|intros; congruence]).
Qed.

Lemma step_back fx s e i w1 :
  get (step fx s e) i = Some w1 ->
  (exists w, get s i = Some w) \/
  (get s i = None /\ w_st w1 = WReady /\ w_inst w1 = KNone /\ w_ns w1 = 0%N /\ w_nv w1 = 0%N /\
   w_arr w1 = 0 /\ w_pass w1 = 0 /\ exists n, e = EMap (w_wg w1) n).
Proof.
  intros H.
  assert (Hlen : length (wfs (step fx s e)) = length (wfs s) -> exists w, get s i = Some w).
  { intros L. assert (i < length (wfs s)) by (rewrite <- L; apply nth_error_Some; unfold get in H; congruence).
    destruct (get s i) eqn:E; eauto. apply nth_error_None in E. lia. }
  unfold step in *. destruct (crashed s); [left; eauto|].
  destruct e as [g n|j k|j|j fl|b| |]; [| | | | | |left; eauto].
  - destruct (existsb _ _); [left; eauto|]. unfold get in *; simpl in *.
    destruct (nth_error (wfs s) i) eqn:E; [left; eauto|right].
    apply nth_error_None in E. rewrite nth_error_app2 in H by auto.
    apply nth_error_In, repeat_spec in H. subst w1; simpl. repeat split; eauto.
  - left; apply Hlen. destruct (get s j); auto. destruct (w_st w), k; auto;
      destruct (is_special _); simpl; rewrite ?upd_length; auto.
  - left; apply Hlen. destruct (get s j); auto. destruct (w_st w), (w_inst w); simpl; rewrite ?upd_length; auto.
  - left; apply Hlen. destruct (get s j); auto. destruct fl; [destruct (0 <? w_nv w)%N|destruct (0 <? w_ns w)%N];
      simpl; rewrite ?upd_length; auto.
  - left; apply Hlen. apply eval_len.
  - left; apply Hlen. simpl. apply map_length.
Qed.

(** ** end-of-program and wait-count theorems (both variants of the code) *)
Definition done_ok (s : cu) : Prop :=
  forall i w, get s i = Some w -> w_st w = WCompleted -> w_inst w = KEnd /\ w_ns w = 0%N /\ w_nv w = 0%N.

Lemma out_zero w : out_s w = 0%N -> out_v w = 0%N -> w_ns w = 0%N /\ w_nv w = 0%N.
Proof. unfold out_s, out_v; lia. Qed.

Lemma done_ok_step fx s e : done_ok s -> done_ok (step fx s e).
Proof.
  intros H i w1 H1 Hc. destruct (step_back _ _ _ _ _ H1) as [[w Hw]|(_ & Hr & _)]; [|congruence].
  assert (HP : w_st w = WCompleted -> w_ns w = 0%N /\ w_nv w = 0%N) by (intros X; apply (H i w Hw X)).
  destruct (step_wf fx s e i w Hw HP) as (w1' & H1' & (_ & C & _)). rewrite H1 in H1'; inversion H1'; subst w1'.
  destruct (C Hc) as [(Hcw & E1 & E2 & E3)|(E1 & _ & _ & _ & E2 & E3)].
  - destruct (H i w Hw Hcw) as (? & ? & ?). rewrite E1, E2, E3; auto.
  - split; auto. apply out_zero; auto.
Qed.

Lemma done_ok_run fx evs : forall s, done_ok s -> done_ok (run fx s evs).
Proof. induction evs; simpl; intros; auto. apply IHevs, done_ok_step; auto. Qed.

Lemma done_ok_init : done_ok init.
Proof. intros i w H. destruct i; discriminate. Qed.

Lemma endpgm_transition fx s e i w w1 :
  done_ok s -> get s i = Some w -> w_st w <> WCompleted ->
  get (step fx s e) i = Some w1 -> w_st w1 = WCompleted ->
  w_inst w = KEnd /\ out_s w = 0%N /\ out_v w = 0%N.
Proof.
  intros Hd Hw Hn H1 Hc.
  assert (HP : w_st w = WCompleted -> w_ns w = 0%N /\ w_nv w = 0%N) by (intros; congruence).
  destruct (step_wf fx s e i w Hw HP) as (w1' & H1' & (_ & C & _)). rewrite H1 in H1'; inversion H1'; subst w1'.
  destruct (C Hc) as [(Hcw & _)|(_ & E1 & E2 & E3 & _)]; [congruence|auto].
Qed.

Lemma waitcnt_transition fx s e i w w1 vm lgkm :
  done_ok s -> get s i = Some w -> w_inst w = KWait vm lgkm -> w_st w = WRunning ->
  get (step fx s e) i = Some w1 -> w_pc w1 <> w_pc w ->
  (out_s w <= lgkm)%N /\ (out_v w <= vm)%N.
Proof.
  intros Hd Hw Hk Hr H1 Hn.
  assert (HP : w_st w = WCompleted -> w_ns w = 0%N /\ w_nv w = 0%N) by (intros; congruence).
  destruct (step_wf fx s e i w Hw HP) as (w1' & H1' & (_ & _ & W)). rewrite H1 in H1'; inversion H1'; subst w1'.
  specialize (W _ _ Hk Hr Hn). unfold waitcnt_done in W.
  apply andb_true_iff in W as [W1 W2]. apply negb_true_iff, N.ltb_ge in W1, W2. auto.
Qed.

(** * the invariant of the repaired automaton *)
Definition waitingb (w : wf) : bool :=
  match w_inst w, w_st w with KBar, WRunning | KBar, WAtBarrier => true | _, _ => false end.
Definition active (w : wf) : Prop := w_st w = WReady \/ w_st w = WRunning.
Definition strict (w : wf) : Prop :=
  is_special (w_inst w) = true /\ (w_st w = WRunning \/ w_st w = WAtBarrier).

(** [gen g] = number of barriers work-group g has passed *)
Definition U (gen : nat -> nat) (w : wf) : Prop :=
  (w_st w = WAtBarrier -> w_inst w = KBar) /\
  (w_st w <> WCompleted ->
     w_pass w = gen (w_wg w) /\ w_arr w = w_pass w + (if waitingb w then 1 else 0)) /\
  (w_st w = WCompleted -> w_pass w <= gen (w_wg w)).

Definition SInv (s : cu) : Prop :=
  NoDup (sent s) /\
  forall g, In g (sent s) <->
    ((exists i w, get s i = Some w /\ w_wg w = g) /\
     (forall i w, get s i = Some w -> w_wg w = g -> w_st w = WCompleted)).

Definition Core (gen : nat -> nat) (s : cu) : Prop :=
  crashed s = false /\
  (forall i w, get s i = Some w -> U gen w) /\
  (forall i w, get s i = Some w -> w_st w = WAtBarrier ->
     exists j u, get s j = Some u /\ w_wg u = w_wg w /\ active u) /\
  SInv s.

Definition XInv (s : cu) (newx rest : list nat) : Prop :=
  NoDup (newx ++ rest) /\
  (forall i w, get s i = Some w -> w_st w = WRunning -> is_special (w_inst w) = true -> In i (newx ++ rest)) /\
  (forall i, In i newx -> exists w, get s i = Some w /\ strict w) /\
  (forall i, In i rest -> exists w, get s i = Some w /\ (w_st w = WReady \/ strict w)).

Ltac gsw H :=
  erewrite get_setw in H by eauto;
  match type of H with context [?a =? ?b] => destruct (Nat.eqb_spec a b) end.

(** a wavefront that is Ready or Running is replaced by one that is Ready or
    Running (issue, unit completion, completion of a wait-count / other
    scheduler-handled instruction) *)
Lemma core_active gen s j u u' :
  Core gen s -> get s j = Some u -> active u -> active u' ->
  w_wg u' = w_wg u -> w_pass u' = w_pass u ->
  w_arr u' = w_pass u' + (if waitingb u' then 1 else 0) ->
  Core gen (setw s j u').
Proof.
  intros (Hc & HU & HN & HS1 & HS2) Hj Ha Ha' Eg Ep Ea.
  assert (Hnc : w_st u <> WCompleted) by (destruct Ha; congruence).
  assert (Hnc' : w_st u' <> WCompleted) by (destruct Ha'; congruence).
  split; [auto|]. split; [|split; [|split]].
  - intros i w H. gsw H; [|eauto]. inversion H; subst w. destruct (HU _ _ Hj) as (_ & U2 & _).
    destruct (U2 Hnc) as [P1 _]. split; [destruct Ha'; congruence|]. split; [|congruence].
    intros _. rewrite Eg. split; [congruence|auto].
  - intros i w H Hb. gsw H; [inversion H; subst w; destruct Ha'; congruence|].
    destruct (HN _ _ H Hb) as (k & v & Hk & Hg & Hav).
    destruct (Nat.eq_dec k j).
    + subst k. rewrite Hj in Hk; inversion Hk; subst v. exists j, u'. erewrite get_setw by eauto.
      rewrite Nat.eqb_refl. repeat split; auto; congruence.
    + exists k, v. erewrite get_setw by eauto. destruct (Nat.eqb_spec k j); try contradiction. auto.
  - exact HS1.
  - intros g. simpl. rewrite (HS2 g). split; intros [(i & w & Hi & Hg) Hall]; split.
    + destruct (Nat.eq_dec i j).
      * subst i. exists j, u'. erewrite get_setw by eauto. rewrite Nat.eqb_refl. split; auto.
        rewrite Hj in Hi; inversion Hi; subst w. congruence.
      * exists i, w. erewrite get_setw by eauto. destruct (Nat.eqb_spec i j); try contradiction; auto.
    + intros k v Hk Hgv. gsw Hk; [|eauto]. inversion Hk; subst v. exfalso. apply Hnc.
      apply (Hall j u); auto. congruence.
    + gsw Hi; [|eauto]. inversion Hi; subst w. exists j, u; split; auto. congruence.
    + intros k v Hk Hgv. destruct (Nat.eq_dec k j).
      * subst k. rewrite Hj in Hk; inversion Hk; subst v. exfalso. apply Hnc'.
        apply (Hall j u'); [erewrite get_setw by eauto; rewrite Nat.eqb_refl; auto|congruence].
      * apply (Hall k v); auto. erewrite get_setw by eauto.
        destruct (Nat.eqb_spec k j); try contradiction; auto.
Qed.

(** only the memory counters of a wavefront change *)
Lemma core_same gen s j u u' :
  Core gen s -> get s j = Some u ->
  w_wg u' = w_wg u -> w_st u' = w_st u -> w_inst u' = w_inst u ->
  w_arr u' = w_arr u -> w_pass u' = w_pass u ->
  Core gen (setw s j u').
Proof.
  intros (Hc & HU & HN & HS1 & HS2) Hj Eg Es Ei Ea Ep.
  assert (Ew : waitingb u' = waitingb u) by (unfold waitingb; rewrite Es, Ei; auto).
  split; [auto|]. split; [|split; [|split]].
  - intros i w H. gsw H; [|eauto]. inversion H; subst w. destruct (HU _ _ Hj) as (U1 & U2 & U3).
    unfold U. rewrite Es, Ei, Ea, Ep, Eg, Ew. auto.
  - intros i w H Hb.
    assert (exists w0, get s i = Some w0 /\ w_st w0 = WAtBarrier /\ w_wg w0 = w_wg w) as (w0 & H0 & Hb0 & Hg0).
    { gsw H; [inversion H; subst w i; exists u; repeat split; auto; congruence|eauto]. }
    destruct (HN _ _ H0 Hb0) as (k & v & Hk & Hg & Hav).
    destruct (Nat.eq_dec k j).
    + subst k. rewrite Hj in Hk; inversion Hk; subst v. exists j, u'. erewrite get_setw by eauto.
      rewrite Nat.eqb_refl. unfold active in *. rewrite Es. repeat split; auto; congruence.
    + exists k, v. erewrite get_setw by eauto. destruct (Nat.eqb_spec k j); try contradiction.
      repeat split; auto; congruence.
  - exact HS1.
  - intros g. simpl. rewrite (HS2 g). split; intros [(i & w & Hi & Hg) Hall]; split.
    + destruct (Nat.eq_dec i j).
      * subst i. exists j, u'. erewrite get_setw by eauto. rewrite Nat.eqb_refl. split; auto.
        rewrite Hj in Hi; inversion Hi; subst w. congruence.
      * exists i, w. erewrite get_setw by eauto. destruct (Nat.eqb_spec i j); try contradiction; auto.
    + intros k v Hk Hgv. gsw Hk; [|eauto]. inversion Hk; subst v. rewrite Es.
      apply (Hall j u); auto. congruence.
    + gsw Hi; [|eauto]. inversion Hi; subst w. exists j, u; split; auto. congruence.
    + intros k v Hk Hgv. destruct (Nat.eq_dec k j).
      * subst k. rewrite Hj in Hk; inversion Hk; subst v. rewrite <- Es.
        apply (Hall j u'); [erewrite get_setw by eauto; rewrite Nat.eqb_refl; auto|congruence].
      * apply (Hall k v); auto. erewrite get_setw by eauto.
        destruct (Nat.eqb_spec k j); try contradiction; auto.
Qed.

Lemma NoDup_app_comm_c14 {A} (a b : list A) : NoDup (b ++ a) -> NoDup (a ++ b).
Proof. intros H. eapply Permutation_NoDup; [apply Permutation_app_comm|exact H]. Qed.

(** SInv is insensitive to changes that keep work-group and completed-ness *)
Lemma sinv_keep s s' :
  sent s' = sent s ->
  (forall i, match get s i, get s' i with
             | Some w, Some w' => w_wg w' = w_wg w /\ (w_st w' = WCompleted <-> w_st w = WCompleted)
             | None, None => True
             | _, _ => False
             end) ->
  SInv s -> SInv s'.
Proof.
  intros Es Hg [HS1 HS2]. split; [rewrite Es; auto|]. intros g. rewrite Es, (HS2 g).
  split; intros [(i & w & Hi & Hw) Hall]; split.
  - specialize (Hg i). rewrite Hi in Hg. destruct (get s' i) as [w'|] eqn:E; [|contradiction].
    exists i, w'. split; auto. destruct Hg; congruence.
  - intros k v' Hk Hgv. specialize (Hg k). rewrite Hk in Hg. destruct (get s k) as [v|] eqn:E; [|contradiction].
    destruct Hg as [Eg Ec]. apply Ec. apply (Hall k v); auto. congruence.
  - specialize (Hg i). rewrite Hi in Hg. destruct (get s i) as [w0|] eqn:E; [|contradiction].
    exists i, w0. split; auto. destruct Hg; congruence.
  - intros k v Hk Hgv. specialize (Hg k). rewrite Hk in Hg. destruct (get s' k) as [v'|] eqn:E; [|contradiction].
    destruct Hg as [Eg Ec]. apply Ec. apply (Hall k v'); auto. congruence.
Qed.

(** evalSBarrier marks the wavefront AtBarrier while another wavefront of the
    group is still Ready or Running *)
Lemma core_atbarrier gen s j u :
  Core gen s -> get s j = Some u -> w_inst u = KBar ->
  (w_st u = WRunning \/ w_st u = WAtBarrier) ->
  (exists k v, k <> j /\ get s k = Some v /\ w_wg v = w_wg u /\ active v) ->
  Core gen (setw s j (set_st u WAtBarrier)).
Proof.
  intros (Hc & HU & HN & HS) Hj Hi Hst (k0 & v0 & Hne0 & Hk0 & Hg0 & Ha0).
  split; [auto|]. split; [|split].
  - intros i w H. gsw H; [|eauto]. inversion H; subst w. destruct (HU _ _ Hj) as (U1 & U2 & U3).
    unfold U; simpl. split; auto. split; [|discriminate]. intros _.
    assert (Hnc : w_st u <> WCompleted) by (destruct Hst; congruence).
    destruct (U2 Hnc) as [P1 P2]. split; auto. rewrite P2. unfold waitingb; simpl. rewrite Hi.
    destruct Hst as [->| ->]; auto.
  - intros i w H Hb.
    assert (Hgw : w_wg w = w_wg u \/ (i <> j /\ get s i = Some w)).
    { gsw H; [inversion H; subst w; auto|auto]. }
    destruct Hgw as [Hgw|[Hne Hold]].
    + exists k0, v0. erewrite get_setw by eauto. destruct (Nat.eqb_spec k0 j); try contradiction.
      repeat split; auto; congruence.
    + destruct (HN _ _ Hold Hb) as (k & v & Hk & Hg & Hav). destruct (Nat.eq_dec k j).
      * subst k. rewrite Hj in Hk; inversion Hk; subst v.
        exists k0, v0. erewrite get_setw by eauto. destruct (Nat.eqb_spec k0 j); try contradiction.
        repeat split; auto; congruence.
      * exists k, v. erewrite get_setw by eauto. destruct (Nat.eqb_spec k j); try contradiction. auto.
  - eapply sinv_keep; [| |exact HS]; [reflexivity|].
    intros i. erewrite get_setw by eauto. destruct (Nat.eqb_spec i j).
    + subst i; rewrite Hj; simpl. split; auto. split; [discriminate|destruct Hst; congruence].
    + destruct (get s i); auto. tauto.
Qed.

(** s_endpgm of a wavefront that is not the last one of its group *)
Lemma core_complete gen s j u :
  Core gen s -> get s j = Some u -> w_st u = WRunning -> w_inst u <> KBar ->
  (exists k v, k <> j /\ get s k = Some v /\ w_wg v = w_wg u /\ active v) ->
  Core gen (setw s j (set_st u WCompleted)).
Proof.
  intros (Hc & HU & HN & HS1 & HS2) Hj Hst Hi (k0 & v0 & Hne0 & Hk0 & Hg0 & Ha0).
  split; [auto|]. split; [|split; [|split]].
  - intros i w H. gsw H; [|eauto]. inversion H; subst w. destruct (HU _ _ Hj) as (U1 & U2 & U3).
    unfold U; simpl. split; [discriminate|]. split; [congruence|]. intros _.
    assert (Hnc : w_st u <> WCompleted) by congruence. destruct (U2 Hnc) as [P1 _]. lia.
  - intros i w H Hb. gsw H; [inversion H; subst w; discriminate|].
    destruct (HN _ _ H Hb) as (k & v & Hk & Hg & Hav). destruct (Nat.eq_dec k j).
    + subst k. rewrite Hj in Hk; inversion Hk; subst v.
      exists k0, v0. erewrite get_setw by eauto. destruct (Nat.eqb_spec k0 j); try contradiction.
      repeat split; auto; congruence.
    + exists k, v. erewrite get_setw by eauto. destruct (Nat.eqb_spec k j); try contradiction. auto.
  - exact HS1.
  - intros g. simpl. rewrite (HS2 g).
    assert (Hv0 : w_st v0 <> WCompleted) by (destruct Ha0; congruence).
    split; intros [(i & w & Hiw & Hg) Hall]; split.
    + destruct (Nat.eq_dec i j).
      * subst i. eexists j, _. erewrite get_setw by eauto. rewrite Nat.eqb_refl. split; eauto.
        rewrite Hj in Hiw; inversion Hiw; subst w. auto.
      * exists i, w. erewrite get_setw by eauto. destruct (Nat.eqb_spec i j); try contradiction; auto.
    + intros k v Hk Hgv. gsw Hk; [inversion Hk; subst v; auto|eauto].
    + gsw Hiw; [|eauto]. inversion Hiw; subst w. exists j, u; auto.
    + intros k v Hk Hgv. destruct (Nat.eq_dec k j).
      * subst k. rewrite Hj in Hk; inversion Hk; subst v. exfalso. apply Hv0.
        apply (Hall k0 v0); [erewrite get_setw by eauto; destruct (Nat.eqb_spec k0 j); try contradiction; auto|congruence].
      * apply (Hall k v); auto. erewrite get_setw by eauto.
        destruct (Nat.eqb_spec k j); try contradiction; auto.
Qed.

(** s_endpgm of the last wavefront of its group: completion message sent *)
Lemma core_complete_last gen s j u :
  Core gen s -> get s j = Some u -> w_st u = WRunning -> w_inst u <> KBar ->
  (forall k v, get s k = Some v -> w_wg v = w_wg u -> k <> j -> w_st v = WCompleted) ->
  Core gen (add_sent (setw s j (set_st u WCompleted)) (w_wg u)).
Proof.
  intros (Hc & HU & HN & HS1 & HS2) Hj Hst Hi Hall0.
  split; [auto|]. split; [|split; [|split]].
  - intros i w H. rewrite get_add_sent in H. gsw H; [|eauto]. inversion H; subst w.
    destruct (HU _ _ Hj) as (U1 & U2 & U3).
    unfold U; simpl. split; [discriminate|]. split; [congruence|]. intros _.
    assert (Hnc : w_st u <> WCompleted) by congruence. destruct (U2 Hnc) as [P1 _]. lia.
  - intros i w H Hb. rewrite get_add_sent in H. gsw H; [inversion H; subst w; discriminate|].
    destruct (HN _ _ H Hb) as (k & v & Hk & Hg & Hav). destruct (Nat.eq_dec k j).
    + subst k. rewrite Hj in Hk; inversion Hk; subst v.
      (* the group of w would consist of completed wavefronts only *)
      assert (w_st w = WCompleted) by (apply (Hall0 i w); auto). congruence.
    + exists k, v. rewrite get_add_sent. erewrite get_setw by eauto.
      destruct (Nat.eqb_spec k j); try contradiction. auto.
  - simpl. apply NoDup_app_comm_c14. simpl. constructor; auto.
    intros Hin. apply HS2 in Hin as [_ Hall]. specialize (Hall j u Hj eq_refl). congruence.
  - intros g. simpl. rewrite in_app_iff, (HS2 g). simpl.
    split.
    + intros [[(i & w & Hiw & Hg) Hall]|[Hg|[]]]; split.
      * destruct (Nat.eq_dec i j).
        -- subst i. eexists j, _. rewrite get_add_sent.
           erewrite get_setw by eauto. rewrite Nat.eqb_refl. split; eauto.
           rewrite Hj in Hiw; inversion Hiw; subst w. auto.
        -- exists i, w. rewrite get_add_sent. erewrite get_setw by eauto.
           destruct (Nat.eqb_spec i j); try contradiction; auto.
      * intros k v Hk Hgv. rewrite get_add_sent in Hk. gsw Hk; [inversion Hk; subst v; auto|eauto].
      * subst g. eexists j, _. rewrite get_add_sent. erewrite get_setw by eauto. rewrite Nat.eqb_refl. split; eauto.
      * subst g. intros k v Hk Hgv. rewrite get_add_sent in Hk. gsw Hk; [inversion Hk; subst v; auto|].
        apply (Hall0 k v); auto.
    + intros [(i & w & Hiw & Hg) Hall]. destruct (Nat.eq_dec g (w_wg u)); [right; left; auto|left].
      rewrite get_add_sent in Hiw. split.
      * gsw Hiw; [inversion Hiw; subst w; simpl in Hg; congruence|eauto].
      * intros k v Hk Hgv. destruct (Nat.eq_dec k j).
        -- subst k. rewrite Hj in Hk; inversion Hk; subst v. congruence.
        -- apply (Hall k v); auto. rewrite get_add_sent. erewrite get_setw by eauto.
           destruct (Nat.eqb_spec k j); try contradiction; auto.
Qed.

(** passBarrier of group g, triggered by wavefront j (the last arrival, or a
    wavefront that ends while all the others wait) *)
Definition Rg (g : nat) (w : wf) : wf := if w_wg w =? g then release w else w.
Definition gen_up (gen : nat -> nat) (g : nat) : nat -> nat :=
  fun x => if x =? g then S (gen g) else gen x.

Lemma core_pass gen s s' g j u u' :
  Core gen s -> get s j = Some u -> w_wg u = g -> w_st u <> WCompleted ->
  w_wg u' = g -> U (gen_up gen g) u' -> w_st u' <> WAtBarrier ->
  (forall k v, get s k = Some v -> w_wg v = g -> k <> j -> w_st v = WAtBarrier \/ w_st v = WCompleted) ->
  (forall i, get s' i = if i =? j then Some u' else option_map (Rg g) (get s i)) ->
  sent s' = sent s -> crashed s' = crashed s ->
  (exists k x, get s' k = Some x /\ w_wg x = g /\ w_st x <> WCompleted) ->
  Core (gen_up gen g) s'.
Proof.
  intros (Hc & HU & HN & HS1 & HS2) Hj Hgu Hlu Hgu' HU' Hnb Hall Hget Hsent Hcr Hlive.
  split; [congruence|]. split; [|split; [|split]].
  - intros i w H. rewrite Hget in H. destruct (Nat.eqb_spec i j); [inversion H; subst w; auto|].
    destruct (get s i) as [v|] eqn:Hv; [|discriminate]. simpl in H; inversion H; subst w; clear H.
    destruct (HU _ _ Hv) as (U1 & U2 & U3). unfold Rg, gen_up.
    destruct (Nat.eqb_spec (w_wg v) g) as [Eg|Eg].
    + destruct (Hall _ _ Hv Eg n) as [Hb|Hcm]; unfold release; rewrite ?Hb, ?Hcm.
      * assert (Hnc : w_st v <> WCompleted) by congruence. destruct (U2 Hnc) as [P1 P2].
        unfold U; simpl. rewrite Eg, Nat.eqb_refl. split; [discriminate|]. split; [|discriminate].
        intros _. split; [congruence|]. rewrite P2. unfold waitingb. rewrite (U1 Hb), Hb; simpl. lia.
      * unfold U. rewrite Hcm, Eg, Nat.eqb_refl. split; [discriminate|]. split; [congruence|].
        intros _. specialize (U3 Hcm). rewrite Eg in U3. lia.
    + unfold U. destruct (Nat.eqb_spec (w_wg v) g); try contradiction. auto.
  - intros i w H Hb. rewrite Hget in H. destruct (Nat.eqb_spec i j); [inversion H; subst w; contradiction|].
    destruct (get s i) as [v|] eqn:Hv; [|discriminate]. simpl in H; inversion H; subst w; clear H.
    unfold Rg in *. destruct (Nat.eqb_spec (w_wg v) g) as [Eg|Eg].
    + exfalso. destruct (Hall _ _ Hv Eg n) as [Hb'|Hcm]; unfold release in Hb; rewrite ?Hb', ?Hcm in Hb;
        simpl in Hb; congruence.
    + destruct (HN _ _ Hv Hb) as (k & x & Hk & Hgx & Hax).
      exists k, x. rewrite Hget. destruct (Nat.eqb_spec k j).
      * subst k. rewrite Hj in Hk; inversion Hk; subst x. congruence.
      * rewrite Hk; simpl. destruct (Nat.eqb_spec (w_wg x) g); [congruence|auto].
  - rewrite Hsent; auto.
  - intros g'. rewrite Hsent, (HS2 g'). destruct (Nat.eq_dec g' g) as [->|Hne].
    + split; intros [_ Hall'].
      * exfalso. apply Hlu. apply (Hall' j u); auto.
      * exfalso. destruct Hlive as (k & x & Hk & Hgx & Hlx). apply Hlx. apply (Hall' k x); auto.
    + assert (Hsame : forall i w, w_wg w = g' -> (get s i = Some w <-> get s' i = Some w)).
      { intros i w Hgw. rewrite Hget. destruct (Nat.eqb_spec i j).
        - subst i. split; intros H; [rewrite Hj in H|]; inversion H; subst w; congruence.
        - destruct (get s i) as [v|]; simpl; [|tauto]. unfold Rg.
          destruct (Nat.eqb_spec (w_wg v) g) as [Eg|Eg]; [|tauto].
          split; intros H; inversion H; subst w.
          + congruence.
          + pose proof (release_same v) as (E1 & _). congruence. }
      split; intros [(i & w & Hi & Hg) Hall']; split.
      * exists i, w. split; auto. apply Hsame; auto.
      * intros k v Hk Hgv. apply (Hall' k v); auto. apply Hsame; auto.
      * exists i, w. split; auto. apply Hsame; auto.
      * intros k v Hk Hgv. apply (Hall' k v); auto. apply Hsame; auto.
Qed.

Lemma core_ext gen s s' :
  (forall i, get s' i = get s i) -> sent s' = sent s -> crashed s' = crashed s ->
  Core gen s -> Core gen s'.
Proof.
  intros Hg Hs Hc (C1 & C2 & C3 & C4 & C5). split; [congruence|]. split; [|split; [|split]].
  - intros i w H. rewrite Hg in H. eauto.
  - intros i w H Hb. rewrite Hg in H. destruct (C3 _ _ H Hb) as (k & v & Hk & ?). exists k, v. rewrite Hg. auto.
  - rewrite Hs; auto.
  - intros g. rewrite Hs, (C5 g). split; intros [(i & w & Hi & Hw) Hall]; split.
    + exists i, w. rewrite Hg. auto.
    + intros k v Hk. rewrite Hg in Hk. eauto.
    + exists i, w. rewrite <- Hg. auto.
    + intros k v Hk. rewrite <- Hg in Hk. eauto.
Qed.

Lemma NoDup_filter_app {A} (f : A -> bool) (a b : list A) : NoDup (a ++ b) -> NoDup (filter f a ++ b).
Proof.
  induction a; simpl; auto. intros H; inversion H; subst. destruct (f a); auto.
  simpl. constructor; auto. rewrite in_app_iff in *. rewrite filter_In. tauto.
Qed.

Lemma x_drop s s' newx j r u' :
  XInv s newx (j :: r) ->
  (forall i, i <> j -> get s' i = get s i) -> get s' j = Some u' ->
  ~ (w_st u' = WRunning /\ is_special (w_inst u') = true) ->
  XInv s' newx r.
Proof.
  intros (X1 & X2 & X3 & X4) Hne Hj Hu'.
  pose proof (NoDup_remove_1 _ _ _ X1) as N1. pose proof (NoDup_remove_2 _ _ _ X1) as N2.
  split; [auto|]. split; [|split].
  - intros i w H Hr Hs. destruct (Nat.eq_dec i j); [subst i; rewrite Hj in H; inversion H; subst w; tauto|].
    rewrite Hne in H by auto. specialize (X2 _ _ H Hr Hs). rewrite in_app_iff in *. simpl in X2.
    destruct X2 as [?|[?|?]]; auto. congruence.
  - intros i Hin. assert (i <> j) by (intros ->; apply N2; rewrite in_app_iff; auto).
    rewrite Hne by auto. auto.
  - intros i Hin. assert (i <> j) by (intros ->; apply N2; rewrite in_app_iff; auto).
    rewrite Hne by auto. apply X4; simpl; auto.
Qed.

Lemma x_keep s s' newx j r u' :
  XInv s newx (j :: r) ->
  (forall i, i <> j -> get s' i = get s i) -> get s' j = Some u' -> strict u' ->
  XInv s' (newx ++ [j]) r.
Proof.
  intros (X1 & X2 & X3 & X4) Hne Hj Hu'.
  pose proof (NoDup_remove_2 _ _ _ X1) as N2.
  split; [rewrite <- app_assoc; auto|]. split; [|split].
  - intros i w H Hr Hs. rewrite <- app_assoc; simpl.
    destruct (Nat.eq_dec i j); [subst i; rewrite in_app_iff; simpl; auto|].
    rewrite Hne in H by auto. eauto.
  - intros i Hin. rewrite in_app_iff in Hin. destruct Hin as [Hin|[->|[]]]; [|eauto].
    assert (i <> j) by (intros ->; apply N2; rewrite in_app_iff; auto).
    rewrite Hne by auto. auto.
  - intros i Hin. assert (i <> j) by (intros ->; apply N2; rewrite in_app_iff; auto).
    rewrite Hne by auto. apply X4; simpl; auto.
Qed.

Lemma x_pass s s' newx j r g u u' :
  XInv s newx (j :: r) -> get s j = Some u -> w_wg u = g ->
  (forall k v, get s k = Some v -> w_wg v = g -> k <> j -> w_st v = WAtBarrier \/ w_st v = WCompleted) ->
  (forall i, get s' i = if i =? j then Some u' else option_map (Rg g) (get s i)) ->
  w_st u' <> WRunning ->
  XInv s' (remove_wg s g newx) r.
Proof.
  intros (X1 & X2 & X3 & X4) Hj Hgu Hall Hget Hu'.
  pose proof (NoDup_remove_1 _ _ _ X1) as N1. pose proof (NoDup_remove_2 _ _ _ X1) as N2.
  assert (Hother : forall i v, i <> j -> get s i = Some v -> w_wg v <> g -> get s' i = Some v).
  { intros i v Hn Hv Hg. rewrite Hget. destruct (Nat.eqb_spec i j); try contradiction.
    rewrite Hv; simpl. unfold Rg. destruct (Nat.eqb_spec (w_wg v) g); congruence. }
  split; [apply NoDup_filter_app; auto|]. split; [|split].
  - intros i w H Hr Hs. rewrite Hget in H. destruct (Nat.eqb_spec i j); [inversion H; subst w; contradiction|].
    destruct (get s i) as [v|] eqn:Hv; [|discriminate]. simpl in H; inversion H; subst w; clear H.
    unfold Rg in *. destruct (Nat.eqb_spec (w_wg v) g) as [Eg|Eg].
    + exfalso. destruct (Hall _ _ Hv Eg n) as [Hb|Hc]; unfold release in Hr; rewrite ?Hb, ?Hc in Hr; simpl in Hr; congruence.
    + specialize (X2 _ _ Hv Hr Hs). rewrite in_app_iff in *. simpl in X2. destruct X2 as [?|[?|?]]; auto; [|congruence].
      left. unfold remove_wg. rewrite filter_In. split; auto. unfold not_wg, wg_of. rewrite Hv.
      apply negb_true_iff, Nat.eqb_neq; auto.
  - intros i Hin. unfold remove_wg in Hin. rewrite filter_In in Hin. destruct Hin as [Hin Hf].
    destruct (X3 _ Hin) as (v & Hv & Hsv). unfold not_wg, wg_of in Hf. rewrite Hv in Hf.
    apply negb_true_iff, Nat.eqb_neq in Hf.
    assert (i <> j) by (intros ->; apply N2; rewrite in_app_iff; auto).
    exists v. split; auto.
  - intros i Hin. assert (Hn : i <> j) by (intros ->; apply N2; rewrite in_app_iff; auto).
    destruct (X4 i (or_intror Hin)) as (v & Hv & Hsv).
    destruct (Nat.eq_dec (w_wg v) g) as [Eg|Eg]; [|exists v; split; auto].
    rewrite Hget. destruct (Nat.eqb_spec i j); try contradiction. rewrite Hv; simpl.
    eexists; split; eauto. unfold Rg. destruct (Nat.eqb_spec (w_wg v) g); try contradiction.
    left. destruct (Hall _ _ Hv Eg Hn) as [Hb|Hc]; unfold release; rewrite ?Hb, ?Hc; simpl; auto.
    exfalso. destruct Hsv as [?|[_ [?|?]]]; congruence.
Qed.

Definition InvG gen s newx rest := Core gen s /\ XInv s newx rest.

Lemma U_live gen w : U gen w -> w_st w <> WCompleted ->
  w_pass w = gen (w_wg w) /\ w_arr w = w_pass w + (if waitingb w then 1 else 0).
Proof. intros (_ & H & _); auto. Qed.

Lemma eval_one_inv gen s newx j r b s1 newx1 b1 :
  InvG gen s newx (j :: r) ->
  eval_one true (s, newx, b) j = (s1, newx1, b1) ->
  exists gen', InvG gen' s1 newx1 r.
Proof.
  intros [HC HX] H. pose proof HC as (Hcr & HU & HN & HS).
  pose proof HX as (X1 & X2 & X3 & X4).
  destruct (X4 j (or_introl eq_refl)) as (u & Hj & Hsu).
  unfold eval_one in H. rewrite Hj in H. simpl andb in H.
  destruct (st_eqb (w_st u) WReady) eqn:Hrd.
  { (* released earlier in this pass *)
    inversion H; subst. exists gen. split; auto. apply st_eqb_eq in Hrd.
    eapply x_drop; eauto. rewrite Hrd. intros [? _]; discriminate. }
  assert (Hstrict : strict u).
  { destruct Hsu as [Hr|?]; auto. rewrite Hr in Hrd; discriminate. }
  destruct Hstrict as [Hspec Hst]. pose proof (HU _ _ Hj) as HUu.
  assert (Hnc : w_st u <> WCompleted) by (destruct Hst; congruence).
  destruct (U_live _ _ HUu Hnc) as [Pu Au].
  (* completion of a scheduler-handled instruction other than barrier / end *)
  assert (Hready : w_inst u <> KBar -> exists gen', InvG gen' (setw s j (set_st u WReady)) newx r).
  { intros Hnb. assert (Hrun : w_st u = WRunning).
    { destruct Hst; auto. destruct HUu as (U1 & _). specialize (U1 H0). contradiction. }
    exists gen. split.
    - eapply core_active; eauto; [right; auto|left; auto|]. simpl. rewrite Au.
      unfold waitingb; simpl. rewrite Hrun. destruct (w_inst u); auto; contradiction.
    - eapply x_drop; eauto; [intros i Hn; erewrite get_setw by eauto; destruct (Nat.eqb_spec i j); congruence| |].
      + erewrite get_setw by eauto. rewrite Nat.eqb_refl. reflexivity.
      + simpl. intros [? _]; discriminate. }
  assert (Hkeep : exists gen', InvG gen' s (newx ++ [j]) r).
  { exists gen. split; auto. eapply x_keep; eauto. split; auto. }
  destruct (w_inst u) eqn:Hinst; try discriminate.
  - (* KEnd *)
    assert (Hrun : w_st u = WRunning).
    { destruct Hst; auto. destruct HUu as (U1 & _). specialize (U1 H0). congruence. }
    unfold eval_endpgm in H.
    destruct ((0 <? out_v u) || (0 <? out_s u))%N; [inversion H; subst; auto|].
    destruct (all_others 0 (w_wg u) j is_completed (wfs s)) eqn:Hall.
    { destruct b; [inversion H; subst; auto|]. inversion H; subst; clear H. exists gen.
      rewrite all_others_true in Hall. split.
      - apply core_complete_last; auto; try congruence.
        intros k v Hk Hg Hn. apply st_eqb_eq. apply (Hall k v); auto.
      - eapply x_drop; eauto.
        + intros i Hn. rewrite get_add_sent. erewrite get_setw by eauto. destruct (Nat.eqb_spec i j); congruence.
        + rewrite get_add_sent. erewrite get_setw by eauto. rewrite Nat.eqb_refl. reflexivity.
        + simpl. intros [? _]; discriminate. }
    apply all_others_false in Hall as (k0 & v0 & Hk0 & Hg0 & Hn0 & Hnc0). simpl in Hn0.
    unfold is_completed in Hnc0.
    destruct (all_others 0 (w_wg u) j arrived_or_done (wfs s)) eqn:Harr.
    { rewrite all_others_true in Harr.
      assert (Hallg : forall k v, get s k = Some v -> w_wg v = w_wg u -> k <> j ->
                        w_st v = WAtBarrier \/ w_st v = WCompleted).
      { intros k v Hk Hg Hn. specialize (Harr k v Hk Hg Hn). unfold arrived_or_done, is_atbarrier, is_completed in Harr.
        apply orb_true_iff in Harr as [E|E]; apply st_eqb_eq in E; auto. }
      assert (Hju : get (pass_barrier s (w_wg u)) j = Some (release u)).
      { rewrite get_pass_barrier, Hj; simpl. rewrite Nat.eqb_refl; auto. }
      rewrite Hju in H. inversion H; subst; clear H.
      set (u' := set_st (release u) WCompleted).
      assert (Hget : forall i, get (setw (pass_barrier s (w_wg u)) j u') i =
                       if i =? j then Some u' else option_map (Rg (w_wg u)) (get s i)).
      { intros i. erewrite get_setw by eauto. destruct (i =? j); auto. apply get_pass_barrier. }
      exists (gen_up gen (w_wg u)). split.
      - eapply core_pass with (u := u) (u' := u'); eauto.
        + unfold u', release; rewrite Hrun; reflexivity.
        + unfold u', release; rewrite Hrun. unfold U, gen_up; simpl. rewrite Nat.eqb_refl.
          split; [discriminate|]. split; [congruence|]. intros _. lia.
        + unfold u'; simpl; discriminate.
        + assert (Hb0 : w_st v0 = WAtBarrier).
          { destruct (Hallg k0 v0 Hk0 Hg0 Hn0) as [?|E]; auto. rewrite E in Hnc0; discriminate. }
          exists k0, (release v0). rewrite Hget. destruct (Nat.eqb_spec k0 j); try contradiction.
          fold (get s k0) in Hk0. rewrite Hk0; simpl. unfold Rg.
          destruct (Nat.eqb_spec (w_wg v0) (w_wg u)); try contradiction.
          unfold release; rewrite Hb0; simpl. repeat split; auto; discriminate.
      - eapply x_pass with (u := u) (u' := u'); eauto. unfold u'; simpl; discriminate. }
    apply all_others_false in Harr as (k1 & v1 & Hk1 & Hg1 & Hn1 & Hna1). simpl in Hn1.
    assert (Hact1 : active v1).
    { unfold arrived_or_done, is_atbarrier, is_completed in Hna1. apply orb_false_iff in Hna1 as [E1 E2].
      unfold active. destruct (w_st v1); simpl in *; auto; discriminate. }
    destruct (exists_in (w_wg u) is_executing (wfs s)) eqn:Hex.
    + inversion H; subst; clear H. exists gen. split.
      * apply core_complete; auto; try congruence. exists k1, v1; auto.
      * eapply x_drop; eauto.
        -- intros i Hn. erewrite get_setw by eauto. destruct (Nat.eqb_spec i j); congruence.
        -- erewrite get_setw by eauto. rewrite Nat.eqb_refl. reflexivity.
        -- simpl. intros [? _]; discriminate.
    + exfalso. assert (exists_in (w_wg u) is_executing (wfs s) = true); [|congruence].
      apply exists_in_true. exists j, u. repeat split; auto. unfold is_executing. rewrite Hrun; auto.
  - (* KBar *)
    unfold eval_barrier in H.
    set (uA := set_st u WAtBarrier) in *. set (sa := setw s j uA) in *.
    assert (Hgsa : forall i, get sa i = if i =? j then Some uA else get s i).
    { intros i. unfold sa. erewrite get_setw by eauto. auto. }
    destruct (all_in (w_wg u) (arrived true) (wfs sa)) eqn:Hall.
    + rewrite all_in_true in Hall. inversion H; subst; clear H.
      assert (Hallg : forall k v, get s k = Some v -> w_wg v = w_wg u -> k <> j ->
                        w_st v = WAtBarrier \/ w_st v = WCompleted).
      { intros k v Hk Hg Hn. assert (Hk' : nth_error (wfs sa) k = Some v).
        { fold (get sa k). rewrite Hgsa. destruct (Nat.eqb_spec k j); try contradiction; auto. }
        specialize (Hall k v Hk' Hg). unfold arrived, is_atbarrier, is_completed in Hall. simpl in Hall.
        apply orb_true_iff in Hall as [E|E]; apply st_eqb_eq in E; auto. }
      set (u' := release uA).
      assert (Hget : forall i, get (pass_barrier sa (w_wg u)) i =
                       if i =? j then Some u' else option_map (Rg (w_wg u)) (get s i)).
      { intros i. rewrite get_pass_barrier, Hgsa. destruct (i =? j); auto. simpl.
        unfold u', uA; simpl. rewrite Nat.eqb_refl. auto. }
      exists (gen_up gen (w_wg u)). split.
      * eapply core_pass with (u := u) (u' := u'); eauto.
        -- unfold U, gen_up, u', uA, release; simpl. rewrite Nat.eqb_refl.
           split; [discriminate|]. split; [|discriminate]. intros _. split; [congruence|].
           rewrite Au. unfold waitingb. rewrite Hinst. destruct Hst as [-> | ->]; simpl; lia.
        -- unfold u', uA, release; simpl; discriminate.
        -- exists j, u'. rewrite Hget, Nat.eqb_refl. unfold u', uA, release; simpl.
           repeat split; auto; discriminate.
      * replace (remove_wg s (w_wg u) newx) with (remove_wg s (w_wg u) newx) by auto.
        eapply x_pass with (u := u) (u' := u'); eauto. unfold u', uA, release; simpl; discriminate.
    + apply all_in_false in Hall as (k0 & v0 & Hk0 & Hg0 & Hna0).
      fold (get sa k0) in Hk0. rewrite Hgsa in Hk0.
      destruct (Nat.eqb_spec k0 j).
      { inversion Hk0; subst v0. unfold arrived, is_atbarrier, uA in Hna0; simpl in Hna0. discriminate. }
      assert (Hact0 : active v0).
      { unfold arrived, is_atbarrier, is_completed in Hna0. simpl in Hna0. apply orb_false_iff in Hna0 as [E1 E2].
        unfold active. destruct (w_st v0); simpl in *; auto; discriminate. }
      assert (HCa : Core gen sa).
      { apply core_atbarrier; auto. exists k0, v0; auto. }
      destruct (length (bbuf sa) <? bcap sa); inversion H; subst; clear H; exists gen.
      * split; [eapply core_ext; [| | |exact HCa]; auto|].
        eapply x_drop with (u' := uA); eauto.
        -- intros i Hn. rewrite get_set_bbuf, Hgsa. destruct (Nat.eqb_spec i j); congruence.
        -- rewrite get_set_bbuf, Hgsa, Nat.eqb_refl; auto.
        -- unfold uA; simpl. intros [? _]; discriminate.
      * split; auto. eapply x_keep with (u' := uA); eauto.
        -- intros i Hn. rewrite Hgsa. destruct (Nat.eqb_spec i j); congruence.
        -- rewrite Hgsa, Nat.eqb_refl; auto.
        -- unfold uA; split; simpl; auto. rewrite Hinst; auto.
  - (* KWait *)
    destruct (waitcnt_done u vm lgkm); inversion H; subst; auto. apply Hready; discriminate.
  - (* KSpec *)
    inversion H; subst. apply Hready; discriminate.
Qed.

Lemma fold_inv l : forall gen s newx b s1 newx1 b1,
  InvG gen s newx l ->
  fold_left (eval_one true) l (s, newx, b) = (s1, newx1, b1) ->
  exists gen', InvG gen' s1 newx1 [].
Proof.
  induction l; simpl; intros gen s newx b s1 newx1 b1 HI H.
  - inversion H; subst; eauto.
  - destruct (eval_one true (s, newx, b) a) as [[s2 newx2] b2] eqn:E.
    destruct (eval_one_inv _ _ _ _ _ _ _ _ _ HI E) as (gen2 & HI2). eauto.
Qed.

(** the invariant between events *)
Definition Inv (s : cu) : Prop := exists gen, Core gen s /\ XInv s (internal s) [].

Lemma xinv_ext s s' a b :
  (forall i, get s' i = get s i) -> XInv s a b -> XInv s' a b.
Proof.
  intros Hg (X1 & X2 & X3 & X4). split; auto. split; [|split]; intros i; rewrite ?Hg; auto.
  apply X2.
Qed.

Lemma inv_eval b s : Inv s -> Inv (eval true b s).
Proof.
  intros (gen & HC & (X1 & X2 & X3 & X4)). unfold eval.
  destruct (fold_left (eval_one true) (internal s) (s, [], b)) as [[s1 nx] b1] eqn:E.
  assert (HI : InvG gen s [] (internal s)).
  { split; auto. rewrite app_nil_r in *. split; [auto|]. split; [auto|]. split.
    - intros i [].
    - intros i Hin. destruct (X3 i Hin) as (w & ? & ?). eauto. }
  destruct (fold_inv _ _ _ _ _ _ _ _ HI E) as (gen' & HC' & HX').
  exists gen'. split.
  - eapply core_ext; [| | |exact HC']; auto.
  - simpl. eapply xinv_ext; [|exact HX']. auto.
Qed.

Lemma x_ev_same s X j u u' :
  XInv s X [] -> get s j = Some u -> w_st u' = w_st u -> w_inst u' = w_inst u ->
  XInv (setw s j u') X [].
Proof.
  intros (X1 & X2 & X3 & X4) Hj Es Ei. split; auto. split; [|split].
  - intros i w H. gsw H; [|eauto]. inversion H; subst w i. rewrite Es, Ei. eauto.
  - intros i Hin. destruct (X3 i Hin) as (w & Hw & Hs). erewrite get_setw by eauto.
    destruct (Nat.eqb_spec i j); eauto. subst i. rewrite Hj in Hw; inversion Hw; subst w.
    eexists; split; eauto. unfold strict in *. rewrite Es, Ei. auto.
  - intros i [].
Qed.

Lemma x_ev_inactive s X j u u' :
  XInv s X [] -> get s j = Some u -> ~ strict u ->
  ~ (w_st u' = WRunning /\ is_special (w_inst u') = true) ->
  XInv (setw s j u') X [].
Proof.
  intros (X1 & X2 & X3 & X4) Hj Hns Hu'. split; auto. split; [|split].
  - intros i w H. gsw H; [|eauto]. inversion H; subst w i. tauto.
  - intros i Hin. destruct (X3 i Hin) as (w & Hw & Hs). erewrite get_setw by eauto.
    destruct (Nat.eqb_spec i j); eauto. subst i. rewrite Hj in Hw; inversion Hw; subst w. contradiction.
  - intros i [].
Qed.

Lemma x_ev_add s X j u u' :
  XInv s X [] -> get s j = Some u -> w_st u = WReady -> strict u' ->
  XInv (setw s j u') (X ++ [j]) [].
Proof.
  intros (X1 & X2 & X3 & X4) Hj Hr Hu'. unfold XInv. rewrite app_nil_r in *.
  assert (Hnin : ~ In j X).
  { intros Hin. destruct (X3 j Hin) as (w & Hw & _ & Hs). rewrite Hj in Hw; inversion Hw; subst w.
    destruct Hs; congruence. }
  split; [apply NoDup_app_comm_c14; simpl; constructor; auto|]. split; [|split].
  - intros i w H Hrun Hs. rewrite in_app_iff; simpl. gsw H; [auto|]. left. eauto.
  - intros i Hin. rewrite in_app_iff in Hin. erewrite get_setw by eauto.
    destruct Hin as [Hin|[->|[]]].
    + destruct (Nat.eqb_spec i j); [subst; contradiction|]. auto.
    + rewrite Nat.eqb_refl. eauto.
  - intros i [].
Qed.

Lemma core_issue gen s j u k :
  Core gen s -> get s j = Some u -> w_st u = WReady -> k <> KNone ->
  Core gen (setw s j (mkWf (w_wg u) WRunning k (w_ns u) (w_nv u)
                           (match k with KBar => S (w_arr u) | _ => w_arr u end) (w_pass u) (w_pc u))).
Proof.
  intros HC Hj Hst Hk. pose proof HC as (_ & HU & _).
  assert (Hl : w_st u <> WCompleted) by congruence.
  destruct (U_live _ _ (HU _ _ Hj) Hl) as [Pu Au].
  assert (Hw : waitingb u = false) by (unfold waitingb; rewrite Hst; destruct (w_inst u); auto).
  rewrite Hw in Au.
  eapply core_active; eauto.
  - left; auto.
  - right; auto.
  - unfold waitingb; simpl. destruct k; simpl; lia.
Qed.

Lemma core_done gen s j u ns nv pc :
  Core gen s -> get s j = Some u -> w_st u = WRunning -> w_inst u <> KBar ->
  Core gen (setw s j (mkWf (w_wg u) WReady (w_inst u) ns nv (w_arr u) (w_pass u) pc)).
Proof.
  intros HC Hj Hst Hk. pose proof HC as (_ & HU & _).
  assert (Hl : w_st u <> WCompleted) by congruence.
  destruct (U_live _ _ (HU _ _ Hj) Hl) as [Pu Au].
  assert (Hw : waitingb u = false) by (unfold waitingb; destruct (w_inst u); auto; contradiction).
  rewrite Hw in Au.
  eapply core_active; eauto.
  - right; auto.
  - left; auto.
  - unfold waitingb; simpl. destruct (w_inst u); simpl; lia.
Qed.

Lemma inv_step s e : Inv s -> Inv (step true s e).
Proof.
  intros HI. pose proof HI as (gen & HC & HX). pose proof HC as (Hcr & HU & HN & HS1 & HS2).
  unfold step. rewrite Hcr.
  destruct e as [g n|j k|j|j fl|b| |]; [| | | | | |exact HI].
  - (* EMap *)
    destruct (existsb (fun w => w_wg w =? g) (wfs s)) eqn:Hex; auto.
    assert (Hfresh : forall i w, get s i = Some w -> w_wg w <> g).
    { intros i w Hw Hg. assert (existsb (fun w => w_wg w =? g) (wfs s) = true); [|congruence].
      apply existsb_exists. exists w. split; [eapply nth_error_In; eauto|apply Nat.eqb_eq; auto]. }
    set (s' := set_wfs s (wfs s ++ repeat (fresh_wf g) n)).
    assert (Hget : forall i w, get s' i = Some w -> get s i = Some w \/ (get s i = None /\ w = fresh_wf g)).
    { intros i w H. unfold get, s' in *; simpl in *. destruct (nth_error (wfs s) i) eqn:E.
      - rewrite nth_error_app1 in H by (apply nth_error_Some; congruence). left; congruence.
      - right. split; auto. apply nth_error_None in E. rewrite nth_error_app2 in H by auto.
        apply nth_error_In, repeat_spec in H. auto. }
    assert (Hold : forall i w, get s i = Some w -> get s' i = Some w).
    { intros i w H. unfold get, s' in *; simpl. rewrite nth_error_app1; auto. apply nth_error_Some; congruence. }
    exists (fun x => if x =? g then 0 else gen x). split; [split; [auto|split; [|split; [|split]]]|].
    + intros i w H. destruct (Hget _ _ H) as [Hw|[_ ->]].
      * pose proof (HU _ _ Hw) as HUw. unfold U in *. destruct (Nat.eqb_spec (w_wg w) g); auto.
        exfalso; eapply Hfresh; eauto.
      * unfold U; simpl. rewrite Nat.eqb_refl. split; [discriminate|]. split; [auto|discriminate].
    + intros i w H Hb. destruct (Hget _ _ H) as [Hw|[_ ->]]; [|discriminate].
      destruct (HN _ _ Hw Hb) as (k & v & Hk & ?). exists k, v. split; auto.
    + exact HS1.
    + intros g'. simpl. rewrite (HS2 g'). split; intros [(i & w & Hi & Hg) Hall]; split.
      * exists i, w. split; auto.
      * intros k v Hk Hgv. destruct (Hget _ _ Hk) as [Hv|[_ ->]]; [eauto|].
        simpl in Hgv. subst g'. exfalso. eapply Hfresh; eauto.
      * destruct (Hget _ _ Hi) as [Hv|[_ ->]]; [eauto|]. exfalso.
        assert (Hc : w_st (fresh_wf g) = WCompleted) by (apply (Hall i); auto). discriminate.
      * intros k v Hk Hgv. apply (Hall k v); auto.
    + destruct HX as (X1 & X2 & X3 & X4). split; auto. split; [|split].
      * intros i w H Hr Hs. destruct (Hget _ _ H) as [Hw|[_ ->]]; [eauto|discriminate].
      * intros i Hin. destruct (X3 i Hin) as (w & Hw & ?). eauto.
      * intros i [].
  - (* EIssue *)
    destruct (get s j) as [u|] eqn:Hj; auto.
    destruct (w_st u) eqn:Hst; destruct k; auto;
      (match goal with |- context [setw _ _ ?x] => set (u' := x) end);
      (assert (HC' : Core gen (setw s j u')) by (apply core_issue; auto; discriminate));
      exists gen; simpl is_special; cbv iota;
      first [ solve [ split; [eapply core_ext; [| | |exact HC']; auto|];
                      eapply xinv_ext with (s := setw s j u'); [auto|];
                      eapply x_ev_add; eauto; unfold u', strict; simpl; auto ]
            | solve [ split; auto; eapply x_ev_inactive; eauto;
                      [intros [_ [?|?]]; congruence|unfold u'; simpl; intros [_ ?]; discriminate] ] ].
  - (* EDone *)
    destruct (get s j) as [u|] eqn:Hj; auto.
    destruct (w_st u) eqn:Hst; auto.
    destruct (w_inst u) eqn:Hin; auto;
      (match goal with |- context [setw _ _ ?x] => set (u' := x) end);
      exists gen; (split;
        [unfold u', set_st; try rewrite <- Hin; apply core_done; auto; rewrite Hin; discriminate
        |eapply x_ev_inactive; eauto;
         [intros [Hs _]; rewrite Hin in Hs; discriminate|unfold u'; simpl; intros [? _]; discriminate]]).
  - (* ERsp *)
    destruct (get s j) as [u|] eqn:Hj; auto.
    destruct fl; [destruct (0 <? w_nv u)%N|destruct (0 <? w_ns u)%N]; auto;
      exists gen; (split; [eapply core_same; eauto|eapply x_ev_same; eauto]).
  - apply inv_eval; auto.
  - (* EFlush *)
    assert (Hget : forall i, get (flush s) i = option_map unwind (get s i)).
    { intros i. unfold get, flush; simpl. apply nth_error_map. }
    assert (Hst : forall w, w_st (unwind w) = WCompleted <-> w_st w = WCompleted).
    { intros w. unfold unwind. destruct (w_st w) eqn:E; simpl; rewrite ?E; split; congruence. }
    assert (Hnr : forall w, w_st (unwind w) = WCompleted \/ w_st (unwind w) = WReady).
    { intros w. unfold unwind. destruct (w_st w) eqn:E; simpl; auto. }
    assert (Hwg : forall w, w_wg (unwind w) = w_wg w).
    { intros w. unfold unwind. destruct (w_st w); auto. }
    exists gen. split; [split; [auto|split; [|split]]|].
    + intros i w' H. rewrite Hget in H. destruct (get s i) as [w|] eqn:E; [|discriminate].
      simpl in H; inversion H; subst w'. pose proof (HU _ _ E) as (U1 & U2 & U3).
      unfold unwind. destruct (w_st w) eqn:Es; try (unfold U; rewrite Es; auto; fail);
        (unfold U; simpl; split; [discriminate|]; split; [|discriminate]; intros _;
         destruct U2 as [P _]; [congruence|]; split; auto;
         unfold waitingb; simpl; destruct (w_inst w); lia).
    + intros i w' H Hb. rewrite Hget in H. destruct (get s i) as [w|] eqn:E; [|discriminate].
      simpl in H; inversion H; subst w'. destruct (Hnr w); congruence.
    + eapply sinv_keep with (s := s); [reflexivity| |split; [exact HS1|exact HS2]].
      intros i. rewrite Hget. destruct (get s i) as [w|]; simpl; auto.
    + simpl. split; [constructor|]. split; [|split].
      * intros i w' H Hr. rewrite Hget in H. destruct (get s i) as [w|] eqn:E; [|discriminate].
        simpl in H; inversion H; subst w'. destruct (Hnr w); congruence.
      * intros i [].
      * intros i [].
Qed.

Lemma inv_init : Inv init.
Proof.
  exists (fun _ => 0). split; [split; [auto|split; [|split; [|split]]]|].
  - intros i w H; destruct i; discriminate.
  - intros i w H; destruct i; discriminate.
  - constructor.
  - intros g; simpl. split; [intros []|]. intros [(i & w & H & _) _]. destruct i; discriminate.
  - split; [constructor|]. split; [|split].
    + intros i w H; destruct i; discriminate.
    + intros i [].
    + intros i [].
Qed.

Lemma inv_run evs : forall s, Inv s -> Inv (run true s evs).
Proof. induction evs; simpl; intros; auto. apply IHevs, inv_step; auto. Qed.

Lemma inv_reach evs : Inv (run true init evs).
Proof. apply inv_run, inv_init. Qed.

(** * consequences *)

Lemma safety_of_inv s : Inv s ->
  forall i j wi wj, get s i = Some wi -> get s j = Some wj -> w_wg wi = w_wg wj ->
    w_st wj <> WCompleted ->
    w_pass wi <= w_arr wj /\ w_pass wj <= w_arr wj <= S (w_pass wj) /\
    (w_st wj = WReady -> w_arr wj = w_pass wj) /\
    (w_st wi <> WCompleted -> w_pass wi = w_pass wj).
Proof.
  intros (gen & (_ & HU & _) & _) i j wi wj Hi Hj Hg Hl.
  destruct (U_live _ _ (HU _ _ Hj) Hl) as [Pj Aj].
  assert (Hpi : w_pass wi <= gen (w_wg wj)).
  { destruct (HU _ _ Hi) as (_ & U2 & U3). rewrite <- Hg.
    destruct (w_st wi) eqn:E; try (destruct U2 as [P _]; [congruence|lia]). apply U3; auto. }
  repeat split.
  - destruct (waitingb wj); lia.
  - destruct (waitingb wj); lia.
  - destruct (waitingb wj); lia.
  - intros Hr. rewrite Aj. unfold waitingb. rewrite Hr. destruct (w_inst wj); lia.
  - intros Hli. destruct (U_live _ _ (HU _ _ Hi) Hli) as [Pi _]. congruence.
Qed.

Lemma never_stuck_of_inv s : Inv s ->
  forall i w, get s i = Some w -> w_st w = WAtBarrier ->
  exists j u, get s j = Some u /\ w_wg u = w_wg w /\ (w_st u = WReady \/ w_st u = WRunning).
Proof. intros (gen & (_ & _ & HN & _) & _). exact HN. Qed.

Lemma once_of_inv s : Inv s ->
  NoDup (sent s) /\
  forall g, In g (sent s) <->
    ((exists i w, get s i = Some w /\ w_wg w = g) /\
     (forall i w, get s i = Some w -> w_wg w = g -> w_st w = WCompleted)).
Proof. intros (gen & (_ & _ & _ & HS) & _). exact HS. Qed.

Lemma no_crash_of_inv s : Inv s -> crashed s = false.
Proof. intros (gen & (H & _) & _). exact H. Qed.

(** the last arrival releases the whole group in the same evaluation *)
Lemma barrier_release s j u :
  get s j = Some u ->
  (forall k v, get s k = Some v -> w_wg v = w_wg u -> k <> j -> w_st v = WAtBarrier \/ w_st v = WCompleted) ->
  exists s', eval_barrier true s j u = (s', true, true) /\
    forall k v, get s k = Some v -> w_wg v = w_wg u -> w_st v <> WCompleted ->
      exists v', get s' k = Some v' /\ w_st v' = WReady /\ w_pass v' = S (w_pass v) /\ w_arr v' = w_arr v.
Proof.
  intros Hj Hall. unfold eval_barrier.
  set (sa := setw s j (set_st u WAtBarrier)).
  assert (Hgsa : forall i, get sa i = if i =? j then Some (set_st u WAtBarrier) else get s i).
  { intros i. unfold sa. erewrite get_setw by eauto. auto. }
  assert (Ha : all_in (w_wg u) (arrived true) (wfs sa) = true).
  { apply all_in_true. intros k v Hk Hg. fold (get sa k) in Hk. rewrite Hgsa in Hk.
    destruct (Nat.eqb_spec k j).
    - inversion Hk; subst v. reflexivity.
    - unfold arrived, is_atbarrier, is_completed. destruct (Hall k v Hk Hg n) as [-> | ->]; reflexivity. }
  rewrite Ha. eexists; split; eauto.
  intros k v Hk Hg Hl. rewrite get_pass_barrier, Hgsa. destruct (Nat.eqb_spec k j).
  - subst k. rewrite Hj in Hk; inversion Hk; subst v. simpl. rewrite Nat.eqb_refl.
    eexists; split; eauto.
  - rewrite Hk; simpl. rewrite Hg, Nat.eqb_refl. eexists; split; eauto.
    unfold release. destruct (Hall k v Hk Hg n) as [E|E]; [rewrite E; simpl; auto|congruence].
Qed.

(** * the code as found: a group in which one wavefront ended before the other
      reached the barrier is never released *)
Definition early_exit_trace : list ev :=
  [EMap 0 2; EIssue 0 KEnd; EEval 1; EIssue 1 KBar; EEval 1].

Lemma old_stuck_state :
  let s := run false init early_exit_trace in
  map w_st (wfs s) = [WCompleted; WAtBarrier] /\ internal s = [] /\ bbuf s = [1] /\ sent s = [].
Proof. vm_compute. repeat split. Qed.

Lemma old_eval_idle b : let s := run false init early_exit_trace in eval false b s = s.
Proof. vm_compute. reflexivity. Qed.

Lemma old_stuck_forever bs :
  let s := run false init early_exit_trace in
  run false s (map EEval bs) = s.
Proof.
  intros s. induction bs; simpl; auto.
Qed.

(** the repaired code releases it *)
Lemma new_not_stuck :
  let s := run true init early_exit_trace in
  map w_st (wfs s) = [WCompleted; WReady] /\ bbuf s = [].
Proof. vm_compute. repeat split. Qed.

(** * emulator loop *)
Lemma emu_old_panics : fst (emu_run false [[SEnd]; [SBar; SEnd]]) = EPanic.
Proof. vm_compute. reflexivity. Qed.

Lemma emu_new_ok : emu_run true [[SEnd]; [SBar; SEnd]] = (EOk, [LEnd 0; LBar 1; LEnd 1]).
Proof. vm_compute. reflexivity. Qed.

(** after every wavefront ran until its next barrier or its end, the repaired
    resolveBarrier cannot panic *)
Lemma run_all_state j l : forall l1 lg,
  Forall (fun w => e_completed w = true \/ e_atbarrier w = false) l ->
  run_all j l = (l1, lg, false) ->
  Forall (fun w => e_completed w = true \/ e_atbarrier w = true) l1.
Proof.
  revert j; induction l; simpl; intros j l1 lg HF H.
  - inversion H; constructor.
  - inversion HF; subst. destruct (run_all (S j) l) as [[r' lg'] cr] eqn:E.
    destruct (e_completed a) eqn:Ec.
    + inversion H; subst. constructor; auto. eapply IHl; eauto.
    + destruct (e_prog a) as [|[|] p]; inversion H; subst; constructor; simpl; auto; eapply IHl; eauto.
Qed.

Lemma emu_round_no_panic l l1 lg :
  Forall (fun w => e_completed w = true \/ e_atbarrier w = false) l ->
  run_all 0 l = (l1, lg, false) ->
  exists l2, resolve true l1 = Some l2 /\
    Forall (fun w => e_completed w = true \/ e_atbarrier w = false) l2.
Proof.
  intros HF H. pose proof (run_all_state _ _ _ _ HF H) as H1. unfold resolve.
  destruct (forallb e_completed l1) eqn:Ea.
  - eexists; split; eauto. rewrite forallb_forall in Ea. apply Forall_forall. intros w Hin; auto.
  - assert (Hb : forallb (fun w => true && e_completed w || e_atbarrier w) l1 = true).
    { apply forallb_forall. intros w Hin. rewrite Forall_forall in H1. destruct (H1 w Hin) as [-> | ->]; simpl; auto.
      apply orb_true_r. }
    rewrite Hb. eexists; split; eauto. apply Forall_forall. intros w Hin.
    apply in_map_iff in Hin as (w0 & <- & Hin0). simpl. destruct (e_completed w0) eqn:E; simpl; auto.
Qed.

(** * progress over a whole evaluation pass *)

(** an iteration for a wavefront of another group leaves this group alone *)
Lemma eval_one_frame fx s newx b j u s1 newx1 b1 i w :
  eval_one fx (s, newx, b) j = (s1, newx1, b1) ->
  get s j = Some u -> get s i = Some w -> w_wg w <> w_wg u ->
  get s1 i = Some w.
Proof.
  unfold eval_one. intros H Hj Hi Hg. rewrite Hj in H.
  assert (Hne : i <> j) by (intros ->; rewrite Hi in Hj; inversion Hj; subst; contradiction).
  destruct (fx && st_eqb (w_st u) WReady); [inversion H; subst; auto|].
  assert (Hset : forall x, get (setw s j x) i = Some w).
  { intros x. erewrite get_setw by eauto. destruct (Nat.eqb_spec i j); congruence. }
  assert (Hpass : forall s', get s' i = Some w -> get (pass_barrier s' (w_wg u)) i = Some w).
  { intros s' E. rewrite get_pass_barrier, E; simpl. destruct (Nat.eqb_spec (w_wg w) (w_wg u)); congruence. }
  destruct (w_inst u); try (inversion H; subst; auto; fail).
  - unfold eval_endpgm in H.
    destruct ((0 <? out_v u) || (0 <? out_s u))%N; [inversion H; subst; auto|].
    destruct (all_others 0 (w_wg u) j is_completed (wfs s)).
    { destruct b; inversion H; subst; auto. rewrite get_add_sent; auto. }
    destruct (all_others 0 (w_wg u) j arrived_or_done (wfs s)).
    { assert (Hju : get (pass_barrier s (w_wg u)) j = Some (release u)).
      { rewrite get_pass_barrier, Hj; simpl. rewrite Nat.eqb_refl; auto. }
      rewrite Hju in H. inversion H; subst. erewrite get_setw by eauto.
      destruct (Nat.eqb_spec i j); try contradiction. auto. }
    destruct (exists_in (w_wg u) is_executing (wfs s)); inversion H; subst; auto.
  - unfold eval_barrier in H.
    destruct (all_in (w_wg u) (arrived fx) (wfs (setw s j (set_st u WAtBarrier)))).
    { inversion H; subst. auto. }
    destruct (length (bbuf (setw s j (set_st u WAtBarrier))) <? bcap (setw s j (set_st u WAtBarrier)));
      inversion H; subst; auto. rewrite get_set_bbuf; auto.
  - destruct (waitcnt_done u vm lgkm); inversion H; subst; auto.
Qed.

Definition NotYet (s0 : cu) (g : nat) (s : cu) : Prop :=
  forall i w0, get s0 i = Some w0 -> w_wg w0 = g ->
    (w_st w0 = WCompleted -> get s i = Some w0) /\
    (w_st w0 <> WCompleted -> exists w, get s i = Some w /\ w_wg w = g /\ waitingb w = true /\
                                     w_pass w = w_pass w0 /\ w_arr w = w_arr w0).
Definition Released (s0 : cu) (g : nat) (s : cu) : Prop :=
  forall i w0, get s0 i = Some w0 -> w_wg w0 = g ->
    (w_st w0 = WCompleted -> get s i = Some w0) /\
    (w_st w0 <> WCompleted -> exists w, get s i = Some w /\ w_wg w = g /\ w_st w = WReady /\
                                     w_pass w = S (w_pass w0) /\ w_arr w = w_arr w0).
Definition Members (s0 : cu) (g : nat) (s : cu) : Prop :=
  forall i w, get s i = Some w -> w_wg w = g -> exists w0, get s0 i = Some w0 /\ w_wg w0 = g.
Definition RunIn (g : nat) (s : cu) (l : list nat) : Prop :=
  forall i w, get s i = Some w -> w_wg w = g -> w_st w = WRunning -> In i l.

Lemma waitingb_true w : waitingb w = true -> w_inst w = KBar /\ (w_st w = WRunning \/ w_st w = WAtBarrier).
Proof. unfold waitingb. destruct (w_inst w), (w_st w); try discriminate; auto. Qed.

Lemma progress_step s0 g gen s newx j r b s1 newx1 b1 :
  InvG gen s newx (j :: r) -> Members s0 g s ->
  eval_one true (s, newx, b) j = (s1, newx1, b1) ->
  ((NotYet s0 g s /\ RunIn g s (j :: r)) \/ Released s0 g s) ->
  Members s0 g s1 /\ ((NotYet s0 g s1 /\ RunIn g s1 r) \/ Released s0 g s1).
Proof.
  intros [HC HX] HM H Hor. pose proof HX as (X1 & X2 & X3 & X4).
  destruct (X4 j (or_introl eq_refl)) as (u & Hj & Hsu).
  assert (HM1 : Members s0 g s1).
  { intros i w Hi Hg. destruct (get s i) as [w'|] eqn:E.
    - destruct (eval_one_wf _ _ _ _ _ _ _ _ _ _ H E) as (w1 & H1 & (Hs & _)). rewrite Hi in H1; inversion H1; subst w1.
      destruct Hs as (Eg & _). apply (HM i w'); auto. congruence.
    - exfalso. apply eval_one_len in H. assert (i < length (wfs s1)) by (apply nth_error_Some; unfold get in Hi; congruence).
      apply nth_error_None in E. lia. }
  split; auto.
  destruct (Nat.eq_dec (w_wg u) g) as [Eg|Eg].
  2:{ (* another group *)
    assert (Hfr : forall i w, get s i = Some w -> w_wg w = g -> get s1 i = Some w).
    { intros i w Hi Hg. eapply eval_one_frame; eauto. congruence. }
    destruct Hor as [[HN HR]|HRel]; [left; split|right].
    - intros i w0 H0 Hg0. destruct (HN i w0 H0 Hg0) as [N1 N2]. split.
      + intros Hc. apply Hfr; auto.
      + intros Hl. destruct (N2 Hl) as (w & Hw & Hgw & ?). exists w. split; auto.
    - intros i w Hi Hg Hr. destruct (HM1 i w Hi Hg) as (w0 & H0 & Hg0).
      destruct (HN i w0 H0 Hg0) as [N1 N2].
      assert (Hsi : get s i = Some w).
      { destruct (w_st w0) eqn:E0.
        1,2,4: destruct N2 as (w' & Hw' & Hgw' & _); [congruence|];
          pose proof (Hfr i w' Hw' Hgw') as Hx; rewrite Hi in Hx; inversion Hx; subst w'; auto.
        specialize (N1 eq_refl). pose proof (Hfr i w0 N1 Hg0) as Hx. rewrite Hi in Hx; inversion Hx; subst w0; auto. }
      specialize (HR i w Hsi Hg Hr). destruct HR as [->|?]; auto.
      rewrite Hsi in Hj; inversion Hj; subst u. contradiction.
    - intros i w0 H0 Hg0. destruct (HRel i w0 H0 Hg0) as [R1 R2]. split.
      + intros Hc. apply Hfr; auto.
      + intros Hl. destruct (R2 Hl) as (w & Hw & Hgw & ?). exists w. split; auto. }
  (* a wavefront of the group *)
  destruct (HM j u Hj Eg) as (u0 & Hu0 & Hgu0).
  destruct Hor as [[HN HR]|HRel].
  - destruct (HN j u0 Hu0 Hgu0) as [N1 N2].
    assert (Hl0 : w_st u0 <> WCompleted).
    { intros Hc. specialize (N1 Hc). rewrite Hj in N1; inversion N1; subst u0.
      destruct Hsu as [?|[_ [?|?]]]; congruence. }
    destruct (N2 Hl0) as (u' & Hu' & _ & Hw & Hp & Ha). rewrite Hj in Hu'; inversion Hu'; subst u'.
    destruct (waitingb_true _ Hw) as [Hinst Hst].
    unfold eval_one in H. rewrite Hj in H. simpl andb in H.
    assert (Hrd : st_eqb (w_st u) WReady = false) by (destruct Hst as [-> | ->]; auto).
    rewrite Hrd, Hinst in H. unfold eval_barrier in H.
    set (uA := set_st u WAtBarrier) in *. set (sa := setw s j uA) in *.
    assert (Hgsa : forall i, get sa i = if i =? j then Some uA else get s i).
    { intros i. unfold sa. erewrite get_setw by eauto. auto. }
    assert (HNa : NotYet s0 g sa).
    { intros i w0 H0 Hg0. destruct (HN i w0 H0 Hg0) as [M1 M2]. rewrite Hgsa. destruct (Nat.eqb_spec i j).
      - subst i. rewrite Hu0 in H0; inversion H0; subst w0. split; [contradiction|]. intros _.
        exists uA. unfold uA, waitingb; simpl. rewrite Hinst. repeat split; auto.
      - split; auto. }
    destruct (all_in (w_wg u) (arrived true) (wfs sa)) eqn:Hall.
    + rewrite all_in_true in Hall. inversion H; subst s1 newx1 b1; clear H. right.
      intros i w0 H0 Hg0. destruct (HNa i w0 H0 Hg0) as [M1 M2]. rewrite get_pass_barrier. split.
      * intros Hc. rewrite (M1 Hc); simpl. rewrite Hg0, <- Eg, Nat.eqb_refl. unfold release. rewrite Hc; auto.
      * intros Hl. destruct (M2 Hl) as (w & Hw' & Hgw & Hww & Hpw & Haw). rewrite Hw'; simpl.
        rewrite Hgw, <- Eg, Nat.eqb_refl. destruct (waitingb_true _ Hww) as [_ Hstw].
        eexists; split; eauto. unfold release. destruct Hstw as [-> | ->]; simpl; repeat split; auto; congruence.
    + assert (Hres : s1 = sa \/ s1 = set_bbuf sa (bbuf sa ++ [j])).
      { destruct (length (bbuf sa) <? bcap sa); inversion H; subst; auto. }
      assert (Hget1 : forall i, get s1 i = get sa i) by (intros i; destruct Hres as [-> | ->]; auto).
      left. split.
      * intros i w0 H0 Hg0. rewrite Hget1. apply HNa; auto.
      * intros i w Hi Hg Hr. rewrite Hget1, Hgsa in Hi. destruct (Nat.eqb_spec i j).
        -- inversion Hi; subst w. unfold uA in Hr; simpl in Hr. discriminate.
        -- specialize (HR i w Hi Hg Hr). destruct HR as [->|?]; auto. contradiction.
  - destruct (HRel j u0 Hu0 Hgu0) as [R1 R2].
    assert (Hl0 : w_st u0 <> WCompleted).
    { intros Hc. specialize (R1 Hc). rewrite Hj in R1; inversion R1; subst u0.
      destruct Hsu as [?|[_ [?|?]]]; congruence. }
    destruct (R2 Hl0) as (u' & Hu' & _ & Hrd & _). rewrite Hj in Hu'; inversion Hu'; subst u'.
    unfold eval_one in H. rewrite Hj in H. simpl andb in H. rewrite Hrd in H. simpl in H.
    inversion H; subst. right; auto.
Qed.

Lemma progress_fold s0 g l : forall gen s newx b s1 newx1 b1,
  InvG gen s newx l -> Members s0 g s ->
  fold_left (eval_one true) l (s, newx, b) = (s1, newx1, b1) ->
  ((NotYet s0 g s /\ RunIn g s l) \/ Released s0 g s) ->
  (exists gen', InvG gen' s1 newx1 []) /\ Members s0 g s1 /\ ((NotYet s0 g s1 /\ RunIn g s1 []) \/ Released s0 g s1).
Proof.
  induction l; simpl; intros gen s newx b s1 newx1 b1 HI HM H Hor.
  - inversion H; subst. split; eauto.
  - destruct (eval_one true (s, newx, b) a) as [[s2 newx2] b2] eqn:E.
    destruct (eval_one_inv _ _ _ _ _ _ _ _ _ HI E) as (gen2 & HI2).
    destruct (progress_step s0 g _ _ _ _ _ _ _ _ _ HI HM E Hor) as [HM2 Hor2].
    eapply IHl; eauto.
Qed.

(** Once every unfinished wavefront of group g has executed its s_barrier (and
    none has been released yet), the next evaluation pass makes all of them
    Ready, each with one more barrier passed. *)
Lemma progress_of_inv s g b :
  Inv s ->
  (exists i w, get s i = Some w /\ w_wg w = g /\ w_st w <> WCompleted) ->
  (forall i w, get s i = Some w -> w_wg w = g -> w_st w <> WCompleted -> waitingb w = true) ->
  forall i w, get s i = Some w -> w_wg w = g -> w_st w <> WCompleted ->
    exists w', get (eval true b s) i = Some w' /\ w_st w' = WReady /\
               w_pass w' = S (w_pass w) /\ w_arr w' = w_arr w.
Proof.
  intros (gen & HC & (X1 & X2 & X3 & X4)) (i0 & w0 & Hi0 & Hg0 & Hl0) Hall i w Hi Hg Hl.
  unfold eval. destruct (fold_left (eval_one true) (internal s) (s, [], b)) as [[s1 nx] b1] eqn:E.
  assert (HI : InvG gen s [] (internal s)).
  { split; auto. rewrite app_nil_r in *. split; [auto|]. split; [auto|]. split.
    - intros k [].
    - intros k Hin. destruct (X3 k Hin) as (v & ? & ?). eauto. }
  assert (HM : Members s g s) by (intros k v Hk Hgv; eauto).
  assert (Hstart : NotYet s g s /\ RunIn g s (internal s)).
  { split.
    - intros k v Hk Hgv. split; auto. intros Hlv. exists v. repeat split; auto. eapply Hall; eauto.
    - intros k v Hk Hgv Hr. rewrite app_nil_r in X2. apply (X2 k v); auto.
      assert (Hlv : w_st v <> WCompleted) by congruence.
      destruct (waitingb_true _ (Hall k v Hk Hgv Hlv)) as [-> _]. reflexivity. }
  destruct (progress_fold s g _ _ _ _ _ _ _ _ HI HM E (or_introl Hstart)) as ((gen' & HC' & _) & HM1 & Hor).
  destruct Hor as [[HN HR]|HRel].
  - exfalso. destruct HC' as (_ & HU' & HN' & _).
    destruct (HN i0 w0 Hi0 Hg0) as [_ N2]. destruct (N2 Hl0) as (v & Hv & Hgv & Hwv & _).
    destruct (waitingb_true _ Hwv) as [_ [Hr|Hb]]; [destruct (HR _ _ Hv Hgv Hr)|].
    destruct (HN' _ _ Hv Hb) as (k & x & Hk & Hgx & Hax).
    assert (Hgx' : w_wg x = g) by congruence.
    destruct (HM1 k x Hk Hgx') as (x0 & Hx0 & Hgx0).
    destruct (HN k x0 Hx0 Hgx0) as [M1 M2].
    destruct (w_st x0) eqn:Ex0.
    1,2,4: destruct M2 as (x' & Hx' & _ & Hwx & _); [congruence|]; rewrite Hk in Hx'; inversion Hx'; subst x';
      destruct (waitingb_true _ Hwx) as [_ [Hr|Hb']]; [destruct (HR _ _ Hk Hgx' Hr)|destruct Hax; congruence].
    specialize (M1 eq_refl). rewrite Hk in M1; inversion M1; subst x0. destruct Hax; congruence.
  - destruct (HRel i w Hi Hg) as [_ R2]. destruct (R2 Hl) as (w' & Hw' & _ & Hr & Hp & Ha).
    exists w'. simpl. fold (get s1 i). auto.
Qed.

Lemma progress_run evs g b :
  let s := run true init evs in
  (exists i w, get s i = Some w /\ w_wg w = g /\ w_st w <> WCompleted) ->
  (forall i w, get s i = Some w -> w_wg w = g -> w_st w <> WCompleted ->
     w_inst w = KBar /\ (w_st w = WRunning \/ w_st w = WAtBarrier)) ->
  forall i w, get s i = Some w -> w_wg w = g -> w_st w <> WCompleted ->
    exists w', get (step true s (EEval b)) i = Some w' /\ w_st w' = WReady /\
               w_pass w' = S (w_pass w) /\ w_arr w' = w_arr w.
Proof.
  intros s Hex Hall i w Hi Hg Hl. pose proof (inv_reach evs) as HI. fold s in HI.
  unfold step. rewrite (no_crash_of_inv _ HI).
  apply progress_of_inv with (g := g); auto.
  intros k v Hk Hgv Hlv. destruct (Hall k v Hk Hgv Hlv) as [Hin Hst].
  unfold waitingb. rewrite Hin. destruct Hst as [-> | ->]; reflexivity.
Qed.

(** * emulator: the whole work-group completes *)

(** between rounds: a wavefront has ended, or it is not at a barrier and its
    remaining program contains an s_endpgm *)
Definition ewf_ok (w : ewf) : Prop :=
  e_completed w = true \/ (e_atbarrier w = false /\ In SEnd (e_prog w)).
Definition ewf_mid (w : ewf) : Prop :=
  e_completed w = true \/ (e_atbarrier w = true /\ In SEnd (e_prog w)).

(** remaining work: segments left in the programs of the wavefronts still alive *)
Definition emeasure (l : list ewf) : nat :=
  fold_right (fun w n => (if e_completed w then 0 else length (e_prog w)) + n) 0 l.

Lemma emeasure_cons w l :
  emeasure (w :: l) = (if e_completed w then 0 else length (e_prog w)) + emeasure l.
Proof. reflexivity. Qed.

Lemma run_all_ok j l :
  Forall ewf_ok l ->
  exists l1 lg, run_all j l = (l1, lg, false) /\ Forall ewf_mid l1 /\
    emeasure l1 <= emeasure l /\ (forallb e_completed l = false -> emeasure l1 < emeasure l).
Proof.
  revert j; induction l; intros j HF; simpl.
  - exists [], []. repeat split; auto. discriminate.
  - inversion HF; subst. destruct (IHl (S j) H2) as (r1 & lg1 & E & F1 & M1 & M2). rewrite E.
    destruct (e_completed a) eqn:Ec.
    + exists (a :: r1), lg1. split; auto. split; [constructor; auto; left; auto|].
      rewrite !emeasure_cons, Ec. simpl. split; auto.
    + destruct H1 as [H1|[Hb Hin]]; [congruence|].
      destruct (e_prog a) as [|[|] p] eqn:Ep; [destruct Hin| |].
      * destruct Hin as [Hin|Hin]; [discriminate|].
        eexists _, _. split; eauto. split; [constructor; auto; right; simpl; auto|].
        rewrite !emeasure_cons, ?Ec, ?Ep. simpl. split; [lia|]. intros _. lia.
      * eexists _, _. split; eauto. split; [constructor; auto; left; auto|].
        rewrite !emeasure_cons, ?Ec, ?Ep. simpl. split; [lia|]. intros _. lia.
Qed.

Definition unbar (w : ewf) : ewf :=
  if true && e_completed w then w else mkEwf (e_prog w) (e_completed w) false.

Lemma unbar_completed w : e_completed (unbar w) = e_completed w.
Proof. unfold unbar. destruct (e_completed w) eqn:E; simpl; auto. Qed.
Lemma unbar_prog w : e_prog (unbar w) = e_prog w.
Proof. unfold unbar. destruct (e_completed w) eqn:E; simpl; auto. Qed.
Lemma unbar_ok w : ewf_mid w -> ewf_ok (unbar w).
Proof.
  unfold unbar, ewf_mid, ewf_ok. destruct (e_completed w) eqn:E; simpl; [left; auto|].
  intros [?|[_ Hin]]; [discriminate|right; auto].
Qed.
Lemma emeasure_unbar l : emeasure (map unbar l) = emeasure l.
Proof.
  induction l; auto. cbn [map]. rewrite !emeasure_cons, unbar_completed, unbar_prog. congruence.
Qed.

Lemma resolve_ok l1 :
  Forall ewf_mid l1 ->
  exists l2, resolve true l1 = Some l2 /\ Forall ewf_ok l2 /\ emeasure l2 = emeasure l1 /\
    map e_completed l2 = map e_completed l1 /\ map e_prog l2 = map e_prog l1.
Proof.
  intros HF. unfold resolve. destruct (forallb e_completed l1) eqn:Ea.
  - exists l1. repeat split; auto. rewrite forallb_forall in Ea. apply Forall_forall.
    intros w Hin. left; auto.
  - assert (Hb : forallb (fun w => true && e_completed w || e_atbarrier w) l1 = true).
    { apply forallb_forall. intros w Hin. rewrite Forall_forall in HF.
      destruct (HF w Hin) as [-> |[-> _]]; simpl; auto. apply orb_true_r. }
    rewrite Hb. exists (map unbar l1). split; [reflexivity|]. split; [|split; [|split]].
    + rewrite Forall_forall in *. intros w Hin. apply in_map_iff in Hin as (w0 & <- & Hin0).
      apply unbar_ok; auto.
    + apply emeasure_unbar.
    + rewrite map_map. apply map_ext. apply unbar_completed.
    + rewrite map_map. apply map_ext. apply unbar_prog.
Qed.

Lemma run_wg_completes fuel : forall l,
  Forall ewf_ok l -> emeasure l < fuel ->
  exists lg, run_wg true fuel l = (EOk, lg).
Proof.
  induction fuel; intros l HF Hm; [lia|]. simpl.
  destruct (forallb e_completed l) eqn:Ea; [eauto|].
  destruct (run_all_ok 0 l HF) as (l1 & lg & E & F1 & M1 & M2). rewrite E.
  destruct (resolve_ok l1 F1) as (l2 & R & F2 & M3 & _). rewrite R.
  specialize (M2 Ea).
  destruct (IHfuel l2 F2) as (lg2 & E2); [lia|]. rewrite E2. eauto.
Qed.

Lemma emeasure_init progs :
  emeasure (emu_init progs) = fold_right (fun p n => length p + n) 0 progs.
Proof. induction progs; simpl; auto. Qed.

(** EOk is returned only when every wavefront is Completed *)
Lemma run_wg_ok_log fuel : forall l lg,
  run_wg true fuel l = (EOk, lg) ->
  forall j w, nth_error l j = Some w -> e_completed w = false -> In (LEnd j) lg.
Proof.
  induction fuel; intros l lg H j w Hj Hc; simpl in H.
  - destruct (forallb e_completed l) eqn:Ea; [|discriminate].
    rewrite forallb_forall in Ea. rewrite (Ea w) in Hc; [discriminate|eapply nth_error_In; eauto].
  - destruct (forallb e_completed l) eqn:Ea.
    { rewrite forallb_forall in Ea. rewrite (Ea w) in Hc; [discriminate|eapply nth_error_In; eauto]. }
    destruct (run_all 0 l) as [[l1 lg1] cr] eqn:E. destruct cr; [discriminate|].
    destruct (resolve true l1) as [l2|] eqn:R; [|discriminate].
    destruct (run_wg true fuel l2) as [r lg2] eqn:E2. inversion H; subst r lg; clear H.
    rewrite in_app_iff.
    (* what the round did to wavefront j *)
    assert (Hround : forall j0 l l1 lg1, run_all j0 l = (l1, lg1, false) ->
              forall k w, nth_error l k = Some w -> e_completed w = false ->
              In (LEnd (j0 + k)) lg1 \/ exists w1, nth_error l1 k = Some w1 /\ e_completed w1 = false).
    { clear. intros j0 l. revert j0. induction l; intros j0 l1 lg1 H k w Hk Hc; [destruct k; discriminate|].
      simpl in H. destruct (run_all (S j0) l) as [[r' lg'] cr'] eqn:E.
      destruct k; simpl in Hk.
      - inversion Hk; subst a. rewrite Hc in H. destruct (e_prog w) as [|[|] p]; inversion H; subst.
        + right. eexists; split; simpl; eauto.
        + left. rewrite Nat.add_0_r. simpl; auto.
      - assert (Hcr : cr' = false).
        { destruct (e_completed a); [inversion H; auto|]. destruct (e_prog a) as [|[|] p]; inversion H; auto. }
        subst cr'. destruct (IHl (S j0) r' lg' E k w Hk Hc) as [Hin|(w1 & H1 & Hc1)].
        + left. replace (j0 + S k) with (S j0 + k) by lia.
          destruct (e_completed a); [inversion H; subst; auto|].
          destruct (e_prog a) as [|[|] p]; inversion H; subst; simpl; auto.
        + right. exists w1. split; auto.
          destruct (e_completed a); [inversion H; subst; auto|].
          destruct (e_prog a) as [|[|] p]; inversion H; subst; simpl; auto. }
    destruct (Hround 0 l l1 lg1 E j w Hj Hc) as [Hin|(w1 & H1 & Hc1)]; [left; auto|right].
    (* resolve keeps the completed flags *)
    assert (exists w2, nth_error l2 j = Some w2 /\ e_completed w2 = false) as (w2 & H2 & Hc2).
    { unfold resolve in R. destruct (forallb e_completed l1); [inversion R; subst; eauto|].
      destruct (forallb _ l1); [|discriminate]. inversion R; subst.
      rewrite nth_error_map, H1. simpl. eexists; split; eauto.
      rewrite Hc1. simpl. auto. }
    eapply IHfuel; eauto.
Qed.

(** runWG completes every work-group whose wavefronts all end eventually:
    with fuel 1 + total number of segments the loop terminates normally (no
    panic, no wavefront running off its program), and every wavefront has
    logged its s_endpgm. *)
Lemma emu_completes progs :
  (forall p, In p progs -> In SEnd p) ->
  exists lg, emu_run true progs = (EOk, lg) /\
    forall j, j < length progs -> In (LEnd j) lg.
Proof.
  intros Hwf. unfold emu_run.
  assert (HF : Forall ewf_ok (emu_init progs)).
  { apply Forall_forall. intros w Hin. unfold emu_init in Hin. apply in_map_iff in Hin as (p & <- & Hp).
    right; simpl; auto. }
  destruct (run_wg_completes (emu_fuel progs) (emu_init progs) HF) as (lg & E).
  { rewrite emeasure_init. unfold emu_fuel. lia. }
  exists lg. split; auto. intros j Hj.
  destruct (nth_error progs j) as [p|] eqn:Ep; [|apply nth_error_None in Ep; lia].
  eapply run_wg_ok_log with (w := mkEwf p false false); eauto.
  unfold emu_init. rewrite nth_error_map, Ep. reflexivity.
Qed.

(** a pipeline flush does not touch the wait counters, does not move any PC and
    does not end any wavefront; every wavefront that has not ended is Ready *)
Lemma flush_effect fx s i w :
  crashed s = false -> get s i = Some w ->
  exists w1, get (step fx s EFlush) i = Some w1 /\
    w_wg w1 = w_wg w /\ w_ns w1 = w_ns w /\ w_nv w1 = w_nv w /\ w_pc w1 = w_pc w /\ w_pass w1 = w_pass w /\
    (w_st w = WCompleted -> w1 = w) /\ (w_st w <> WCompleted -> w_st w1 = WReady).
Proof.
  intros Hc Hi. unfold step. rewrite Hc. exists (unwind w). split.
  - unfold get, flush; simpl. rewrite nth_error_map. unfold get in Hi. rewrite Hi. reflexivity.
  - unfold unwind. destruct (w_st w) eqn:E; simpl; repeat split; auto; congruence.
Qed.
