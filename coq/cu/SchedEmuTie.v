(** The emulator loop model of Sched.v (programs abstracted to the list of ways
    their run-until-barrier segments end) is an instance of C01's generic
    model of the same Go loop (VSys.EmuLoop, over an abstract instruction
    step): whenever the former completes a work-group, so does the latter. *)
From Coq Require Import List Arith Bool Lia.
From VSys Require EmuLoop.
From VCu Require Import Sched SchedProofs.
Import ListNotations.

(** one "instruction" = the end of the next segment; an exhausted program
    keeps running (it never reaches a barrier or an end) *)
Definition seg_step (p : list seg) (s : unit) : list seg * unit * EmuLoop.outcome :=
  match p with
  | SBar :: p' => (p', tt, EmuLoop.AtBarrier)
  | SEnd :: p' => (p', tt, EmuLoop.Done)
  | [] => ([], tt, EmuLoop.Running)
  end.

Definition conv (w : ewf) : EmuLoop.wf (list seg) :=
  EmuLoop.mkWf (e_prog w) (e_completed w) (e_atbarrier w).

Lemma conv_all_completed l : EmuLoop.all_completed (map conv l) = forallb e_completed l.
Proof. unfold EmuLoop.all_completed. induction l; simpl; auto. rewrite IHl; auto. Qed.

Lemma tie_round j l : forall l1 lg,
  run_all j l = (l1, lg, false) ->
  EmuLoop.run_round seg_step 1 (map conv l) tt = Some (map conv l1, tt).
Proof.
  revert j; induction l; intros j l1 lg H; simpl in *.
  - inversion H; auto.
  - destruct (run_all (S j) l) as [[r' lg'] cr] eqn:E. destruct a as [p c b]; simpl in *.
    assert (Hcr : cr = false).
    { destruct c; [inversion H; auto|]. destruct p as [|[|] p]; inversion H; auto. }
    subst cr. specialize (IHl _ _ _ E).
    unfold EmuLoop.run_wf; simpl. destruct c.
    + inversion H; subst. rewrite IHl. reflexivity.
    + destruct p as [|[|] p]; inversion H; subst; simpl; rewrite IHl; reflexivity.
Qed.

Lemma tie_resolve l1 l2 :
  resolve true l1 = Some l2 -> EmuLoop.resolve_barrier (map conv l1) = Some (map conv l2).
Proof.
  unfold resolve, EmuLoop.resolve_barrier. rewrite conv_all_completed.
  destruct (forallb e_completed l1); [intros H; inversion H; auto|].
  assert (E : forallb (fun x => EmuLoop.w_completed x || EmuLoop.w_at_barrier x) (map conv l1) =
              forallb (fun w => true && e_completed w || e_atbarrier w) l1).
  { induction l1; simpl; auto. rewrite IHl1; auto. }
  rewrite E. destruct (forallb _ l1); [|discriminate]. intros H; inversion H; subst. f_equal.
  rewrite !map_map. apply map_ext. intros w. unfold conv; simpl. destruct (e_completed w) eqn:Ec; simpl; rewrite ?Ec; auto.
Qed.

Lemma tie_loop fuel : forall l lg,
  run_wg true fuel l = (EOk, lg) ->
  exists xs, EmuLoop.emu_loop seg_step fuel 1 (map conv l) tt = EmuLoop.Finished (xs, tt) /\
             EmuLoop.all_completed xs = true.
Proof.
  induction fuel; intros l lg H; simpl in *; rewrite conv_all_completed.
  - destruct (forallb e_completed l) eqn:Ea; [|discriminate]. eexists; split; eauto. rewrite conv_all_completed; auto.
  - destruct (forallb e_completed l) eqn:Ea.
    { eexists; split; eauto. rewrite conv_all_completed; auto. }
    destruct (run_all 0 l) as [[l1 lg1] cr] eqn:E. destruct cr; [discriminate|].
    destruct (resolve true l1) as [l2|] eqn:R; [|discriminate].
    destruct (run_wg true fuel l2) as [r lg2] eqn:E2. inversion H; subst.
    rewrite (tie_round _ _ _ _ E), (tie_resolve _ _ R). eapply IHfuel; eauto.
Qed.

Lemma tie_run progs lg :
  emu_run true progs = (EOk, lg) ->
  exists xs, EmuLoop.run_wg seg_step (emu_fuel progs) 1 progs tt = EmuLoop.Finished (xs, tt) /\
             EmuLoop.all_completed xs = true.
Proof.
  unfold emu_run, EmuLoop.run_wg. intros H. destruct (tie_loop _ _ _ H) as (xs & E & Ha).
  exists xs. split; auto. rewrite <- E. f_equal. unfold emu_init. rewrite map_map. reflexivity.
Qed.
