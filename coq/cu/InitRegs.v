(** Executable model of the two wavefront register initialisers:
    emulation  amd/emu/computeunit.go            ComputeUnit.initWfRegs
    timing     amd/timing/cu/wfdispatcher.go     WfDispatcherImpl.setWfInfo + initRegisters
    Both are functions  code-object flags x dispatch packet x wavefront ->
    list of register writes in program order (or a crash: Go integer division
    by zero).  Definitions only; proofs are in C02Proofs.v.

    A [variant] selects between the code as found and the code after the two
    repairs made for C02 (see docs/C02.md); [fixed] is what the check ties to
    the working tree. *)
From Coq Require Import List NArith Bool.
Import ListNotations.
Open Scope N_scope.

Record variant := mkVariant {
  v_timing_v5_pack : bool;   (* timing initialiser has the code-object-V5 packed-id branch *)
  v_emu_reserves : bool;     (* emu advances the SGPR cursor for QueuePtr / PrivateSegmentSize *)
  v_subdword_wb : bool       (* timing FLAT write-back handles sbyte / ushort (used in Coalescer.v) *)
}.
Definition as_found : variant := mkVariant false false false.
Definition fixed : variant := mkVariant true true true.

(** insts.KernelCodeObject: Version, KernelCodeEntryByteOffset, the ten Enable*
    booleans and ComputePgmRsrc2 (work-group-id / work-item-id enables are bit
    fields of it, read through extractBits). *)
Record flags := mkFlags {
  f_version : N;                 (* 2, 3 or 5 *)
  f_entry : N;                   (* KernelCodeEntryByteOffset *)
  f_priv_seg_buf : bool;
  f_dispatch_ptr : bool;
  f_queue_ptr : bool;
  f_kernarg_ptr : bool;
  f_dispatch_id : bool;
  f_flat_scratch : bool;
  f_priv_seg_size : bool;
  f_wgcount_x : bool;
  f_wgcount_y : bool;
  f_wgcount_z : bool;
  f_rsrc2 : N
}.

(** kernels.HsaKernelDispatchPacket (fields read by the initialisers). *)
Record packet := mkPacket {
  p_kernel_object : N;
  p_kernarg : N;
  p_grid_x : N; p_grid_y : N; p_grid_z : N;     (* uint32 *)
  p_wg_x : N; p_wg_y : N; p_wg_z : N            (* uint16 *)
}.

(** kernels.Wavefront + its WorkGroup. *)
Record wave := mkWave {
  w_packet_addr : N;
  w_init_exec : N;
  w_first_wi : N;                               (* FirstWiFlatID *)
  w_idx : N; w_idy : N; w_idz : N;              (* WG.IDX.. *)
  w_sx : N; w_sy : N                            (* WG.SizeX, WG.SizeY *)
}.

Inductive reg := RPC | REXEC | RS (i : N) | RV (lane i : N).

Definition reg_eqb (a b : reg) : bool :=
  match a, b with
  | RPC, RPC => true | REXEC, REXEC => true
  | RS i, RS j => N.eqb i j
  | RV l i, RV m j => N.eqb l m && N.eqb i j
  | _, _ => false
  end.

Definition u32 (x : N) : N := x mod 4294967296.
Definition u64 (x : N) : N := x mod 18446744073709551616.

(** extractBits(rsrc2, lo, hi) *)
Definition bits (x lo hi : N) : N := (x / 2 ^ lo) mod 2 ^ (hi - lo + 1).
Definition en_wave_off (f : flags) : bool := negb (bits (f_rsrc2 f) 0 0 =? 0).
Definition en_wgid_x (f : flags) : bool := negb (bits (f_rsrc2 f) 7 7 =? 0).
Definition en_wgid_y (f : flags) : bool := negb (bits (f_rsrc2 f) 8 8 =? 0).
Definition en_wgid_z (f : flags) : bool := negb (bits (f_rsrc2 f) 9 9 =? 0).
Definition en_wg_info (f : flags) : bool := negb (bits (f_rsrc2 f) 10 10 =? 0).
Definition en_vgpr_wi (f : flags) : N := bits (f_rsrc2 f) 11 12.

(** (grid + uint32(wg) - 1) / uint32(wg) in uint32 arithmetic; None = division by zero panic *)
Definition wg_count (grid wg : N) : option N :=
  if wg =? 0 then None else Some (u32 (grid + wg + 4294967295) / wg).

(** The scalar part is a cursor (in bytes) walking over optional slots.  A step
    yields the writes it makes (dword register index = cursor/4) and the new
    cursor; [None] is a panic. *)
Definition sstate := (N * list (reg * N))%type.

Definition w64 (c v : N) : list (reg * N) := [(RS (c / 4), u32 v); (RS (c / 4 + 1), v / 4294967296)].
Definition w32 (c v : N) : list (reg * N) := [(RS (c / 4), v)].

Definition step (en : bool) (adv : N) (wr : N -> list (reg * N)) (s : sstate) : sstate :=
  if en then (fst s + adv, snd s ++ wr (fst s)) else s.

Definition step_opt (en : bool) (adv : N) (v : option N) (s : option sstate) : option sstate :=
  match s with
  | None => None
  | Some s => if en then match v with None => None | Some x => Some (fst s + adv, snd s ++ w32 (fst s) x) end
              else Some s
  end.

Definition nowr (_ : N) : list (reg * N) := [].

(** SGPR part, parameterised by the two places where the two files differ:
    [qadv] / [padv] = bytes the cursor advances for QueuePtr / PrivateSegmentSize. *)
Definition sgprs (qadv padv : N) (f : flags) (p : packet) (w : wave) : option (list (reg * N)) :=
  let s0 : sstate := (0, []) in
  let s1 := step (f_priv_seg_buf f) 16 nowr s0 in
  let s2 := step (f_dispatch_ptr f) 8 (fun c => w64 c (w_packet_addr w)) s1 in
  let s3 := step (f_queue_ptr f) qadv nowr s2 in
  let s4 := step (f_kernarg_ptr f) 8 (fun c => w64 c (p_kernarg p)) s3 in
  let s5 := step (f_dispatch_id f) 8 nowr s4 in
  let s6 := step (f_flat_scratch f) 8 nowr s5 in
  let s7 := step (f_priv_seg_size f) padv nowr s6 in
  let s8 := step_opt (f_wgcount_x f) 4 (wg_count (p_grid_x p) (p_wg_x p)) (Some s7) in
  let s9 := step_opt (f_wgcount_y f) 4 (wg_count (p_grid_y p) (p_wg_y p)) s8 in
  let s10 := step_opt (f_wgcount_z f) 4 (wg_count (p_grid_z p) (p_wg_z p)) s9 in
  match s10 with
  | None => None
  | Some s10 =>
    let s11 := step (en_wgid_x f) 4 (fun c => w32 c (u32 (w_idx w))) s10 in
    let s12 := step (en_wgid_y f) 4 (fun c => w32 c (u32 (w_idy w))) s11 in
    (* WorkGroupIDZ: written, cursor NOT advanced (the increment is commented out in both files) *)
    let s13 := step (en_wgid_z f) 0 (fun c => w32 c (u32 (w_idz w))) s12 in
    Some (snd s13)
  end.

(** Work-item ids of flat id i in a group of SizeX x SizeY (x Z). *)
Definition wi_z (w : wave) (i : N) := i / (w_sx w * w_sy w).
Definition wi_y (w : wave) (i : N) := (i mod (w_sx w * w_sy w)) / w_sx w.
Definition wi_x (w : wave) (i : N) := (i mod (w_sx w * w_sy w)) mod w_sx w.

Definition lanes : list N := map N.of_nat (seq 0 64).

Definition packed (x y z : N) : N :=
  N.lor (u32 x) (N.lor (u32 (u32 y * 1024)) (u32 (u32 z * 1048576))).

Definition unpacked_lane (f : flags) (w : wave) (l : N) : list (reg * N) :=
  let i := w_first_wi w + l in
  (RV l 0, u32 (wi_x w i)) ::
  (if 0 <? en_vgpr_wi f then [(RV l 1, u32 (wi_y w i))] else []) ++
  (if 1 <? en_vgpr_wi f then [(RV l 2, u32 (wi_z w i))] else []).

Definition packed_lane (w : wave) (l : N) : list (reg * N) :=
  let i := w_first_wi w + l in [(RV l 0, packed (wi_x w i) (wi_y w i) (wi_z w i))].

(** Division by zero in the lane loop (SizeX*SizeY = 0, or SizeX = 0) panics in
    the first iteration, before any VGPR is written. *)
Definition vgprs (v5pack : bool) (f : flags) (w : wave) : option (list (reg * N)) :=
  if (w_sx w * w_sy w =? 0) || (w_sx w =? 0) then None
  else Some (flat_map (fun l => if v5pack && (f_version f =? 5) then packed_lane w l
                                else unpacked_lane f w l) lanes).

Definition header (f : flags) (p : packet) (w : wave) : list (reg * N) :=
  [(RPC, u64 (p_kernel_object p + f_entry f)); (REXEC, w_init_exec w)].

Definition assemble (f : flags) (p : packet) (w : wave)
    (s v : option (list (reg * N))) : option (list (reg * N)) :=
  match s, v with
  | Some s, Some v => Some (header f p w ++ s ++ v)
  | _, _ => None
  end.

(** emu: V5 packing always present; cursor for QueuePtr / PrivateSegmentSize
    advanced only in the repaired variant. *)
Definition emu_init (vr : variant) (f : flags) (p : packet) (w : wave) : option (list (reg * N)) :=
  assemble f p w
    (sgprs (if v_emu_reserves vr then 8 else 0) (if v_emu_reserves vr then 4 else 0) f p w)
    (vgprs true f w).

(** timing: cursor always advanced; V5 packing only in the repaired variant. *)
Definition timing_init (vr : variant) (f : flags) (p : packet) (w : wave) : option (list (reg * N)) :=
  assemble f p w (sgprs 8 4 f p w) (vgprs (v_timing_v5_pack vr) f w).

(** Register file after the writes (last write wins). *)
Definition rf := reg -> N.
Definition apply_writes (ws : list (reg * N)) (r0 : rf) : rf :=
  fold_left (fun r (kv : reg * N) => fun k => if reg_eqb k (fst kv) then snd kv else r k) ws r0.

(** --- correspondence with the Go code ------------------------------------- *)

(** The harness pre-fills every register with a sentinel, runs the real
    initialiser and dumps PC, EXEC, s0..s23 and v0..v2 of all 64 lanes. *)
Definition sentinel : rf := fun k =>
  match k with
  | RPC => 0 | REXEC => 0
  | RS i => 3735879680 + i                      (* 0xDEAD0000 + i *)
  | RV l i => 3203334144 + l * 256 + i          (* 0xBEEF0000 + lane*256 + i *)
  end.

Definition observe (r : rf) : list N :=
  r RPC :: r REXEC :: map (fun i => r (RS i)) (map N.of_nat (seq 0 24)) ++
  flat_map (fun l => [r (RV l 0); r (RV l 1); r (RV l 2)]) lanes.

Definition observe_opt (o : option (list (reg * N))) : option (list N) :=
  match o with None => None | Some ws => Some (observe (apply_writes ws sentinel)) end.

Record icase := mkICase {
  ic_flags : flags; ic_packet : packet; ic_wave : wave;
  ic_emu : option (list N);       (* observed on the real emu initialiser; None = panic *)
  ic_timing : option (list N)     (* observed on the real timing initialiser *)
}.

Definition olist_eqb (a b : option (list N)) : bool :=
  match a, b with
  | None, None => true
  | Some x, Some y => Nat.eqb (length x) (length y) && forallb (fun p => N.eqb (fst p) (snd p)) (combine x y)
  | _, _ => false
  end.

(** detail: 1 = emu model differs from emu code, 2 = timing model differs, 3 = both *)
Definition icheck (c : icase) : N :=
  (if olist_eqb (observe_opt (emu_init fixed (ic_flags c) (ic_packet c) (ic_wave c))) (ic_emu c) then 0 else 1) +
  (if olist_eqb (observe_opt (timing_init fixed (ic_flags c) (ic_packet c) (ic_wave c))) (ic_timing c) then 0 else 2).

Fixpoint mism_from {A} (chk : A -> N) (i : N) (cs : list A) : list (N * N) :=
  match cs with
  | [] => []
  | c :: r => let d := chk c in (if d =? 0 then [] else [(i, d)]) ++ mism_from chk (i + 1) r
  end.

Definition imismatches (cs : list icase) : list (N * N) := mism_from icheck 0 cs.
