(** Executable model of the places where timing mode re-implements memory
    instructions that the emulator also implements:

    FLAT   timing  amd/timing/cu/defaultcoalescer.go (generateMemTransactions, readFlatAddr)
                   amd/timing/cu/computeunit.go      (handleVectorDataLoadReturn)
                   amd/timing/cu/registerfile.go     (SimpleRegisterFile.Write)
           emu     amd/emu/alu_flat.go, amd/emu/cdna3/flat.go (the runFlat handlers)
    SMEM   timing  amd/timing/cu/scalarunit.go (executeSMEMLoad) + handleScalarDataLoadReturn
           emu     amd/emu/alu.go (the runSLOADDWORD handlers)

    Memory is a flat byte map; the memory system between the compute unit and
    that map (caches, TLBs, DRAM) is NOT modelled: a read transaction for a
    cache line is answered with the bytes of that line, a write transaction
    updates the bytes whose dirty-mask bit is set.  Definitions only; proofs in
    C02Proofs.v.  Addresses are unbounded naturals except in [flat_addr]
    (64-bit wrap-around of the per-lane [addr + 4*j] is not modelled). *)
From Coq Require Import List Arith NArith Bool.
From VCu Require Import InitRegs.
Import ListNotations.
Open Scope N_scope.

Definition mem := N -> N.

Definition read (m : mem) (a : N) (n : nat) : list N := map (fun i => m (a + N.of_nat i)) (seq 0 n).

Definition write (m : mem) (a : N) (bs : list N) : mem :=
  fun x => if (a <=? x) && (x <? a + N.of_nat (length bs)) then nth (N.to_nat (x - a)) bs 0 else m x.

Definition le32 (bs : list N) : N :=
  nth 0 bs 0 + 256 * nth 1 bs 0 + 65536 * nth 2 bs 0 + 16777216 * nth 3 bs 0.

Definition bytes32 (v : N) : list N :=
  [v mod 256; (v / 256) mod 256; (v / 65536) mod 256; (v / 16777216) mod 256].

Definition sext8 (b : N) : N := if b <? 128 then b else b + 4294967040.   (* uint32(int32(int8(b))) *)

(** int64(int32(Offset0)) as a 64-bit two's complement value *)
Definition sext32 (x : N) : N := if x <? 2147483648 then x else x + 18446744069414584320.

(** Effective address of one lane.  [has_saddr] is the mode bit each side
    derives (emu: from SAddr and the architecture rule; timing: Addr.RegCount = 1),
    [v] the value of the Addr operand for the lane. *)
Definition flat_addr (has_saddr : bool) (sbase v off0 : N) : N :=
  u64 ((if has_saddr then u64 (sbase + v mod 4294967296) else v) + sext32 off0).

(** mode bits, as decoded / as evaluated *)
Definition decode_addr_regcount (cdna3 : bool) (saddr : N) : N :=
  if cdna3 then (if negb (saddr =? 127) then 1 else 2)
  else (if negb (saddr =? 127) && negb (saddr =? 0) then 1 else 2).
Definition emu_has_saddr (cdna3 : bool) (saddr : N) : bool :=
  if cdna3 then negb (saddr =? 127) else negb (saddr =? 127) && negb (saddr =? 0).
Definition timing_has_saddr (addr_regcount : N) : bool := addr_regcount =? 1.

Definition reg_count (op : N) : option nat :=
  if (16 <=? op) && (op <=? 20) then Some 1%nat
  else if (24 <=? op) && (op <=? 28) then Some 1%nat
  else if (op =? 21) || (op =? 29) then Some 2%nat
  else if (op =? 22) || (op =? 30) then Some 3%nat
  else if (op =? 23) || (op =? 31) then Some 4%nat
  else None.

(** decodeFLAT: 13-bit field -> inst.Offset0 (uint32, sign-extended) *)
Definition decode_off13 (raw : N) : N :=
  let r := raw mod 8192 in if 4096 <=? r then r + 4294959104 else r.      (* r | 0xFFFFE000 *)

(** wf.ReadOperand(inst.Addr, lane): RegCount consecutive VGPRs, little endian.
    [vlo], [vhi] are the values of v[addr] and v[addr+1] of the lane. *)
Definition read_addr_operand (regcount vlo vhi : N) : N :=
  if regcount =? 1 then u32 vlo else u32 vlo + 4294967296 * u32 vhi.

(** amd/timing/cu/defaultcoalescer.go readFlatAddr.  [sbase] = the SGPR pair
    s[SAddr:SAddr+1] (only read in SAddr mode). *)
Definition timing_flat_addr (regcount sbase vlo vhi off0 : N) : N :=
  let has := regcount =? 1 in
  let scalar_base := if has then u64 sbase else 0 in
  let signed_offset := if off0 =? 0 then 0 else sext32 off0 in
  let vgpr := read_addr_operand regcount vlo vhi in
  let final := if has then u64 (scalar_base + vgpr mod 4294967296) else vgpr in
  u64 (final + signed_offset).

(** amd/emu/alu_flat.go and amd/emu/cdna3/flat.go: flatPrecomputeScalarBase
    (mode from the SADDR field by the architecture's rule) + flatAddrWithScalar.
    The Addr operand was sized by the decoder. *)
Definition emu_flat_addr (cdna3 : bool) (saddr sbase vlo vhi off0 : N) : N :=
  let has := emu_has_saddr cdna3 saddr in
  let scalar_base := if has then u64 sbase else 0 in
  let addr := read_addr_operand (decode_addr_regcount cdna3 saddr) vlo vhi in
  let addr := if has then u64 (scalar_base + addr mod 4294967296) else addr in
  if off0 =? 0 then addr else u64 (addr + sext32 off0).

(** bytes one register-sized piece of an access covers *)
Definition acc_size (op : N) : N :=
  if (op =? 16) || (op =? 17) || (op =? 24) then 1
  else if (op =? 18) || (op =? 19) || (op =? 26) then 2 else 4.

(** opcodes the emulator implements (runFlat); anything else panics there *)
Definition emu_load_op (op : N) : bool := existsb (N.eqb op) [16; 17; 18; 20; 21; 23].
Definition emu_store_op (op : N) : bool := existsb (N.eqb op) [28; 29; 30; 31].

Section Line.
Variable lg : N.                       (* log2CacheLineSize *)
Definition LS : N := 2 ^ lg.
Definition line (a : N) : N := (a / LS) * LS.       (* cacheLineID *)
Definition off (a : N) : N := a mod LS.             (* addrOffsetInCacheLine *)

(** Every dword the instruction touches, in the order of the two nested loops
    (lanes with their EXEC bit set, then register index j): (lane, j, addr+4j). *)
Definition accesses (exec : N) (addrs : list N) (rc : nat) : list (N * N * N) :=
  flat_map (fun l => if N.testbit exec l
                     then map (fun j => (l, N.of_nat j, nth (N.to_nat l) addrs 0 + 4 * N.of_nat j)) (seq 0 rc)
                     else []) lanes.

(** findOrCreateReadReq *)
Definition add_line (reqs : list N) (a : N) : list N :=
  if existsb (fun r => line a =? line r) reqs then reqs else reqs ++ [line a].

Definition read_reqs (exec : N) (addrs : list N) (rc : nat) : list N :=
  fold_left add_line (map snd (accesses exec addrs rc)) [].

(** addLaneInfo: (lane, destination register, offset in line) *)
Definition lane_info (r : N) (exec : N) (addrs : list N) (rc : nat) (dst : N) : list (N * N * N) :=
  map (fun x => (fst (fst x), dst + snd (fst x), off (snd x)))
      (filter (fun x => line (snd x) =? line r) (accesses exec addrs rc)).

Definition txn := (N * list (N * N * N))%type.

(** byte [b] is consumed from the response of some read transaction of [ts]
    (some lane-info entry selects it) *)
Definition load_txn_byte (op : N) (ts : list txn) (b : N) : Prop :=
  exists t li, In t ts /\ In li (snd t) /\ fst t + snd li <= b < fst t + snd li + acc_size op.

(** byte [b] belongs to the access of some active lane *)
Definition lane_byte (op exec : N) (addrs : list N) (rc : nat) (b : N) : Prop :=
  exists l j x, In (l, j, x) (accesses exec addrs rc) /\ x <= b < x + acc_size op.

Definition read_txns (exec : N) (addrs : list N) (rc : nat) (dst : N) : list txn :=
  map (fun r => (r, lane_info r exec addrs rc dst)) (read_reqs exec addrs rc).

Definition vkey := (N * N)%type.                     (* lane, VGPR index *)
Definition vwrite := (vkey * N)%type.

Definition nth_opt {A} (l : list A) (i : nat) : option A := nth_error l i.

(** One iteration of the loop in handleVectorDataLoadReturn followed by
    SimpleRegisterFile.Write.  None = Go panic (index / slice out of range). *)
Definition wb_lane (vr : variant) (op : N) (d : list N) (li : N * N * N) : option (list vwrite) :=
  let l := fst (fst li) in let r := snd (fst li) in let o := N.to_nat (snd li) in
  if op =? 16 then
    match nth_opt d o with Some b => Some [((l, r), b)] | None => None end
  else if (op =? 17) && v_subdword_wb vr then
    match nth_opt d o with Some b => Some [((l, r), sext8 b)] | None => None end
  else if (op =? 18) && v_subdword_wb vr then
    (if (length d <? o + 2)%nat then None
     else Some [((l, r), nth o d 0 + 256 * nth (o + 1) d 0)])
  else if op =? 18 then
    match nth_opt d o with Some b => Some [((l, r), b)] | None => None end
  else
    if (length d <? o + 4)%nat && (length d <=? o)%nat then Some []    (* continue *)
    else let s := firstn (Nat.min (o + 4) (length d) - o) (skipn o d) in
         if (length s <? 4)%nat then None                             (* Data[0:4] in Write *)
         else Some [((l, r), le32 s)].

Fixpoint collect {A B} (f : A -> option (list B)) (l : list A) : option (list B) :=
  match l with
  | [] => Some []
  | x :: r => match f x, collect f r with
              | Some a, Some b => Some (a ++ b)
              | _, _ => None
              end
  end.

(** the response to a read transaction carries the bytes of the line *)
Definition wb_txn (vr : variant) (op : N) (m : mem) (t : txn) : option (list vwrite) :=
  collect (wb_lane vr op (read m (fst t) (N.to_nat LS))) (snd t).

Definition timing_load_on (vr : variant) (op : N) (m : mem) (ts : list txn) : option (list vwrite) :=
  collect (wb_txn vr op m) ts.

Definition timing_load (vr : variant) (op exec : N) (addrs : list N) (dst : N) (m : mem) : option (list vwrite) :=
  match reg_count op with
  | None => None
  | Some rc => timing_load_on vr op m (read_txns exec addrs rc dst)
  end.

(** --- stores ---------------------------------------------------------- *)
Record wreq := mkW { wq_addr : N; wq_bytes : list (option N) }.   (* Data + DirtyMask *)

Definition overlay (o : nat) (bs : list N) (l : list (option N)) : list (option N) :=
  firstn o l ++ map Some bs ++ skipn (o + length bs) l.

(** mergeDataWithReq with its two panics *)
Definition merge (r : wreq) (a : N) (bs : list N) : option wreq :=
  if a <? wq_addr r then None
  else if wq_addr r + N.of_nat (length (wq_bytes r)) <? a + N.of_nat (length bs) then None
  else Some (mkW (wq_addr r) (overlay (N.to_nat (off a)) bs (wq_bytes r))).

(** findOrCreateWriteReq *)
Fixpoint foc (reqs : list wreq) (a : N) (bs : list N) : option (list wreq) :=
  match reqs with
  | [] => match merge (mkW (line a) (repeat None (N.to_nat LS))) a bs with
          | Some r => Some [r] | None => None end
  | r :: rest =>
      if line a =? line (wq_addr r)
      then match merge r a bs with Some r' => Some (r' :: rest) | None => None end
      else match foc rest a bs with Some rest' => Some (r :: rest') | None => None end
  end.

(** dword stores in loop order: (addr + 4j, bytes of uint32(Data+j of the lane)) *)
Definition store_accesses (exec : N) (addrs : list N) (data : list (list N)) (rc : nat) : list (N * list N) :=
  map (fun x => (snd x, bytes32 (u32 (nth (N.to_nat (snd (fst x))) (nth (N.to_nat (fst (fst x))) data []) 0))))
      (accesses exec addrs rc).

Definition foc_all (ws : list (N * list N)) (reqs : list wreq) : option (list wreq) :=
  fold_left (fun acc w => match acc with None => None | Some rs => foc rs (fst w) (snd w) end) ws (Some reqs).

Definition timing_store (op exec : N) (addrs : list N) (data : list (list N)) : option (list wreq) :=
  match reg_count op with
  | None => None
  | Some rc => foc_all (store_accesses exec addrs data rc) []
  end.

(** effect of a write transaction on memory: dirty bytes only *)
Definition apply_wreq (m : mem) (r : wreq) : mem :=
  fun x => if (wq_addr r <=? x) && (x <? wq_addr r + N.of_nat (length (wq_bytes r)))
           then match nth (N.to_nat (x - wq_addr r)) (wq_bytes r) None with Some b => b | None => m x end
           else m x.

Definition apply_wreqs (rs : list wreq) (m : mem) : mem := fold_left apply_wreq rs m.

(** --- scalar loads (timing) ------------------------------------------- *)
Definition smem_size (op : N) : option N :=
  if op =? 0 then Some 4 else if op =? 1 then Some 8 else if op =? 2 then Some 16
  else if op =? 3 then Some 32 else if op =? 4 then Some 64 else None.

(** the loop of executeSMEMLoad: (address, byte size, first destination SGPR) *)
Fixpoint smem_pieces (fuel : nat) (start curr left dst : N) : list (N * N * N) :=
  match fuel with
  | O => []
  | S f => if left =? 0 then []
           else let n := N.min (LS - off curr) left in
                (curr, n, dst + (curr - start) / 4) :: smem_pieces f start (curr + n) (left - n) dst
  end.

(** handleScalarDataLoadReturn + SimpleRegisterFile.Write for one piece *)
Definition smem_wb (m : mem) (p : N * N * N) : option (list (N * N)) :=
  let a := fst (fst p) in let n := N.to_nat (snd (fst p)) in let dst := snd p in
  let d := read m a n in
  let rc := if (n / 4 =? 0)%nat then 1%nat else (n / 4)%nat in
  if (n <? rc * 4)%nat then None
  else Some (map (fun k => (dst + N.of_nat k, le32 (firstn 4 (skipn (4 * k) d)))) (seq 0 rc)).

(** both modes drop the two low bits of base+offset *)
Definition smem_align (a : N) : N := (a / 4) * 4.

Definition timing_smem (op start dst : N) (m : mem) : option (list (N * N)) :=
  match smem_size op with
  | None => None
  | Some sz => collect (smem_wb m) (smem_pieces (S (N.to_nat sz)) (smem_align start) (smem_align start) sz dst)
  end.

End Line.

(** --- emulator ---------------------------------------------------------- *)
Definition dword_of (buf : list N) (j : nat) : N := le32 (firstn 4 (skipn (4 * j) buf)).

(** value written to Dst+j of one lane by the runFlatLoad handlers *)
Definition emu_lane_load (op : N) (m : mem) (a : N) : list N :=
  if op =? 16 then [le32 [nth 0 (read m a 4) 0; 0; 0; 0]]
  else if op =? 17 then [sext8 (nth 0 (read m a 4) 0)]
  else if op =? 18 then [le32 [nth 0 (read m a 4) 0; nth 1 (read m a 4) 0; 0; 0]]
  else if op =? 20 then [dword_of (read m a 4) 0]
  else if op =? 21 then map (dword_of (read m a 8)) (seq 0 2)
  else if op =? 23 then map (dword_of (read m a 16)) (seq 0 4)
  else [].

Definition emu_load (op exec : N) (addrs : list N) (dst : N) (m : mem) : option (list vwrite) :=
  if emu_load_op op then
    Some (flat_map (fun l => if N.testbit exec l
                             then map (fun jv => ((l, dst + N.of_nat (fst jv)), snd jv))
                                      (combine (seq 0 4) (emu_lane_load op m (nth (N.to_nat l) addrs 0)))
                             else []) lanes)
  else None.

Definition emu_store_rc (op : N) : nat :=
  if op =? 28 then 1 else if op =? 29 then 2 else if op =? 30 then 3 else 4.

Definition emu_store (op exec : N) (addrs : list N) (data : list (list N)) (m : mem) : option mem :=
  if emu_store_op op then
    Some (fold_left (fun m l => if N.testbit exec l
                                then write m (nth (N.to_nat l) addrs 0)
                                       (flat_map (fun j => bytes32 (u32 (nth j (nth (N.to_nat l) data []) 0)))
                                                 (seq 0 (emu_store_rc op)))
                                else m) lanes m)
  else None.

Definition emu_smem_size (op : N) : option N :=
  if op =? 0 then Some 4 else if op =? 1 then Some 8 else if op =? 2 then Some 16
  else if op =? 3 then Some 32 else if op =? 4 then Some 64 else None.

Definition emu_smem (op start dst : N) (m : mem) : option (list (N * N)) :=
  match emu_smem_size op with
  | None => None
  | Some sz => let buf := read m ((start / 4) * 4) (N.to_nat sz) in
               Some (map (fun k => (dst + N.of_nat k, dword_of buf k)) (seq 0 (N.to_nat sz / 4)))
  end.

(** register files after a list of writes *)
Definition vrf := vkey -> N.
Definition vkey_eqb (a b : vkey) : bool := (fst a =? fst b) && (snd a =? snd b).
Definition apply_v (ws : list vwrite) (r0 : vrf) : vrf :=
  fold_left (fun r (kv : vwrite) => fun k => if vkey_eqb k (fst kv) then snd kv else r k) ws r0.
Definition srf := N -> N.
Definition apply_s (ws : list (N * N)) (r0 : srf) : srf :=
  fold_left (fun r (kv : N * N) => fun k => if k =? fst kv then snd kv else r k) ws r0.

(** --- correspondence with the Go code ------------------------------------- *)
Definition win_mem (base : N) (bytes : list N) : mem :=
  fun a => if (base <=? a) && (a <? base + N.of_nat (length bytes)) then nth (N.to_nat (a - base)) bytes 0 else 0.

Definition vsentinel : vrf := fun k => 3203334144 + fst k * 256 + snd k.
Definition ssentinel : srf := fun k => 3735879680 + k.

(** v[dst..dst+3] of lanes 0..63 *)
Definition observe_v (dst : N) (r : vrf) : list N :=
  flat_map (fun l => map (fun j => r (l, dst + N.of_nat j)) (seq 0 4)) lanes.

Definition observe_s (r : srf) : list N := map (fun i => r (N.of_nat i)) (seq 0 40).

Record fcase := mkFCase {
  fc_lg : N; fc_op : N; fc_exec : N;
  fc_mode : bool;                 (* Addr.RegCount = 1, as decoded by the real disassembler *)
  fc_cdna3 : bool; fc_saddr : N;  (* architecture, 7-bit SADDR field *)
  fc_sbase : N;
  fc_raw13 : N;                   (* 13-bit immediate field *)
  fc_off0 : N;                    (* inst.Offset0 as decoded *)
  fc_vaddr : list N;              (* v[addr] + 2^32 * v[addr+1] per lane (both registers, whatever the mode) *)
  fc_dst : N;
  fc_data : list (list N);        (* stores: Data..Data+3 per lane *)
  fc_base : N; fc_mem : list N;   (* memory window *)
  fc_emu : option (list N);                          (* loads: observe_v ; stores: window afterwards ; None = panic *)
  fc_txn : option (list (N * list (N * N * N)));     (* loads: transactions (line, lane info) *)
  fc_treg : option (list N);                         (* loads: observe_v after all write-backs *)
  fc_wreq : option (list (N * list N * list bool))   (* stores: (line, Data, DirtyMask) *)
}.

Definition fc_regcount (c : fcase) : N := decode_addr_regcount (fc_cdna3 c) (fc_saddr c).
Definition fc_taddrs (c : fcase) : list N :=
  map (fun v => timing_flat_addr (fc_regcount c) (fc_sbase c) (v mod 4294967296) (v / 4294967296)
                                 (decode_off13 (fc_raw13 c))) (fc_vaddr c).
Definition fc_eaddrs (c : fcase) : list N :=
  map (fun v => emu_flat_addr (fc_cdna3 c) (fc_saddr c) (fc_sbase c) (v mod 4294967296) (v / 4294967296)
                              (decode_off13 (fc_raw13 c))) (fc_vaddr c).

Definition is_load (op : N) : bool := (6 <=? op) && (op <=? 23).

Definition leqb {A} (e : A -> A -> bool) (a b : list A) : bool :=
  Nat.eqb (length a) (length b) && forallb (fun p => e (fst p) (snd p)) (combine a b).
Definition oeqb {A} (e : A -> A -> bool) (a b : option A) : bool :=
  match a, b with None, None => true | Some x, Some y => e x y | _, _ => false end.
Definition li_eqb (a b : N * N * N) : bool :=
  (fst (fst a) =? fst (fst b)) && (snd (fst a) =? snd (fst b)) && (snd a =? snd b).
Definition txn_eqb (a b : txn) : bool := (fst a =? fst b) && leqb li_eqb (snd a) (snd b).
Definition wreq_obs (r : wreq) : N * list N * list bool :=
  (wq_addr r, map (fun o => match o with Some b => b | None => 0 end) (wq_bytes r),
   map (fun o => match o with Some _ => true | None => false end) (wq_bytes r)).
Definition wobs_eqb (a b : N * list N * list bool) : bool :=
  (fst (fst a) =? fst (fst b)) && leqb N.eqb (snd (fst a)) (snd (fst b)) && leqb Bool.eqb (snd a) (snd b).

Definition omap {A B} (f : A -> B) (o : option A) : option B :=
  match o with Some x => Some (f x) | None => None end.

(** detail bits: 1 emu model <> emu code (the emulator model runs on [emu_flat_addr]);
    2 transactions differ (the timing model runs on [timing_flat_addr]); 4 registers
    after write-back differ; 8 write requests differ; 16 decoded mode bit or
    decoded Offset0 differ from [decode_addr_regcount] / [decode_off13] *)
Definition fcheck (c : fcase) : N :=
  let m := win_mem (fc_base c) (fc_mem c) in
  let addrs := fc_taddrs c in
  (if Bool.eqb (fc_mode c) (timing_has_saddr (fc_regcount c)) && (fc_off0 c =? decode_off13 (fc_raw13 c))
   then 0 else 16) +
  (if is_load (fc_op c) then
    let e := omap (fun ws => observe_v (fc_dst c) (apply_v ws vsentinel)) (emu_load (fc_op c) (fc_exec c) (fc_eaddrs c) (fc_dst c) m) in
    let ts := omap (fun rc => read_txns (fc_lg c) (fc_exec c) addrs rc (fc_dst c)) (reg_count (fc_op c)) in
    let tr := omap (fun ws => observe_v (fc_dst c) (apply_v ws vsentinel))
                   (timing_load (fc_lg c) fixed (fc_op c) (fc_exec c) addrs (fc_dst c) m) in
    (if oeqb (leqb N.eqb) e (fc_emu c) then 0 else 1) +
    (if oeqb (leqb txn_eqb) ts (fc_txn c) then 0 else 2) +
    (if oeqb (leqb N.eqb) tr (fc_treg c) then 0 else 4)
  else
    let e := omap (fun m' => read m' (fc_base c) (length (fc_mem c)))
                  (emu_store (fc_op c) (fc_exec c) (fc_eaddrs c) (fc_data c) m) in
    let w := omap (map wreq_obs) (timing_store (fc_lg c) (fc_op c) (fc_exec c) addrs (fc_data c)) in
    (if oeqb (leqb N.eqb) e (fc_emu c) then 0 else 1) +
    (if oeqb (leqb wobs_eqb) w (fc_wreq c) then 0 else 8)).

Definition fmismatches (cs : list fcase) : list (N * N) := mism_from fcheck 0 cs.

Record scase := mkSCase {
  sc_lg : N; sc_op : N; sc_start : N; sc_dst : N; sc_base : N; sc_mem : list N;
  sc_pre : list (N * N);                         (* operand registers set up by the harness *)
  sc_emu : option (list N);                      (* observe_s ; None = panic *)
  sc_pieces : option (list (N * N * N));         (* read requests: (address, size, first SGPR) *)
  sc_timing : option (list N)
}.

Definition scheck (c : scase) : N :=
  let m := win_mem (sc_base c) (sc_mem c) in
  let s0 := apply_s (sc_pre c) ssentinel in
  let e := omap (fun ws => observe_s (apply_s ws s0)) (emu_smem (sc_op c) (sc_start c) (sc_dst c) m) in
  let ps := omap (fun sz => smem_pieces (sc_lg c) (S (N.to_nat sz)) (smem_align (sc_start c)) (smem_align (sc_start c)) sz (sc_dst c)) (smem_size (sc_op c)) in
  let t := omap (fun ws => observe_s (apply_s ws s0)) (timing_smem (sc_lg c) (sc_op c) (sc_start c) (sc_dst c) m) in
  (if oeqb (leqb N.eqb) e (sc_emu c) then 0 else 1) +
  (if oeqb (leqb li_eqb) ps (sc_pieces c) then 0 else 2) +
  (if oeqb (leqb N.eqb) t (sc_timing c) then 0 else 4).

Definition smismatches (cs : list scase) : list (N * N) := mism_from scheck 0 cs.
