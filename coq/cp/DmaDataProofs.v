(** Where the replies of the memory land in the destination buffer of a D2H
    command: with a memory that answers every read sub-request with the bytes
    of a fixed memory image, a completed D2H command carries exactly the bytes
    of its source range. *)
From Coq Require Import List NArith Bool Arith Lia ZifyN ZifyNat ZifyBool.
From VLib Require Import Chunks ChunksProofs.
From VCp Require Import Dma DmaProofs.
From RecordUpdate Require Import RecordSet.
Import ListNotations RecordSetNotations.
Open Scope N_scope.

Arguments has_id : simpl never.

(** ** layouts: (sub-request ID, offset, size), contiguous from an offset *)
Definition lay := list (N * N * N).
Definition l_id (e : N * N * N) : N := fst (fst e).
Definition l_off (e : N * N * N) : N := snd (fst e).
Definition l_sz (e : N * N * N) : N := snd e.

Fixpoint lay_contig (o : N) (l : lay) : Prop :=
  match l with [] => True | e :: r => l_off e = o /\ lay_contig (o + l_sz e) r end.
Fixpoint lay_total (l : lay) : N := match l with [] => 0 | e :: r => l_sz e + lay_total r end.

Lemma lay_bounds o l e : lay_contig o l -> In e l -> o <= l_off e /\ l_off e + l_sz e <= o + lay_total l.
Proof.
  revert o. induction l as [|x r IH]; cbn; intros o Hc Hin; [contradiction|].
  destruct Hc as [Ho Hc]. destruct Hin as [<-|Hin]; [lia|].
  destruct (IH _ Hc Hin). lia.
Qed.

Lemma lay_disjoint o l e1 e2 : lay_contig o l -> NoDup (map l_id l) -> In e1 l -> In e2 l ->
  l_id e1 <> l_id e2 -> l_off e1 + l_sz e1 <= l_off e2 \/ l_off e2 + l_sz e2 <= l_off e1.
Proof.
  revert o. induction l as [|x r IH]; cbn; intros o Hc Hn H1 H2 Hne; [contradiction|].
  destruct Hc as [Ho Hc]. inversion Hn; subst.
  destruct H1 as [<-|H1], H2 as [<-|H2].
  - congruence.
  - left. destruct (lay_bounds _ _ _ Hc H2). lia.
  - right. destruct (lay_bounds _ _ _ Hc H1). lia.
  - eapply IH; eauto.
Qed.

Lemma lay_cover o l i : lay_contig o l -> o <= i < o + lay_total l ->
  exists e, In e l /\ l_off e <= i < l_off e + l_sz e.
Proof.
  revert o. induction l as [|x r IH]; cbn; intros o Hc Hi; [lia|].
  destruct Hc as [Ho Hc]. destruct (N.ltb_spec i (o + l_sz x)).
  - exists x. split; [auto|lia].
  - destruct (IH _ Hc) as (e & He & Hr); [lia|]. exists e. auto.
Qed.

Lemma lay_unique l e1 e2 : NoDup (map l_id l) -> In e1 l -> In e2 l -> l_id e1 = l_id e2 -> e1 = e2.
Proof. intros. eapply nodup_map_inj; eauto. Qed.

(** ** copy_at, pointwise *)
Lemma nth_firstn_lt {A} (l : list A) n i d : (i < n)%nat -> nth i (firstn n l) d = nth i l d.
Proof.
  revert n i. induction l as [|x r IH]; intros n i H; [rewrite firstn_nil; reflexivity|].
  destruct n; [lia|]. destruct i; cbn; [reflexivity|]. apply IH. lia.
Qed.

Lemma nth_skipn_add {A} (l : list A) n i d : nth i (skipn n l) d = nth (n + i) l d.
Proof.
  revert l. induction n as [|n IH]; intros l; [reflexivity|]. destruct l; cbn; [destruct i; reflexivity|]. apply IH.
Qed.

Lemma copy_at_length dst o src : (N.to_nat o <= length dst)%nat -> length (copy_at dst o src) = length dst.
Proof.
  intros H. unfold copy_at. cbv zeta. rewrite !app_length, firstn_length, firstn_length, skipn_length. lia.
Qed.

Lemma copy_at_nth dst o src i :
  (N.to_nat o + length src <= length dst)%nat ->
  nth i (copy_at dst o src) 0 =
  if (Nat.leb (N.to_nat o) i && Nat.ltb i (N.to_nat o + length src))%bool then nth (i - N.to_nat o) src 0 else nth i dst 0.
Proof.
  intros H. unfold copy_at. cbv zeta.
  replace (Nat.min (length dst - N.to_nat o) (length src)) with (length src) by lia.
  rewrite firstn_all.
  destruct (Nat.leb (N.to_nat o) i && Nat.ltb i (N.to_nat o + length src))%bool eqn:E.
  - rewrite app_nth2; rewrite firstn_length; [|lia].
    replace (Nat.min (N.to_nat o) (length dst)) with (N.to_nat o) by lia.
    rewrite app_nth1 by lia. reflexivity.
  - destruct (Nat.ltb_spec i (N.to_nat o)).
    + rewrite app_nth1 by (rewrite firstn_length; lia). apply nth_firstn_lt. lia.
    + rewrite app_nth2; rewrite firstn_length; [|lia].
      replace (Nat.min (N.to_nat o) (length dst)) with (N.to_nat o) by lia.
      rewrite app_nth2 by lia. rewrite nth_skipn_add. f_equal. lia.
Qed.

Lemma to_list_length m a n : length (to_list m a n) = N.to_nat n.
Proof. unfold to_list. rewrite map_length, seq_length. reflexivity. Qed.

Lemma to_list_nth m a n j : (j < N.to_nat n)%nat -> nth j (to_list m a n) 0 = m (a + N.of_nat j).
Proof.
  intros H. unfold to_list.
  rewrite (nth_indep _ 0 (m (a + N.of_nat 0))) by (rewrite map_length, seq_length; lia).
  change (m (a + N.of_nat 0)) with ((fun i => m (a + N.of_nat i)) 0%nat).
  rewrite map_nth. rewrite seq_nth by lia. reflexivity.
Qed.

(** ** the assumption on the memory and the invariant *)

(** A response delivered to the engine answers a sub-request that exists, with
    the matching kind, and a read is answered with the bytes of the image [m]. *)
Definition rsp_ok (m : bytes) (s : dma) (r : rsp) : Prop :=
  r_to r < next_id s /\
  forall q, In q (g_sent s) -> s_id q = r_to r ->
    (r_kind r = RData /\ s_write q = false /\ r_data r = to_list m (s_addr q) (s_size q)) \/
    (r_kind r = RDone /\ s_write q = true).

Fixpoint respects (m : bytes) (s : dma) (evs : list ev) : Prop :=
  match evs with
  | [] => True
  | e :: r => match e with EDeliverMem x => rsp_ok m s x | _ => True end /\ respects m (fst (step s e)) r
  end.

Definition filled (m : bytes) (c0 : copy) (ly : lay) (ans : list N) (buf : list N) : Prop :=
  forall e, In e ly -> In (l_id e) ans -> forall j, j < l_sz e ->
    nth (N.to_nat (l_off e + j)) buf 0 = m (c_addr c0 + l_off e + j).

Definition lay_ok (s : dma) (c0 : copy) (ids : list N) (ly : lay) : Prop :=
  map l_id ly = ids /\ lay_contig 0 ly /\ lay_total ly = len (c_data c0) /\
  forall e, In e ly -> exists q, In q (g_sent s) /\ s_id q = l_id e /\ s_addr q = c_addr c0 + l_off e /\
                                 s_size q = l_sz e /\ (c_kind c0 = CD2H -> s_write q = false).

Definition proc_ok (m : bytes) (s : dma) (rc : coll) : Prop :=
  forall c0 ids ly, nth_error (g_acc s) (k_seq rc) = Some (c0, ids) -> nth_error (g_lay s) (k_seq rc) = Some ly ->
    length (c_data (k_sup rc)) = length (c_data c0) /\
    (c_kind c0 = CD2H -> filled m c0 ly (g_ans s) (c_data (k_sup rc))).

Definition holds_image (m : bytes) (c : copy) : Prop :=
  c_kind c = CD2H -> forall i, i < len (c_data c) -> nth (N.to_nat i) (c_data c) 0 = m (c_addr c + i).

Record DCore (m : bytes) (s : dma) : Prop := {
  d_len : length (g_lay s) = length (g_acc s);
  d_static : forall k c0 ids ly, nth_error (g_acc s) k = Some (c0, ids) -> nth_error (g_lay s) k = Some ly ->
             lay_ok s c0 ids ly;
  d_sentnd : NoDup (map s_id (g_sent s));
  d_sentlt : Forall (fun q => s_id q < next_id s) (g_sent s);
  d_pend : incl (pending s) (g_sent s);
  d_in : Forall (rsp_ok m s) (mem_in s);
  d_proc : Forall (proc_ok m s) (processing s)
}.

Definition DInv (m : bytes) (s : dma) : Prop :=
  Forall (fun d => holds_image m (snd d)) (g_done s) /\ (crashed s = false -> DCore m s).

Lemma init_dinv m l mx : DInv m (init l mx).
Proof.
  split; [constructor|]. intros _. constructor; cbn; auto; try (constructor; fail).
  - intros k c0 ids ly H. destruct k; discriminate.
  - intros x [].
Qed.

Lemma sent_unique s q1 q2 : NoDup (map s_id (g_sent s)) -> In q1 (g_sent s) -> In q2 (g_sent s) ->
  s_id q1 = s_id q2 -> q1 = q2.
Proof. intros. eapply nodup_map_inj; eauto. Qed.

(** ** queueing a completion keeps the invariant; a D2H completion holds the image *)
Lemma finish_dinv m s rc :
  Inv s -> DInv m s -> crashed s = false -> In rc (processing s) -> k_count rc = 0 -> DInv m (finish s rc).
Proof.
  intros HI [Hdone Hcore] Hc Hin Hz. specialize (Hcore Hc). destruct Hcore as [Hlen Hst Hnd Hlt Hpe Hmi Hpr].
  destruct HI as [_ Hcoll _ _ _ _ _ _ _ _ _ _]. rewrite Forall_forall in Hcoll.
  destruct (Hcoll rc Hin) as (_ & _ & Hcnt & c0 & Hnth & Hsame).
  assert (Hly : exists ly, nth_error (g_lay s) (k_seq rc) = Some ly).
  { destruct (nth_error (g_lay s) (k_seq rc)) eqn:E; [eauto|]. apply nth_error_None in E.
    assert (k_seq rc < length (g_acc s))%nat by (apply nth_error_Some; congruence). lia. }
  destruct Hly as [ly Hly]. destruct (Hst _ _ _ _ Hnth Hly) as (Hids & Hcon & Htot & _).
  rewrite Forall_forall in Hpr. destruct (Hpr rc Hin _ _ _ Hnth Hly) as [Hl Hfill].
  destruct Hsame as (_ & Hk & _ & Ha).
  split.
  - unfold finish. cbn. apply Forall_app. split; [assumption|]. constructor; [|constructor]. cbn.
    intros Hkind i Hi. rewrite <- Hk in Hkind. specialize (Hfill Hkind).
    assert (Hinc : incl (k_subs rc) (g_ans s)) by (apply unans_nil_incl; lia).
    destruct (lay_cover 0 ly i Hcon) as (e & He & Hr).
    { unfold len in *. lia. }
    assert (Hans : In (l_id e) (g_ans s)).
    { apply Hinc. rewrite <- Hids. apply in_map. assumption. }
    specialize (Hfill e He Hans (i - l_off e)). rewrite <- Ha.
    replace (l_off e + (i - l_off e)) with i in Hfill by lia.
    replace (c_addr c0 + l_off e + (i - l_off e)) with (c_addr c0 + i) in Hfill by lia.
    apply Hfill. lia.
  - intros _. unfold finish. constructor; cbn; auto.
    unfold drop_processing. apply forall_filter. rewrite Forall_forall. exact Hpr.
Qed.

(** ** sub-request IDs belong to one collection *)
Lemma owner_unique s id x y : Inv s -> In x (processing s) -> In y (processing s) ->
  In id (k_subs x) -> In id (k_subs y) -> x = y.
Proof.
  intros H Hx Hy Hix Hiy. destruct H as [_ Hcoll _ _ _ Hseq _ _ _ _ Haccnd _]. rewrite Forall_forall in Hcoll.
  destruct (Hcoll x Hx) as (_ & _ & _ & cx & Hnx & _).
  destruct (Hcoll y Hy) as (_ & _ & _ & cy & Hny & _).
  eapply nodup_map_inj; eauto.
  apply (concat_owner _ Haccnd (k_seq x) (k_seq y) (k_subs x) (k_subs y) id);
    [exact (map_nth_error snd _ _ Hnx)|exact (map_nth_error snd _ _ Hny)|assumption|assumption].
Qed.

Lemma last_match_none id l : last_match id l = None -> forall y, In y l -> has_id id (k_subs y) = false.
Proof.
  induction l as [|x r IH]; cbn; intros H y Hy; [contradiction|].
  destruct (last_match id r) eqn:E; [discriminate|]. destruct (has_id id (k_subs x)) eqn:Ex; [discriminate|].
  destruct Hy as [<-|Hy]; auto.
Qed.

Lemma upd_last_unique id f l :
  (forall x y, In x l -> In y l -> has_id id (k_subs x) = true -> has_id id (k_subs y) = true -> x = y) ->
  NoDup (map k_seq l) ->
  upd_last id f l = map (fun a => if has_id id (k_subs a) then f a else a) l.
Proof.
  induction l as [|x r IH]; cbn; intros Hu Hn; [reflexivity|]. inversion Hn as [|? ? Hx Hr]; subst.
  destruct (last_match id r) as [y|] eqn:E.
  - destruct (last_match_some _ _ _ E) as [Hy Hyid].
    destruct (has_id id (k_subs x)) eqn:Ex.
    + exfalso. assert (x = y) by (apply Hu; auto). subst. apply Hx. apply in_map. assumption.
    + f_equal. apply IH; auto.
  - pose proof (last_match_none _ _ E) as Hnone.
    assert (Hid : map (fun a => if has_id id (k_subs a) then f a else a) r = r).
    { clear - Hnone. induction r as [|z r IH]; cbn; [reflexivity|].
      rewrite (Hnone z (or_introl eq_refl)). f_equal. apply IH. intros y Hy. apply Hnone. right. assumption. }
    rewrite Hid. destruct (has_id id (k_subs x)); reflexivity.
Qed.

Lemma dec_coll_sup id a : k_sup (dec_coll id a) = k_sup a.
Proof. apply dec_coll_fields. Qed.
Lemma dec_coll_seq id a : k_seq (dec_coll id a) = k_seq a.
Proof. apply dec_coll_fields. Qed.
Lemma dec_coll_subs id a : k_subs (dec_coll id a) = k_subs a.
Proof. apply dec_coll_fields. Qed.

(** the entry of a layout that belongs to a pending sub-request *)
Lemma lay_entry_of m s q c0 ids ly e :
  DCore m s -> lay_ok s c0 ids ly -> In q (pending s) -> In e ly -> l_id e = s_id q ->
  s_addr q = c_addr c0 + l_off e /\ s_size q = l_sz e /\ (c_kind c0 = CD2H -> s_write q = false).
Proof.
  intros HD (_ & _ & _ & Hlink) Hq He Hid. destruct (Hlink e He) as (q' & Hq' & Hi & Ha & Hs & Hw).
  assert (q' = q).
  { eapply sent_unique; eauto using d_sentnd. apply (d_pend _ _ HD). assumption. congruence. }
  subst. auto.
Qed.

(** ** a write sub-request answered: no D2H buffer is concerned *)
Lemma answer_write_dcore m s q :
  Inv s -> DCore m s -> In q (pending s) -> s_write q = true -> DCore m (answer_core s (s_id q)).
Proof.
  intros HI HD Hq Hw. pose proof HD as [Hlen Hst Hnd Hlt Hpe Hmi Hpr]. unfold answer_core.
  constructor; cbn; auto.
  - unfold drop_pending. intros x Hx. apply filter_In in Hx as [Hx _]. auto.
  - rewrite Forall_forall in *. intros a Ha. apply in_map_iff in Ha as (a0 & <- & Ha0).
    intros c0 ids ly Hn Hl. rewrite dec_coll_seq in Hn, Hl. rewrite dec_coll_sup.
    destruct (Hpr a0 Ha0 c0 ids ly Hn Hl) as [Hlen0 Hf]. split; [assumption|].
    intros Hk e He Hans j Hj. apply in_app_iff in Hans as [Hans|[Hid|[]]]; [apply Hf; auto|].
    exfalso. destruct (lay_entry_of m s q c0 ids ly e HD (Hst _ _ _ _ Hn Hl) Hq He (eq_sym Hid)) as (_ & _ & Hwr).
    rewrite (Hwr Hk) in Hw. discriminate.
Qed.

(** ** a read sub-request answered with the bytes of the image *)
Lemma answer_read_dcore m s q rc :
  Inv s -> DCore m s -> In q (pending s) -> s_write q = false ->
  let s1 := answer_core s (s_id q) in
  last_match (s_id q) (processing s1) = Some rc ->
  c_kind (k_sup rc) = CD2H ->
  (len (c_data (k_sup rc)) <? s_addr q - c_addr (k_sup rc)) = false ->
  let c' := set_data (k_sup rc) (copy_at (c_data (k_sup rc)) (s_addr q - c_addr (k_sup rc))
                                         (to_list m (s_addr q) (s_size q))) in
  DCore m (s1 <| processing := upd_last (s_id q) (fun x => set_sup x c') (processing s1) |>).
Proof.
  intros HI HD Hq Hw s1 El Hkind Hoff c'.
  pose proof (answer_core_inv s q HI Hq) as HI1. fold s1 in HI1.
  destruct (last_match_some _ _ _ El) as [Hrc Hrcid].
  rewrite upd_last_unique.
  2:{ intros x y Hx Hy Hxi Hyi. apply has_id_in in Hxi. apply has_id_in in Hyi. eapply owner_unique; eauto. }
  2:{ apply (i_seq _ HI1). }
  pose proof HD as [Hlen Hst Hnd Hlt Hpe Hmi Hpr].
  pose proof HI as [_ Hcoll _ _ _ _ _ _ _ _ _ _].
  rewrite Forall_forall in Hcoll, Hpr.
  unfold s1, answer_core. constructor; cbn; auto.
  - unfold drop_pending. intros x Hx. apply filter_In in Hx as [Hx _]. auto.
  - rewrite map_map. rewrite Forall_forall. intros b Hb. apply in_map_iff in Hb as (a0 & <- & Ha0).
    intros c0 ids ly Hn Hl.
    assert (Hseq : k_seq (if has_id (s_id q) (k_subs (dec_coll (s_id q) a0))
                          then set_sup (dec_coll (s_id q) a0) c' else dec_coll (s_id q) a0) = k_seq a0).
    { destruct (has_id (s_id q) (k_subs (dec_coll (s_id q) a0))); cbn; apply dec_coll_seq. }
    cbn in Hn, Hl. rewrite Hseq in Hn, Hl.
    destruct (Hpr a0 Ha0 c0 ids ly Hn Hl) as [Hlen0 Hf].
    destruct (Hcoll a0 Ha0) as (Hndsub & _ & _ & c0' & Hn' & Hsame).
    rewrite Hn in Hn'. injection Hn' as <- Hids.
    destruct (Hst _ _ _ _ Hn Hl) as (Hmap & Hcon & Htot & Hlink).
    rewrite dec_coll_subs.
    destruct (has_id (s_id q) (k_subs a0)) eqn:Eh.
    + (* the collection the sub-request belongs to *)
      assert (Ea : dec_coll (s_id q) a0 = rc).
      { apply (owner_unique s1 (s_id q)); auto.
        - unfold s1, answer_core. cbn. apply in_map. assumption.
        - rewrite dec_coll_subs. apply has_id_in. assumption.
        - apply has_id_in. assumption. }
      assert (Esup : k_sup rc = k_sup a0) by (rewrite <- Ea; apply dec_coll_sup).
      cbn. rewrite Esup in *. clear Ea.
      apply has_id_in in Eh. rewrite <- Hids, <- Hmap in Eh. apply in_map_iff in Eh as (e0 & He0id & He0).
      destruct (lay_entry_of m s q c0 _ ly e0 HD (Hst _ _ _ _ Hn Hl) Hq He0 He0id) as (Haddr & Hsize & _).
      destruct Hsame as (_ & Hk & _ & Hca).
      destruct (lay_bounds 0 ly e0 Hcon He0) as [_ Hb0].
      assert (Eoff : s_addr q - c_addr (k_sup a0) = l_off e0) by lia.
      rewrite Eoff in *.
      assert (Hdl : length (to_list m (s_addr q) (s_size q)) = N.to_nat (l_sz e0))
        by (rewrite to_list_length, Hsize; reflexivity).
      assert (Hfit : (N.to_nat (l_off e0) + length (to_list m (s_addr q) (s_size q)) <= length (c_data (k_sup a0)))%nat).
      { rewrite Hdl, Hlen0. unfold len in Htot. lia. }
      split; [rewrite copy_at_length; [assumption|lia]|].
      intros Hk0 e He Hans j Hj. rewrite copy_at_nth by assumption.
      destruct (N.eq_dec (l_id e) (s_id q)) as [Eid|Nid].
      * assert (e = e0) by (apply (lay_unique ly); auto; [rewrite Hmap, Hids; assumption|congruence]). subst e.
        replace (Nat.leb (N.to_nat (l_off e0)) (N.to_nat (l_off e0 + j)) &&
                 Nat.ltb (N.to_nat (l_off e0 + j)) (N.to_nat (l_off e0) + length (to_list m (s_addr q) (s_size q))))%bool
          with true by (rewrite Hdl; lia).
        rewrite to_list_nth by (rewrite Hsize; lia). f_equal. lia.
      * apply in_app_iff in Hans as [Hans|[Hid|[]]]; [|congruence].
        assert (Hdis : l_off e + l_sz e <= l_off e0 \/ l_off e0 + l_sz e0 <= l_off e).
        { apply (lay_disjoint 0 ly); auto; [rewrite Hmap, Hids; assumption|congruence]. }
        replace (Nat.leb (N.to_nat (l_off e0)) (N.to_nat (l_off e + j)) &&
                 Nat.ltb (N.to_nat (l_off e + j)) (N.to_nat (l_off e0) + length (to_list m (s_addr q) (s_size q))))%bool
          with false by (rewrite Hdl; lia).
        apply Hf; auto.
    + (* any other collection: its buffer and its answered sub-requests are as before *)
      rewrite dec_coll_sup. split; [assumption|].
      intros Hk0 e He Hans j Hj. apply in_app_iff in Hans as [Hans|[Hid|[]]]; [apply Hf; auto|].
      exfalso. apply has_id_false in Eh. apply Eh. rewrite <- Hids, <- Hmap, Hid. apply in_map. assumption.
Qed.

(** ** the stages of a tick *)
Lemma crash_dinv m s : DInv m s -> DInv m (s <| crashed := true |>).
Proof. intros [Hd _]. split; [exact Hd|]. cbn. discriminate. Qed.

Lemma upd_inv_rc s1 id rc c' : Inv s1 -> In rc (processing s1) -> In id (k_subs rc) ->
  same_cmd (k_sup rc) c' ->
  Inv (s1 <| processing := upd_last id (fun x => set_sup x c') (processing s1) |>).
Proof.
  intros H Hrc Hid Hs. apply upd_inv; [exact H|]. intros x Hx Hxid.
  assert (x = rc) by (eapply owner_unique; eauto; apply has_id_in; assumption). subst. assumption.
Qed.

Lemma parse_from_mem_dinv m s : Inv s -> DInv m s -> crashed s = false -> DInv m (fst (parse_from_mem s)).
Proof.
  intros HI HD Hc. unfold parse_from_mem. destruct (mem_in s) as [|r rest] eqn:Em; [exact HD|].
  cbv zeta. pose proof (mem_in_inv s rest HI) as HI0. destruct HD as [Hdone Hcore]. specialize (Hcore Hc).
  assert (Hr : rsp_ok m s r).
  { pose proof (d_in _ _ Hcore) as Hin. rewrite Em in Hin. inversion Hin; assumption. }
  assert (HC0 : DCore m (s <| mem_in := rest |>)).
  { destruct Hcore as [A B C D E F G]. constructor; cbn; auto. rewrite Em in F. inversion F; assumption. }
  set (s0 := s <| mem_in := rest |>) in *.
  assert (HD0 : DInv m s0) by (split; [exact Hdone|intros _; exact HC0]).
  assert (Hc0 : crashed s0 = false) by exact Hc.
  destruct Hr as [Hrlt Hrq].
  destruct (r_kind r) eqn:Ek.
  - (* DataReady *)
    destruct (find_pending (r_to r) (pending s0)) as [q|] eqn:Ef; [|(unfold crash; cbn [fst]; split; [exact Hdone|cbn; discriminate])].
    destruct (find_pending_some _ _ _ Ef) as [Hq Hqid].
    assert (Hqs : In q (g_sent s)) by (apply (d_pend _ _ HC0); exact Hq).
    destruct (Hrq q Hqs Hqid) as [(_ & Hw & Hdata)|(Hk & _)]; [|congruence].
    rewrite Hw.
    pose proof (answer_core_inv s0 q HI0 Hq) as HI1.
    destruct (last_match (s_id q) (processing (answer_core s0 (s_id q)))) as [rc|] eqn:El;
      [|(unfold crash; cbn [fst]; split; [exact Hdone|cbn; discriminate])].
    destruct (last_match_some _ _ _ El) as [Hrc Hrcid]. apply has_id_in in Hrcid.
    destruct (c_kind (k_sup rc)) eqn:Ekind; try ((unfold crash; cbn [fst]; split; [exact Hdone|cbn; discriminate])).
    destruct (len (c_data (k_sup rc)) <? s_addr q - c_addr (k_sup rc)) eqn:Eoff;
      [(unfold crash; cbn [fst]; split; [exact Hdone|cbn; discriminate])|].
    rewrite Hdata.
    pose proof (answer_read_dcore m s0 q rc HI0 HC0 Hq Hw El Ekind Eoff) as HC2. cbv zeta in HC2.
    set (c' := set_data (k_sup rc) _) in *.
    set (s2 := answer_core s0 (s_id q) <| processing := _ |>) in *.
    assert (HI2 : Inv s2).
    { apply upd_inv_rc with (rc := rc); auto. unfold same_cmd, c'. cbn. auto. }
    assert (HD2 : DInv m s2) by (split; [exact Hdone|intros _; exact HC2]).
    destruct (k_count rc =? 0) eqn:Ez; [|exact HD2].
    cbn [fst]. apply finish_dinv; auto.
    + unfold s2. cbn. apply (upd_last_in _ (fun x => set_sup x c')) in El. exact El.
    + cbn. apply N.eqb_eq. assumption.
  - (* WriteDone *)
    destruct (find_pending (r_to r) (pending s0)) as [q|] eqn:Ef; [|(unfold crash; cbn [fst]; split; [exact Hdone|cbn; discriminate])].
    destruct (find_pending_some _ _ _ Ef) as [Hq Hqid].
    assert (Hqs : In q (g_sent s)) by (apply (d_pend _ _ HC0); exact Hq).
    destruct (Hrq q Hqs Hqid) as [(Hk & _)|(_ & Hw)]; [congruence|].
    pose proof (answer_core_inv s0 q HI0 Hq) as HI1.
    pose proof (answer_write_dcore m s0 q HI0 HC0 Hq Hw) as HC1.
    set (s1 := answer_core s0 (s_id q)) in *.
    assert (HD1 : DInv m s1) by (split; [exact Hdone|intros _; exact HC1]).
    destruct (last_match (s_id q) (processing s1)) as [rc|] eqn:El; [|(unfold crash; cbn [fst]; split; [exact Hdone|cbn; discriminate])].
    destruct (last_match_some _ _ _ El) as [Hrc _].
    destruct (k_count rc =? 0) eqn:Ez; [|exact HD1].
    destruct (c_kind (k_sup rc)); try ((unfold crash; cbn [fst]; split; [exact Hdone|cbn; discriminate])).
    cbn [fst]. apply finish_dinv; auto. apply N.eqb_eq. assumption.
  - unfold crash; cbn [fst]; split; [exact Hdone|cbn; discriminate].
Qed.

(** ** accepting a command: its layout *)
Definition lay_of (c : copy) (subs : list sub) : lay :=
  map (fun q => (s_id q, s_addr q - c_addr c, s_size q)) subs.

Lemma mk_sub_fields c n p :
  s_id (mk_sub c n p) = n /\ s_addr (mk_sub c n p) = p_va p /\ s_size (mk_sub c n p) = p_len p /\
  (c_kind c = CD2H -> s_write (mk_sub c n p) = false).
Proof. unfold mk_sub. destruct (c_kind c); cbn; repeat split; auto; discriminate. Qed.

Lemma mk_subs_lay c : forall l n o, contig o l -> Forall (fun p => p_va p = c_addr c + p_off p) l ->
  lay_contig o (lay_of c (mk_subs c n l)) /\ lay_total (lay_of c (mk_subs c n l)) = total l.
Proof.
  induction l as [|p r IH]; intros n o Hc Hf; cbn; [auto|].
  destruct Hc as [Ho Hc]. inversion Hf as [|? ? Hp Hr]; subst.
  destruct (mk_sub_fields c n p) as (_ & Ha & Hs & _).
  destruct (IH (n + 1) _ Hc Hr) as [A B]. unfold l_off, l_sz. cbn. rewrite Ha, Hs, Hp.
  split; [split; [lia|exact A]|]. unfold lay_of in B. rewrite B. reflexivity.
Qed.

Lemma mk_subs_in c : forall l n q, In q (mk_subs c n l) ->
  exists p, In p l /\ s_addr q = p_va p /\ s_size q = p_len p /\ (c_kind c = CD2H -> s_write q = false).
Proof.
  induction l as [|p r IH]; intros n q Hq; cbn in Hq; [contradiction|]. destruct Hq as [<-|Hq].
  - exists p. destruct (mk_sub_fields c n p) as (_ & A & B & C). split; [left; reflexivity|auto].
  - destruct (IH _ _ Hq) as (p' & Hp & R). exists p'. split; [right; assumption|exact R].
Qed.

Lemma accept_dcore m s c rest l : Inv s -> DCore m s ->
  split_lines (lg s) (c_addr c) (len (c_data c)) = Ok l ->
  DCore m (accept_state s c rest l).
Proof.
  intros HI HD Es. pose proof HD as [Hlen Hst Hnd Hlt Hpe Hmi Hpr].
  pose proof HI as [_ Hcoll _ Hans _ _ _ _ _ _ _ _].
  destruct (mk_subs_ids c (next_id s) l) as (Hl & Hsnd & Hrange).
  apply split_tiles in Es.
  destruct (tiles_contig _ _ _ _ _ Es) as [Hcon Htot].
  assert (Hva : Forall (fun p => p_va p = c_addr c + p_off p) l).
  { eapply Forall_impl; [|exact (tiles_bounds _ _ _ _ _ Es)]. cbn. intros p (_ & _ & E). rewrite E. f_equal. lia. }
  destruct (mk_subs_lay c l (next_id s) 0 Hcon Hva) as [Hlc Hlt'].
  unfold accept_state, accept_coll, accept_subs. cbv zeta.
  set (subs := mk_subs c (next_id s) l) in *. set (ids := map s_id subs) in *.
  fold (lay_of c subs).
  assert (Hfresh : forall q, In q subs -> next_id s <= s_id q < next_id s + N.of_nat (length l)).
  { intros q Hq. rewrite Forall_forall in Hrange. apply Hrange. unfold ids. apply in_map. assumption. }
  assert (Hacclt : forall k x, nth_error (g_acc s) k = Some x -> (k < length (g_acc s))%nat).
  { intros k x Hx. apply nth_error_Some. congruence. }
  constructor; cbn.
  - rewrite !app_length. cbn. lia.
  - intros k c0 ids0 ly Hn Hly.
    destruct (Nat.lt_ge_cases k (length (g_acc s))) as [Hk|Hk].
    + rewrite nth_error_app1 in Hn by lia. rewrite nth_error_app1 in Hly by lia.
      destruct (Hst _ _ _ _ Hn Hly) as (A & B & C & D). repeat split; auto.
      intros e He. destruct (D e He) as (q & Hq & R). exists q. split; [apply in_app_iff; auto|exact R].
    + assert (k = length (g_acc s)).
      { assert (k < length (g_acc s ++ [(c, ids)]))%nat by (apply nth_error_Some; congruence).
        rewrite app_length in H. cbn in H. lia. }
      subst k. rewrite nth_error_app2 in Hn by lia. rewrite Nat.sub_diag in Hn. cbn in Hn. injection Hn as <- <-.
      rewrite nth_error_app2 in Hly by lia. rewrite Hlen, Nat.sub_diag in Hly. cbn in Hly. injection Hly as <-.
      split; [unfold lay_of, ids; rewrite map_map; reflexivity|]. split; [exact Hlc|].
      split; [rewrite Hlt', Htot; reflexivity|].
      intros e He. unfold lay_of in He. apply in_map_iff in He as (q & <- & Hq).
      destruct (mk_subs_in c l _ q Hq) as (p & Hp & Ha & Hs & Hw).
      exists q. split; [apply in_app_iff; auto|]. unfold l_id, l_off, l_sz. cbn.
      rewrite Forall_forall in Hva. rewrite Ha, (Hva p Hp). repeat split; auto. lia.
  - rewrite map_app. apply nodup_app_intro; auto.
    intros x Hx Hx'. rewrite Forall_forall in Hlt. apply in_map_iff in Hx as (q & <- & Hq).
    apply in_map_iff in Hx' as (q' & E & Hq'). specialize (Hlt q Hq). specialize (Hfresh q' Hq'). cbn in Hlt. lia.
  - apply Forall_app. split.
    + eapply Forall_impl; [|exact Hlt]. cbn. intros; lia.
    + rewrite Forall_forall. intros q Hq. specialize (Hfresh q Hq). unfold subs. rewrite mk_subs_length. lia.
  - intros x Hx. apply in_app_iff in Hx as [Hx|Hx]; apply in_app_iff; auto.
  - eapply Forall_impl; [|exact Hmi]. intros r [Hrl Hrq]. split; [cbn; lia|]. cbn.
    intros q Hq Hid. apply in_app_iff in Hq as [Hq|Hq]; [auto|]. specialize (Hfresh q Hq). lia.
  - apply Forall_app. split.
    + rewrite Forall_forall in *. intros rc Hrc c0 ids0 ly Hn Hly. cbn in Hn, Hly.
      destruct (Hcoll rc Hrc) as (_ & _ & _ & cx & Hnx & _). pose proof (Hacclt _ _ Hnx) as Hk.
      rewrite nth_error_app1 in Hn by lia. rewrite nth_error_app1 in Hly by lia.
      exact (Hpr rc Hrc c0 ids0 ly Hn Hly).
    + constructor; [|constructor]. intros c0 ids0 ly Hn Hly. cbn in Hn, Hly.
      rewrite nth_error_app2 in Hn by lia. rewrite Nat.sub_diag in Hn. cbn in Hn. injection Hn as <- <-.
      rewrite nth_error_app2 in Hly by lia. rewrite Hlen, Nat.sub_diag in Hly. cbn in Hly. injection Hly as <-.
      split; [reflexivity|]. intros _ e He Hin. exfalso.
      unfold lay_of in He. apply in_map_iff in He as (q & <- & Hq). cbn in Hin. unfold l_id in Hin. cbn in Hin.
      rewrite Forall_forall in Hans. apply Hans in Hin. specialize (Hfresh q Hq). lia.
Qed.

Lemma parse_from_cp_dinv m s : Inv s -> DInv m s -> crashed s = false -> DInv m (fst (parse_from_cp s)).
Proof.
  intros HI HD Hc. unfold parse_from_cp.
  destruct (Nat.leb (maxreq s) (length (processing s))) eqn:Ecap; [exact HD|]. apply Nat.leb_gt in Ecap.
  destruct (cp_in s) as [|c rest] eqn:Ein; [exact HD|].
  destruct HD as [Hdone Hcore]. specialize (Hcore Hc).
  assert (Hcr : DInv m (s <| crashed := true |>)) by (split; [exact Hdone|cbn; discriminate]).
  destruct (split_lines (lg s) (c_addr c) (len (c_data c))) as [l| |] eqn:Es;
    [|destruct (c_kind c); exact Hcr|destruct (c_kind c); exact Hcr].
  pose proof (accept_inv s c rest l HI Ecap) as HI1.
  pose proof (accept_dcore m s c rest l HI Hcore Es) as HC1.
  assert (HD1 : DInv m (accept_state s c rest l)) by (split; [exact Hdone|intros _; exact HC1]).
  assert (Hfin : DInv m (fst (if k_count (accept_coll s c l) =? 0
                              then (finish (accept_state s c rest l) (accept_coll s c l), true)
                              else (accept_state s c rest l, true)))).
  { destruct (k_count (accept_coll s c l) =? 0) eqn:Ez; [|exact HD1]. cbn [fst].
    apply finish_dinv; auto; [|apply N.eqb_eq; exact Ez].
    unfold accept_state. cbn. apply in_app_iff. right. left. reflexivity. }
  destruct (c_kind c); [exact Hfin|exact Hfin|exact Hcr].
Qed.

Lemma untouched_dinv m s s' :
  DInv m s -> g_done s' = g_done s -> crashed s' = crashed s ->
  g_lay s' = g_lay s -> g_acc s' = g_acc s -> g_sent s' = g_sent s -> next_id s' = next_id s ->
  pending s' = pending s -> mem_in s' = mem_in s -> processing s' = processing s -> g_ans s' = g_ans s ->
  DInv m s'.
Proof.
  intros [Hd Hc] E1 E2 E3 E4 E5 E6 E7 E8 E9 E10. split; [rewrite E1; exact Hd|].
  rewrite E2. intros Hcr. destruct (Hc Hcr) as [A B C D E F G].
  constructor; rewrite ?E3, ?E4, ?E5, ?E6, ?E7, ?E8, ?E9; auto.
  - intros k c0 ids ly Hn Hl. destruct (B k c0 ids ly Hn Hl) as (P & Q & R & S). repeat split; auto.
    intros e He. destruct (S e He) as (q & Hq & T). exists q. rewrite E5. auto.
  - eapply Forall_impl; [|exact F]. intros r [X Y]. split; [rewrite E6; exact X|rewrite E5; exact Y].
  - eapply Forall_impl; [|exact G]. intros rc Hrc c0 ids ly Hn Hl. rewrite E4 in Hn. rewrite E3 in Hl.
    rewrite E10. exact (Hrc c0 ids ly Hn Hl).
Qed.

Lemma send_cp_dinv m s : DInv m s -> DInv m (fst (send_cp s)).
Proof.
  intros H. unfold send_cp. destruct (to_cp s); [exact H|]. destruct (room CP_CAP (cp_out s)); [|exact H].
  eapply untouched_dinv; eauto.
Qed.

Lemma send_mem_dinv m s : DInv m s -> DInv m (fst (send_mem s)).
Proof.
  intros H. unfold send_mem. destruct (to_mem s); [exact H|]. destruct (room MEM_CAP (mem_out s)); [|exact H].
  eapply untouched_dinv; eauto.
Qed.

Lemma andthen_both m f g s :
  (forall x, Inv x -> Inv (fst (f x))) -> (forall x, Inv x -> Inv (fst (g x))) ->
  (forall x, Inv x -> DInv m x -> crashed x = false -> DInv m (fst (f x))) ->
  (forall x, Inv x -> DInv m x -> crashed x = false -> DInv m (fst (g x))) ->
  Inv s -> DInv m s -> crashed s = false -> DInv m (fst (andthen f g s)).
Proof.
  intros If Ig Df Dg HI HD Hc. unfold andthen.
  pose proof (If s HI) as I1. pose proof (Df s HI HD Hc) as D1. destruct (f s) as [s1 p1]. cbn in I1, D1.
  destruct (crashed s1) eqn:E; [exact D1|].
  pose proof (Dg s1 I1 D1 E) as D2. destruct (g s1) as [s2 p2]. exact D2.
Qed.

Lemma tick_dinv m s : Inv s -> DInv m s -> crashed s = false -> DInv m (fst (tick s)).
Proof.
  unfold tick. apply andthen_both.
  - apply send_cp_inv.
  - intros x. apply andthen_inv; [apply send_mem_inv|]. intros y.
    apply andthen_inv; [apply parse_from_mem_inv|apply parse_from_cp_inv].
  - intros x _ D _. apply send_cp_dinv. exact D.
  - intros x. apply andthen_both.
    + apply send_mem_inv.
    + intros y. apply andthen_inv; [apply parse_from_mem_inv|apply parse_from_cp_inv].
    + intros y _ D _. apply send_mem_dinv. exact D.
    + intros y. apply andthen_both.
      * apply parse_from_mem_inv.
      * apply parse_from_cp_inv.
      * apply parse_from_mem_dinv.
      * apply parse_from_cp_dinv.
Qed.

Lemma step_dinv m s e : Inv s -> DInv m s ->
  match e with EDeliverMem x => rsp_ok m s x | _ => True end -> DInv m (fst (step s e)).
Proof.
  intros HI HD Hok. unfold step. destruct (crashed s) eqn:Hc; [exact HD|]. destruct e.
  - destruct (room CP_CAP (cp_in s)); [|exact HD]. eapply untouched_dinv; eauto.
  - destruct (room MEM_CAP (mem_in s)); [|exact HD].
    destruct HD as [Hd Hcore]. split; [exact Hd|]. intros _. specialize (Hcore Hc).
    destruct Hcore as [A B C D E F G]. constructor; cbn; auto. apply Forall_app. split; [exact F|]. constructor; [exact Hok|constructor].
  - pose proof (tick_dinv m s HI HD Hc) as Ht. destruct (tick s) as [s' p]. destruct (crashed s'); exact Ht.
  - destruct (cp_out s); [exact HD|]. eapply untouched_dinv; eauto.
  - destruct (mem_out s); [exact HD|]. eapply untouched_dinv; eauto.
Qed.

Lemma run_dinv m evs : forall s, Inv s -> DInv m s -> respects m s evs -> DInv m (run s evs).
Proof.
  induction evs as [|e r IH]; intros s HI HD Hr; [exact HD|].
  change (run s (e :: r)) with (run (fst (step s e)) r). destruct Hr as [Hok Hr].
  apply IH; [apply step_inv; exact HI|apply step_dinv; assumption|exact Hr].
Qed.

(** Every completion of a D2H command — queued, in the port or retrieved — holds
    the bytes of the memory image at the command's source range. *)
Theorem d2h_data_exact m l mx evs :
  respects m (init l mx) evs ->
  let s := run (init l mx) evs in
  forall c, In c (g_retr s ++ cp_out s ++ to_cp s) -> holds_image m c.
Proof.
  intros Hr s c Hin.
  pose proof (run_inv evs _ (init_inv l mx)) as HI. pose proof (run_dinv m evs _ (init_inv l mx) (init_dinv m l mx) Hr) as [Hd _].
  fold s in HI, Hd. rewrite (i_flow _ HI) in Hin. apply in_map_iff in Hin as (d & <- & Hdin).
  rewrite Forall_forall in Hd. exact (Hd d Hdin).
Qed.
