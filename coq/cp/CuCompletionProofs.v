(** Proofs about VCp.CuCompletion: every accepted MapWGReq is in exactly one
    stage (port, resident, finished-not-yet-reported, reported) and is
    reported at most once, for every sequence of events. *)
From Coq Require Import List NArith Bool Arith Lia ZifyN ZifyNat ZifyBool.
From VCp Require Import CuCompletion.
Import ListNotations.
Open Scope nat_scope.

Definition cnt (x : N) (l : list N) : nat := count_occ N.eq_dec l x.
Arguments cnt : simpl never.
Lemma cnt_nil : forall x, cnt x [] = 0. Proof. reflexivity. Qed.

Lemma cnt_app : forall x a b, cnt x (a ++ b) = cnt x a + cnt x b.
Proof. intros. unfold cnt. apply count_occ_app. Qed.

Lemma cnt_cons : forall x y l, cnt x (y :: l) = (if N.eq_dec y x then 1 else 0) + cnt x l.
Proof. intros. unfold cnt. simpl. destruct (N.eq_dec y x); lia. Qed.

Lemma cnt_in : forall x l, In x l <-> 1 <= cnt x l.
Proof. intros. unfold cnt. rewrite (count_occ_In N.eq_dec). lia. Qed.

Lemma cnt_filter_ne : forall x id l,
  cnt x (filter (fun y => negb (N.eqb y id)) l) = if N.eq_dec x id then 0 else cnt x l.
Proof.
  induction l as [|y l IH]; simpl.
  - destruct (N.eq_dec x id); reflexivity.
  - destruct (N.eqb y id) eqn:E; simpl.
    + apply N.eqb_eq in E. subst y. rewrite IH, cnt_cons.
      destruct (N.eq_dec x id); destruct (N.eq_dec id x); try congruence; lia.
    + apply N.eqb_neq in E. rewrite !cnt_cons, IH.
      destruct (N.eq_dec x id); destruct (N.eq_dec y x); try congruence; lia.
Qed.

Lemma cnt_le1_NoDup : forall l, (forall x, cnt x l <= 1) -> NoDup l.
Proof.
  induction l as [|y l IH]; intros H; constructor.
  - intros Hin. apply cnt_in in Hin. specialize (H y). rewrite cnt_cons in H.
    destruct (N.eq_dec y y); [lia|congruence].
  - apply IH. intros x. specialize (H x). rewrite cnt_cons in H. lia.
Qed.

Lemma existsb_cnt : forall id l, existsb (N.eqb id) l = true <-> 1 <= cnt id l.
Proof.
  intros. rewrite <- cnt_in. rewrite existsb_exists. split.
  - intros [x [Hx E]]. apply N.eqb_eq in E. subst. auto.
  - intros H. exists id. split; auto. apply N.eqb_refl.
Qed.

Ltac cn := repeat (rewrite cnt_app in * || rewrite cnt_cons in * || rewrite cnt_nil in *).
Ltac fin := cn; repeat (match goal with
                        | |- context [N.eq_dec ?a ?b] => destruct (N.eq_dec a b)
                        | H : context [N.eq_dec ?a ?b] |- _ => destruct (N.eq_dec a b)
                        end); subst; try congruence; try lia.

Definition stages (s : cust) (x : N) : nat :=
  cnt x (q_in s) + cnt x (wfs s) + cnt x (finished s) + cnt x (concat (g_sent s)).

Record CInv (s : cust) : Prop := mkCInv {
  ci_stage : forall x, stages s x = cnt x (g_deliv s);
  ci_once : forall x, cnt x (g_deliv s) <= 1;
  ci_queue : forall x, cnt x (queueing s) <= cnt x (wfs s);
  ci_pend : exists R Fi, pending s = R ++ Fi /\ length R <= 1 /\
              (forall r, In r R -> 1 <= cnt r (finished s)) /\
              (forall y, In y Fi -> 1 <= cnt y (wfs s) /\ cnt y (queueing s) = 0) /\ NoDup Fi;
  ci_port : g_retr s ++ q_out s = g_sent s
}.

Lemma init_cinv : forall a b, CInv (init_cust a b).
Proof.
  intros. constructor; simpl.
  - intros; unfold stages, cnt; simpl; lia.
  - intros; unfold cnt; simpl; lia.
  - intros; unfold cnt; simpl; lia.
  - exists [], []. split; auto. split; [simpl; lia|]. split; [intros r []|]. split; [intros y []|constructor].
  - reflexivity.
Qed.

Definition fresh (s : cust) (e : cev) : Prop :=
  match e with CDeliver id => ~ In id (g_deliv s) | _ => True end.

Lemma concat_app1 : forall (a : list (list N)) b, concat (a ++ [b]) = concat a ++ b.
Proof. intros. rewrite concat_app. simpl. rewrite app_nil_r. reflexivity. Qed.

Lemma cstep_inv : forall s e, CInv s -> fresh s e -> CInv (fst (cstep s e)).
Proof.
  intros s e HI Hf. pose proof HI as HI0. destruct HI as [Hst Ho Hq [R [Fi [Hp [HR [HRf [HFi HFn]]]]]] Hport].
  destruct e; simpl in *.
  - (* deliver *)
    destruct (length (q_in s) <? icap s); simpl; [|exact HI0].
    assert (Hz : cnt id (g_deliv s) = 0).
    { destruct (cnt id (g_deliv s)) eqn:E; auto. exfalso. apply Hf. apply cnt_in. lia. }
    constructor; simpl.
    + intros x. specialize (Hst x). unfold stages in *. simpl. fin.
    + intros x. specialize (Ho x). fin.
    + auto.
    + exists R, Fi. auto.
    + auto.
  - (* tick *)
    destruct (q_in s) as [|id r] eqn:Ei; simpl; [exact HI0|].
    assert (Hid : cnt id (wfs s) = 0 /\ cnt id (finished s) = 0).
    { specialize (Hst id). specialize (Ho id). unfold stages in Hst. rewrite Ei in Hst. split; fin. }
    constructor; simpl.
    + intros x. specialize (Hst x). unfold stages in *. rewrite Ei in Hst. simpl. fin.
    + auto.
    + intros x. specialize (Hq x). fin.
    + exists R, Fi. split; auto. split; auto. split; auto. split; auto.
      intros y Hy. destruct (HFi y Hy) as [H1 H2]. destruct Hid. split; fin.
    + auto.
  - (* emulation *)
    constructor; simpl; auto.
    + intros x. fin.
    + exists R, (Fi ++ queueing s). split; [rewrite Hp, app_assoc; reflexivity|].
      split; auto. split; auto. split.
      * intros y Hy. apply in_app_or in Hy. destruct Hy as [Hy|Hy].
        -- destruct (HFi y Hy). split; auto.
        -- apply cnt_in in Hy. specialize (Hq y). split; [lia|fin].
      * apply cnt_le1_NoDup. intros x. rewrite cnt_app.
        assert (cnt x (queueing s) <= 1).
        { specialize (Hq x). specialize (Hst x). specialize (Ho x). unfold stages in Hst. lia. }
        destruct (cnt x Fi) eqn:E; [lia|].
        assert (In x Fi) by (apply cnt_in; lia). destruct (HFi x H0) as [_ Hz].
        assert (cnt x Fi <= 1).
        { clear - HFn. induction HFn; [fin|].
          rewrite cnt_cons. destruct (N.eq_dec x0 x); [|lia]. subst.
          assert (cnt x l = 0); [|lia]. destruct (cnt x l) eqn:E; auto.
          exfalso. apply H. apply cnt_in. lia. }
        lia.
  - (* handle a WGCompleteEvent *)
    destruct (pending s) as [|id p] eqn:Epend; simpl; [exact HI0|].
    set (w := filter (fun x => negb (N.eqb x id)) (wfs s)).
    set (f := if existsb (N.eqb id) (finished s) then finished s else finished s ++ [id]).
    (* which kind of event is at the head *)
    assert (Hkind : (R = [id] /\ p = Fi /\ 1 <= cnt id (finished s) /\ cnt id (wfs s) = 0) \/
                    (R = [] /\ Fi = id :: p /\ cnt id (wfs s) = 1 /\ cnt id (finished s) = 0 /\
                     cnt id (queueing s) = 0)).
    { destruct R as [|r R'].
      - right. simpl in Hp. split; auto. split; [congruence|].
        assert (In id Fi) by (rewrite <- Hp; left; auto). destruct (HFi id H) as [H1 H2].
        specialize (Hst id). specialize (Ho id). unfold stages in Hst. repeat split; lia.
      - left. destruct R'; [|simpl in HR; lia]. simpl in Hp. injection Hp as E1 E2. subst r.
        assert (1 <= cnt id (finished s)) by (apply HRf; left; auto).
        specialize (Hst id). specialize (Ho id). unfold stages in Hst. repeat split; auto; lia. }
    assert (Hw : forall x, cnt x w = if N.eq_dec x id then 0 else cnt x (wfs s)) by (intros; apply cnt_filter_ne).
    assert (Hf' : forall x, cnt x w + cnt x f = cnt x (wfs s) + cnt x (finished s)).
    { intros x. rewrite Hw. unfold f. destruct Hkind as [[_ [_ [H1 H2]]]|[_ [_ [H1 [H2 _]]]]].
      - replace (existsb (N.eqb id) (finished s)) with true by (symmetry; apply existsb_cnt; auto).
        destruct (N.eq_dec x id); [subst; lia|reflexivity].
      - replace (existsb (N.eqb id) (finished s)) with false.
        2: { symmetry. destruct (existsb (N.eqb id) (finished s)) eqn:E; auto.
             apply existsb_cnt in E. lia. }
        fin. }
    assert (Hidf : 1 <= cnt id f).
    { unfold f. destruct (existsb (N.eqb id) (finished s)) eqn:E; [apply existsb_cnt; auto|].
      fin. }
    assert (Hqw : forall x, cnt x (queueing s) <= cnt x w).
    { intros x. rewrite Hw. specialize (Hq x). destruct (N.eq_dec x id); [|auto]. subst.
      destruct Hkind as [[_ [_ [_ H2]]]|[_ [_ [_ [_ H3]]]]]; lia. }
    assert (Hrest : forall y, In y p -> R = [] -> 1 <= cnt y w /\ cnt y (queueing s) = 0).
    { intros y Hy HRn. destruct Hkind as [[E _]|[_ [E _]]]; [congruence|].
      rewrite E in HFi, HFn. inversion HFn; subst.
      destruct (HFi y (or_intror Hy)) as [Hy1 Hy2]. split; auto. rewrite Hw.
      destruct (N.eq_dec y id); [subst; tauto|auto]. }
    destruct w as [|w0 w'] eqn:Ew.
    + (* no resident work-group left: report the batch *)
      assert (Hpnil : p = []).
      { destruct p as [|y p']; auto. exfalso.
        destruct Hkind as [[_ [E [Hk1 Hk2]]]|[E1 [E2 _]]].
        - subst Fi. destruct (HFi y (or_introl eq_refl)) as [H1 _].
          pose proof (Hw y) as Hwy. rewrite cnt_nil in Hwy.
          destruct (N.eq_dec y id); [|lia]. subst y. lia.
        - destruct (Hrest y (or_introl eq_refl) E1) as [H1 _]. rewrite cnt_nil in H1. lia. }
      subst p.
      destruct (length (q_out s) <? ocap s); simpl.
      * constructor; simpl.
        -- intros x. specialize (Hst x). specialize (Hf' x). unfold stages in *. simpl.
           rewrite concat_app1. pose proof (Hw x) as Hwx. fin.
        -- auto.
        -- intros x. specialize (Hqw x). auto.
        -- exists [], []. split; [reflexivity|]. split; [simpl; lia|]. split; [intros r0 []|].
           split; [intros y []|constructor].
        -- rewrite <- Hport, app_assoc. reflexivity.
      * constructor; simpl.
        -- intros x. specialize (Hst x). specialize (Hf' x). unfold stages in *. simpl. lia.
        -- auto.
        -- intros x. specialize (Hqw x). auto.
        -- exists [id], []. split; [reflexivity|]. split; [simpl; lia|]. split; [intros r0 [<-|[]]; auto|].
           split; [intros y []|constructor].
        -- auto.
    + (* other work-groups are still resident: nothing is sent *)
      constructor; simpl.
      * intros x. specialize (Hst x). specialize (Hf' x). unfold stages in *. simpl. lia.
      * auto.
      * auto.
      * exists [], p. split; auto. split; [simpl; lia|]. split; [simpl; tauto|].
        destruct Hkind as [[E1 [E2 _]]|[E1 [E2 _]]].
        -- subst p. split.
           ++ intros y Hy. destruct (HFi y Hy) as [H1 H2]. split; auto. rewrite Hw.
              destruct (N.eq_dec y id); [|auto]. subst y.
              specialize (Hst id). specialize (Ho id). unfold stages in Hst.
              assert (1 <= cnt id (finished s)) by (apply HRf; rewrite E1; left; auto). lia.
           ++ auto.
        -- split; [intros y Hy; apply Hrest; auto|]. rewrite E2 in HFn. inversion HFn; auto.
      * auto.
  - (* the network retrieves a message *)
    destruct (q_out s) as [|m r] eqn:Eo; simpl; [exact HI0|].
    constructor; simpl; auto.
    + exists R, Fi. auto.
    + rewrite <- Hport, <- app_assoc. reflexivity.
Qed.

Definition deliv_ids (evs : list cev) : list N :=
  flat_map (fun e => match e with CDeliver id => [id] | _ => [] end) evs.

Lemma g_deliv_step : forall s e x, In x (g_deliv (fst (cstep s e))) ->
  In x (g_deliv s) \/ e = CDeliver x.
Proof.
  intros s e x H. destruct e; simpl in H.
  - destruct (_ <? _); simpl in H; auto. apply in_app_or in H. destruct H as [H|[H|[]]]; auto. subst; auto.
  - destruct (q_in s); simpl in H; auto.
  - auto.
  - destruct (pending s); simpl in H; auto. destruct (filter _ _); simpl in H; auto.
    destruct (_ <? _); simpl in H; auto.
  - destruct (q_out s); simpl in H; auto.
Qed.

Lemma crun_inv : forall evs s,
  CInv s -> NoDup (deliv_ids evs) -> (forall x, In x (g_deliv s) -> ~ In x (deliv_ids evs)) ->
  CInv (crun s evs).
Proof.
  induction evs as [|e evs IH]; intros s HI Hn Hd; simpl; auto.
  apply IH.
  - apply cstep_inv; auto. destruct e; simpl; auto. intros Hin. apply (Hd id Hin). simpl. auto.
  - destruct e; simpl in Hn; auto. inversion Hn; auto.
  - intros x Hx Hin. destruct (g_deliv_step _ _ _ Hx) as [H|H].
    + apply (Hd x H). simpl. apply in_or_app. auto.
    + subst e. simpl in Hn. inversion Hn; subst. auto.
Qed.
