(** Executable model of the command processor's handling of cache flushes and
    host-device copies (amd/timing/cp: cpMiddleware.go processFlushReq,
    processMemCopyReq, cloneMemCopyH2DReq/D2HReq, processMemCopyRsp,
    findAndRemoveOriginalMemCopyRequest, flushCache; ctrlMiddleware.go
    processRspFromCaches, processCacheFlushRsp, processRegularCacheFlush;
    commandprocessor.go Tick), driven through its driver-side, DMA-side and
    cache-side ports.  Kernel launches, shootdowns, RDMA and page migration are
    outside this model (the environment sends none of their messages).
    Definitions only; proofs are in CpRelayProofs.v. *)
From Coq Require Import List NArith Bool.
From RecordUpdate Require Import RecordSet.
Import ListNotations RecordSetNotations.
Open Scope N_scope.

(** Requests of the driver. [DOther]: a message none of the two middlewares handles. *)
Inductive dkind := DFlush | DH2D | DD2H | DOther.
Record dreq := mkDReq { q_id : N; q_kind : dkind; q_src : N }.

(** sim.GeneralRsp to the driver: ID and kind of the original request, destination. *)
Record drsp := mkDRsp { p_orig : N; p_kind : dkind; p_dst : N }.

(** The copy request as forwarded to the DMA engine (fresh ID). *)
Record clone := mkClone { cl_id : N; cl_orig : N; cl_kind : dkind }.

Inductive dmamsg := MRsp (rspto : N) | MOther.     (* ToDMA incoming *)
Inductive cachemsg := CAck | CBad.                 (* ToCaches incoming: cache.FlushRsp / anything else *)

Definition P_DRIVER : N := 1.                      (* CommandProcessor.Driver *)
Definition PORT_CAP : N := 4096.                   (* ToDMA, ToCaches *)
Definition CLONE_BASE : N := 1000000.
Definition U64_MAX : N := 18446744073709551615.

Record cp := mkCp {
  ncache : nat;               (* L1I + L1S + L1V + L2 caches, flushed in this order *)
  dcap : N;                   (* capacity of ToDriver's buffers (4096; small in the harness) *)
  drv_in : list dreq; drv_out : list drsp;         (* port ToDriver *)
  dma_out : list clone; dma_in : list dmamsg;      (* port ToDMA *)
  cache_out : list N; cache_in : list cachemsg;    (* port ToCaches: flush requests by cache index *)
  tab_h2d : list (N * dreq);  (* bottomMemCopyH2DReqIDToTopReqMap *)
  tab_d2h : list (N * dreq);  (* bottomMemCopyD2HReqIDToTopReqMap *)
  acks : N;                   (* numCacheACK (uint64) *)
  cur_flush : option dreq;    (* currFlushRequest *)
  fresh : N;                  (* ID generator *)
  panicked : bool;
  (* ghost logs: never read by the transition function *)
  g_deliv : list dreq;                 (* requests whose Deliver was accepted *)
  g_cons : list dreq;                  (* requests taken from ToDriver *)
  g_issued : N; g_acked : N;           (* cache flush requests sent / cache answers processed *)
  g_wrapped : bool;                    (* numCacheACK was decremented at 0 *)
  g_fwd : list (clone * bool * N * N); (* copies cloned: (clone, sent?, issued, acked at that time) *)
  g_rsp : list (drsp * bool * N * N);  (* responses built: (response, sent?, issued, acked at that time) *)
  g_retr : list drsp                   (* responses retrieved by the driver side *)
}.

#[export] Instance eta_cp : Settable _ := settable! mkCp
  <ncache; dcap; drv_in; drv_out; dma_out; dma_in; cache_out; cache_in; tab_h2d; tab_d2h;
   acks; cur_flush; fresh; panicked; g_deliv; g_cons; g_issued; g_acked; g_wrapped; g_fwd; g_rsp; g_retr>.

Definition init (n : nat) (cap : N) : cp :=
  mkCp n cap [] [] [] [] [] [] [] [] 0 None CLONE_BASE false [] [] 0 0 false [] [] [].

Definition room {A} (cap : N) (b : list A) : bool := N.of_nat (length b) <? cap.

(** m.ToDriver.Send(rsp) with the result ignored: the response is lost when the buffer is full. *)
Definition send_drv (s : cp) (r : drsp) : cp :=
  let ok := room (dcap s) (drv_out s) in
  s <| drv_out := if ok then drv_out s ++ [r] else drv_out s |>
    <| g_rsp := g_rsp s ++ [(r, ok, g_issued s, g_acked s)] |>.

Definition panic (s : cp) : cp * bool := (s <| panicked := true |>, false).

(** processFlushReq *)
Definition process_flush (s : cp) (r : dreq) (rest : list dreq) : cp * bool :=
  if 0 <? acks s then (s, false) else
  let idx := map N.of_nat (seq 0 (ncache s)) in
  if negb (N.of_nat (length (cache_out s) + ncache s) <=? PORT_CAP) then panic s else   (* flushCache: panic(err) *)
  let s1 := s <| cache_out := cache_out s ++ idx |>
              <| acks := N.of_nat (ncache s) |>
              <| g_issued := g_issued s + N.of_nat (ncache s) |>
              <| cur_flush := Some r |> in
  let s2 := if acks s1 =? 0 then send_drv s1 (mkDRsp (q_id r) DFlush P_DRIVER) else s1 in
  (s2 <| drv_in := rest |> <| g_cons := g_cons s ++ [r] |>, true).

(** processMemCopyReq: the copy is held back while cache flushes are unacknowledged. *)
Definition process_copy (s : cp) (r : dreq) (rest : list dreq) : cp * bool :=
  if 0 <? acks s then (s, false) else
  let c := mkClone (fresh s) (q_id r) (q_kind r) in
  let ok := room PORT_CAP (dma_out s) in      (* m.ToDMA.Send(cloned), result ignored *)
  (s <| tab_h2d := match q_kind r with DH2D => (fresh s, r) :: tab_h2d s | _ => tab_h2d s end |>
     <| tab_d2h := match q_kind r with DD2H => (fresh s, r) :: tab_d2h s | _ => tab_d2h s end |>
     <| fresh := fresh s + 1 |>
     <| dma_out := if ok then dma_out s ++ [c] else dma_out s |>
     <| drv_in := rest |>
     <| g_cons := g_cons s ++ [r] |>
     <| g_fwd := g_fwd s ++ [(c, ok, g_issued s, g_acked s)] |>, true).

(** cpMiddleware.Handle *)
Definition cp_handle (s : cp) : cp * bool :=
  match drv_in s with
  | [] => (s, false)
  | r :: rest =>
    match q_kind r with
    | DFlush => process_flush s r rest
    | DH2D | DD2H => process_copy s r rest
    | DOther => (s, false)
    end
  end.

Fixpoint lookup (c : N) (t : list (N * dreq)) : option dreq :=
  match t with [] => None | (k, v) :: r => if k =? c then Some v else lookup c r end.
Definition remove (c : N) (t : list (N * dreq)) := filter (fun e => negb (fst e =? c)) t.

(** cpMiddleware.HandleInternal = processRspFromDMAs / processMemCopyRsp *)
Definition cp_internal (s : cp) : cp * bool :=
  match dma_in s with
  | [] => (s, false)
  | MOther :: _ => panic s
  | MRsp c :: rest =>
    match lookup c (tab_h2d s) with
    | Some r =>
      (send_drv (s <| tab_h2d := remove c (tab_h2d s) |>) (mkDRsp (q_id r) (q_kind r) (q_src r))
         <| dma_in := rest |>, true)
    | None =>
      match lookup c (tab_d2h s) with
      | Some r =>
        (send_drv (s <| tab_d2h := remove c (tab_d2h s) |>) (mkDRsp (q_id r) (q_kind r) (q_src r))
           <| dma_in := rest |>, true)
      | None => panic s
      end
    end
  end.

(** ctrlMiddleware.HandleInternal restricted to the caches: processCacheFlushRsp / processRegularCacheFlush *)
Definition ctrl_internal (s : cp) : cp * bool :=
  match cache_in s with
  | [] => (s, false)
  | CBad :: _ => panic s
  | CAck :: rest =>
    let wrap := acks s =? 0 in
    let s1 := s <| acks := if wrap then U64_MAX else acks s - 1 |>
                <| cache_in := rest |>
                <| g_acked := g_acked s + 1 |>
                <| g_wrapped := g_wrapped s || wrap |> in
    if acks s1 =? 0 then
      match cur_flush s1 with
      | Some f => (send_drv s1 (mkDRsp (q_id f) DFlush (q_src f)) <| cur_flush := None |>, true)
      | None => panic s1
      end
    else (s1, true)
  end.

Definition andthen (f g : cp -> cp * bool) (s : cp) : cp * bool :=
  let '(s1, p1) := f s in
  if panicked s1 then (s1, p1) else
  let '(s2, p2) := g s1 in (s2, p1 || p2).

(** middleware.Tick(); ctrlMiddleware.Tick() *)
Definition round : cp -> cp * bool := andthen cp_handle (andthen cp_internal ctrl_internal).

(** CommandProcessor.Tick: processReqFromDriver (only when a request waits), processRspFromInternal *)
Definition tick (s : cp) : cp * bool :=
  match drv_in s with
  | [] => round s
  | _ => andthen round round s
  end.

Inductive ev :=
| EDrv (r : dreq) | EDma (m : dmamsg) | ECache (c : cachemsg)
| ETick | ERetrDrv | ERetrDma | ERetrCache.

Inductive obs :=
| OAcc (b : bool) | OTick (p : bool) | ORsp (r : option drsp) | OClone (c : option clone)
| OCache (i : option N) | OPanic.

Definition step (s : cp) (e : ev) : cp * obs :=
  if panicked s then (s, OPanic) else
  match e with
  | EDrv r =>
    if room (dcap s) (drv_in s)
    then (s <| drv_in := drv_in s ++ [r] |> <| g_deliv := g_deliv s ++ [r] |>, OAcc true)
    else (s, OAcc false)
  | EDma m =>
    if room PORT_CAP (dma_in s) then (s <| dma_in := dma_in s ++ [m] |>, OAcc true) else (s, OAcc false)
  | ECache c =>
    if room PORT_CAP (cache_in s) then (s <| cache_in := cache_in s ++ [c] |>, OAcc true) else (s, OAcc false)
  | ETick => let '(s', p) := tick s in if panicked s' then (s', OPanic) else (s', OTick p)
  | ERetrDrv =>
    match drv_out s with
    | [] => (s, ORsp None)
    | r :: t => (s <| drv_out := t |> <| g_retr := g_retr s ++ [r] |>, ORsp (Some r))
    end
  | ERetrDma =>
    match dma_out s with [] => (s, OClone None) | c :: t => (s <| dma_out := t |>, OClone (Some c)) end
  | ERetrCache =>
    match cache_out s with [] => (s, OCache None) | i :: t => (s <| cache_out := t |>, OCache (Some i)) end
  end.

Definition run (s : cp) (evs : list ev) : cp := fold_left (fun s e => fst (step s e)) evs s.

Fixpoint run_obs (s : cp) (evs : list ev) : list obs :=
  match evs with [] => [] | e :: r => let '(s', o) := step s e in o :: run_obs s' r end.

(** Correspondence with a recorded history of the implementation. *)
Definition dkind_eqb (a b : dkind) : bool :=
  match a, b with DFlush, DFlush | DH2D, DH2D | DD2H, DD2H | DOther, DOther => true | _, _ => false end.
Definition drsp_eqb (a b : drsp) : bool :=
  (p_orig a =? p_orig b) && dkind_eqb (p_kind a) (p_kind b) && (p_dst a =? p_dst b).
Definition clone_eqb (a b : clone) : bool :=
  (cl_id a =? cl_id b) && (cl_orig a =? cl_orig b) && dkind_eqb (cl_kind a) (cl_kind b).

Definition obs_eqb (a b : obs) : bool :=
  match a, b with
  | OAcc x, OAcc y => Bool.eqb x y
  | OTick x, OTick y => Bool.eqb x y
  | ORsp None, ORsp None => true
  | ORsp (Some x), ORsp (Some y) => drsp_eqb x y
  | OClone None, OClone None => true
  | OClone (Some x), OClone (Some y) => clone_eqb x y
  | OCache None, OCache None => true
  | OCache (Some x), OCache (Some y) => x =? y
  | OPanic, OPanic => true
  | _, _ => false
  end.

Record ccase := mkCCase { cc_ncache : nat; cc_cap : N; cc_trace : list (ev * obs) }.

Fixpoint first_diff (i : nat) (l1 l2 : list obs) : option nat :=
  match l1, l2 with
  | [], [] => None
  | a :: l1', b :: l2' => if obs_eqb a b then first_diff (S i) l1' l2' else Some i
  | _, _ => Some i
  end.

Definition check_ccase (c : ccase) : option nat :=
  first_diff 0 (run_obs (init (cc_ncache c) (cc_cap c)) (map fst (cc_trace c))) (map snd (cc_trace c)).

Fixpoint cmismatches_from (i : nat) (cs : list ccase) : list (nat * nat) :=
  match cs with
  | [] => []
  | c :: r => match check_ccase c with
              | None => cmismatches_from (S i) r
              | Some k => (i, k) :: cmismatches_from (S i) r
              end
  end.
Definition cmismatches := cmismatches_from 0.
