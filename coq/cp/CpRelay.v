(** The command processor's relay of copy commands between the driver and the
    DMA engine (amd/timing/cp/cpMiddleware.go: processMemCopyReq,
    cloneMemCopyH2DReq/D2HReq, processMemCopyRsp, findAndRemoveOriginalMemCopyRequest).
    The results of ToDMA.Send and ToDriver.Send are ignored by the Go code: when
    the outgoing buffer is full the message is lost while the incoming one is
    still consumed.  The model shows that loss; the relay theorem carries
    [outgoing_not_full] as an explicit premise.  This file is a hand
    transcription that no harness ties to the code (see docs/C11.md). *)
From Coq Require Import List NArith Bool Lia.
Import ListNotations.
Open Scope N_scope.

Record cp := mkCp {
  drv_in : list N;            (* ToDriver incoming: IDs of copy requests of the driver *)
  dma_out : list (N * N);     (* ToDMA outgoing: (clone ID, original ID) *)
  dma_in : list N;            (* ToDMA incoming: completions, by clone ID *)
  drv_out : list N;           (* ToDriver outgoing: completions, by original ID *)
  table : list (N * N);       (* bottomMemCopy*ReqIDToTopReqMap: clone ID -> original *)
  fresh : N;                  (* ID generator *)
  capacity : nat;             (* outgoing buffer capacity of both ports (4096) *)
  flushing : bool;            (* numCacheACK > 0 *)
  panicked : bool;
  lost : list N               (* ghost: original IDs of messages dropped by an ignored Send error *)
}.

Definition has_room (s : cp) {A} (b : list A) : bool := Nat.ltb (length b) (capacity s).

(** processMemCopyReq *)
Definition relay_req (s : cp) : cp :=
  if flushing s then s else
  match drv_in s with
  | [] => s
  | r :: rest =>
    let c := fresh s in
    let sent := has_room s (dma_out s) in
    mkCp rest (if sent then dma_out s ++ [(c, r)] else dma_out s) (dma_in s) (drv_out s)
         ((c, r) :: table s) (c + 1) (capacity s) (flushing s) (panicked s)
         (if sent then lost s else lost s ++ [r])
  end.

Fixpoint lookup (c : N) (t : list (N * N)) : option N :=
  match t with [] => None | (k, v) :: r => if k =? c then Some v else lookup c r end.
Definition remove (c : N) (t : list (N * N)) := filter (fun e => negb (fst e =? c)) t.

(** processMemCopyRsp *)
Definition relay_rsp (s : cp) : cp :=
  match dma_in s with
  | [] => s
  | c :: rest =>
    match lookup c (table s) with
    | None => mkCp (drv_in s) (dma_out s) (dma_in s) (drv_out s) (table s) (fresh s) (capacity s)
                   (flushing s) true (lost s)                       (* panic("never") *)
    | Some r =>
      let sent := has_room s (drv_out s) in
      mkCp (drv_in s) (dma_out s) rest (if sent then drv_out s ++ [r] else drv_out s)
           (remove c (table s)) (fresh s) (capacity s) (flushing s) (panicked s)
           (if sent then lost s else lost s ++ [r])
    end
  end.

Definition outgoing_not_full (s : cp) : Prop :=
  has_room s (dma_out s) = true /\ has_room s (drv_out s) = true.

(** With room in the outgoing buffers the relay forwards the head request under
    a fresh clone ID and remembers the pair; nothing is lost. *)
Lemma relay_req_exact : forall s r rest, flushing s = false -> drv_in s = r :: rest ->
  outgoing_not_full s ->
  let s' := relay_req s in
  drv_in s' = rest /\ dma_out s' = dma_out s ++ [(fresh s, r)] /\
  lookup (fresh s) (table s') = Some r /\ lost s' = lost s.
Proof.
  intros s r rest Hf Hin [H1 _]. unfold relay_req. rewrite Hf, Hin, H1. cbn.
  rewrite N.eqb_refl. auto.
Qed.

Lemma relay_rsp_exact : forall s c rest r, dma_in s = c :: rest -> lookup c (table s) = Some r ->
  outgoing_not_full s ->
  let s' := relay_rsp s in
  dma_in s' = rest /\ drv_out s' = drv_out s ++ [r] /\ lost s' = lost s /\ panicked s' = panicked s.
Proof.
  intros s c rest r Hin Hl [_ H2]. unfold relay_rsp. rewrite Hin, Hl, H2. cbn. auto.
Qed.

(** Without that premise the command is consumed and disappears. *)
Lemma relay_req_loses_when_full : forall s r rest, flushing s = false -> drv_in s = r :: rest ->
  has_room s (dma_out s) = false ->
  let s' := relay_req s in drv_in s' = rest /\ dma_out s' = dma_out s /\ lost s' = lost s ++ [r].
Proof. intros s r rest Hf Hin H1. unfold relay_req. rewrite Hf, Hin, H1. cbn. auto. Qed.

Lemma relay_rsp_loses_when_full : forall s c rest r, dma_in s = c :: rest -> lookup c (table s) = Some r ->
  has_room s (drv_out s) = false ->
  let s' := relay_rsp s in dma_in s' = rest /\ drv_out s' = drv_out s /\ lost s' = lost s ++ [r].
Proof. intros s c rest r Hin Hl H2. unfold relay_rsp. rewrite Hin, Hl, H2. cbn. auto. Qed.
