(** Executable model of amd/timing/cp/dma.go (DMAEngine) driven through its
    two ports (ToCP, ToMem).  Definitions only; proofs are in DmaProofs.v. *)
From Coq Require Import List NArith Bool.
From VLib Require Import Chunks.
From RecordUpdate Require Import RecordSet.
Import ListNotations RecordSetNotations.
Open Scope N_scope.

(** Messages on the CP side: a copy command (protocol.MemCopyH2DReq /
    MemCopyD2HReq) and, in the other direction, its completion
    (sim.GeneralRsp whose OriginalReq is the command).  [c_data] is SrcBuffer
    for H2D and DstBuffer for D2H; its length is the length of the copy. *)
Inductive ckind := CH2D | CD2H | COther.
Record copy := mkCopy { c_id : N; c_kind : ckind; c_src : N; c_addr : N; c_data : list N }.

(** Messages on the memory side: mem.WriteReq / mem.ReadReq going down,
    mem.WriteDoneRsp / mem.DataReadyRsp (or anything else) coming back. *)
Record sub := mkSub { s_id : N; s_write : bool; s_addr : N; s_size : N; s_data : list N }.
Inductive rkind := RData | RDone | ROther.
Record rsp := mkRsp { r_kind : rkind; r_to : N; r_data : list N }.

(** RequestCollection; [k_seq] is a ghost (never read by the transition
    function): the position of the command in the acceptance order. *)
Record coll := mkColl { k_sup : copy; k_subs : list N; k_count : N; k_seq : nat }.

Record dma := mkDma {
  lg : N;                      (* Log2AccessSize *)
  maxreq : nat;                (* maxRequestCount *)
  processing : list coll;      (* processingReqs *)
  to_mem : list sub;           (* toSendToMem *)
  to_cp : list copy;           (* toSendToCP (completions) *)
  pending : list sub;          (* pendingReqs *)
  cp_in : list copy; cp_out : list copy;     (* port ToCP *)
  mem_in : list rsp; mem_out : list sub;     (* port ToMem *)
  next_id : N;                 (* fresh supply for sub-request IDs *)
  crashed : bool;              (* a Go panic was reached *)
  (* ghost logs: never read by the transition function *)
  g_deliv : list copy;               (* commands whose Deliver was accepted *)
  g_acc : list (copy * list N);      (* commands taken by parseFromCP, with the IDs of their sub-requests *)
  g_sent : list sub;                 (* sub-requests created *)
  g_ans : list N;                    (* sub-request IDs answered (removed from pendingReqs) *)
  g_done : list (nat * copy);        (* completions queued: (position in g_acc, message) *)
  g_retr : list copy;                (* completions retrieved by the environment *)
  g_lay : list (list (N * N * N))    (* per accepted command: (sub-request ID, offset in the buffer, size) *)
}.

#[export] Instance eta_dma : Settable _ := settable! mkDma
  <lg; maxreq; processing; to_mem; to_cp; pending; cp_in; cp_out; mem_in; mem_out;
   next_id; crashed; g_deliv; g_acc; g_sent; g_ans; g_done; g_retr; g_lay>.

Definition CP_CAP : N := 40960000.   (* sim.NewPort(dma, 40960000, 40960000, ToCP) *)
Definition MEM_CAP : N := 64.        (* sim.NewPort(dma, 64, 64, ToMem) *)
Definition ID_BASE : N := 1000000.

Definition init (l : N) (mx : nat) : dma :=
  mkDma l mx [] [] [] [] [] [] [] [] ID_BASE false [] [] [] [] [] [] [].

Definition room {A} (cap : N) (b : list A) : bool := N.of_nat (length b) <? cap.

Definition len (d : list N) : N := N.of_nat (length d).
Definition slice (d : list N) (o n : N) : list N := firstn (N.to_nat n) (skipn (N.to_nat o) d).

(** copy(dst[o:], src) — copies min(len(dst)-o, len(src)) bytes; the caller
    checks o <= len(dst) (a larger o is a slice-bounds panic in Go). *)
Definition copy_at (dst : list N) (o : N) (src : list N) : list N :=
  let k := N.to_nat o in
  let n := Nat.min (length dst - k) (length src) in
  firstn k dst ++ firstn n src ++ skipn (k + n) dst.

(** parseMemCopyH2D / parseMemCopyD2H: one sub-request per access unit. *)
Definition mk_sub (c : copy) (id : N) (p : piece) : sub :=
  match c_kind c with
  | CH2D => mkSub id true (p_va p) (p_len p) (slice (c_data c) (p_off p) (p_len p))
  | _ => mkSub id false (p_va p) (p_len p) []
  end.

Fixpoint mk_subs (c : copy) (id : N) (l : list piece) : list sub :=
  match l with
  | [] => []
  | p :: r => mk_sub c id p :: mk_subs c (id + 1) r
  end.

Definition split_lines (lg addr n : N) : res := split (look_unit lg) addr n.

(** removeReqFromPendingReqList: the last entry with the ID is returned, all
    entries with the ID are removed. *)
Fixpoint find_pending (id : N) (l : list sub) : option sub :=
  match l with
  | [] => None
  | r :: t => match find_pending id t with
              | Some x => Some x
              | None => if s_id r =? id then Some r else None
              end
  end.
Definition drop_pending (id : N) (l : list sub) : list sub :=
  filter (fun r => negb (s_id r =? id)) l.

Definition has_id (id : N) (l : list N) : bool := existsb (N.eqb id) l.

(** for _, rc := range processingReqs { if rc.decrementCountIfExists(id) { result = rc; found = true } } *)
Definition dec_coll (id : N) (rc : coll) : coll :=
  if has_id id (k_subs rc) then mkColl (k_sup rc) (k_subs rc) (N.pred (k_count rc)) (k_seq rc) else rc.
Fixpoint last_match (id : N) (l : list coll) : option coll :=
  match l with
  | [] => None
  | rc :: t => match last_match id t with
               | Some x => Some x
               | None => if has_id id (k_subs rc) then Some rc else None
               end
  end.

Definition set_data (c : copy) (d : list N) : copy :=
  mkCopy (c_id c) (c_kind c) (c_src c) (c_addr c) d.
Definition set_sup (rc : coll) (c : copy) : coll := mkColl c (k_subs rc) (k_count rc) (k_seq rc).

(** The D2H buffer is written through the pointer held by the last matching
    collection. *)
Fixpoint upd_last (id : N) (f : coll -> coll) (l : list coll) : list coll :=
  match l with
  | [] => []
  | rc :: t =>
    match last_match id t with
    | Some _ => rc :: upd_last id f t
    | None => if has_id id (k_subs rc) then f rc :: t else rc :: t
    end
  end.

(** removeReqFromProcessingReqList: every collection whose superior has the ID goes. *)
Definition drop_processing (id : N) (l : list coll) : list coll :=
  filter (fun rc => negb (c_id (k_sup rc) =? id)) l.

Definition finish (s : dma) (rc : coll) : dma :=
  s <| processing := drop_processing (c_id (k_sup rc)) (processing s) |>
    <| to_cp := to_cp s ++ [k_sup rc] |>
    <| g_done := g_done s ++ [(k_seq rc, k_sup rc)] |>.

Definition crash (s : dma) : dma * bool := (s <| crashed := true |>, false).

(** parseFromCP.  A command without sub-requests (zero bytes) is answered at
    once: its collection is removed again and the completion queued. *)
Definition accept_subs (s : dma) (c : copy) (l : list piece) : list sub := mk_subs c (next_id s) l.
Definition accept_coll (s : dma) (c : copy) (l : list piece) : coll :=
  let ids := map s_id (accept_subs s c l) in
  mkColl c ids (N.of_nat (length ids)) (length (g_acc s)).
Definition accept_state (s : dma) (c : copy) (rest : list copy) (l : list piece) : dma :=
  let subs := accept_subs s c l in
  s <| cp_in := rest |>
    <| processing := processing s ++ [accept_coll s c l] |>
    <| to_mem := to_mem s ++ subs |>
    <| pending := pending s ++ subs |>
    <| next_id := next_id s + N.of_nat (length subs) |>
    <| g_acc := g_acc s ++ [(c, map s_id subs)] |>
    <| g_sent := g_sent s ++ subs |>
    <| g_lay := g_lay s ++ [map (fun q => (s_id q, s_addr q - c_addr c, s_size q)) subs] |>.

Definition parse_from_cp (s : dma) : dma * bool :=
  if Nat.leb (maxreq s) (length (processing s)) then (s, false) else
  match cp_in s with
  | [] => (s, false)
  | c :: rest =>
    match c_kind c with
    | COther => (s <| crashed := true |>, false)
    | _ =>
      match split_lines (lg s) (c_addr c) (len (c_data c)) with
      | Ok l =>
        if k_count (accept_coll s c l) =? 0
        then (finish (accept_state s c rest l) (accept_coll s c l), true)
        else (accept_state s c rest l, true)
      | _ => (s <| crashed := true |>, false)
      end
    end
  end.

(** The part common to processDataReadyRsp and processDoneRsp: the request
    leaves pendingReqs and every collection that lists it counts down. *)
Definition answer_core (s : dma) (id : N) : dma :=
  s <| pending := drop_pending id (pending s) |>
    <| processing := map (dec_coll id) (processing s) |>
    <| g_ans := g_ans s ++ [id] |>.

Definition parse_from_mem (s : dma) : dma * bool :=
  match mem_in s with
  | [] => (s, false)
  | r :: rest =>
    let s := s <| mem_in := rest |> in
    match r_kind r with
    | ROther => crash s
    | RData =>
      match find_pending (r_to r) (pending s) with
      | None => crash s
      | Some q =>
        if s_write q then crash s else      (* type assertion to mem.ReadReq *)
        let s1 := answer_core s (s_id q) in
        match last_match (s_id q) (processing s1) with
        | None => crash s1
        | Some rc =>
          match c_kind (k_sup rc) with
          | CD2H =>
            let off := s_addr q - c_addr (k_sup rc) in
            if len (c_data (k_sup rc)) <? off then crash s1 else
            let c' := set_data (k_sup rc) (copy_at (c_data (k_sup rc)) off (r_data r)) in
            let s2 := s1 <| processing := upd_last (s_id q) (fun x => set_sup x c') (processing s1) |> in
            if k_count rc =? 0 then (finish s2 (set_sup rc c'), true) else (s2, true)
          | _ => crash s1                     (* type assertion to MemCopyD2HReq *)
          end
        end
      end
    | RDone =>
      match find_pending (r_to r) (pending s) with
      | None => crash s
      | Some q =>
        let s1 := answer_core s (s_id q) in
        match last_match (s_id q) (processing s1) with
        | None => crash s1
        | Some rc =>
          if k_count rc =? 0 then
            match c_kind (k_sup rc) with
            | CH2D => (finish s1 rc, true)
            | _ => crash s1                   (* type assertion to MemCopyH2DReq *)
            end
          else (s1, true)
        end
      end
    end
  end.

Definition send_cp (s : dma) : dma * bool :=
  match to_cp s with
  | [] => (s, false)
  | c :: r => if room CP_CAP (cp_out s)
              then (s <| cp_out := cp_out s ++ [c] |> <| to_cp := r |>, true) else (s, false)
  end.

Definition send_mem (s : dma) : dma * bool :=
  match to_mem s with
  | [] => (s, false)
  | q :: r => if room MEM_CAP (mem_out s)
              then (s <| mem_out := mem_out s ++ [q] |> <| to_mem := r |>, true) else (s, false)
  end.

Definition andthen (f g : dma -> dma * bool) (s : dma) : dma * bool :=
  let '(s1, p1) := f s in
  if crashed s1 then (s1, p1) else
  let '(s2, p2) := g s1 in (s2, p1 || p2).

Definition tick : dma -> dma * bool :=
  andthen send_cp (andthen send_mem (andthen parse_from_mem parse_from_cp)).

Inductive ev := EDeliverCP (c : copy) | EDeliverMem (r : rsp) | ETick | ERetrCP | ERetrMem.

Inductive obs :=
| OAcc (b : bool) | OTick (progress : bool) | ODone (c : option copy) | OSub (q : option sub) | OCrash.

Definition step (s : dma) (e : ev) : dma * obs :=
  if crashed s then (s, OCrash) else
  match e with
  | EDeliverCP c =>
    if room CP_CAP (cp_in s)
    then (s <| cp_in := cp_in s ++ [c] |> <| g_deliv := g_deliv s ++ [c] |>, OAcc true)
    else (s, OAcc false)
  | EDeliverMem r =>
    if room MEM_CAP (mem_in s)
    then (s <| mem_in := mem_in s ++ [r] |>, OAcc true) else (s, OAcc false)
  | ETick => let '(s', p) := tick s in
             if crashed s' then (s', OCrash) else (s', OTick p)
  | ERetrCP =>
    match cp_out s with
    | [] => (s, ODone None)
    | c :: r => (s <| cp_out := r |> <| g_retr := g_retr s ++ [c] |>, ODone (Some c))
    end
  | ERetrMem =>
    match mem_out s with
    | [] => (s, OSub None)
    | q :: r => (s <| mem_out := r |>, OSub (Some q))
    end
  end.

Definition run (s : dma) (evs : list ev) : dma :=
  fold_left (fun s e => fst (step s e)) evs s.

Fixpoint run_obs (s : dma) (evs : list ev) : list obs :=
  match evs with
  | [] => []
  | e :: r => let '(s', o) := step s e in o :: run_obs s' r
  end.

(** Correspondence with a recorded history of the implementation. *)
Definition ckind_eqb (a b : ckind) : bool :=
  match a, b with CH2D, CH2D | CD2H, CD2H | COther, COther => true | _, _ => false end.
Fixpoint nl_eqb (a b : list N) : bool :=
  match a, b with
  | [], [] => true
  | x :: a', y :: b' => (x =? y) && nl_eqb a' b'
  | _, _ => false
  end.
Definition copy_eqb (a b : copy) : bool :=
  (c_id a =? c_id b) && ckind_eqb (c_kind a) (c_kind b) && (c_src a =? c_src b) &&
  (c_addr a =? c_addr b) && nl_eqb (c_data a) (c_data b).
Definition sub_eqb (a b : sub) : bool :=
  (s_id a =? s_id b) && Bool.eqb (s_write a) (s_write b) && (s_addr a =? s_addr b) &&
  (s_size a =? s_size b) && nl_eqb (s_data a) (s_data b).

Definition obs_eqb (a b : obs) : bool :=
  match a, b with
  | OAcc x, OAcc y => Bool.eqb x y
  | OTick x, OTick y => Bool.eqb x y
  | ODone None, ODone None => true
  | ODone (Some x), ODone (Some y) => copy_eqb x y
  | OSub None, OSub None => true
  | OSub (Some x), OSub (Some y) => sub_eqb x y
  | OCrash, OCrash => true
  | _, _ => false
  end.

Record case := mkCase { cs_lg : N; cs_max : nat; cs_trace : list (ev * obs) }.

Fixpoint first_diff (i : nat) (l1 l2 : list obs) : option nat :=
  match l1, l2 with
  | [], [] => None
  | a :: l1', b :: l2' => if obs_eqb a b then first_diff (S i) l1' l2' else Some i
  | _, _ => Some i
  end.

Definition check_case (c : case) : option nat :=
  first_diff 0 (run_obs (init (cs_lg c) (cs_max c)) (map fst (cs_trace c))) (map snd (cs_trace c)).

Fixpoint mismatches_from (i : nat) (cs : list case) : list (nat * nat) :=
  match cs with
  | [] => []
  | c :: r => match check_case c with
              | None => mismatches_from (S i) r
              | Some k => (i, k) :: mismatches_from (S i) r
              end
  end.
Definition mismatches := mismatches_from 0.
