(** Progress of the command processor under a fair completion schedule
    (round-robin and greedy placement): a ranking function over the work-groups
    not yet completed, the launches not yet answered, the countdowns and the
    work-groups not yet mapped never increases in a tick and strictly decreases
    in every tick of a round whose ports were drained and whose completions
    were delivered; hence every launch gets its LaunchKernelRsp. *)
From Coq Require Import List NArith Bool Arith Lia ZifyN ZifyNat ZifyBool Permutation.
From VCp Require Import Resource ResourceProofs Dispatcher DispatcherSteps DispatcherProofs DispatcherSafety.
From RecordUpdate Require Import RecordSet.
Import ListNotations RecordSetNotations.
Open Scope nat_scope.

(** * The ranking function *)

Definition Kov (c : cpcfg) : nat :=
  Nat.max (N.to_nat (c_launch_ov c)) (Nat.max (N.to_nat (c_sub_ov c)) (N.to_nat (c_kernel_ov c))).

Definition wgs_of (d : disp) : nat :=
  match dispatching d with Some l => length (lr_wgs l) | None => 0 end.

Definition busy (d : disp) : nat := match dispatching d with Some _ => 1 | None => 0 end.

(** contribution of one dispatcher: work-groups of its launch not yet
    completed, the pending response, its countdown, work-groups not yet sent *)
Definition lm (c : cpcfg) (d : disp) : nat :=
  (Kov c + 1) * ((wgs_of d - N.to_nat (n_comp d)) + busy d) + N.to_nat (cycle_left d) +
  (wgs_of d - N.to_nat (n_disp d)).

(** contribution of a launch still waiting in the driver-facing port *)
Definition qm (c : cpcfg) (l : launch) : nat :=
  (Kov c + 1) * (length (lr_wgs l) + 2) + length (lr_wgs l).

Definition sum (l : list nat) : nat := fold_right Nat.add 0 l.

Definition mu (s : cp) : nat :=
  sum (map (lm (cfg s)) (disps s)) + sum (map (qm (cfg s)) (drv_in s)).

Lemma sum_app : forall a b, sum (a ++ b) = sum a + sum b.
Proof. induction a; simpl; intros; auto. rewrite IHa. lia. Qed.

(** ** one step of one dispatcher never increases its contribution *)

Lemma DInv_counts : forall alg d l, DInv alg d -> dispatching d = Some l ->
  (n_comp d <= n_disp d)%N /\
  N.to_nat (n_disp d) + length (opt_list (g_cur d)) + length (alg_pending alg d) = length (lr_wgs l).
Proof.
  intros alg d l [_ [_ [Hcnt Hd]]] El. rewrite El in Hd. destruct Hd as [Hg [Hnd [_ _]]].
  split; [lia|]. apply gridrel_perm, Permutation_length in Hg.
  unfold grid_of in Hg. rewrite enum_from_length in Hg. unfold placed in Hg.
  rewrite !app_length, !map_length in Hg. lia.
Qed.

(** every step: the contribution does not grow; it shrinks whenever a
    work-group is sent or completed, the response is sent, or the countdown runs *)
Lemma dstep_lm : forall c x y, dstep c x y -> DInv (c_alg c) (snd x) ->
  lm c (snd y) <= lm c (snd x) /\
  (n_comp (snd x) <= n_comp (snd y))%N /\ (n_disp (snd x) <= n_disp (snd y))%N /\
  ((n_comp (snd y) <> n_comp (snd x) \/ n_disp (snd y) <> n_disp (snd x) \/
    dispatching (snd y) <> dispatching (snd x)) -> lm c (snd y) < lm c (snd x)).
Proof.
  intros c x y H HD. destruct H; simpl in *.
  - destruct (core_fields _ _ H) as [E1 [_ [E3 [E4 [E5 _]]]]].
    unfold lm, wgs_of, busy. rewrite E1, E3, E4, E5. repeat split; try lia; try (intros [?|[?|?]]; congruence).
  - repeat split; try lia; try (intros [?|[?|?]]; congruence).
  - destruct (core_fields _ _ H4) as [E1 [_ [E3 [E4 [E5 _]]]]]. simpl in *.
    unfold lm, wgs_of, busy. rewrite E1, E3, E4, E5. repeat split; try lia; try (intros [?|[?|?]]; congruence).
  - assert (Hlt : lm c (send_d s d w pl) < lm c d).
    { unfold lm, wgs_of, busy, send_d. simpl.
      destruct (dispatching d) as [l|] eqn:El.
      - destruct (DInv_counts _ _ _ HD El) as [_ Hlen]. rewrite H0 in Hlen. simpl in Hlen. lia.
      - destruct HD as [_ [_ [_ Hd]]]. rewrite El in Hd. destruct Hd as [Hw _]. congruence. }
    unfold send_d in *. simpl in *. repeat split; try lia.
  - assert (Hlt : lm c (complete_d c d id) < lm c d).
    { unfold lm, wgs_of, busy, complete_d. simpl.
      destruct (dispatching d) as [l|] eqn:El.
      - destruct (DInv_counts _ _ _ HD El) as [Hle Hlen].
        destruct HD as [_ [_ [Hcnt _]]].
        pose proof (lookup_id_in _ _ _ H1) as Hin. assert (0 < length (inflight d)).
        { destruct (inflight d); [inversion Hin|simpl; lia]. }
        assert (Hk : N.to_nat (c_kernel_ov c) <= Kov c) by (unfold Kov; lia).
        destruct (_ =? _)%N; simpl; rewrite El; nia.
      - destruct HD as [_ [_ [_ Hd]]]. rewrite El in Hd. destruct Hd as [_ [Hi _]]. rewrite Hi in H1. discriminate. }
    assert (En : n_comp (complete_d c d id) = (n_comp d + 1)%N /\ n_disp (complete_d c d id) = n_disp d).
    { unfold complete_d. destruct (_ =? _)%N; simpl; auto. }
    destruct En as [En1 En2]. rewrite En1, En2. repeat split; try lia.
  - assert (Hlt : lm c (d <| prev_count := n_disp d |> <| dispatching := None |> <| g_sent := [] |>) < lm c d).
    { unfold lm, wgs_of, busy. simpl. rewrite H.
      destruct (kernel_completed_facts _ _ _ HD H H0) as [_ [Hnd [Hnc _]]]. nia. }
    repeat split; try lia.
  - unfold lm, wgs_of, busy. simpl. repeat split; try lia; try (intros [?|[?|?]]; congruence).
Qed.

Lemma launch_eq_dec : forall a b : launch, {a = b} + {a <> b}.
Proof.
  decide equality.
  - apply list_eq_dec. decide equality; try apply N.eq_dec; apply Nat.eq_dec.
  - apply N.eq_dec.
Qed.

Lemma opt_launch_eq_dec : forall a b : option launch, {a = b} + {a <> b}.
Proof. decide equality. apply launch_eq_dec. Qed.

Lemma dsteps_DInv : forall c x y, dsteps c x y -> DInv (c_alg c) (snd x) -> DInv (c_alg c) (snd y).
Proof. induction 1; auto. intros. apply IHdsteps. eapply dstep_DInv; eauto. Qed.

Lemma dsteps_lm : forall c x y, dsteps c x y -> DInv (c_alg c) (snd x) ->
  lm c (snd y) <= lm c (snd x) /\
  (n_comp (snd x) <= n_comp (snd y))%N /\ (n_disp (snd x) <= n_disp (snd y))%N /\
  ((n_comp (snd y) <> n_comp (snd x) \/ n_disp (snd y) <> n_disp (snd x) \/
    dispatching (snd y) <> dispatching (snd x)) -> lm c (snd y) < lm c (snd x)).
Proof.
  induction 1; intros HD.
  - repeat split; try lia; try (intros [?|[?|?]]; congruence).
  - destruct (dstep_lm _ _ _ H HD) as [H1 [H2 [H3 H4]]].
    destruct (IHdsteps (dstep_DInv _ _ _ H HD)) as [J1 [J2 [J3 J4]]].
    repeat split; try lia. intros Hch.
    destruct (N.eq_dec (n_comp (snd y)) (n_comp (snd x))) as [E1|N1]; [|specialize (H4 (or_introl N1)); lia].
    destruct (N.eq_dec (n_disp (snd y)) (n_disp (snd x))) as [E2|N2]; [|specialize (H4 (or_intror (or_introl N2))); lia].
    destruct (opt_launch_eq_dec (dispatching (snd y)) (dispatching (snd x))) as [E3|N3];
      [|specialize (H4 (or_intror (or_intror N3))); lia].
    assert (lm c (snd z) < lm c (snd y)); [|lia]. apply J4.
    destruct Hch as [?|[?|?]]; [left|right; left|right; right]; congruence.
Qed.

(** * When a tick does nothing for a dispatcher *)

(** pools that differ only by refused reservations *)
Definition Rpool (p p' : list cu) : Prop :=
  length p' = length p /\ forall j, resident (nth j p' dummy_cu) = resident (nth j p dummy_cu).

Lemma Rpool_refl : forall p, Rpool p p. Proof. split; auto. Qed.
Lemma Rpool_trans : forall a b c0, Rpool a b -> Rpool b c0 -> Rpool a c0.
Proof. intros a b c0 [H1 H2] [H3 H4]. split; [congruence|]. intros j. rewrite H4, H2. reflexivity. Qed.

(** every CU of the pool has refused the work-group *)
Definition refused_all (cfgs : list cucfg) (p : list cu) (k : wgkey) (dm : demand) : Prop :=
  forall j c0, nth_error cfgs j = Some c0 ->
    exists cj c', Inv c0 cj /\ resident cj = resident (nth j p dummy_cu) /\ reserve cj k dm = Ret c' None.

Lemma mod_shift_surj : forall n start j, j < n -> exists i, i < n /\ (start + i) mod n = j.
Proof.
  intros n start j Hj. assert (Hn : n <> 0) by lia.
  pose proof (Nat.mod_upper_bound start n Hn) as Hs.
  destruct (Nat.le_gt_cases (start mod n) j) as [Hle|Hgt].
  - exists (j - start mod n). split; [lia|].
    rewrite Nat.add_mod by auto. rewrite (Nat.mod_small (j - start mod n)) by lia.
    replace (start mod n + (j - start mod n)) with j by lia. apply Nat.mod_small. auto.
  - exists (n - start mod n + j). split; [lia|].
    rewrite Nat.add_mod by auto. rewrite (Nat.mod_small (n - start mod n + j)) by lia.
    replace (start mod n + (n - start mod n + j)) with (j + 1 * n) by lia.
    rewrite Nat.mod_add by auto. apply Nat.mod_small. auto.
Qed.

Lemma nth_set_nth : forall A i j (x d : A) l, nth j (set_nth i x l) d = if Nat.eqb i j then (if j <? length l then x else d) else nth j l d.
Proof.
  intros A i j x d l. destruct (Nat.eqb i j) eqn:E.
  - apply Nat.eqb_eq in E. subst j. destruct (i <? length l) eqn:El.
    + apply Nat.ltb_lt in El. apply nth_nth_error. rewrite set_nth_same.
      destruct (nth_error l i) eqn:En; [reflexivity|]. apply nth_error_None in En. lia.
    + apply Nat.ltb_ge in El. apply nth_overflow. rewrite set_nth_length. auto.
  - apply Nat.eqb_neq in E.
    destruct (nth_error l j) eqn:En.
    + rewrite (nth_nth_error _ _ _ d _ En). apply nth_nth_error. rewrite set_nth_other; auto.
    + apply nth_error_None in En. rewrite !nth_overflow; auto. rewrite set_nth_length. auto.
Qed.

Lemma rr_scan_refused : forall cfgs fuel i p start k dm p',
  rr_scan fuel i p start k dm = Some (p', None) -> PoolInv cfgs p -> dem_ok dm -> 0 < length p ->
  PoolInv cfgs p' /\ Rpool p p' /\
  forall i', i <= i' < i + fuel ->
    forall c0, nth_error cfgs ((start + i') mod length p) = Some c0 ->
    exists cj c', Inv c0 cj /\ resident cj = resident (nth ((start + i') mod length p) p dummy_cu) /\
                  reserve cj k dm = Ret c' None.
Proof.
  induction fuel; intros i p start k dm p' H HP Hd Hlen; simpl in H.
  - inversion H; subst. split; auto. split; [apply Rpool_refl|]. intros; lia.
  - set (j := (start + i) mod length p) in *.
    assert (Hj : j < length p) by (apply Nat.mod_upper_bound; lia).
    destruct (pool_nth _ _ _ HP Hj) as [c0 [Hc0 HI0]].
    destruct (reserve (nth j p dummy_cu) k dm) as [|c' [locs|]] eqn:E; try discriminate.
    pose proof (reserve_inv _ _ _ _ _ _ HI0 Hd E) as HI1.
    pose proof (reserve_resident _ _ _ _ _ E) as Hres. simpl in Hres.
    assert (HP1 : PoolInv cfgs (set_nth j c' p)) by (eapply pool_set_nth; eauto).
    assert (Hl1 : 0 < length (set_nth j c' p)) by (rewrite set_nth_length; auto).
    destruct (IHfuel (S i) _ start k dm p' H HP1 Hd Hl1) as [HP' [[HRl HRr] Hall]].
    rewrite set_nth_length in *.
    assert (HR1 : Rpool p (set_nth j c' p)).
    { split; [apply set_nth_length|]. intros j0. rewrite nth_set_nth.
      destruct (Nat.eqb j j0) eqn:Ej; auto. apply Nat.eqb_eq in Ej. subst j0.
      replace (j <? length p) with true by (symmetry; apply Nat.ltb_lt; auto). exact Hres. }
    assert (HR2 : Rpool (set_nth j c' p) p') by (split; [rewrite set_nth_length; exact HRl|exact HRr]).
    split; [exact HP'|]. split; [eapply Rpool_trans; [exact HR1|exact HR2]|].
    intros i' Hi' c1 Hc1. destruct (Nat.eq_dec i' i) as [->|Hne].
    + fold j in Hc1. rewrite Hc0 in Hc1. inversion Hc1; subst c1. fold j.
      exists (nth j p dummy_cu), c'. auto.
    + destruct (Hall i' ltac:(lia) c1 Hc1) as [cj [c2 [H1 [H2 H3]]]].
      exists cj, c2. split; auto. split; auto. rewrite H2. apply (proj2 HR1).
Qed.

Lemma rr_scan_refused_all : forall cfgs p start k dm p',
  rr_scan (length p) 0 p start k dm = Some (p', None) -> PoolInv cfgs p -> dem_ok dm ->
  PoolInv cfgs p' /\ Rpool p p' /\ refused_all cfgs p k dm.
Proof.
  intros cfgs p start k dm p' H HP Hd. destruct p as [|c1 p].
  - simpl in H. inversion H; subst. split; auto. split; [apply Rpool_refl|].
    intros j c0 Hc0. inversion HP; subst. destruct j; discriminate.
  - destruct (rr_scan_refused cfgs _ _ _ _ _ _ _ H HP Hd ltac:(simpl; lia)) as [HP' [HR Hall]].
    split; auto. split; auto. intros j c0 Hc0.
    assert (Hj : j < length (c1 :: p)).
    { unfold PoolInv in HP. rewrite <- (Forall2_len _ _ _ _ _ HP). apply nth_error_Some. congruence. }
    destruct (mod_shift_surj _ start j Hj) as [i [Hi Hm]].
    specialize (Hall i ltac:(lia)). rewrite Hm in Hall. apply Hall. exact Hc0.
Qed.

(** ** code-level facts about the progress flags (round-robin and greedy) *)

Lemma rr_next_live : forall cfgs alg p d p' d' r,
  is_partition alg = false -> rr_next alg p d = Some (p', d', r) ->
  PoolInv cfgs p -> (forall x, In x (alg_pending alg d) -> dem_ok (snd x)) ->
  core d' = core (d <| a_ndisp := match r with Some _ => (a_ndisp d + 1)%N | None => a_ndisp d end |>) /\
  (r = None -> PoolInv cfgs p' /\ Rpool p p' /\
               exists k dm, In (k, dm) (alg_pending alg d) /\ refused_all cfgs p k dm).
Proof.
  intros cfgs alg p d p' d' r Halg H HP Hok. unfold rr_next in H.
  assert (Hpend : forall x, alg_pending alg x = opt_list (a_cur x) ++ enum_from (a_lid x) (a_idx x) (a_rest x)).
  { intros x. unfold alg_pending. destruct alg; try discriminate; reflexivity. }
  assert (Hf : exists d1, (match a_cur d with
                    | Some _ => Some d
                    | None => match a_rest d with
                              | [] => None
                              | dm :: r => Some (d <| a_cur := Some ((a_lid d, a_idx d), dm) |> <| a_rest := r |>
                                                   <| a_idx := (a_idx d + 1)%N |>)
                              end
                    end) = Some d1 /\ core d1 = core d /\ alg_pending alg d1 = alg_pending alg d).
  { destruct (a_cur d) eqn:Ea; [eauto|]. destruct (a_rest d) eqn:Er; [discriminate|].
    eexists. split; [reflexivity|]. split; [reflexivity|]. rewrite !Hpend. simpl. rewrite Ea, Er. reflexivity. }
  destruct Hf as [d1 [Ed1 [Hc1 Hp1]]]. rewrite Ed1 in H.
  destruct (a_cur d1) as [[k dm]|] eqn:Ea1; [|discriminate].
  assert (Hin : In (k, dm) (alg_pending alg d)) by (rewrite <- Hp1, Hpend, Ea1; left; reflexivity).
  destruct (rr_scan _ _ _ _ _ _) as [[p1 [pl|]]|] eqn:Es; [| |discriminate].
  - inversion H; subst. split; [|discriminate].
    destruct (core_fields _ _ Hc1) as [E1 [E2 [E3 [E4 [E5 [E6 [E7 [E8 [E9 [E10 [E11 [E12 E13]]]]]]]]]]]].
    unfold core. simpl. rewrite E1, E2, E3, E4, E5, E6, E7, E8, E9, E10, E11, E12, E13. reflexivity.
  - inversion H; subst. split.
    + destruct (core_fields _ _ Hc1) as [E1 [E2 [E3 [E4 [E5 [E6 [E7 [E8 [E9 [E10 [E11 [E12 E13]]]]]]]]]]]].
      unfold core. simpl. rewrite E1, E2, E3, E4, E5, E6, E7, E8, E9, E10, E11, E12, E13. reflexivity.
    + intros _. destruct (rr_scan_refused_all cfgs _ _ _ _ _ Es HP (Hok _ Hin)) as [HP' [HR Hall]].
      split; auto. split; auto. exists k, dm. auto.
Qed.

Lemma complete_ids_counts : forall c ids s d s' d',
  complete_ids c ids s d = (s', d') -> crashed s' = false ->
  n_comp d' = (n_comp d + N.of_nat (length ids))%N /\ n_disp d' = n_disp d /\
  dispatching d' = dispatching d /\ cu_in s' = cu_in s /\ cu_out s' = cu_out s /\ drv_out s' = drv_out s.
Proof.
  induction ids as [|id r IH]; intros s d s' d' H Hc; simpl in H.
  - inversion H; subst. repeat split; auto. simpl. lia.
  - destruct (crashed s) eqn:Ecs; [inversion H; subst; congruence|].
    destruct (lookup_id id (inflight d)); [|inversion H; subst; simpl in Hc; discriminate].
    destruct (free _ _); [|inversion H; subst; simpl in Hc; discriminate].
    apply IH in H; auto. destruct H as [H1 [H2 [H3 [H4 [H5 H6]]]]]. simpl in *.
    destruct (_ =? _)%N; simpl in *; repeat split; auto; lia.
Qed.

Lemma process_msgs_flag : forall fuel c s d s' d' pr,
  process_msgs fuel c s d = (s', d', pr) -> crashed s' = false ->
  n_disp d' = n_disp d /\ dispatching d' = dispatching d /\ cu_out s' = cu_out s /\ drv_out s' = drv_out s /\
  (n_comp d <= n_comp d')%N /\ (pr = true -> (n_comp d < n_comp d')%N) /\
  (pr = false -> s' = s /\ d' = d /\
     (cu_in s = [] \/ exists m rest, cu_in s = m :: rest /\ filter (known d) m = [] \/ fuel = 0)).
Proof.
  induction fuel; intros c s d s' d' pr H Hc; simpl in H.
  - inversion H; subst. do 4 (split; [reflexivity|]). split; [lia|]. split; [discriminate|].
    intros _. split; [reflexivity|]. split; [reflexivity|].
    destruct (cu_in s') as [|m rest]; [left; auto|right; exists m, rest; right; auto].
  - destruct (cu_in s) as [|m rest] eqn:Ein.
    { inversion H; subst. do 4 (split; [reflexivity|]). split; [lia|]. split; [discriminate|].
      intros _. split; [reflexivity|]. split; [reflexivity|]. left. reflexivity. }
    destruct (filter (known d) m) as [|m0 mine] eqn:Em.
    { inversion H; subst. do 4 (split; [reflexivity|]). split; [lia|]. split; [discriminate|].
      intros _. split; [reflexivity|]. split; [reflexivity|]. right. exists m, rest. left. auto. }
    destruct (complete_ids c (m0 :: mine) s d) as [s1 d1] eqn:E1.
    destruct (crashed s1) eqn:Ec1; [inversion H; subst; congruence|].
    destruct (complete_ids_counts _ _ _ _ _ _ E1 Ec1) as [F1 [F2 [F3 [F4 [F5 F6]]]]]. simpl in F1.
    destruct (filter (fun id => negb (known d id)) m).
    + destruct (process_msgs fuel c _ d1) as [[s3 d3] p3] eqn:E3. inversion H; subst; clear H.
      destruct (IHfuel _ _ _ _ _ _ E3 Hc) as [G1 [G2 [G3 [G4 [G5 _]]]]]. simpl in *.
      split; [congruence|]. split; [congruence|]. split; [congruence|]. split; [congruence|].
      split; [lia|]. split; [intros _; lia|discriminate].
    + inversion H; subst; clear H. simpl.
      split; [congruence|]. split; [congruence|]. split; [congruence|]. split; [congruence|].
      split; [lia|]. split; [intros _; lia|discriminate].
Qed.

(** what a dispatcher observes when dispatchNextWG makes no progress *)
Definition NoPlace (cfgs : list cucfg) (c : cpcfg) (s : shared) (d : disp) (s' : shared) (d' : disp) : Prop :=
  cu_in s' = cu_in s /\ cu_out s' = cu_out s /\ drv_out s' = drv_out s /\
  Rpool (pool s) (pool s') /\ PoolInv cfgs (pool s') /\ core d' = core d /\
  cur_wg d = None /\
  (has_next d = true -> exists k dm, In (k, dm) (alg_pending (c_alg c) d) /\ refused_all cfgs (pool s) k dm).

Lemma dispatch_next_flag : forall cfgs c s d s' d' pr,
  is_partition (c_alg c) = false ->
  dispatch_next c s d = (s', d', pr) -> crashed s = false -> crashed s' = false ->
  PoolInv cfgs (pool s) -> (forall x, In x (alg_pending (c_alg c) d) -> dem_ok (snd x)) ->
  DInv (c_alg c) d -> length (cu_out s) < c_cap c ->
  n_comp d' = n_comp d /\ dispatching d' = dispatching d /\
  (pr = true -> n_disp d' = (n_disp d + 1)%N) /\
  (pr = false -> n_disp d' = n_disp d /\ NoPlace cfgs c s d s' d').
Proof.
  intros cfgs c s d s' d' pr Halg H Hc Hc' HP Hok HD Hroom. unfold dispatch_next in H.
  destruct HD as [Hcur _]. unfold cur_ok in Hcur.
  destruct (cur_wg d) as [w|] eqn:Ew.
  - (* a work-group is waiting to be sent: there is room *)
    destruct (g_cur d) as [pl|] eqn:Eg; [|tauto].
    cbv beta iota in H. rewrite Hc, Ew in H.
    replace (length (cu_out s) <? c_cap c) with true in H by (symmetry; apply Nat.ltb_lt; auto).
    destruct (16 <? length (dl_locs w)); inversion H; subst; simpl in *; try discriminate.
    repeat split; auto; discriminate.
  - destruct (g_cur d) eqn:Eg; [tauto|].
    destruct (negb (has_next d)) eqn:Ehn.
    + inversion H; subst. apply negb_true_iff in Ehn.
      split; auto. split; auto. split; [discriminate|]. intros _. split; auto.
      unfold NoPlace. split; auto. split; auto. split; auto. split; [apply Rpool_refl|].
      split; auto. split; auto. split; auto. intros Hn. congruence.
    + apply negb_false_iff in Ehn. unfold alg_next in H.
      assert (Hrr : forall (X : option (list cu * disp * option placement) -> option (shared * disp)),
                 X (match c_alg c with Partition => part_next (pool s) d | _ => rr_next (c_alg c) (pool s) d end) =
                 X (rr_next (c_alg c) (pool s) d)).
      { intros X. destruct (c_alg c); try discriminate; reflexivity. }
      destruct (c_alg c) eqn:Ealg; try discriminate.
      * destruct (rr_next RoundRobin (pool s) d) as [[[p' d1] r]|] eqn:Er.
        2: { simpl in H. inversion H; subst. simpl in Hc'. discriminate. }
        pose proof (rr_next_live cfgs RoundRobin _ _ _ _ _ eq_refl Er HP) as Hl.
        destruct (Hl Hok) as [Hcore Hnone].
        destruct (core_fields _ _ Hcore) as [E1 [E2 [E3 [E4 [E5 [E6 [E7 [E8 [E9 [E10 [E11 [E12 E13]]]]]]]]]]]].
        simpl in *. destruct r as [pl|].
        -- simpl in H. rewrite Hc in H.
           replace (length (cu_out s) <? c_cap c) with true in H by (symmetry; apply Nat.ltb_lt; auto).
           destruct (16 <? length (pl_locs pl)); inversion H; subst; simpl in *; try discriminate.
           repeat split; auto; try congruence; discriminate.
        -- simpl in H. rewrite Hc in H. rewrite E2, Ew in H. inversion H; subst.
           destruct (Hnone eq_refl) as [HP' [HR [k [dm [Hin Href]]]]].
           split; [congruence|]. split; [congruence|]. split; [discriminate|]. intros _. split; [congruence|].
           unfold NoPlace. simpl.
           split; [reflexivity|]. split; [reflexivity|]. split; [reflexivity|]. split; [exact HR|].
           split; [exact HP'|]. split.
           { unfold core. rewrite E1, E2, E3, E4, E5, E6, E7, E8, E9, E10, E11, E12, E13. reflexivity. }
           split; [exact Ew|]. intros _. exists k, dm. split; [rewrite Ealg; exact Hin|exact Href].
      * destruct (rr_next Greedy (pool s) d) as [[[p' d1] r]|] eqn:Er.
        2: { simpl in H. inversion H; subst. simpl in Hc'. discriminate. }
        pose proof (rr_next_live cfgs Greedy _ _ _ _ _ eq_refl Er HP) as Hl.
        destruct (Hl Hok) as [Hcore Hnone].
        destruct (core_fields _ _ Hcore) as [E1 [E2 [E3 [E4 [E5 [E6 [E7 [E8 [E9 [E10 [E11 [E12 E13]]]]]]]]]]]].
        simpl in *. destruct r as [pl|].
        -- simpl in H. rewrite Hc in H.
           replace (length (cu_out s) <? c_cap c) with true in H by (symmetry; apply Nat.ltb_lt; auto).
           destruct (16 <? length (pl_locs pl)); inversion H; subst; simpl in *; try discriminate.
           repeat split; auto; try congruence; discriminate.
        -- simpl in H. rewrite Hc in H. rewrite E2, Ew in H. inversion H; subst.
           destruct (Hnone eq_refl) as [HP' [HR [k [dm [Hin Href]]]]].
           split; [congruence|]. split; [congruence|]. split; [discriminate|]. intros _. split; [congruence|].
           unfold NoPlace. simpl.
           split; [reflexivity|]. split; [reflexivity|]. split; [reflexivity|]. split; [exact HR|].
           split; [exact HP'|]. split.
           { unfold core. rewrite E1, E2, E3, E4, E5, E6, E7, E8, E9, E10, E11, E12, E13. reflexivity. }
           split; [exact Ew|]. intros _. exists k, dm. split; [rewrite Ealg; exact Hin|exact Href].
Qed.

(** ** DispatcherImpl.Tick: progress, or a precise description of why not *)

(** nothing happened for this dispatcher in its tick *)
Definition NeutralD (cfgs : list cucfg) (c : cpcfg) (s : shared) (d : disp) (s' : shared) (d' : disp) : Prop :=
  cycle_left d = 0%N /\ cu_in s' = cu_in s /\ cu_out s' = cu_out s /\ drv_out s' = drv_out s /\
  Rpool (pool s) (pool s') /\ PoolInv cfgs (pool s') /\ core d' = core d /\
  (forall l, dispatching d = Some l ->
     cur_wg d = None /\ kernel_completed d = false /\
     (has_next d = true -> exists k dm, In (k, dm) (alg_pending (c_alg c) d) /\ refused_all cfgs (pool s) k dm)) /\
  (forall m rest, cu_in s = m :: rest -> filter (known d) m = []).

Lemma known_core : forall d d', core d' = core d -> forall id, known d' id = known d id.
Proof. intros d d' H id. destruct (core_fields _ _ H) as [_ [_ [_ [_ [_ [E _]]]]]]. unfold known. rewrite E. reflexivity. Qed.

Lemma disp_tick_live : forall cfgs c s d s' d' pr ncu,
  is_partition (c_alg c) = false ->
  disp_tick c s d = (s', d', pr) -> crashed s = false -> crashed s' = false ->
  DInv (c_alg c) d -> AInt (c_alg c) ncu d -> IdInv s d -> length (pool s) = ncu ->
  PoolInv cfgs (pool s) -> (forall x, In x (alg_pending (c_alg c) d) -> dem_ok (snd x)) ->
  length (cu_out s) < c_cap c -> length (drv_out s) < c_cap c ->
  lm c d' <= lm c d /\ (lm c d' < lm c d \/ NeutralD cfgs c s d s' d') /\
  DInv (c_alg c) d' /\ AInt (c_alg c) ncu d' /\ IdInv s' d' /\ length (pool s') = ncu /\
  (next_id s <= next_id s')%N.
Proof.
  intros cfgs c s d s' d' pr ncu Halg H Hc Hc' HD HA HId Hlen HP Hok Hroom Hroomd. subst ncu.
  (* the whole tick as steps: the contribution cannot grow *)
  destruct (disp_tick_ref c _ _ _ _ _ _ H Hc HA eq_refl HId) as [x [Hx Hr]].
  destruct Hr as [[_ [-> [HA' HId']]]|[Hcr _]]; [|congruence].
  destruct (dsteps_lm _ _ _ Hx HD) as [Hle [Hnc [Hnd Hstrict]]]. simpl in *.
  pose proof (dsteps_DInv _ _ _ Hx HD) as HD'. simpl in HD'.
  destruct (dsteps_frame c _ _ Hx) as [Hl' [_ Hnx']]. simpl in Hl', Hnx'.
  split; [exact Hle|].
  split; [|split; [exact HD'|split; [exact HA'|split; [exact HId'|split; [exact Hl'|exact Hnx']]]]].
  unfold disp_tick in H. rewrite Hc in H.
  destruct (0 <? cycle_left d)%N eqn:Ecl.
  { apply N.ltb_lt in Ecl. inversion H; subst. left. unfold lm, wgs_of, busy. simpl. lia. }
  apply N.ltb_ge in Ecl. assert (Ecl0 : cycle_left d = 0%N) by lia.
  destruct (match dispatching d with
            | Some l => if kernel_completed d then complete_kernel c s d l else dispatch_loop 8 c s d
            | None => (s, d, false)
            end) as [[s1 d1] p1] eqn:E1.
  destruct (crashed s1) eqn:Ec1; [inversion H; subst; congruence|].
  destruct (process_msgs 8 c s1 d1) as [[s2 d2] p2] eqn:E2. inversion H; subst s' d' pr; clear H.
  destruct (process_msgs_flag _ _ _ _ _ _ _ E2 Hc') as [G1 [G2 [G3 [G4 [G5 [G6 G7]]]]]].
  (* phase 1 *)
  assert (Hph1 : (dispatching d1 <> dispatching d \/ (n_disp d < n_disp d1)%N) \/
                 ((n_comp d <= n_comp d1)%N /\ cu_in s1 = cu_in s /\ cu_out s1 = cu_out s /\ drv_out s1 = drv_out s /\
                  Rpool (pool s) (pool s1) /\ PoolInv cfgs (pool s1) /\ core d1 = core d /\
                  (forall l, dispatching d = Some l ->
                     cur_wg d = None /\ kernel_completed d = false /\
                     (has_next d = true -> exists k dm, In (k, dm) (alg_pending (c_alg c) d) /\
                                                        refused_all cfgs (pool s) k dm)))).
  { destruct (dispatching d) as [l|] eqn:El.
    - destruct (kernel_completed d) eqn:Ek.
      + unfold complete_kernel in E1.
        replace (length (drv_out s) <? c_cap c) with true in E1 by (symmetry; apply Nat.ltb_lt; auto).
        inversion E1; subst. left. left. simpl. discriminate.
      + (* the dispatch loop: look at its first iteration *)
        change (dispatch_loop 8 c s d) with
          (let '(s1, d1, pr) := dispatch_next c s d in
           if negb pr || (0 <? cycle_left d1)%N || crashed s1 then (s1, d1, pr)
           else let '(s2, d2, pr2) := dispatch_loop 7 c s1 d1 in (s2, d2, true)) in E1.
        destruct (dispatch_next c s d) as [[sa da] pa] eqn:Ea.
        assert (Hca : crashed sa = false).
        { destruct (crashed sa) eqn:Eca; auto. rewrite orb_true_r in E1. inversion E1; subst. congruence. }
        rewrite Hca, orb_false_r in E1.
        destruct (dispatch_next_flag cfgs _ _ _ _ _ _ Halg Ea Hc Hca HP Hok HD Hroom) as [F1 [F2 [F3 F4]]].
        destruct pa.
        * (* a work-group was sent *)
          left. right. specialize (F3 eq_refl).
          assert (Hdn : dispatching d <> None) by congruence.
          destruct (dispatch_next_ref c _ _ _ _ _ _ Ea Hc HA eq_refl Hdn) as [xa [Hxa Hra]].
          destruct Hra as [[_ [-> [HAa Hda]]]|[Hcra _]]; [|congruence].
          pose proof (dsteps_DInv _ _ _ Hxa HD) as HDa. simpl in HDa.
          destruct (dsteps_frame c _ _ Hxa) as [Hla _]. simpl in Hla.
          cbn [negb orb] in E1.
          destruct ((0 <? cycle_left da)%N) eqn:Ecla.
          -- inversion E1; subst. lia.
          -- destruct (dispatch_loop 7 c sa da) as [[sb db] pb] eqn:Eb. inversion E1; subst.
             assert (Hdna : dispatching da <> None) by congruence.
             destruct (dispatch_loop_ref c _ _ _ _ _ _ _ Eb Hca HAa Hla Hdna) as [xb [Hxb Hrb]].
             destruct Hrb as [[_ [-> _]]|[Hcrb _]]; [|congruence].
             destruct (dsteps_lm _ _ _ Hxb HDa) as [_ [_ [Hndb _]]]. simpl in Hndb. lia.
        * (* no progress: the loop stops *)
          cbn [negb orb] in E1. inversion E1; subst. right.
          destruct (F4 eq_refl) as [F5 [N1 [N2 [N3 [N4 [N5 [N6 [N7 N8]]]]]]]].
          split; [lia|]. split; [exact N1|]. split; [exact N2|]. split; [exact N3|]. split; [exact N4|].
          split; [exact N5|]. split; [exact N6|].
          intros l0 El0. split; [exact N7|]. split; [reflexivity|exact N8].
    - inversion E1; subst. right. split; [lia|]. split; auto. split; auto. split; auto.
      split; [apply Rpool_refl|]. split; auto. split; auto. intros l0 El0. discriminate. }
  destruct Hph1 as [[Hdisp|Hsent]|[Hn1 [N1 [N2 [N3 [N4 [N5 [N6 N7]]]]]]]].
  - left. apply Hstrict. right. right. congruence.
  - left. apply Hstrict. right. left. lia.
  - destruct p2.
    + left. apply Hstrict. left. specialize (G6 eq_refl). lia.
    + right. destruct (G7 eq_refl) as [-> [-> Hhead]].
      unfold NeutralD. split; auto. split; auto. split; auto. split; auto. split; auto. split; auto.
      split; auto. split; auto.
      intros m rest Em. rewrite <- N1 in Em. destruct Hhead as [Hh|[m' [rest' [[Hh1 Hh2]|Hh]]]].
      * congruence.
      * rewrite Em in Hh1. inversion Hh1; subst. rewrite <- Hh2. apply filter_ext. intros id.
        symmetry. apply known_core. exact N6.
      * discriminate.
Qed.

(** ** all dispatchers *)

Lemma gsteps_sum_lm : forall c x y, gsteps c x y -> Forall (DInv (c_alg c)) (snd x) ->
  sum (map (lm c) (snd y)) <= sum (map (lm c) (snd x)) /\ Forall (DInv (c_alg c)) (snd y).
Proof.
  induction 1; intros HD; [split; auto|].
  destruct H. simpl in *.
  apply Forall_app in HD. destruct HD as [HD1 HD2]. inversion HD2 as [|? ? HDd HD3]; subst.
  destruct (dstep_lm _ _ _ H HDd) as [Hle _]. pose proof (dstep_DInv _ _ _ H HDd) as HDd'. simpl in *.
  assert (HD' : Forall (DInv (c_alg c)) (ds1 ++ d' :: ds2)) by (apply Forall_app; split; auto).
  destruct (IHgsteps HD') as [J1 J2]. split; auto.
  rewrite !map_app, !sum_app in *. simpl in *. lia.
Qed.

Lemma tick_disps_mono : forall c ncu ds s s' ds' pr,
  tick_disps c s ds = (s', ds', pr) -> crashed s = false -> crashed s' = false ->
  length (pool s) = ncu -> Forall (DInt c ncu s) ds -> Forall (DInv (c_alg c)) ds ->
  sum (map (lm c) ds') <= sum (map (lm c) ds).
Proof.
  intros c ncu ds s s' ds' pr H Hc Hc' Hlen HI HD.
  destruct (tick_disps_ref c ncu ds [] _ _ _ _ H Hc Hlen HI) as [x [Hx Hr]]. simpl in *.
  destruct Hr as [[_ [-> _]]|[Hcr _]]; [|congruence].
  destruct (gsteps_sum_lm _ _ _ Hx HD) as [Hle _]. exact Hle.
Qed.

Lemma refused_all_Rpool : forall cfgs p p' k dm, Rpool p p' -> refused_all cfgs p' k dm -> refused_all cfgs p k dm.
Proof.
  intros cfgs p p' k dm [_ HR] H j c0 Hc0. destruct (H j c0 Hc0) as [cj [c' [H1 [H2 H3]]]].
  exists cj, c'. split; auto. split; auto. rewrite H2. apply HR.
Qed.

(** what is known when no dispatcher did anything in a tick *)
Definition NeutralAll (cfgs : list cucfg) (c : cpcfg) (s : shared) (ds : list disp) (s' : shared) (ds' : list disp) : Prop :=
  cu_in s' = cu_in s /\ cu_out s' = cu_out s /\ drv_out s' = drv_out s /\
  Rpool (pool s) (pool s') /\ PoolInv cfgs (pool s') /\
  Forall2 (fun d d' => core d' = core d) ds ds' /\
  Forall (fun d => cycle_left d = 0%N /\
            (forall l, dispatching d = Some l ->
               cur_wg d = None /\ kernel_completed d = false /\
               (has_next d = true -> exists k dm, In (k, dm) (alg_pending (c_alg c) d) /\ refused_all cfgs (pool s) k dm)) /\
            (forall m rest, cu_in s = m :: rest -> filter (known d) m = [])) ds.

Lemma tick_disps_live : forall cfgs c ncu ds s s' ds' pr,
  is_partition (c_alg c) = false ->
  tick_disps c s ds = (s', ds', pr) -> crashed s = false -> crashed s' = false ->
  length (pool s) = ncu -> Forall (DInt c ncu s) ds -> Forall (DInv (c_alg c)) ds ->
  PoolInv cfgs (pool s) -> Forall (fun d => forall x, In x (alg_pending (c_alg c) d) -> dem_ok (snd x)) ds ->
  length (cu_out s) < c_cap c -> length (drv_out s) < c_cap c ->
  sum (map (lm c) ds') < sum (map (lm c) ds) \/ NeutralAll cfgs c s ds s' ds'.
Proof.
  intros cfgs c ncu ds. induction ds as [|d r IH]; intros s s' ds' pr Halg H Hc Hc' Hlen HI HD HP Hok Hr1 Hr2; simpl in H.
  - inversion H; subst. right. unfold NeutralAll.
    split; [reflexivity|]. split; [reflexivity|]. split; [reflexivity|]. split; [apply Rpool_refl|].
    split; [exact HP|]. split; constructor.
  - destruct (disp_tick c s d) as [[s1 d1] p1] eqn:E1.
    destruct (tick_disps c s1 r) as [[s2 r2] p2] eqn:E2. inversion H; subst s' ds' pr; clear H.
    assert (Hc1 : crashed s1 = false).
    { destruct (crashed s1) eqn:Ec1; auto. exfalso.
      clear - E2 Ec1 Hc'. revert s1 s2 r2 p2 E2 Ec1 Hc'.
      induction r as [|d0 r IHr]; intros; simpl in E2.
      - inversion E2; subst. congruence.
      - unfold disp_tick in E2 at 1. rewrite Ec1 in E2.
        destruct (tick_disps c s1 r) as [[s3 r3] p3] eqn:E3. inversion E2; subst. eapply IHr; eauto. }
    inversion HI as [|? ? [HAd HIdd] HIr]; subst. inversion HD as [|? ? HDd HDr]; subst.
    inversion Hok as [|? ? Hokd Hokr]; subst.
    destruct (disp_tick_live cfgs c _ _ _ _ _ _ Halg E1 Hc Hc1 HDd HAd HIdd eq_refl HP Hokd Hr1 Hr2)
      as [Hle [Hsn [HD1 [HA1 [HId1 [Hl1 Hn1]]]]]].
    assert (HI1 : Forall (DInt c (length (pool s)) s1) r).
    { eapply Forall_impl; [|exact HIr]. intros a [? ?]. split; auto. eapply IdInv_mono; eauto. }
    pose proof (tick_disps_mono c _ _ _ _ _ _ E2 Hc1 Hc' Hl1 HI1 HDr) as Hmono.
    destruct Hsn as [Hs|Hn].
    + left. simpl. lia.
    + destruct Hn as [N0 [N1 [N2 [N3 [N4 [N5 [N6 [N7 N8]]]]]]]].
      assert (Hr1' : length (cu_out s1) < c_cap c) by congruence.
      assert (Hr2' : length (drv_out s1) < c_cap c) by congruence.
      destruct (IH _ _ _ _ Halg E2 Hc1 Hc' Hl1 HI1 HDr N5 Hokr Hr1' Hr2') as [Hs|[M1 [M2 [M3 [M4 [M5 [M6 M7]]]]]]].
      * left. simpl. lia.
      * right. unfold NeutralAll. split; [congruence|]. split; [congruence|]. split; [congruence|].
        split; [eapply Rpool_trans; eauto|]. split; auto. split; [constructor; auto|].
        constructor.
        -- split; auto.
        -- eapply Forall_impl; [|exact M7]. intros a [A1 [A2 A3]]. split; auto. split.
           ++ intros l El. destruct (A2 l El) as [B1 [B2 B3]]. split; auto. split; auto.
              intros Hn. destruct (B3 Hn) as [k [dm [B4 B5]]]. exists k, dm. split; auto.
              eapply refused_all_Rpool; eauto.
           ++ intros m rest Em. apply (A3 m rest). congruence.
Qed.

(** ** the launch hand-over *)

Lemma Kov_bounds : forall c, N.to_nat (c_launch_ov c) <= Kov c /\ N.to_nat (c_sub_ov c) <= Kov c /\
  N.to_nat (c_kernel_ov c) <= Kov c.
Proof. intros. unfold Kov. lia. Qed.

Lemma lm_start : forall c ncu d l, dispatching d = None ->
  lm c (start_dispatching c ncu d l) + 1 <= qm c l + lm c d.
Proof.
  intros c ncu d l Hd. destruct (Kov_bounds c) as [K1 [K2 K3]].
  unfold lm, qm, wgs_of, busy, start_dispatching, alg_start. rewrite Hd.
  destruct (c_alg c); simpl; destruct (first_launched d); simpl; nia.
Qed.

Lemma handle_launch_mu : forall s s' p,
  handle_launch s = (s', p) -> crashed (sh s) = false -> is_partition (c_alg (cfg s)) = false ->
  mu s' <= mu s /\ (p = true -> mu s' < mu s) /\ cfg s' = cfg s /\
  (p = false -> s' = s /\ (drv_in s = [] \/ Forall (fun d => dispatching d <> None) (disps s))).
Proof.
  intros s s' p H Hc Halg. unfold handle_launch in H. rewrite Hc in H.
  destruct (drv_in s) as [|l rest] eqn:Ein.
  { inversion H; subst. split; [lia|]. split; [discriminate|]. split; [reflexivity|].
    intros _. split; auto. }
  destruct (start_on_first_idle (cfg s) (length (pool (sh s))) (disps s) l) as [ds|] eqn:Es.
  - rewrite Halg in H. simpl in H. inversion H; subst s' p; clear H.
    destruct (start_on_first_idle_split _ _ _ _ _ Es) as [ds1 [d [ds2 [E1 [E2 [E3 E4]]]]]].
    assert (Hlt : mu (s <| disps := ds |> <| drv_in := rest |> <| g_started := g_started s ++ [l] |>) < mu s).
    { unfold mu. simpl. rewrite Ein, E1, E4. simpl. rewrite !map_app, !sum_app. simpl.
      pose proof (lm_start (cfg s) (length (pool (sh s))) d l E2). lia. }
    split; [lia|]. split; [intros _; exact Hlt|]. split; [reflexivity|discriminate].
  - inversion H; subst. split; [lia|]. split; [discriminate|]. split; [reflexivity|].
    intros _. split; auto. right. eapply start_on_first_idle_none; eauto.
Qed.

(** * A tick never increases the ranking function *)

Definition pend_ok (c : cpcfg) (d : disp) : Prop :=
  forall x, In x (alg_pending (c_alg c) d) -> dem_ok (snd x).

Lemma cp_tick_mu : forall cfgs s s' p,
  cp_tick s = (s', p) -> crashed (sh s) = false -> crashed (sh s') = false ->
  is_partition (c_alg (cfg s)) = false ->
  CInt s -> Forall (DInv (c_alg (cfg s))) (disps s) ->
  PoolInv cfgs (pool (sh s)) -> Forall (pend_ok (cfg s)) (disps s) ->
  length (cu_out (sh s)) < c_cap (cfg s) -> length (drv_out (sh s)) < c_cap (cfg s) ->
  mu s' <= mu s /\
  (mu s' < mu s \/
   (exists sh1 ds1, NeutralAll cfgs (cfg s) (sh s) (disps s) sh1 ds1 /\
      (drv_in s = [] \/ Forall (fun d => dispatching d <> None) ds1))).
Proof.
  intros cfgs s s' p H Hc Hc' Halg HI HD HP Hok Hr1 Hr2. unfold cp_tick in H. rewrite Hc in H.
  destruct (tick_disps (cfg s) (sh s) (disps s)) as [[sh1 ds1] p1] eqn:E1.
  destruct (crashed sh1) eqn:Ec1; [inversion H; subst; simpl in Hc'; congruence|].
  destruct (handle_launch _) as [s2 p2] eqn:E2 in H.
  destruct (handle_launch s2) as [s3 p3] eqn:E3. inversion H; subst s' p; clear H.
  pose proof (tick_disps_mono _ _ _ _ _ _ _ E1 Hc Ec1 eq_refl HI HD) as Hmono.
  set (s1 := s <| sh := sh1 |> <| disps := ds1 |>) in *.
  assert (Hmu1 : mu s1 <= mu s) by (unfold mu, s1; simpl; lia).
  assert (Hc1 : crashed (sh s1) = false) by exact Ec1.
  assert (Halg1 : is_partition (c_alg (cfg s1)) = false) by exact Halg.
  destruct (handle_launch_mu _ _ _ E2 Hc1 Halg1) as [A1 [A2 [A3 A4]]].
  assert (Hc2 : crashed (sh s2) = false).
  { destruct (crashed (sh s2)) eqn:Ec2; auto. unfold handle_launch in E3. rewrite Ec2 in E3.
    inversion E3; subst. congruence. }
  assert (Halg2 : is_partition (c_alg (cfg s2)) = false) by (rewrite A3; exact Halg).
  destruct (handle_launch_mu _ _ _ E3 Hc2 Halg2) as [B1 [B2 [B3 B4]]].
  split; [lia|].
  destruct (tick_disps_live cfgs _ _ _ _ _ _ _ Halg E1 Hc Ec1 eq_refl HI HD HP Hok Hr1 Hr2) as [Hs|Hn].
  - left. unfold mu in *. simpl in *. lia.
  - destruct p2.
    + left. specialize (A2 eq_refl). lia.
    + right. exists sh1, ds1. split; auto. destruct (A4 eq_refl) as [_ Hq]. exact Hq.
Qed.

(** * Progress under a fair completion schedule *)

(** the work-group fits a CU of the pool whenever that CU is empty (whatever
    its nextSIMD) *)
Definition fits_empty (cfgs : list cucfg) (dm : demand) : Prop :=
  exists j c0, nth_error cfgs j = Some c0 /\
    forall cu k, Inv c0 cu -> resident cu = [] -> exists cu' locs, reserve cu k dm = Ret cu' (Some locs).

(** what is demanded of every work-group of every launch *)
Definition PL (cfgs : list cucfg) (dm : demand) : Prop := dem16 dm /\ fits_empty cfgs dm.
Lemma PL16 : forall cfgs dm, PL cfgs dm -> dem16 dm. Proof. intros cfgs dm [H _]. exact H. Qed.

(** the state of the ports after the environment had its turn: every MapWGReq
    was taken, there is room for a response, a completion message is waiting for
    every work-group in flight, and every waiting message names a work-group
    that is in flight *)
Definition GoodEnv (s : cp) : Prop :=
  cu_out (sh s) = [] /\ length (drv_out (sh s)) < c_cap (cfg s) /\
  (forall d id, In d (disps s) -> In id (map fst (inflight d)) -> exists m, In m (cu_in (sh s)) /\ In id m) /\
  (forall m, In m (cu_in (sh s)) -> exists id d, In id m /\ In d (disps s) /\ known d id = true).

Definition done (s : cp) : Prop := running (disps s) = [] /\ drv_in s = [].

Lemma lookup_all_none : forall res, (forall k, lookup k res = None) -> res = [].
Proof.
  intros [|[k v] res] H; auto. specialize (H k). simpl in H. rewrite key_eqb_refl in H. discriminate.
Qed.

Lemma Forall2_core_dispatching : forall ds ds',
  Forall2 (fun d d' => core d' = core d) ds ds' ->
  Forall (fun d => dispatching d = None) ds -> Forall (fun d => dispatching d = None) ds'.
Proof.
  induction 1; intros HF; constructor; inversion HF; subst; auto.
  destruct (core_fields _ _ H) as [E _]. congruence.
Qed.

Theorem tick_progress : forall cfgs s,
  Safe (PL cfgs) cfgs s -> CInt s ->
  is_partition (c_alg (cfg s)) = false -> Forall (fun c0 => cfg_simds c0 <> []) cfgs ->
  0 < c_cap (cfg s) -> disps s <> [] -> GoodEnv s -> ~ done s ->
  mu (fst (cp_tick s)) < mu s.
Proof.
  intros cfgs s HS HI Halg Hsim Hcap Hnd [G1 [G2 [G3 G4]]] Hnot.
  assert (Hpart : is_partition (c_alg (cfg s)) = true -> cfgs <> []) by (rewrite Halg; discriminate).
  destruct (step_Safe (PL cfgs) (PL16 cfgs) cfgs s ETick HS HI Hsim Hpart I I) as [HS' _].
  unfold step in HS'. rewrite (sf_nc _ _ _ HS) in HS'.
  destruct (cp_tick s) as [s' p] eqn:E. simpl in *.
  pose proof (sf_nc _ _ _ HS') as Hc'.
  assert (HD : Forall (DInv (c_alg (cfg s))) (disps s)) by apply (ci_disps _ (sf_cp _ _ _ HS)).
  assert (Hok : Forall (pend_ok (cfg s)) (disps s)).
  { eapply Forall_impl; [|apply (sf_k _ _ _ HS)]. intros d [Hp _] x Hx.
    apply dem16_ok. apply (PL16 cfgs). apply Hp. exact Hx. }
  assert (Hr1 : length (cu_out (sh s)) < c_cap (cfg s)) by (rewrite G1; simpl; lia).
  destruct (cp_tick_mu cfgs _ _ _ E (sf_nc _ _ _ HS) Hc' Halg HI HD (sf_pool _ _ _ HS) Hok Hr1 G2)
    as [_ [Hlt|[sh1 [ds1 [[N1 [N2 [N3 [N4 [N5 [N6 N7]]]]]] Hq]]]]]; [exact Hlt|exfalso].
  rewrite Forall_forall in N7, HD.
  (* no completion message is waiting *)
  assert (Hin0 : cu_in (sh s) = []).
  { destruct (cu_in (sh s)) as [|m rest] eqn:Ein; auto. exfalso.
    destruct (G4 m (or_introl eq_refl)) as [id [d [Hid [Hd Hk]]]].
    destruct (N7 d Hd) as [_ [_ Hf]]. specialize (Hf m rest eq_refl).
    assert (Hin : In id (filter (known d) m)) by (apply filter_In; auto). rewrite Hf in Hin. inversion Hin. }
  (* hence nothing is in flight *)
  assert (Hinf : forall d, In d (disps s) -> inflight d = []).
  { intros d Hd. destruct (inflight d) as [|[id w] r] eqn:Ei; auto. exfalso.
    destruct (G3 d id Hd) as [m [Hm _]]; [rewrite Ei; left; auto|]. rewrite Hin0 in Hm. inversion Hm. }
  assert (Hcw : forall d, In d (disps s) -> cur_wg d = None).
  { intros d Hd. destruct (dispatching d) as [l|] eqn:El.
    - destruct (N7 d Hd) as [_ [Hl _]]. destruct (Hl l El) as [? _]. auto.
    - destruct (HD d Hd) as [_ [_ [_ Hx]]]. rewrite El in Hx. destruct Hx as [? _]. auto. }
  (* every CU is empty *)
  assert (Hempty : forall j, resident (nth j (pool (sh s)) dummy_cu) = []).
  { intros j. apply lookup_all_none. intros k.
    destruct (lookup k (resident (nth j (pool (sh s)) dummy_cu))) eqn:El; auto. exfalso.
    destruct (Nat.lt_ge_cases j (length (pool (sh s)))) as [Hj|Hj].
    2: { rewrite nth_overflow in El by lia. simpl in El. discriminate. }
    assert (Hri : res_in (pool (sh s)) j k) by (apply res_in_nth; auto; congruence).
    apply (oi_res _ _ (sf_own _ _ _ HS)) in Hri. unfold owned in Hri. apply in_flat_map in Hri.
    destruct Hri as [d [Hd Hown]]. unfold own in Hown. rewrite (Hcw d Hd), (Hinf d Hd) in Hown. inversion Hown. }
  destruct (running (disps s)) as [|l0 rl] eqn:Erun.
  - (* nobody is dispatching: a waiting launch would have been started *)
    destruct Hq as [Hq|Hq].
    + apply Hnot. split; auto.
    + assert (Hidle : Forall (fun d => dispatching d = None) (disps s)).
      { apply Forall_forall. intros d Hd. destruct (dispatching d) as [l|] eqn:El; auto. exfalso.
        assert (In l (running (disps s))) by (unfold running; apply in_flat_map; exists d; rewrite El; simpl; auto).
        rewrite Erun in H. inversion H. }
      pose proof (Forall2_core_dispatching _ _ N6 Hidle) as Hidle1.
      assert (Hne1 : ds1 <> []) by (intros ->; inversion N6; subst; congruence).
      destruct ds1 as [|d1 r1]; [congruence|]. inversion Hq; subst. inversion Hidle1; subst. congruence.
  - (* some dispatcher has a launch: its next work-group fits an empty CU, yet every CU refused it *)
    assert (Hex : exists d l, In d (disps s) /\ dispatching d = Some l).
    { assert (Hl0 : In l0 (running (disps s))) by (rewrite Erun; left; auto).
      unfold running in Hl0. apply in_flat_map in Hl0. destruct Hl0 as [d [Hd Hl]].
      destruct (dispatching d) as [l|] eqn:El; [|inversion Hl]. eauto. }
    destruct Hex as [d [l [Hd El]]].
    destruct (N7 d Hd) as [_ [Hl _]]. destruct (Hl l El) as [Hw [Hkc Href]].
    assert (Hhn : has_next d = true).
    { unfold kernel_completed in Hkc. rewrite Hw in Hkc.
      destruct (has_next d) eqn:Eh; auto. simpl in Hkc.
      destruct (HD d Hd) as [_ [_ [Hcnt _]]]. rewrite (Hinf d Hd) in Hcnt. simpl in Hcnt.
      apply negb_false_iff, N.ltb_lt in Hkc. lia. }
    destruct (Href Hhn) as [k [dm [Hin Hall]]].
    pose proof (sf_k _ _ _ HS) as HK. rewrite Forall_forall in HK. destruct (HK d Hd) as [Hp _].
    destruct (Hp _ Hin) as [_ [j [c0 [Hc0 Hfit]]]]. simpl in Hfit.
    destruct (Hall j c0 Hc0) as [cj [c' [HIj [Hrj Hres]]]].
    rewrite Hempty in Hrj. destruct (Hfit cj k HIj Hrj) as [cu' [locs Hok2]]. congruence.
Qed.

(** ** rounds: a tick followed by the environment's turn on the ports *)

Definition env_ev (e : ev) : Prop :=
  match e with ELaunch _ | ETick => False | _ => True end.

Lemma env_step_same : forall s e, env_ev e ->
  disps (fst (step s e)) = disps s /\ drv_in (fst (step s e)) = drv_in s /\ cfg (fst (step s e)) = cfg s.
Proof.
  intros s e He. unfold step. destruct (crashed (sh s)); [auto|].
  destruct e; simpl in He; try tauto.
  - destruct (_ <? _); simpl; auto.
  - destruct (cu_out (sh s)); simpl; auto.
  - destruct (drv_out (sh s)); simpl; auto.
Qed.

Lemma env_run_same : forall evs s, Forall env_ev evs ->
  disps (run s evs) = disps s /\ drv_in (run s evs) = drv_in s /\ cfg (run s evs) = cfg s.
Proof.
  induction evs as [|e evs IH]; intros s He; simpl; auto. inversion He; subst.
  destruct (env_step_same s e H1) as [E1 [E2 E3]]. destruct (IH (fst (step s e)) H2) as [F1 [F2 F3]].
  repeat split; congruence.
Qed.

Lemma env_launch_ids : forall evs, Forall env_ev evs -> launch_ids evs = [].
Proof.
  induction evs as [|e evs IH]; intros He; simpl; auto. inversion He; subst.
  destruct e; simpl in *; try tauto; auto.
Qed.

Lemma istep_disps_length : forall s s', istep s s' -> length (disps s') = length (disps s).
Proof.
  intros s s' H. destruct H; simpl.
  - inversion H as [s0 s0' ds1 d d' ds2 Hst]; subst.
    rewrite !app_length. simpl. reflexivity.
  - rewrite H1, !app_length. simpl. reflexivity.
Qed.

Lemma isteps_disps_length : forall s s', isteps s s' -> length (disps s') = length (disps s).
Proof. induction 1; auto. rewrite IHisteps. apply istep_disps_length. auto. Qed.

Section Rounds.
Context (cfgs : list cucfg).

(** one round of a fair schedule: the command processor ticks, then the
    environment retrieves MapWGReqs and responses and delivers completion
    messages (no ID twice in a message) so that [GoodEnv] holds again *)
Inductive round : cp -> cp -> Prop :=
| Round : forall s evs,
    Forall env_ev evs -> Forall (evP (PL cfgs)) evs ->
    GoodEnv (run (fst (cp_tick s)) evs) ->
    round s (run (fst (cp_tick s)) evs).

Inductive busy_rounds : nat -> cp -> cp -> Prop :=
| br_nil : forall s, busy_rounds 0 s s
| br_cons : forall k s s1 s', ~ done s -> round s s1 -> busy_rounds k s1 s' -> busy_rounds (S k) s s'.

Record Live (s : cp) : Prop := mkLive {
  lv_safe : Safe (PL cfgs) cfgs s;
  lv_int : CInt s;
  lv_alg : is_partition (c_alg (cfg s)) = false;
  lv_cap : 0 < c_cap (cfg s);
  lv_disps : disps s <> [];
  lv_env : GoodEnv s
}.

Lemma round_Live : forall s s', Forall (fun c0 => cfg_simds c0 <> []) cfgs ->
  Live s -> round s s' -> Live s' /\ (~ done s -> mu s' < mu s).
Proof.
  intros s s' Hsim [HS HI Halg Hcap Hnd HG] Hr. destruct Hr as [s evs He Hev HG'].
  assert (Hpart : is_partition (c_alg (cfg s)) = true -> cfgs <> []) by (rewrite Halg; discriminate).
  destruct (step_Safe (PL cfgs) (PL16 cfgs) cfgs s ETick HS HI Hsim Hpart I I) as [HS1 [HI1 [Hcf1 Hl1]]].
  assert (E1 : fst (step s ETick) = fst (cp_tick s)).
  { unfold step. rewrite (sf_nc _ _ _ HS). destruct (cp_tick s); reflexivity. }
  rewrite E1 in HS1, HI1, Hcf1, Hl1.
  set (s1 := fst (cp_tick s)) in *.
  assert (Hpart1 : is_partition (c_alg (cfg s1)) = true -> cfgs <> []) by (rewrite Hcf1; exact Hpart).
  assert (HS2 : Safe (PL cfgs) cfgs (run s1 evs)).
  { apply (run_Safe (PL cfgs) (PL16 cfgs)); auto.
    - rewrite env_launch_ids by auto. constructor.
    - intros l _. rewrite env_launch_ids by auto. intros []. }
  assert (HI2 : CInt (run s1 evs)).
  { apply (proj2 (run_refines evs s1 (sf_nc _ _ _ HS1) HI1 (sf_nc _ _ _ HS2))). }
  destruct (env_run_same evs s1 He) as [Ed [Ei Ec]].
  (* the dispatcher list keeps its length in a tick *)
  assert (Hlen1 : length (disps s1) = length (disps s)).
  { destruct (cp_tick s) as [sx px] eqn:Et.
    destruct (cp_tick_ref _ _ _ Et (sf_nc _ _ _ HS) HI) as [x [Hx Hrr]].
    destruct Hrr as [[_ [-> _]]|[Hcr _]].
    - apply isteps_disps_length. exact Hx.
    - unfold s1 in HS1. simpl in HS1. rewrite (sf_nc _ _ _ HS1) in Hcr. discriminate. }
  split.
  - constructor; auto.
    + rewrite Ec, Hcf1. exact Halg.
    + rewrite Ec, Hcf1. exact Hcap.
    + rewrite Ed. intros E0. rewrite E0 in Hlen1. simpl in Hlen1. destruct (disps s); [congruence|discriminate].
  - intros Hnot. assert (Hmu : mu (run s1 evs) = mu s1) by (unfold mu; rewrite Ed, Ei, Ec; reflexivity).
    rewrite Hmu. apply (tick_progress cfgs); auto.
Qed.

(** The number of rounds during which some launch is still unanswered is
    bounded by the ranking function. *)
Theorem busy_rounds_bound : forall k s s',
  Forall (fun c0 => cfg_simds c0 <> []) cfgs -> Live s -> busy_rounds k s s' ->
  Live s' /\ mu s' + k <= mu s.
Proof.
  intros k s s' Hsim HL H. induction H.
  - split; auto. lia.
  - destruct (round_Live _ _ Hsim HL H0) as [HL1 Hlt]. specialize (Hlt H).
    destruct (IHbusy_rounds HL1) as [HL' Hle]. split; auto. lia.
Qed.

End Rounds.

(** when nothing is running and nothing is waiting, every launch that was
    accepted has been answered exactly once *)
Lemma done_all_answered : forall s, CPInv s -> done s ->
  Permutation (g_started s) (map f_launch (g_hist (sh s))) /\
  g_rretr s ++ drv_out (sh s) = map (fun f => lr_id (f_launch f)) (g_hist (sh s)).
Proof.
  intros s [_ _ HS HR] [Hr _]. rewrite Hr, app_nil_r in HS. auto.
Qed.
