(** Proofs about VCp.Dispatcher: per-dispatcher accounting invariant, the
    history of finished launches, and the resource invariant of every CU of
    the shared pool, for every sequence of environment events. *)
From Coq Require Import List NArith Bool Arith Lia ZifyN ZifyNat ZifyBool Permutation.
From VCp Require Import Resource ResourceProofs Dispatcher.
From RecordUpdate Require Import RecordSet.
Import ListNotations RecordSetNotations.
Open Scope nat_scope.

(** the work-groups of a launch with their keys, in NextWG order *)
Fixpoint enum_from (lid idx : N) (ds : list demand) : list (wgkey * demand) :=
  match ds with
  | [] => []
  | dm :: r => ((lid, idx), dm) :: enum_from lid (idx + 1)%N r
  end.
Definition grid_of (l : launch) : list (wgkey * demand) := enum_from (lr_id l) 0%N (lr_wgs l).

Definition opt_list {A} (o : option A) : list A := match o with Some x => [x] | None => [] end.

Definition pl_kd (p : placement) : wgkey * demand := (pl_key p, pl_dem p).
Definition kd_of_sent (mp : mapreq * placement) : wgkey * demand := pl_kd (snd mp).

(** a placement records a reservation that succeeded on the CU as it was *)
Definition pl_ok (p : placement) : Prop :=
  exists c', reserve (pl_before p) (pl_key p) (pl_dem p) = Ret c' (Some (pl_locs p)).

Definition mr_ok (mp : mapreq * placement) : Prop :=
  mr_key (fst mp) = pl_key (snd mp) /\ mr_cu (fst mp) = pl_cu (snd mp) /\
  mr_locs (fst mp) = pl_locs (snd mp) /\ pl_ok (snd mp).

Definition cur_ok (d : disp) : Prop :=
  match cur_wg d, g_cur d with
  | Some w, Some p => dl_cu w = pl_cu p /\ dl_key w = pl_key p /\ dl_locs w = pl_locs p /\ pl_ok p /\ a_cur d = None
  | None, None => True
  | _, _ => False
  end.

Definition DInv (d : disp) : Prop :=
  cur_ok d /\ Forall mr_ok (g_sent d) /\
  (n_comp d + N.of_nat (length (inflight d)) = n_disp d)%N /\
  match dispatching d with
  | None => cur_wg d = None /\ a_cur d = None /\ inflight d = [] /\ g_sent d = []
  | Some l =>
    grid_of l = map kd_of_sent (g_sent d) ++ map pl_kd (opt_list (g_cur d)) ++ opt_list (a_cur d)
                ++ enum_from (a_lid d) (a_idx d) (a_rest d) /\
    n_disp d = N.of_nat (length (g_sent d)) /\
    a_ndisp d = N.of_nat (length (g_sent d) + length (opt_list (g_cur d))) /\
    a_numwg d = N.of_nat (length (lr_wgs l))
  end.

(** what is recorded when a LaunchKernelRsp is sent *)
Definition fin_ok (f : finished) : Prop :=
  map kd_of_sent (f_sent f) = grid_of (f_launch f) /\
  Forall mr_ok (f_sent f) /\
  f_ndisp f = N.of_nat (length (lr_wgs (f_launch f))) /\ f_ncomp f = f_ndisp f.

(** changes a dispatcher may make to the shared logs *)
Definition sh_same (s s' : shared) : Prop :=
  g_hist s' = g_hist s /\ drv_out s' = drv_out s.

Lemma sh_same_refl : forall s, sh_same s s. Proof. split; auto. Qed.
Lemma sh_same_trans : forall a b c, sh_same a b -> sh_same b c -> sh_same a c.
Proof. intros a b c [? ?] [? ?]. split; congruence. Qed.

Lemma enum_from_length : forall ds lid idx, length (enum_from lid idx ds) = length ds.
Proof. induction ds; intros; simpl; auto. Qed.

(** ** roundRobinAlgorithm.Next *)

Lemma rr_scan_ok : forall fuel i p start k dm p' pl,
  rr_scan fuel i p start k dm = Some (p', Some pl) ->
  pl_key pl = k /\ pl_dem pl = dm /\ pl_ok pl.
Proof.
  induction fuel; intros i p start k dm p' pl H; simpl in H; [discriminate|].
  destruct (reserve _ k dm) as [|c' [locs|]] eqn:E; [discriminate| |eauto].
  inversion H; subst. simpl. repeat split; auto. exists c'. simpl. exact E.
Qed.

Lemma dispatch_next_inv : forall c s d s' d' pr,
  DInv d -> dispatching d <> None -> dispatch_next c s d = (s', d', pr) -> crashed s' = false ->
  DInv d' /\ dispatching d' = dispatching d /\ sh_same s s'.
Proof.
  intros c s d s' d' pr HD Hdisp H Hc. unfold dispatch_next in H.
  destruct HD as [Hcur [Hsent [Hcnt Hd]]].
  destruct (dispatching d) as [l|] eqn:El; [clear Hdisp|congruence].
  destruct Hd as [Hgrid [Hnd [Had Hnw]]].
  (* first stage: obtain a valid currWG *)
  assert (Hstage : forall s1 d1,
    (match cur_wg d with
     | Some _ => Some (s, d)
     | None =>
       if negb (has_next d) then None else
       match rr_next (c_alg c) (pool s) d with
       | None => Some (crash s, d)
       | Some (p', d', None) => Some (s <| pool := p' |>, d')
       | Some (p', d', Some pl) =>
         Some (s <| pool := p' |>,
               d' <| cur_wg := Some (mkDloc (pl_cu pl) (pl_key pl) (pl_locs pl)) |> <| g_cur := Some pl |>)
       end
     end) = Some (s1, d1) -> crashed s1 = false ->
    DInv d1 /\ dispatching d1 = Some l /\ sh_same s s1).
  { intros s1 d1 Hst Hc1. destruct (cur_wg d) as [w|] eqn:Ew.
    - inversion Hst; subst. split; [|split; [auto|apply sh_same_refl]].
      unfold DInv. rewrite El. repeat split; auto.
    - destruct (negb (has_next d)); [discriminate|].
      unfold rr_next in Hst.
      unfold cur_ok in Hcur. rewrite Ew in Hcur. destruct (g_cur d) eqn:Eg; [tauto|].
      simpl in Hgrid, Had.
      (* fetch *)
      set (d1opt := match a_cur d with
                    | Some _ => Some d
                    | None => match a_rest d with
                              | [] => None
                              | dm :: r => Some (d <| a_cur := Some ((a_lid d, a_idx d), dm) |> <| a_rest := r |>
                                                   <| a_idx := (a_idx d + 1)%N |>)
                              end
                    end) in *.
      assert (Hf : forall df, d1opt = Some df ->
                exists k dm, a_cur df = Some (k, dm) /\
                  grid_of l = map kd_of_sent (g_sent df) ++ (k, dm) :: enum_from (a_lid df) (a_idx df) (a_rest df) /\
                  g_sent df = g_sent d /\ inflight df = inflight d /\ n_comp df = n_comp d /\ n_disp df = n_disp d /\
                  a_ndisp df = a_ndisp d /\ a_numwg df = a_numwg d /\ dispatching df = Some l /\
                  cur_wg df = None /\ g_cur df = None).
      { intros df Edf. unfold d1opt in Edf. destruct (a_cur d) as [[k dm]|] eqn:Ea.
        - inversion Edf; subst df. exists k, dm. simpl in Hgrid. repeat split; auto.
        - destruct (a_rest d) as [|dm r] eqn:Er; [discriminate|]. inversion Edf; subst df; clear Edf.
          exists (a_lid d, a_idx d), dm. simpl. simpl in Hgrid. repeat split; auto. }
      destruct d1opt as [df|] eqn:Edf.
      2: { inversion Hst; subst. simpl in Hc1. discriminate. }
      destruct (Hf df eq_refl) as [k [dm [Ha [Hg [Hs1 [Hi1 [Hc2 [Hn1 [Hn2 [Hn3 [Hdd [Hcw Hgc]]]]]]]]]]]].
      rewrite Ha in Hst.
      destruct (rr_scan (length (pool s)) 0 (pool s) _ k dm) as [[p' [pl|]]|] eqn:Esc.
      + inversion Hst; subst s1 d1; clear Hst.
        destruct (rr_scan_ok _ _ _ _ _ _ _ _ Esc) as [Hk [Hdm Hpl]].
        split; [|split; [simpl; auto|split; reflexivity]].
        unfold DInv, cur_ok. simpl. rewrite Hdd, Hs1, Hi1, Hc2, Hn1, Hn2, Hn3.
        split; [repeat split; auto|]. split; auto. split; auto.
        split; [|split; [auto|split; [lia|auto]]].
        rewrite Hg, Hs1. unfold pl_kd. rewrite Hk, Hdm. reflexivity.
      + inversion Hst; subst s1 d1; clear Hst.
        split; [|split; [auto|split; reflexivity]].
        unfold DInv, cur_ok. rewrite Hcw, Hgc, Hdd, Hs1, Hi1, Hc2, Hn1, Hn2, Hn3, Ha.
        split; auto. split; auto. split; auto. simpl.
        split; [rewrite Hg, Hs1; reflexivity|]. split; auto.
      + inversion Hst; subst. simpl in Hc1. discriminate. }
  match type of H with (match ?X with _ => _ end) = _ => destruct X as [[s1 d1]|] eqn:Est end.
  2: { inversion H; subst. split; [|split; [auto|apply sh_same_refl]].
       unfold DInv. rewrite El. repeat split; auto. }
  destruct (crashed s1) eqn:Ec1.
  { inversion H; subst. congruence. }
  destruct (Hstage s1 d1 eq_refl Ec1) as [HD1 [Hdisp1 Hsame1]].
  destruct (cur_wg d1) as [w|] eqn:Ew1.
  2: { inversion H; subst. auto. }
  destruct (g_cur d1) as [pl|] eqn:Eg1.
  2: { inversion H; subst. auto. }
  destruct (length (cu_out s1) <? c_cap c).
  2: { inversion H; subst. auto. }
  destruct HD1 as [Hcur1 [Hsent1 [Hcnt1 Hd1]]]. rewrite Hdisp1 in Hd1.
  destruct Hd1 as [Hgrid1 [Hnd1 [Had1 Hnw1]]].
  unfold cur_ok in Hcur1. rewrite Ew1, Eg1 in Hcur1. destruct Hcur1 as [Hc_cu [Hc_key [Hc_locs [Hc_pl Hc_a]]]].
  rewrite Eg1 in Hgrid1, Had1. simpl in Hgrid1, Had1. rewrite Hc_a in Hgrid1. simpl in Hgrid1.
  assert (Hfinal : forall cl,
    DInv (d1 <| cur_wg := None |> <| g_cur := None |> <| n_disp := (n_disp d1 + 1)%N |>
             <| inflight := (next_id s1, w) :: inflight d1 |>
             <| g_sent := g_sent d1 ++ [(mkMapReq (next_id s1) (dl_cu w) (dl_key w) (dl_locs w), pl)] |>
             <| cycle_left := cl |>)).
  { intros cl. unfold DInv, cur_ok. simpl. rewrite Hdisp1, Hc_a.
    split; auto. split.
    { apply Forall_app. split; auto. constructor; auto. unfold mr_ok; simpl. auto. }
    split; [lia|].
    split; [rewrite map_app; simpl; rewrite <- app_assoc; simpl; exact Hgrid1|].
    rewrite app_length; simpl. split; [lia|]. split; [lia|auto]. }
  destruct (16 <? length (dl_locs w)).
  - inversion H; subst. simpl in Hc. discriminate.
  - inversion H; subst s' d' pr; clear H. split; [apply Hfinal|].
    split; [simpl; auto|]. destruct Hsame1 as [? ?]. split; simpl; auto.
Qed.

Lemma dispatch_loop_inv : forall fuel c s d s' d' pr,
  DInv d -> dispatching d <> None -> dispatch_loop fuel c s d = (s', d', pr) -> crashed s' = false ->
  DInv d' /\ dispatching d' = dispatching d /\ sh_same s s'.
Proof.
  induction fuel; intros c s d s' d' pr HD Hdisp H Hc; simpl in H.
  - inversion H; subst. split; auto. split; auto. apply sh_same_refl.
  - destruct (dispatch_next c s d) as [[s1 d1] p1] eqn:E1.
    destruct (negb p1 || (0 <? cycle_left d1)%N || crashed s1) eqn:Eb.
    + inversion H; subst. eapply dispatch_next_inv; eauto.
    + destruct (dispatch_loop fuel c s1 d1) as [[s2 d2] p2] eqn:E2.
      inversion H; subst; clear H.
      apply orb_false_iff in Eb. destruct Eb as [_ Ec1].
      destruct (dispatch_next_inv _ _ _ _ _ _ HD Hdisp E1 Ec1) as [HD1 [Hd1 Hs1]].
      assert (Hdisp1 : dispatching d1 <> None) by congruence.
      destruct (IHfuel _ _ _ _ _ _ HD1 Hdisp1 E2 Hc) as [HD2 [Hd2 Hs2]].
      split; auto. split; [congruence|eapply sh_same_trans; eauto].
Qed.

(** ** completion messages *)

Lemma remove_id_length : forall id l w, lookup_id id l = Some w -> S (length (remove_id id l)) = length l.
Proof.
  induction l as [|[i x] l IH]; intros w H; simpl in *; [discriminate|].
  destruct (i =? id)%N; [reflexivity|]. simpl. rewrite (IH w H). reflexivity.
Qed.

Lemma complete_ids_inv : forall c ids s d s' d',
  DInv d -> complete_ids c ids s d = (s', d') -> crashed s' = false ->
  DInv d' /\ dispatching d' = dispatching d /\ sh_same s s'.
Proof.
  induction ids as [|id r IH]; intros s d s' d' HD H Hc; simpl in H.
  - inversion H; subst. split; auto. split; auto. apply sh_same_refl.
  - destruct (crashed s) eqn:Ecs; [inversion H; subst; congruence|].
    destruct (lookup_id id (inflight d)) as [w|] eqn:El.
    2: { inversion H; subst. simpl in Hc. discriminate. }
    destruct (free _ _) as [c'|] eqn:Ef.
    2: { inversion H; subst. simpl in Hc. discriminate. }
    match type of H with complete_ids c r ?S ?D = _ =>
      assert (HD1 : DInv D /\ dispatching D = dispatching d) end.
    { destruct HD as [Hcur [Hsent [Hcnt Hd]]].
      pose proof (remove_id_length _ _ _ El) as Hlen.
      assert (Hbase : forall cl,
        DInv (d <| inflight := remove_id id (inflight d) |> <| n_comp := (n_comp d + 1)%N |> <| cycle_left := cl |>)).
      { intros cl. unfold DInv, cur_ok in *. simpl. split; auto. split; auto. split; [lia|].
        destruct (dispatching d); auto.
        destruct Hd as [? [? [Hi ?]]]. rewrite Hi in El. simpl in El. discriminate. }
      simpl. destruct (_ =? _)%N; simpl.
      - split; [apply Hbase|reflexivity].
      - split; [|reflexivity]. specialize (Hbase (cycle_left d)).
        unfold DInv, cur_ok in *. simpl in *. exact Hbase. }
    destruct HD1 as [HD1 Hdisp1].
    destruct (IH _ _ _ _ HD1 H Hc) as [HD2 [Hd2 [Hh Ho]]].
    split; auto. split; [congruence|]. split; simpl in *; auto.
Qed.

Lemma process_msgs_inv : forall fuel c s d s' d' pr,
  DInv d -> process_msgs fuel c s d = (s', d', pr) -> crashed s' = false ->
  DInv d' /\ dispatching d' = dispatching d /\ sh_same s s'.
Proof.
  induction fuel; intros c s d s' d' pr HD H Hc; simpl in H.
  - inversion H; subst. split; auto. split; auto. apply sh_same_refl.
  - destruct (cu_in s) as [|ids rest].
    { inversion H; subst. split; auto. split; auto. apply sh_same_refl. }
    destruct (filter (known d) ids) as [|m0 mine].
    { inversion H; subst. split; auto. split; auto. apply sh_same_refl. }
    destruct (complete_ids c (m0 :: mine) s d) as [s1 d1] eqn:E1.
    destruct (crashed s1) eqn:Ec1.
    { inversion H; subst. congruence. }
    destruct (complete_ids_inv _ _ _ _ _ _ HD E1 Ec1) as [HD1 [Hd1 Hs1]].
    destruct (filter (fun id => negb (known d id)) ids) as [|o0 others].
    + destruct (process_msgs fuel c (s1 <| cu_in := rest |>) d1) as [[s3 d3] p3] eqn:E3.
      inversion H; subst; clear H.
      destruct (IHfuel _ _ _ _ _ _ HD1 E3 Hc) as [HD3 [Hd3 Hs3]].
      split; auto. split; [congruence|].
      destruct Hs1 as [? ?], Hs3 as [? ?]. simpl in *. split; congruence.
    + inversion H; subst; clear H. split; [auto|]. split; [auto|].
      destruct Hs1 as [? ?]. split; simpl; auto.
Qed.

(** ** one dispatcher tick *)

Definition tick_effect (s : shared) (d : disp) (s' : shared) (d' : disp) : Prop :=
  (sh_same s s' /\ dispatching d' = dispatching d) \/
  (exists l f, dispatching d = Some l /\ dispatching d' = None /\ f_launch f = l /\ fin_ok f /\
               g_hist s' = g_hist s ++ [f] /\ drv_out s' = drv_out s ++ [lr_id l]).

Lemma kernel_completed_facts : forall d l,
  DInv d -> dispatching d = Some l -> kernel_completed d = true ->
  map kd_of_sent (g_sent d) = grid_of l /\ n_disp d = N.of_nat (length (lr_wgs l)) /\
  n_comp d = n_disp d /\ inflight d = [] /\ cur_wg d = None /\ a_cur d = None.
Proof.
  intros d l [Hcur [Hsent [Hcnt Hd]]] El Hk. rewrite El in Hd. destruct Hd as [Hg [Hnd [Had Hnw]]].
  unfold kernel_completed in Hk. destruct (cur_wg d) eqn:Ew; [discriminate|].
  unfold cur_ok in Hcur. rewrite Ew in Hcur. destruct (g_cur d) eqn:Eg; [tauto|].
  apply andb_true_iff in Hk. destruct Hk as [Hn Hc]. unfold has_next in Hn.
  apply negb_true_iff, N.ltb_ge in Hn. apply negb_true_iff, N.ltb_ge in Hc.
  simpl in *.
  assert (Hlen : length (grid_of l) = length (lr_wgs l)) by apply enum_from_length.
  rewrite Hg in Hlen. rewrite !app_length, map_length, enum_from_length in Hlen.
  assert (Hge : length (lr_wgs l) <= length (g_sent d)) by lia.
  assert (Ha : a_cur d = None) by (destruct (a_cur d); simpl in Hlen; [lia|reflexivity]).
  rewrite Ha in *. simpl in Hlen.
  assert (Hr : a_rest d = []) by (destruct (a_rest d); simpl in Hlen; [reflexivity|lia]).
  rewrite Hr in Hg. simpl in Hg. rewrite app_nil_r in Hg.
  assert (Hi : inflight d = []) by (destruct (inflight d); [reflexivity|simpl in Hcnt; lia]).
  rewrite Hi in Hcnt. simpl in Hcnt.
  repeat split; auto; lia.
Qed.

Lemma disp_tick_inv : forall c s d s' d' pr,
  DInv d -> disp_tick c s d = (s', d', pr) -> crashed s' = false ->
  DInv d' /\ tick_effect s d s' d'.
Proof.
  intros c s d s' d' pr HD H Hc. unfold disp_tick in H.
  destruct (crashed s) eqn:Ecs.
  { inversion H; subst. split; auto. left. split; auto. apply sh_same_refl. }
  destruct (0 <? cycle_left d)%N.
  { inversion H; subst. split.
    - unfold DInv, cur_ok in *. simpl. exact HD.
    - left. split; [apply sh_same_refl|reflexivity]. }
  destruct (match dispatching d with
            | Some l => if kernel_completed d then complete_kernel c s d l else dispatch_loop 8 c s d
            | None => (s, d, false)
            end) as [[s1 d1] p1] eqn:E1.
  assert (Hs1 : crashed s1 = false -> DInv d1 /\ tick_effect s d s1 d1).
  { intros Hc1. destruct (dispatching d) as [l|] eqn:El.
    - destruct (kernel_completed d) eqn:Ek.
      + unfold complete_kernel in E1. destruct (length (drv_out s) <? c_cap c).
        * inversion E1; subst s1 d1 p1; clear E1.
          destruct (kernel_completed_facts _ _ HD El Ek) as [Hg [Hnd [Hnc [Hi [Hw Ha]]]]].
          destruct HD as [Hcur [Hsent [Hcnt Hd]]].
          split.
          -- unfold DInv, cur_ok in *. simpl. rewrite Hw in *. split; auto. split; [constructor|].
             split; auto.
          -- right. exists l, (mkFin l (g_sent d) (n_disp d) (n_comp d)). simpl.
             repeat split; auto.
        * inversion E1; subst. split; auto. left. split; [apply sh_same_refl|reflexivity].
      + assert (Hne : dispatching d <> None) by congruence.
        destruct (dispatch_loop_inv _ _ _ _ _ _ _ HD Hne E1 Hc1) as [? [? ?]].
        split; auto. left. split; auto.
    - inversion E1; subst. split; auto. left. split; [apply sh_same_refl|auto]. }
  destruct (crashed s1) eqn:Ec1.
  { inversion H; subst. congruence. }
  destruct (Hs1 eq_refl) as [HD1 Heff1].
  destruct (process_msgs 8 c s1 d1) as [[s2 d2] p2] eqn:E2.
  inversion H; subst; clear H.
  destruct (process_msgs_inv _ _ _ _ _ _ _ HD1 E2 Hc) as [HD2 [Hd2 [Hh2 Ho2]]].
  split; auto.
  destruct Heff1 as [[[Hh1 Ho1] Hd1]|[l [f [H1 [H2 [H3 [H4 [H5 H6]]]]]]]].
  - left. split; [split; unfold sh_same; congruence|congruence].
  - right. exists l, f. split; [auto|]. split; [congruence|]. split; [auto|]. split; [auto|].
    split; congruence.
Qed.

(** ** the whole command processor *)

Definition running (ds : list disp) : list launch := flat_map (fun d => opt_list (dispatching d)) ds.

Lemma tick_disps_inv : forall c ds s s' ds' pr,
  Forall DInv ds -> tick_disps c s ds = (s', ds', pr) -> crashed s' = false ->
  Forall DInv ds' /\
  exists fs, Forall fin_ok fs /\ g_hist s' = g_hist s ++ fs /\
             drv_out s' = drv_out s ++ map (fun f => lr_id (f_launch f)) fs /\
             Permutation (running ds) (map f_launch fs ++ running ds').
Proof.
  induction ds as [|d r IH]; intros s s' ds' pr HD H Hc; simpl in H.
  - inversion H; subst. split; auto. exists []. simpl. rewrite !app_nil_r. repeat split; auto.
  - destruct (disp_tick c s d) as [[s1 d1] p1] eqn:E1.
    destruct (tick_disps c s1 r) as [[s2 r2] p2] eqn:E2.
    inversion H; subst; clear H. inversion HD; subst.
    assert (Hc1 : crashed s1 = false).
    { destruct (crashed s1) eqn:Ec1; auto. exfalso.
      clear - E2 Ec1 Hc. revert s1 s' r2 p2 E2 Ec1 Hc.
      induction r as [|d0 r IHr]; intros; simpl in E2.
      - inversion E2; subst. congruence.
      - unfold disp_tick in E2 at 1. rewrite Ec1 in E2.
        destruct (tick_disps c s1 r) as [[s3 r3] p3] eqn:E3. inversion E2; subst.
        eapply IHr; eauto. }
    destruct (disp_tick_inv _ _ _ _ _ _ H1 E1 Hc1) as [HD1 Heff].
    destruct (IH _ _ _ _ H2 E2 Hc) as [HDr [fs [Hfs [Hh [Ho Hp]]]]].
    split; [constructor; auto|].
    destruct Heff as [[[Hh1 Ho1] Hd1]|[l [f [Hl1 [Hl2 [Hl3 [Hl4 [Hl5 Hl6]]]]]]]].
    + exists fs. split; auto. split; [congruence|]. split; [congruence|].
      unfold running in *. simpl. rewrite Hd1.
      rewrite Hp. apply Permutation_app_swap_app.
    + exists (f :: fs). split; [constructor; auto|].
      split; [rewrite Hh, Hl5, <- app_assoc; reflexivity|].
      split; [rewrite Ho, Hl6, <- app_assoc; simpl; rewrite Hl3; reflexivity|].
      unfold running in *. simpl. rewrite Hl1, Hl2, Hl3. simpl. constructor. exact Hp.
Qed.

Lemma start_dispatching_inv : forall c d l, DInv d -> dispatching d = None -> DInv (start_dispatching c d l).
Proof.
  intros c d l [Hcur [Hsent [Hcnt Hd]]] El. rewrite El in Hd. destruct Hd as [Hw [Ha [Hi Hs]]].
  unfold cur_ok in Hcur. rewrite Hw in Hcur. destruct (g_cur d) eqn:Eg; [tauto|].
  unfold DInv, cur_ok, start_dispatching. simpl. rewrite Hw, Eg, Ha, Hi. simpl.
  split; auto. split; [constructor|]. split; [lia|]. repeat split; auto.
Qed.

Lemma start_on_first_idle_inv : forall c ds l ds',
  Forall DInv ds -> start_on_first_idle c ds l = Some ds' ->
  Forall DInv ds' /\ Permutation (l :: running ds) (running ds').
Proof.
  induction ds as [|d r IH]; intros l ds' HD H; simpl in H; [discriminate|].
  inversion HD as [|? ? HDd HDr0]; subst.
  destruct (dispatching d) as [l0|] eqn:El.
  - destruct (start_on_first_idle c r l) as [r'|] eqn:Er; [|discriminate]. inversion H; subst.
    destruct (IH _ _ HDr0 Er) as [HDr Hp]. split; [constructor; auto|].
    unfold running in *. simpl. rewrite El. simpl. rewrite perm_swap. constructor. exact Hp.
  - inversion H; subst. split; [constructor; auto; apply start_dispatching_inv; auto|].
    unfold running. simpl. rewrite El. simpl. reflexivity.
Qed.

Record CPInv (s : cp) : Prop := mkCPInv {
  ci_disps : Forall DInv (disps s);
  ci_hist : Forall fin_ok (g_hist (sh s));
  ci_started : Permutation (g_started s) (map f_launch (g_hist (sh s)) ++ running (disps s));
  ci_rsps : g_rretr s ++ drv_out (sh s) = map (fun f => lr_id (f_launch f)) (g_hist (sh s))
}.

Lemma handle_launch_inv : forall s s' p, CPInv s -> handle_launch s = (s', p) -> CPInv s' /\ sh s' = sh s.
Proof.
  intros s s' p HI H. unfold handle_launch in H.
  destruct (drv_in s) as [|l rest]; [inversion H; subst; auto|].
  destruct (start_on_first_idle (cfg s) (disps s) l) as [ds|] eqn:E; [|inversion H; subst; auto].
  inversion H; subst; clear H. destruct HI.
  destruct (start_on_first_idle_inv _ _ _ _ ci_disps0 E) as [HD Hp].
  split; [|reflexivity]. constructor; simpl; auto.
  rewrite <- Hp. rewrite ci_started0. rewrite Permutation_app_comm. simpl.
  apply Permutation_middle.
Qed.

Lemma cp_tick_inv : forall s s' p, CPInv s -> cp_tick s = (s', p) -> crashed (sh s') = false -> CPInv s'.
Proof.
  intros s s' p HI H Hc. unfold cp_tick in H.
  destruct (crashed (sh s)); [inversion H; subst; auto|].
  destruct (tick_disps (cfg s) (sh s) (disps s)) as [[sh1 ds1] p1] eqn:E1.
  destruct (crashed sh1) eqn:Ec1.
  { inversion H; subst. simpl in Hc. congruence. }
  destruct HI.
  destruct (tick_disps_inv _ _ _ _ _ _ ci_disps0 E1 Ec1) as [HD [fs [Hfs [Hh [Ho Hp]]]]].
  assert (HI1 : CPInv (s <| sh := sh1 |> <| disps := ds1 |>)).
  { constructor; simpl; auto.
    - rewrite Hh. apply Forall_app; auto.
    - rewrite Hh, map_app, <- app_assoc. rewrite ci_started0.
      apply Permutation_app_head. exact Hp.
    - rewrite Ho, Hh, map_app, app_assoc, ci_rsps0. reflexivity. }
  destruct (handle_launch _) as [s2 p2] eqn:E2 in H.
  destruct (handle_launch s2) as [s3 p3] eqn:E3.
  inversion H; subst; clear H.
  destruct (handle_launch_inv _ _ _ HI1 E2) as [HI2 _].
  destruct (handle_launch_inv _ _ _ HI2 E3) as [HI3 _]. exact HI3.
Qed.

Lemma step_inv : forall s e, CPInv s -> crashed (sh (fst (step s e))) = false -> CPInv (fst (step s e)).
Proof.
  intros s e HI Hc. unfold step in *. destruct (crashed (sh s)) eqn:Ecs; [exact HI|].
  destruct e.
  - destruct (length (drv_in s) <? c_cap (cfg s)); simpl; auto.
    destruct HI. constructor; simpl; auto.
  - destruct (length (cu_in (sh s)) <? c_cap (cfg s)); simpl; auto.
    destruct HI. constructor; simpl; auto.
  - destruct (cp_tick s) as [s' p] eqn:E. simpl in *. eapply cp_tick_inv; eauto.
  - destruct (cu_out (sh s)); simpl; auto. destruct HI. constructor; simpl; auto.
  - destruct (drv_out (sh s)) as [|m r] eqn:Eo; simpl; auto. destruct HI. constructor; simpl; auto.
    rewrite <- ci_rsps0, Eo, <- app_assoc. reflexivity.
Qed.

Lemma init_DInv : DInv init_disp.
Proof. unfold DInv, cur_ok, init_disp; simpl. repeat split; auto. Qed.

Lemma init_cp_inv : forall c cus n, CPInv (init_cp c cus n).
Proof.
  intros. constructor; simpl; auto.
  - apply Forall_forall. intros d Hd. apply repeat_spec in Hd. subst. apply init_DInv.
  - unfold running. induction n; simpl; auto.
Qed.

Lemma crashed_sticky : forall evs s, crashed (sh s) = true -> crashed (sh (run s evs)) = true.
Proof.
  induction evs; intros s H; simpl; auto. apply IHevs. unfold step. rewrite H. simpl. exact H.
Qed.

Lemma run_inv : forall evs s, CPInv s -> crashed (sh (run s evs)) = false -> CPInv (run s evs).
Proof.
  induction evs as [|e evs IH]; intros s HI Hc; simpl in *; auto.
  apply IH; auto. apply step_inv; auto.
  destruct (crashed (sh (fst (step s e)))) eqn:E; auto.
  rewrite (crashed_sticky evs _ E) in Hc. discriminate.
Qed.

(** * The shared pool: every CU keeps the resource invariant *)

Definition PoolInv (cfgs : list cucfg) (p : list cu) : Prop := Forall2 Inv cfgs p.

Definition dem_ok (dm : demand) : Prop := 1 <= d_nwf dm.
Definition launch_ok (l : launch) : Prop := Forall dem_ok (lr_wgs l).
Definition DemOK (d : disp) : Prop :=
  match a_cur d with Some (_, dm) => dem_ok dm | None => True end /\ Forall dem_ok (a_rest d).

Lemma pool_set_nth : forall cfgs p i c cu',
  PoolInv cfgs p -> nth_error cfgs i = Some c -> Inv c cu' -> PoolInv cfgs (set_nth i cu' p).
Proof.
  unfold PoolInv. intros cfgs p i c cu' H. revert i. induction H; intros i Hi Hc.
  - destruct i; discriminate.
  - destruct i as [|i]; simpl in Hi.
    + inversion Hi; subst. unfold set_nth, upd. simpl. constructor; auto.
    + unfold set_nth, upd in *. simpl. constructor; auto.
Qed.

Lemma pool_nth : forall cfgs p i, PoolInv cfgs p -> i < length p ->
  exists c, nth_error cfgs i = Some c /\ Inv c (nth i p dummy_cu).
Proof.
  unfold PoolInv. intros cfgs p i H. revert i. induction H; intros i Hi; simpl in Hi; [lia|].
  destruct i as [|i]; simpl; eauto. apply IHForall2. lia.
Qed.

Lemma set_nth_length : forall A i (x : A) l, length (set_nth i x l) = length l.
Proof. intros. apply upd_length. Qed.

Lemma set_nth_nil : forall A i (x : A), set_nth i x [] = [].
Proof. intros. unfold set_nth, upd. rewrite firstn_nil, skipn_nil. reflexivity. Qed.

Lemma rr_scan_pool : forall cfgs fuel i p start k dm p' r,
  PoolInv cfgs p -> dem_ok dm -> rr_scan fuel i p start k dm = Some (p', r) -> PoolInv cfgs p'.
Proof.
  induction fuel; intros i p start k dm p' r HP Hd H; simpl in H.
  - inversion H; subst; auto.
  - destruct (Nat.eq_dec (length p) 0) as [Hz|Hz].
    { destruct p; [|simpl in Hz; lia]. inversion HP; subst.
      destruct (reserve _ k dm) as [|c' [locs|]]; [discriminate| |].
      - inversion H; subst. rewrite set_nth_nil. constructor.
      - eapply IHfuel; [|eauto|eauto]. rewrite set_nth_nil. constructor. }
    assert (Hlt : (start + i) mod length p < length p) by (apply Nat.mod_upper_bound; auto).
    destruct (pool_nth _ _ _ HP Hlt) as [c [Hc HI]].
    destruct (reserve _ k dm) as [|c' [locs|]] eqn:E; [discriminate| |].
    + inversion H; subst. eapply pool_set_nth; eauto. eapply reserve_inv; eauto.
    + eapply IHfuel; [|eauto|eauto]. eapply pool_set_nth; eauto. eapply reserve_inv; eauto.
Qed.

Lemma rr_next_pool : forall cfgs alg p d p' d' r,
  PoolInv cfgs p -> DemOK d -> rr_next alg p d = Some (p', d', r) -> PoolInv cfgs p' /\ DemOK d'.
Proof.
  intros cfgs alg p d p' d' r HP [Ha Hr] H. unfold rr_next in H.
  assert (Hf : forall df, (match a_cur d with
                    | Some _ => Some d
                    | None => match a_rest d with
                              | [] => None
                              | dm :: r => Some (d <| a_cur := Some ((a_lid d, a_idx d), dm) |> <| a_rest := r |>
                                                   <| a_idx := (a_idx d + 1)%N |>)
                              end
                    end) = Some df -> DemOK df).
  { intros df E. destruct (a_cur d) as [[k dm]|] eqn:Ea.
    - inversion E; subst. split; auto. rewrite Ea. auto.
    - destruct (a_rest d) as [|dm r0] eqn:Er; [discriminate|]. inversion E; subst.
      inversion Hr; subst. split; simpl; auto. }
  match type of H with (match ?X with _ => _ end) = _ => destruct X as [df|] eqn:Edf end; [|discriminate].
  specialize (Hf df eq_refl). destruct Hf as [Hfa Hfr].
  destruct (a_cur df) as [[k dm]|] eqn:Ea; [|discriminate].
  destruct (rr_scan _ _ _ _ _ _) as [[p1 [pl|]]|] eqn:Es; [| |discriminate].
  - inversion H; subst. split; [eapply rr_scan_pool; eauto|]. split; simpl; auto.
  - inversion H; subst. split; [eapply rr_scan_pool; eauto|]. split; auto. rewrite Ea. auto.
Qed.

Lemma dispatch_next_pool : forall cfgs c s d s' d' pr,
  PoolInv cfgs (pool s) -> DemOK d -> dispatch_next c s d = (s', d', pr) ->
  PoolInv cfgs (pool s') /\ DemOK d'.
Proof.
  intros cfgs c s d s' d' pr HP HD H. unfold dispatch_next in H.
  match type of H with (match ?X with _ => _ end) = _ => destruct X as [[s1 d1]|] eqn:Est end.
  2: { inversion H; subst; auto. }
  assert (H1 : PoolInv cfgs (pool s1) /\ DemOK d1).
  { destruct (cur_wg d); [inversion Est; subst; auto|].
    destruct (negb (has_next d)); [discriminate|].
    destruct (rr_next (c_alg c) (pool s) d) as [[[p' df] [pl|]]|] eqn:En.
    - inversion Est; subst. destruct (rr_next_pool _ _ _ _ _ _ _ HP HD En). split; simpl; auto.
    - inversion Est; subst. destruct (rr_next_pool _ _ _ _ _ _ _ HP HD En). split; simpl; auto.
    - inversion Est; subst. split; simpl; auto. }
  destruct H1 as [HP1 HD1].
  destruct (crashed s1); [inversion H; subst; auto|].
  destruct (cur_wg d1); [|inversion H; subst; auto].
  destruct (g_cur d1); [|inversion H; subst; auto].
  destruct (length (cu_out s1) <? c_cap c); [|inversion H; subst; auto].
  destruct (16 <? _); inversion H; subst; split; simpl; auto.
Qed.

Lemma dispatch_loop_pool : forall cfgs fuel c s d s' d' pr,
  PoolInv cfgs (pool s) -> DemOK d -> dispatch_loop fuel c s d = (s', d', pr) ->
  PoolInv cfgs (pool s') /\ DemOK d'.
Proof.
  induction fuel; intros c s d s' d' pr HP HD H; simpl in H; [inversion H; subst; auto|].
  destruct (dispatch_next c s d) as [[s1 d1] p1] eqn:E1.
  destruct (dispatch_next_pool _ _ _ _ _ _ _ HP HD E1) as [HP1 HD1].
  destruct (negb p1 || (0 <? cycle_left d1)%N || crashed s1); [inversion H; subst; auto|].
  destruct (dispatch_loop fuel c s1 d1) as [[s2 d2] p2] eqn:E2. inversion H; subst.
  eapply IHfuel; eauto.
Qed.

Lemma complete_ids_pool : forall cfgs c ids s d s' d',
  PoolInv cfgs (pool s) -> DemOK d -> complete_ids c ids s d = (s', d') ->
  PoolInv cfgs (pool s') /\ DemOK d'.
Proof.
  induction ids as [|id r IH]; intros s d s' d' HP HD H; simpl in H; [inversion H; subst; auto|].
  destruct (crashed s); [inversion H; subst; auto|].
  destruct (lookup_id id (inflight d)) as [w|]; [|inversion H; subst; auto].
  destruct (free _ _) as [c'|] eqn:Ef; [|inversion H; subst; auto].
  eapply IH; [| |exact H].
  - simpl. destruct (Nat.lt_ge_cases (dl_cu w) (length (pool s))) as [Hlt|Hge].
    + destruct (pool_nth _ _ _ HP Hlt) as [c0 [Hc HI]]. eapply pool_set_nth; eauto. eapply free_inv; eauto.
    + unfold set_nth, upd. rewrite firstn_all2 by lia. rewrite skipn_all2 by lia. rewrite app_nil_r. auto.
  - destruct (_ =? _)%N; exact HD.
Qed.

Lemma process_msgs_pool : forall cfgs fuel c s d s' d' pr,
  PoolInv cfgs (pool s) -> DemOK d -> process_msgs fuel c s d = (s', d', pr) ->
  PoolInv cfgs (pool s') /\ DemOK d'.
Proof.
  induction fuel; intros c s d s' d' pr HP HD H; simpl in H; [inversion H; subst; auto|].
  destruct (cu_in s) as [|ids rest]; [inversion H; subst; auto|].
  destruct (filter (known d) ids) as [|m0 mine]; [inversion H; subst; auto|].
  destruct (complete_ids c (m0 :: mine) s d) as [s1 d1] eqn:E1.
  destruct (complete_ids_pool _ _ _ _ _ _ _ HP HD E1) as [HP1 HD1].
  destruct (crashed s1); [inversion H; subst; auto|].
  destruct (filter (fun id => negb (known d id)) ids) as [|o0 others].
  - destruct (process_msgs fuel c _ d1) as [[s3 d3] p3] eqn:E3. inversion H; subst.
    eapply IHfuel; [| |exact E3]; simpl; auto.
  - inversion H; subst. split; simpl; auto.
Qed.

Lemma disp_tick_pool : forall cfgs c s d s' d' pr,
  PoolInv cfgs (pool s) -> DemOK d -> disp_tick c s d = (s', d', pr) ->
  PoolInv cfgs (pool s') /\ DemOK d'.
Proof.
  intros cfgs c s d s' d' pr HP HD H. unfold disp_tick in H.
  destruct (crashed s); [inversion H; subst; auto|].
  destruct (0 <? cycle_left d)%N; [inversion H; subst; auto|].
  destruct (match dispatching d with
            | Some l => if kernel_completed d then complete_kernel c s d l else dispatch_loop 8 c s d
            | None => (s, d, false)
            end) as [[s1 d1] p1] eqn:E1.
  assert (H1 : PoolInv cfgs (pool s1) /\ DemOK d1).
  { destruct (dispatching d); [|inversion E1; subst; auto].
    destruct (kernel_completed d).
    - unfold complete_kernel in E1. destruct (_ <? _); inversion E1; subst; auto.
    - eapply dispatch_loop_pool; eauto. }
  destruct H1 as [HP1 HD1].
  destruct (crashed s1); [inversion H; subst; auto|].
  destruct (process_msgs 8 c s1 d1) as [[s2 d2] p2] eqn:E2. inversion H; subst.
  eapply process_msgs_pool; eauto.
Qed.

Lemma tick_disps_pool : forall cfgs c ds s s' ds' pr,
  PoolInv cfgs (pool s) -> Forall DemOK ds -> tick_disps c s ds = (s', ds', pr) ->
  PoolInv cfgs (pool s') /\ Forall DemOK ds'.
Proof.
  induction ds as [|d r IH]; intros s s' ds' pr HP HD H; simpl in H; [inversion H; subst; auto|].
  destruct (disp_tick c s d) as [[s1 d1] p1] eqn:E1.
  destruct (tick_disps c s1 r) as [[s2 r2] p2] eqn:E2. inversion H; subst.
  inversion HD as [|? ? Hd Hr]; subst.
  destruct (disp_tick_pool _ _ _ _ _ _ _ HP Hd E1) as [HP1 HD1].
  destruct (IH _ _ _ _ HP1 Hr E2) as [HP2 HD2]. split; auto.
Qed.

Record PInv (cfgs : list cucfg) (s : cp) : Prop := mkPInv {
  pi_pool : PoolInv cfgs (pool (sh s));
  pi_disps : Forall DemOK (disps s);
  pi_in : Forall launch_ok (drv_in s)
}.

Lemma start_on_first_idle_dem : forall c ds l ds',
  Forall DemOK ds -> launch_ok l -> start_on_first_idle c ds l = Some ds' -> Forall DemOK ds'.
Proof.
  induction ds as [|d r IH]; intros l ds' HD Hl H; simpl in H; [discriminate|].
  inversion HD as [|? ? Hd Hr]; subst.
  destruct (dispatching d).
  - destruct (start_on_first_idle c r l) eqn:E; [|discriminate]. inversion H; subst.
    constructor; eauto.
  - inversion H; subst. constructor; auto. destruct Hd as [Ha _]. split; simpl; auto.
Qed.

Lemma handle_launch_pool : forall cfgs s s' p, PInv cfgs s -> handle_launch s = (s', p) -> PInv cfgs s'.
Proof.
  intros cfgs s s' p [HP HD HL] H. unfold handle_launch in H.
  destruct (drv_in s) as [|l rest] eqn:Ei; [inversion H; subst; constructor; auto; rewrite Ei; auto|].
  inversion HL; subst.
  destruct (start_on_first_idle (cfg s) (disps s) l) as [ds|] eqn:E.
  - inversion H; subst. constructor; simpl; auto. eapply start_on_first_idle_dem; eauto.
  - inversion H; subst. constructor; auto. rewrite Ei; auto.
Qed.

Definition ev_ok (e : ev) : Prop := match e with ELaunch l => launch_ok l | _ => True end.

Lemma step_pool : forall cfgs s e, PInv cfgs s -> ev_ok e -> PInv cfgs (fst (step s e)).
Proof.
  intros cfgs s e HI He. unfold step. destruct (crashed (sh s)) eqn:Ec; [exact HI|].
  destruct e; simpl in He.
  - destruct (_ <? _); simpl; auto. destruct HI. constructor; simpl; auto.
    apply Forall_app; auto.
  - destruct (_ <? _); simpl; auto. destruct HI. constructor; simpl; auto.
  - destruct (cp_tick s) as [s' p] eqn:E. simpl. unfold cp_tick in E. rewrite Ec in E.
    destruct (tick_disps (cfg s) (sh s) (disps s)) as [[sh1 ds1] p1] eqn:E1.
    destruct HI as [HP HD HL].
    destruct (tick_disps_pool _ _ _ _ _ _ _ HP HD E1) as [HP1 HD1].
    assert (HI1 : PInv cfgs (s <| sh := sh1 |> <| disps := ds1 |>)) by (constructor; simpl; auto).
    destruct (crashed sh1); [inversion E; subst; auto|].
    destruct (handle_launch _) as [s2 p2] eqn:E2 in E.
    destruct (handle_launch s2) as [s3 p3] eqn:E3. inversion E; subst.
    eapply handle_launch_pool; [|exact E3]. eapply handle_launch_pool; eauto.
  - destruct (cu_out (sh s)); simpl; auto. destruct HI. constructor; simpl; auto.
  - destruct (drv_out (sh s)); simpl; auto. destruct HI. constructor; simpl; auto.
Qed.

Lemma run_pool : forall cfgs evs s, PInv cfgs s -> Forall ev_ok evs -> PInv cfgs (run s evs).
Proof.
  induction evs as [|e evs IH]; intros s HI He; simpl; auto.
  inversion He; subst. apply IH; auto. apply step_pool; auto.
Qed.

Lemma init_pool : forall c cus n, PInv cus (init_cp c cus n).
Proof.
  intros. constructor; simpl.
  - unfold PoolInv. induction cus; simpl; constructor; auto. apply init_inv.
  - apply Forall_forall. intros d Hd. apply repeat_spec in Hd. subst. split; simpl; auto.
  - constructor.
Qed.
