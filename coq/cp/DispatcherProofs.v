(** Proofs about VCp.Dispatcher on the small-step system of DispatcherSteps:
    per-dispatcher accounting invariant, history of finished launches, for
    every placement algorithm (round-robin, greedy, partition) and every
    sequence of environment events; then (code level) the resource invariant
    of every CU of the shared pool. *)
From Coq Require Import List NArith Bool Arith Lia ZifyN ZifyNat ZifyBool Permutation.
From VCp Require Import Resource ResourceProofs Dispatcher DispatcherSteps.
From RecordUpdate Require Import RecordSet.
Import ListNotations RecordSetNotations.
Open Scope nat_scope.

Definition pl_kd (p : placement) : kd := (pl_key p, pl_dem p).
Definition kd_of_sent (mp : mapreq * placement) : kd := pl_kd (snd mp).

(** round-robin and greedy hand the work-groups out in grid order; the
    partition algorithm in some order *)
Definition gridrel (alg : algo) (g l : list kd) : Prop :=
  if is_partition alg then Permutation g l else g = l.

Lemma gridrel_perm : forall alg g l, gridrel alg g l -> Permutation g l.
Proof. intros alg g l H. unfold gridrel in H. destruct (is_partition alg); subst; auto. Qed.

(** a placement records a reservation that succeeded on the CU as it was *)
Definition pl_ok (p : placement) : Prop :=
  exists c', reserve (pl_before p) (pl_key p) (pl_dem p) = Ret c' (Some (pl_locs p)).

Definition mr_ok (mp : mapreq * placement) : Prop :=
  mr_key (fst mp) = pl_key (snd mp) /\ mr_cu (fst mp) = pl_cu (snd mp) /\
  mr_locs (fst mp) = pl_locs (snd mp) /\ pl_ok (snd mp).

Definition cur_ok (d : disp) : Prop :=
  match cur_wg d, g_cur d with
  | Some w, Some p => dl_cu w = pl_cu p /\ dl_key w = pl_key p /\ dl_locs w = pl_locs p /\ pl_ok p
  | None, None => True
  | _, _ => False
  end.

(** work-groups of the current launch that have been placed *)
Definition placed (d : disp) : list kd :=
  map kd_of_sent (g_sent d) ++ map pl_kd (opt_list (g_cur d)).

Definition DInv (alg : algo) (d : disp) : Prop :=
  cur_ok d /\ Forall mr_ok (g_sent d) /\
  (n_comp d + N.of_nat (length (inflight d)) = n_disp d)%N /\
  match dispatching d with
  | None => cur_wg d = None /\ inflight d = [] /\ g_sent d = [] /\ alg_pending alg d = [] /\ has_next d = false
  | Some l =>
    gridrel alg (grid_of l) (placed d ++ alg_pending alg d) /\
    n_disp d = N.of_nat (length (g_sent d)) /\
    a_ndisp d = N.of_nat (length (g_sent d) + length (opt_list (g_cur d))) /\
    a_numwg d = N.of_nat (length (lr_wgs l))
  end.

(** what is recorded when a LaunchKernelRsp is sent *)
Definition fin_ok (alg : algo) (f : finished) : Prop :=
  gridrel alg (grid_of (f_launch f)) (map kd_of_sent (f_sent f)) /\
  Forall mr_ok (f_sent f) /\
  f_ndisp f = N.of_nat (length (lr_wgs (f_launch f))) /\ f_ncomp f = f_ndisp f.

Lemma remove_id_length : forall id l w, lookup_id id l = Some w -> S (length (remove_id id l)) = length l.
Proof.
  induction l as [|[i x] l IH]; intros w H; simpl in *; [discriminate|].
  destruct (i =? id)%N; [reflexivity|]. simpl. rewrite (IH w H). reflexivity.
Qed.

Lemma kernel_completed_facts : forall alg d l,
  DInv alg d -> dispatching d = Some l -> kernel_completed d = true ->
  gridrel alg (grid_of l) (map kd_of_sent (g_sent d)) /\ n_disp d = N.of_nat (length (lr_wgs l)) /\
  n_comp d = n_disp d /\ inflight d = [] /\ cur_wg d = None /\ g_cur d = None /\ alg_pending alg d = [] /\
  has_next d = false.
Proof.
  intros alg d l [Hcur [Hsent [Hcnt Hd]]] El Hk. rewrite El in Hd. destruct Hd as [Hg [Hnd [Had Hnw]]].
  unfold kernel_completed in Hk. destruct (cur_wg d) eqn:Ew; [discriminate|].
  unfold cur_ok in Hcur. rewrite Ew in Hcur. destruct (g_cur d) eqn:Eg; [tauto|].
  apply andb_true_iff in Hk. destruct Hk as [Hn Hc]. pose proof Hn as Hn0. apply negb_true_iff in Hn0.
  unfold has_next in Hn.
  apply negb_true_iff, N.ltb_ge in Hn. apply negb_true_iff, N.ltb_ge in Hc.
  unfold placed in Hg. rewrite Eg in Hg. simpl in Hg, Had. rewrite app_nil_r in Hg.
  assert (Hlen : length (grid_of l) = length (lr_wgs l)) by apply enum_from_length.
  rewrite (Permutation_length (gridrel_perm _ _ _ Hg)) in Hlen. rewrite app_length, map_length in Hlen.
  assert (Hp : alg_pending alg d = []) by (destruct (alg_pending alg d); [reflexivity|simpl in Hlen; lia]).
  rewrite Hp, app_nil_r in Hg.
  assert (Hi : inflight d = []) by (destruct (inflight d); [reflexivity|simpl in Hcnt; lia]).
  rewrite Hi in Hcnt. simpl in Hcnt.
  rewrite Hp in Hlen. simpl in Hlen.
  repeat split; auto; lia.
Qed.

(** ** one step of one dispatcher *)

Lemma dstep_DInv : forall c x y, dstep c x y -> DInv (c_alg c) (snd x) -> DInv (c_alg c) (snd y).
Proof.
  intros c x y H HD. destruct H; simpl in *.
  - (* internal *)
    destruct (core_fields _ _ H) as [E1 [E2 [E3 [E4 [E5 [E6 [E7 [E8 [E9 [E10 [E11 [E12 E13]]]]]]]]]]]].
    unfold DInv, cur_ok, placed, has_next in *. rewrite E1, E2, E4, E5, E6, E9, E10, E12, E13, H0. exact HD.
  - exact HD.
  - (* place *)
    destruct (core_fields _ _ H4) as [E1 [E2 [E3 [E4 [E5 [E6 [E7 [E8 [E9 [E10 [E11 [E12 E13]]]]]]]]]]]].
    simpl in *. destruct HD as [Hcur [Hsent [Hcnt Hd]]].
    unfold cur_ok in Hcur. rewrite H in Hcur. destruct (g_cur d) eqn:Eg; [tauto|].
    destruct (dispatching d) as [l|] eqn:El; [|congruence]. destruct Hd as [Hg [Hnd [Had Hnw]]].
    unfold DInv, cur_ok, placed in *. rewrite E1, E2, E4, E5, E6, E9, E10, E12, E13. simpl.
    split; [repeat split; auto; exists cu'; simpl; auto|]. split; auto. split; auto.
    rewrite Eg in *. simpl in *. rewrite app_nil_r in Hg.
    split; [|split; [auto|split; [lia|auto]]].
    unfold gridrel in *. destruct (is_partition (c_alg c)) eqn:Ep.
    + rewrite Hg. rewrite <- app_assoc. apply Permutation_app_head. simpl. exact H5.
    + rewrite Hg, (H6 eq_refl), <- app_assoc. reflexivity.
  - (* send *)
    destruct HD as [Hcur [Hsent [Hcnt Hd]]].
    unfold cur_ok in Hcur. rewrite H, H0 in Hcur. destruct Hcur as [Hc1 [Hc2 [Hc3 Hc4]]].
    unfold DInv, cur_ok, placed, send_d in *. simpl.
    split; auto. split.
    { apply Forall_app. split; auto. constructor; auto. unfold mr_ok; simpl. auto. }
    split; [lia|].
    destruct (dispatching d) as [l|].
    + destruct Hd as [Hg [Hnd [Had Hnw]]]. rewrite H0 in Hg, Had. simpl in *.
      split; [rewrite map_app, app_nil_r; simpl; rewrite <- app_assoc in *; simpl in *; exact Hg|].
      rewrite app_length; simpl. split; [lia|]. split; [lia|auto].
    + destruct Hd as [Hw _]. congruence.
  - (* complete *)
    destruct HD as [Hcur [Hsent [Hcnt Hd]]].
    pose proof (remove_id_length _ _ _ H1) as Hlen.
    assert (Hbase : forall cl,
      DInv (c_alg c) (d <| inflight := remove_id id (inflight d) |> <| n_comp := (n_comp d + 1)%N |> <| cycle_left := cl |>)).
    { intros cl. unfold DInv, cur_ok, placed in *. simpl. split; auto. split; auto. split; [lia|].
      destruct (dispatching d); auto.
      destruct Hd as [? [Hi ?]]. rewrite Hi in H1. simpl in H1. discriminate. }
    unfold complete_d. simpl. destruct (_ =? _)%N.
    + apply Hbase.
    + specialize (Hbase (cycle_left d)). unfold DInv, cur_ok, placed in *. simpl in *. exact Hbase.
  - (* response *)
    destruct (kernel_completed_facts _ _ _ HD H H0) as [Hg [Hnd [Hnc [Hi [Hw [Hgc [Hp Hhn]]]]]]].
    destruct HD as [Hcur [Hsent [Hcnt Hd]]].
    unfold DInv, cur_ok, placed in *. simpl. rewrite Hw, Hgc, Hi in *. simpl.
    split; auto. split; [constructor|]. split; [lia|]. auto.
  - (* countdown *)
    unfold DInv, cur_ok, placed in *. simpl. exact HD.
Qed.

(** effect of a step on the shared logs *)
Lemma dstep_effect : forall c x y, dstep c x y -> DInv (c_alg c) (snd x) ->
  (g_hist (fst y) = g_hist (fst x) /\ drv_out (fst y) = drv_out (fst x) /\
   dispatching (snd y) = dispatching (snd x)) \/
  (exists l f, dispatching (snd x) = Some l /\ dispatching (snd y) = None /\ f_launch f = l /\
               fin_ok (c_alg c) f /\ g_hist (fst y) = g_hist (fst x) ++ [f] /\
               drv_out (fst y) = drv_out (fst x) ++ [lr_id l]).
Proof.
  intros c x y H HD. destruct H; simpl in *; try (left; repeat split; auto; fail).
  - left. destruct (core_fields _ _ H) as [E1 _]. auto.
  - left. destruct (core_fields _ _ H4) as [E1 _]. simpl in E1. auto.
  - left. repeat split; auto. unfold complete_d. destruct (_ =? _)%N; reflexivity.
  - right. destruct (kernel_completed_facts _ _ _ HD H H0) as [Hg [Hnd [Hnc [Hi [Hw [Hgc [Hp Hhn]]]]]]].
    destruct HD as [_ [Hsent _]].
    exists l, (mkFin l (g_sent d) (n_disp d) (n_comp d)). simpl. repeat split; auto.
Qed.

(** ** the command processor *)

Definition running (ds : list disp) : list launch := flat_map (fun d => opt_list (dispatching d)) ds.

Lemma running_app : forall a b, running (a ++ b) = running a ++ running b.
Proof. intros. unfold running. apply flat_map_app. Qed.

Record CPInv (s : cp) : Prop := mkCPInv {
  ci_disps : Forall (DInv (c_alg (cfg s))) (disps s);
  ci_hist : Forall (fin_ok (c_alg (cfg s))) (g_hist (sh s));
  ci_started : Permutation (g_started s) (map f_launch (g_hist (sh s)) ++ running (disps s));
  ci_rsps : g_rretr s ++ drv_out (sh s) = map (fun f => lr_id (f_launch f)) (g_hist (sh s))
}.

Lemma flat_map_map_S : forall A (f : nat -> list A) l, flat_map f (map S l) = flat_map (fun i => f (S i)) l.
Proof. induction l; simpl; auto. rewrite IHl. reflexivity. Qed.

Lemma skipn_skipn' : forall A b a (l : list A), skipn a (skipn b l) = skipn (b + a) l.
Proof.
  induction b; intros a l; simpl; auto. destruct l; simpl; [destruct a; reflexivity|apply IHb].
Qed.

Lemma enum_from_nil_any : forall lid a b, enum_from lid a [] = enum_from lid b [].
Proof. reflexivity. Qed.

Lemma enum_from_skipn_chunks : forall per m l lid idx,
  length l <= m * per ->
  flat_map (fun i => enum_from lid (idx + N.of_nat (i * per))%N (firstn per (skipn (i * per) l))) (seq 0 m) =
  enum_from lid idx l.
Proof.
  intros per m. induction m as [|m IH]; intros l lid idx Hl.
  - simpl in *. destruct l; [reflexivity|simpl in Hl; lia].
  - change (seq 0 (S m)) with (0 :: seq 1 m). rewrite <- seq_shift. cbn [flat_map].
    rewrite flat_map_map_S.
    assert (E : enum_from lid idx l = enum_from lid idx (firstn per l) ++
                  enum_from lid (idx + N.of_nat (length (firstn per l)))%N (skipn per l)).
    { rewrite <- enum_from_app, firstn_skipn. reflexivity. }
    rewrite E. f_equal.
    + simpl. f_equal. lia.
    + rewrite <- (IH (skipn per l) lid (idx + N.of_nat (length (firstn per l)))%N).
      2: { rewrite skipn_length. lia. }
      apply flat_map_ext. intros i.
      replace (skipn (S i * per) l) with (skipn (i * per) (skipn per l)).
      2: { rewrite skipn_skipn'. f_equal; try lia. }
      destruct (Nat.le_gt_cases per (length l)) as [Hle|Hgt].
      * rewrite firstn_length_le by lia. f_equal. lia.
      * rewrite (skipn_all2 l) by lia. rewrite skipn_nil, firstn_nil. reflexivity.
Qed.

Lemma combine_map_repeat : forall A B C (f : A -> B) (y : C) l,
  combine (map f l) (repeat y (length l)) = map (fun i => (f i, y)) l.
Proof. induction l; simpl; auto. f_equal. exact IHl. Qed.

Lemma start_pending : forall c ncu d l,
  (is_partition (c_alg c) = true -> 0 < ncu) ->
  (is_partition (c_alg c) = false -> a_cur d = None) ->
  gridrel (c_alg c) (grid_of l) (alg_pending (c_alg c) (start_dispatching c ncu d l)).
Proof.
  intros c ncu d l Hn Ha. unfold gridrel, start_dispatching, alg_start, alg_pending.
  destruct (c_alg c) eqn:E; simpl in *.
  - rewrite (Ha eq_refl). reflexivity.
  - rewrite (Ha eq_refl). reflexivity.
  - specialize (Hn eq_refl). unfold part_pending. simpl.
    set (per := per_partition (length (lr_wgs l)) ncu).
    assert (Hz : combine (map (fun i => mkPart (skipn (i * per) (lr_wgs l)) (N.of_nat (i * per)) 0) (seq 0 ncu))
                         (repeat (@None kd) ncu) =
                 map (fun i => (mkPart (skipn (i * per) (lr_wgs l)) (N.of_nat (i * per)) 0, None)) (seq 0 ncu)).
    { rewrite <- (seq_length ncu 0) at 2. apply combine_map_repeat. }
    setoid_rewrite Hz. rewrite flat_map_concat_map, map_map, <- flat_map_concat_map.
    unfold part_todo. cbn [fst snd opt_list length app pt_idx pt_disp pt_rest].
    unfold grid_of. rewrite <- (enum_from_skipn_chunks per ncu (lr_wgs l) (lr_id l) 0%N).
    + apply Permutation_refl'. apply flat_map_ext. intros i.
      replace (per - (0 + 0)) with per by lia. f_equal; try lia.
    + unfold per, per_partition. destruct (length (lr_wgs l)) as [|m] eqn:El; [lia|].
      pose proof (Nat.div_mod m ncu ltac:(lia)) as Hdm.
      pose proof (Nat.mod_upper_bound m ncu ltac:(lia)). nia.
Qed.

Lemma start_DInv : forall c ncu d l,
  (is_partition (c_alg c) = true -> 0 < ncu) ->
  DInv (c_alg c) d -> dispatching d = None -> DInv (c_alg c) (start_dispatching c ncu d l).
Proof.
  intros c ncu d l Hn [Hcur [Hsent [Hcnt Hd]]] El. rewrite El in Hd. destruct Hd as [Hw [Hi [Hs [Hp _]]]].
  unfold cur_ok in Hcur. rewrite Hw in Hcur. destruct (g_cur d) eqn:Eg; [tauto|].
  assert (Ha : is_partition (c_alg c) = false -> a_cur d = None).
  { intros Hf. unfold alg_pending in Hp. destruct (c_alg c); try discriminate;
      destruct (a_cur d); simpl in Hp; congruence. }
  pose proof (start_pending c ncu d l Hn Ha) as Hg.
  unfold DInv, cur_ok, placed.
  assert (E1 : cur_wg (start_dispatching c ncu d l) = None).
  { unfold start_dispatching, alg_start. destruct (c_alg c); simpl; auto. }
  assert (E2 : g_cur (start_dispatching c ncu d l) = None).
  { unfold start_dispatching, alg_start. destruct (c_alg c); simpl; auto. }
  assert (E3 : g_sent (start_dispatching c ncu d l) = []) by reflexivity.
  assert (E4 : inflight (start_dispatching c ncu d l) = []).
  { unfold start_dispatching, alg_start. destruct (c_alg c); simpl; auto. }
  assert (E5 : dispatching (start_dispatching c ncu d l) = Some l) by reflexivity.
  assert (E6 : n_disp (start_dispatching c ncu d l) = 0%N /\ n_comp (start_dispatching c ncu d l) = 0%N) by (split; reflexivity).
  assert (E7 : a_ndisp (start_dispatching c ncu d l) = 0%N /\
               a_numwg (start_dispatching c ncu d l) = N.of_nat (length (lr_wgs l))).
  { unfold start_dispatching, alg_start. destruct (c_alg c); simpl; auto. }
  destruct E6 as [E6 E6']. destruct E7 as [E7 E7'].
  rewrite E1, E2, E3, E4, E5, E6, E6', E7, E7'. simpl.
  split; auto. split; [constructor|]. split; [lia|]. split; [exact Hg|]. auto.
Qed.

Lemma cpstep_CPInv : forall s s', cpstep s s' -> CPInv s -> CPInv s' /\ cfg s' = cfg s.
Proof.
  intros s s' H HI. destruct HI as [HD HH HS HR]. destruct H as [H|H]; destruct H.
  - (* a step of one dispatcher *)
    inversion H as [s0 s0' ds1 d d' ds2 Hst]; subst.
    match goal with E : _ ++ _ :: _ = disps s |- _ => rewrite <- E in *; clear E end.
    apply Forall_app in HD. destruct HD as [HD1 HD2]. inversion HD2 as [|? ? HDd HD3]; subst.
    pose proof (dstep_DInv _ _ _ Hst HDd) as HDd'. pose proof (dstep_effect _ _ _ Hst HDd) as Heff. simpl in *.
    split; [|reflexivity]. constructor; simpl.
    + apply Forall_app. split; auto.
    + destruct Heff as [[Eh _]|[l [f [_ [_ [_ [Hf [Eh _]]]]]]]]; rewrite Eh; auto.
      apply Forall_app. split; auto.
    + rewrite !running_app in *. simpl in *.
      destruct Heff as [[Eh [_ Ed]]|[l [f [Ed1 [Ed2 [Ef [_ [Eh _]]]]]]]].
      * rewrite Eh, Ed. exact HS.
      * rewrite Eh, Ed2, map_app. rewrite Ed1 in HS. simpl in *. rewrite Ef.
        rewrite HS. rewrite <- !app_assoc. apply Permutation_app_head. simpl.
        apply Permutation_sym. apply Permutation_middle.
    + destruct Heff as [[Eh [Eo _]]|[l [f [_ [_ [Ef [_ [Eh Eo]]]]]]]].
      * rewrite Eh, Eo. exact HR.
      * rewrite Eh, Eo, map_app, app_assoc, HR. simpl. rewrite Ef. reflexivity.
  - (* a launch starts *)
    split; [|reflexivity]. rewrite H1 in *.
    apply Forall_app in HD. destruct HD as [HD1 HD2]. inversion HD2 as [|? ? HDd HD3]; subst.
    constructor; simpl; auto.
    + apply Forall_app. split; auto. constructor; auto. apply start_DInv; auto.
    + rewrite !running_app in *. simpl in *. rewrite H2 in HS. simpl in HS.
      rewrite HS. rewrite <- !app_assoc. apply Permutation_app_head.
      rewrite app_assoc. rewrite Permutation_app_comm. simpl. apply Permutation_middle.
  - split; [|reflexivity]. constructor; simpl; auto.
  - split; [|reflexivity]. constructor; simpl; auto.
  - split; [|reflexivity]. constructor; simpl; auto.
  - split; [|reflexivity]. constructor; simpl; auto.
    rewrite <- HR, H, <- app_assoc. reflexivity.
Qed.

Lemma cpsteps_CPInv : forall s s', cpsteps s s' -> CPInv s -> CPInv s' /\ cfg s' = cfg s.
Proof.
  induction 1; intros HI; [auto|].
  destruct (cpstep_CPInv _ _ H HI) as [HI1 E1]. destruct (IHcpsteps HI1) as [HI2 E2].
  split; auto. congruence.
Qed.

Lemma init_DInv : forall alg, DInv alg init_disp.
Proof. intros alg. unfold DInv, cur_ok, placed, init_disp; simpl. destruct alg; repeat split; auto. Qed.

Lemma init_cp_inv : forall c cus n, CPInv (init_cp c cus n).
Proof.
  intros. constructor; simpl; auto.
  - apply Forall_forall. intros d Hd. apply repeat_spec in Hd. subst. apply init_DInv.
  - unfold running. induction n; simpl; auto.
Qed.

Lemma init_CInt : forall c cus n, CInt (init_cp c cus n).
Proof.
  intros. unfold CInt. simpl. apply Forall_forall. intros d Hd. apply repeat_spec in Hd. subst.
  split.
  - unfold AInt, init_disp. destruct (c_alg c); simpl; auto.
  - split; simpl; [constructor|tauto].
Qed.

Lemma crashed_sticky : forall evs s, crashed (sh s) = true -> crashed (sh (run s evs)) = true.
Proof.
  induction evs; intros s H; simpl; auto. apply IHevs. unfold step. rewrite H. simpl. exact H.
Qed.

(** every run is a sequence of small steps, as long as it does not panic *)
Lemma run_refines : forall evs s,
  crashed (sh s) = false -> CInt s -> crashed (sh (run s evs)) = false ->
  cpsteps s (run s evs) /\ CInt (run s evs).
Proof.
  induction evs as [|e evs IH]; intros s Hc HI Hcr; simpl in *.
  - split; [constructor|auto].
  - destruct (step_ref s e Hc HI) as [x [Hx Hr]].
    destruct Hr as [[Hc1 [-> [HI1 _]]]|[Hc1 _]].
    + destruct (IH _ Hc1 HI1 Hcr) as [H1 H2]. split; auto. eapply cpsteps_trans; eauto.
    + rewrite (crashed_sticky evs _ Hc1) in Hcr. discriminate.
Qed.

Lemma run_inv : forall c cus n evs,
  crashed (sh (run (init_cp c cus n) evs)) = false -> CPInv (run (init_cp c cus n) evs).
Proof.
  intros c cus n evs Hcr.
  destruct (run_refines evs (init_cp c cus n) eq_refl (init_CInt c cus n) Hcr) as [Hs _].
  apply (cpsteps_CPInv _ _ Hs (init_cp_inv c cus n)).
Qed.

(** * The shared pool: every CU keeps the resource invariant *)

Definition PoolInv (cfgs : list cucfg) (p : list cu) : Prop := Forall2 Inv cfgs p.

Definition dem_ok (dm : demand) : Prop := 1 <= d_nwf dm.
Definition launch_ok (l : launch) : Prop := Forall dem_ok (lr_wgs l).
(** every demand the algorithm state still holds *)
Definition alg_dems (d : disp) : list demand :=
  map snd (opt_list (a_cur d)) ++ a_rest d ++ map snd (flat_map opt_list (p_cur d)) ++ flat_map pt_rest (p_parts d).
Definition DemOK (d : disp) : Prop := Forall dem_ok (alg_dems d) /\ length (p_cur d) = length (p_parts d).

Lemma Forall_incl : forall A (P : A -> Prop) l l', Forall P l -> incl l' l -> Forall P l'.
Proof. intros A P l l' H Hi. rewrite Forall_forall in *. auto. Qed.

Lemma in_set_nth : forall A i (y : A) l x, In x (set_nth i y l) -> x = y \/ In x l.
Proof.
  intros A i y l x H. apply In_nth_error in H. destruct H as [j Hj].
  destruct (Nat.eq_dec i j) as [->|Hne].
  - rewrite set_nth_same in Hj. destruct (nth_error l j); simpl in Hj; [inversion Hj; auto|discriminate].
  - rewrite set_nth_other in Hj by auto. right. eapply nth_error_In; eauto.
Qed.

Lemma in_flat_map_set_nth : forall A B (f : A -> list B) i y l z,
  In z (flat_map f (set_nth i y l)) -> In z (f y) \/ In z (flat_map f l).
Proof.
  intros A B f i y l z H. apply in_flat_map in H. destruct H as [x [Hx Hz]].
  apply in_set_nth in Hx. destruct Hx as [->|Hx]; auto. right. apply in_flat_map. eauto.
Qed.


Lemma pool_set_nth : forall cfgs p i c cu',
  PoolInv cfgs p -> nth_error cfgs i = Some c -> Inv c cu' -> PoolInv cfgs (set_nth i cu' p).
Proof.
  unfold PoolInv. intros cfgs p i c cu' H. revert i. induction H; intros i Hi Hc.
  - destruct i; discriminate.
  - destruct i as [|i]; simpl in Hi.
    + inversion Hi; subst. unfold set_nth, upd. simpl. constructor; auto.
    + unfold set_nth, upd in *. simpl. constructor; auto.
Qed.

Lemma pool_nth : forall cfgs p i, PoolInv cfgs p -> i < length p ->
  exists c, nth_error cfgs i = Some c /\ Inv c (nth i p dummy_cu).
Proof.
  unfold PoolInv. intros cfgs p i H. revert i. induction H; intros i Hi; simpl in Hi; [lia|].
  destruct i as [|i]; simpl; eauto. apply IHForall2. lia.
Qed.

Lemma rr_scan_pool : forall cfgs fuel i p start k dm p' r,
  PoolInv cfgs p -> dem_ok dm -> rr_scan fuel i p start k dm = Some (p', r) -> PoolInv cfgs p'.
Proof.
  induction fuel; intros i p start k dm p' r HP Hd H; simpl in H.
  - inversion H; subst; auto.
  - destruct (Nat.eq_dec (length p) 0) as [Hz|Hz].
    { destruct p; [|simpl in Hz; lia]. inversion HP; subst.
      destruct (reserve _ k dm) as [|c' [locs|]]; [discriminate| |].
      - inversion H; subst. rewrite set_nth_nil. constructor.
      - eapply IHfuel; [|eauto|eauto]. rewrite set_nth_nil. constructor. }
    assert (Hlt : (start + i) mod length p < length p) by (apply Nat.mod_upper_bound; auto).
    destruct (pool_nth _ _ _ HP Hlt) as [c [Hc HI]].
    destruct (reserve _ k dm) as [|c' [locs|]] eqn:E; [discriminate| |].
    + inversion H; subst. eapply pool_set_nth; eauto. eapply reserve_inv; eauto.
    + eapply IHfuel; [|eauto|eauto]. eapply pool_set_nth; eauto. eapply reserve_inv; eauto.
Qed.

Lemma rr_next_pool : forall cfgs alg p d p' d' r,
  PoolInv cfgs p -> DemOK d -> rr_next alg p d = Some (p', d', r) -> PoolInv cfgs p' /\ DemOK d'.
Proof.
  intros cfgs alg p d p' d' r HP [HD Hsh] H. unfold rr_next in H.
  assert (Hf : forall df, (match a_cur d with
                    | Some _ => Some d
                    | None => match a_rest d with
                              | [] => None
                              | dm :: r => Some (d <| a_cur := Some ((a_lid d, a_idx d), dm) |> <| a_rest := r |>
                                                   <| a_idx := (a_idx d + 1)%N |>)
                              end
                    end) = Some df -> alg_dems df = alg_dems d /\ p_cur df = p_cur d /\ p_parts df = p_parts d).
  { intros df E. destruct (a_cur d) as [[k dm]|] eqn:Ea.
    - inversion E; subst. auto.
    - destruct (a_rest d) as [|dm r0] eqn:Er; [discriminate|]. inversion E; subst.
      unfold alg_dems. simpl. rewrite Ea, Er. auto. }
  match type of H with (match ?X with _ => _ end) = _ => destruct X as [df|] eqn:Edf end; [|discriminate].
  destruct (Hf df eq_refl) as [Hf1 [Hf2 Hf3]].
  assert (HDf : Forall dem_ok (alg_dems df)) by (rewrite Hf1; exact HD).
  destruct (a_cur df) as [[k dm]|] eqn:Ea; [|discriminate].
  assert (Hdm : dem_ok dm).
  { unfold alg_dems in HDf. rewrite Ea in HDf. simpl in HDf. inversion HDf; auto. }
  destruct (rr_scan _ _ _ _ _ _) as [[p1 [pl|]]|] eqn:Es; [| |discriminate].
  - inversion H; subst. split; [eapply rr_scan_pool; eauto|]. split; [|simpl; congruence].
    eapply Forall_incl; [exact HDf|]. unfold alg_dems. simpl. rewrite Ea. simpl. intros x Hx. right. exact Hx.
  - inversion H; subst. split; [eapply rr_scan_pool; eauto|]. split; [exact HDf|congruence].
Qed.

Lemma first_parked_in : forall l i x j, first_parked l i = Some (x, j) -> In (Some x) l.
Proof.
  induction l as [|[y|] l IH]; intros i x j H; simpl in H; [discriminate| |].
  - inversion H; subst. left; auto.
  - right. eauto.
Qed.

Lemma dems_cur_in : forall d k dm, In (Some (k, dm)) (p_cur d) -> In dm (alg_dems d).
Proof.
  intros d k dm H. unfold alg_dems. apply in_or_app. right. apply in_or_app. right.
  apply in_or_app. left. apply in_map_iff. exists (k, dm). split; auto.
  apply in_flat_map. exists (Some (k, dm)). split; auto. left. auto.
Qed.

Lemma part_fetch_dems : forall d pi d1 r,
  part_fetch d pi = (d1, r) -> DemOK d -> pi < length (p_parts d) ->
  DemOK d1 /\ length (p_parts d1) = length (p_parts d) /\ p_next d1 = p_next d /\
  match r with Some ((k, dm), from) => dem_ok dm | None => True end.
Proof.
  intros d pi d1 r H [HD Hsh] Hpi. unfold part_fetch in H. rewrite Forall_forall in HD.
  destruct (p_per d <=? pt_disp (nth pi (p_parts d) dummy_part)).
  - inversion H; subst d1 r. split; [split; auto; apply Forall_forall; auto|]. split; auto. split; auto.
    destruct (first_parked (p_cur d) 0) as [[[k dm] from]|] eqn:E; auto.
    apply HD. eapply dems_cur_in. eapply first_parked_in; eauto.
  - destruct (nth pi (p_cur d) None) as [[k dm]|] eqn:Ec.
    + inversion H; subst d1 r. split; [split; auto; apply Forall_forall; auto|]. split; auto. split; auto.
      apply HD. apply (dems_cur_in d k dm). rewrite <- Ec. apply nth_In. lia.
    + destruct (pt_rest (nth pi (p_parts d) dummy_part)) as [|dm r0] eqn:Er.
      * inversion H; subst d1 r. split; [split; auto; apply Forall_forall; auto|]. auto.
      * inversion H; subst d1 r; clear H.
        assert (Hpt : In (nth pi (p_parts d) dummy_part) (p_parts d)) by (apply nth_In; exact Hpi).
        assert (Hdm : forall x, In x (dm :: r0) -> In x (flat_map pt_rest (p_parts d))).
        { intros x Hx. apply in_flat_map. exists (nth pi (p_parts d) dummy_part). split; auto. rewrite Er. exact Hx. }
        assert (Hok : dem_ok dm).
        { apply HD. unfold alg_dems. apply in_or_app. right. apply in_or_app. right. apply in_or_app. right.
          apply Hdm. left. auto. }
        split; [|simpl; rewrite set_nth_length; auto].
        split; [|simpl; rewrite !set_nth_length; auto].
        apply Forall_forall. unfold alg_dems. simpl. intros x Hx.
        apply in_app_or in Hx. destruct Hx as [Hx|Hx]; [apply HD; unfold alg_dems; apply in_or_app; auto|].
        apply in_app_or in Hx. destruct Hx as [Hx|Hx];
          [apply HD; unfold alg_dems; apply in_or_app; right; apply in_or_app; auto|].
        apply in_app_or in Hx. destruct Hx as [Hx|Hx].
        -- apply in_map_iff in Hx. destruct Hx as [[k0 dm0] [E0 Hx]]. simpl in E0. subst dm0.
           apply in_flat_map_set_nth in Hx. destruct Hx as [Hx|Hx].
           ++ simpl in Hx. destruct Hx as [Hx|[]]. inversion Hx; subst. exact Hok.
           ++ apply HD. unfold alg_dems. apply in_or_app. right. apply in_or_app. right. apply in_or_app. left.
              apply in_map_iff. exists (k0, x). auto.
        -- apply in_flat_map_set_nth in Hx. destruct Hx as [Hx|Hx].
           ++ simpl in Hx. apply HD. unfold alg_dems. apply in_or_app. right. apply in_or_app. right.
              apply in_or_app. right. apply Hdm. right. exact Hx.
           ++ apply HD. unfold alg_dems. apply in_or_app. right. apply in_or_app. right. apply in_or_app. right.
              exact Hx.
Qed.

Lemma part_scan_pool : forall cfgs fuel index p d p' d' r,
  PoolInv cfgs p -> DemOK d -> (0 < fuel -> 0 < length (p_parts d)) ->
  part_scan fuel index p d = Some (p', d', r) -> PoolInv cfgs p' /\ DemOK d'.
Proof.
  induction fuel; intros index p d p' d' r HP HD Hf H; simpl in H.
  - inversion H; subst. auto.
  - assert (Hp : 0 < length (p_parts d)) by (apply Hf; lia).
    assert (Hi : (index + p_next d) mod length (p_parts d) < length (p_parts d)) by (apply Nat.mod_upper_bound; lia).
    set (i := (index + p_next d) mod length (p_parts d)) in *.
    destruct (part_fetch d i) as [d1 r1] eqn:Ef.
    destruct (part_fetch_dems _ _ _ _ Ef HD Hi) as [HD1 [Hl1 [Hn1 Hr1]]].
    assert (Hf1 : 0 < fuel -> 0 < length (p_parts d1)) by (intros; lia).
    destruct r1 as [[[k dm] from]|]; [|eapply IHfuel; eauto].
    destruct (Nat.lt_ge_cases i (length p)) as [Hlt|Hge].
    + destruct (pool_nth _ _ _ HP Hlt) as [c0 [Hc0 HI0]].
      destruct (reserve (nth i p dummy_cu) k dm) as [|c' [locs|]] eqn:Er; [discriminate| |].
      * inversion H; subst. split; [eapply pool_set_nth; eauto; eapply reserve_inv; eauto|].
        destruct HD1 as [HDa HDb]. split; [|simpl; rewrite !set_nth_length; auto].
        rewrite Forall_forall in *. unfold alg_dems in *. simpl. intros x Hx.
        apply in_app_or in Hx. destruct Hx as [Hx|Hx]; [apply HDa; apply in_or_app; auto|].
        apply in_app_or in Hx. destruct Hx as [Hx|Hx]; [apply HDa; apply in_or_app; right; apply in_or_app; auto|].
        apply in_app_or in Hx. destruct Hx as [Hx|Hx].
        -- apply in_map_iff in Hx. destruct Hx as [[k0 dm0] [E0 Hx]]. simpl in E0. subst dm0.
           apply in_flat_map_set_nth in Hx. destruct Hx as [[]|Hx].
           apply HDa. apply in_or_app. right. apply in_or_app. right. apply in_or_app. left.
           apply in_map_iff. exists (k0, x). auto.
        -- apply in_flat_map_set_nth in Hx. destruct Hx as [Hx|Hx].
           ++ simpl in Hx. apply HDa. apply in_or_app. right. apply in_or_app. right. apply in_or_app. right.
              apply in_flat_map. exists (nth from (p_parts d1) dummy_part). split; auto.
              destruct (Nat.lt_ge_cases from (length (p_parts d1))); [apply nth_In; auto|].
              rewrite nth_overflow in Hx by lia. simpl in Hx. tauto.
           ++ apply HDa. apply in_or_app. right. apply in_or_app. right. apply in_or_app. right. exact Hx.
      * eapply IHfuel; [| | |exact H]; auto. eapply pool_set_nth; eauto. eapply reserve_inv; eauto.
    + (* no such CU: the pool is left as it is *)
      assert (Hs : forall y, set_nth i y p = p).
      { intros y. unfold set_nth, upd. rewrite firstn_all2 by lia. rewrite skipn_all2 by lia. apply app_nil_r. }
      destruct (reserve (nth i p dummy_cu) k dm) as [|c' [locs|]] eqn:Er; [discriminate| |].
      * inversion H; subst. rewrite Hs. split; auto.
        destruct HD1 as [HDa HDb]. split; [|simpl; rewrite !set_nth_length; auto].
        rewrite Forall_forall in *. unfold alg_dems in *. simpl. intros x Hx.
        apply in_app_or in Hx. destruct Hx as [Hx|Hx]; [apply HDa; apply in_or_app; auto|].
        apply in_app_or in Hx. destruct Hx as [Hx|Hx]; [apply HDa; apply in_or_app; right; apply in_or_app; auto|].
        apply in_app_or in Hx. destruct Hx as [Hx|Hx].
        -- apply in_map_iff in Hx. destruct Hx as [[k0 dm0] [E0 Hx]]. simpl in E0. subst dm0.
           apply in_flat_map_set_nth in Hx. destruct Hx as [[]|Hx].
           apply HDa. apply in_or_app. right. apply in_or_app. right. apply in_or_app. left.
           apply in_map_iff. exists (k0, x). auto.
        -- apply in_flat_map_set_nth in Hx. destruct Hx as [Hx|Hx].
           ++ simpl in Hx. apply HDa. apply in_or_app. right. apply in_or_app. right. apply in_or_app. right.
              apply in_flat_map. exists (nth from (p_parts d1) dummy_part). split; auto.
              destruct (Nat.lt_ge_cases from (length (p_parts d1))); [apply nth_In; auto|].
              rewrite nth_overflow in Hx by lia. simpl in Hx. tauto.
           ++ apply HDa. apply in_or_app. right. apply in_or_app. right. apply in_or_app. right. exact Hx.
      * rewrite Hs in H. eapply IHfuel; [| | |exact H]; auto.
Qed.

Lemma alg_next_pool : forall cfgs alg p d p' d' r,
  PoolInv cfgs p -> DemOK d -> alg_next alg p d = Some (p', d', r) -> PoolInv cfgs p' /\ DemOK d'.
Proof.
  intros cfgs alg p d p' d' r HP HD H. unfold alg_next in H. destruct alg.
  - eapply rr_next_pool; eauto.
  - eapply rr_next_pool; eauto.
  - unfold part_next in H. destruct (a_numwg d <=? a_ndisp d)%N.
    + inversion H; subst. auto.
    + eapply part_scan_pool; eauto.
Qed.

Lemma dispatch_next_pool : forall cfgs c s d s' d' pr,
  PoolInv cfgs (pool s) -> DemOK d -> dispatch_next c s d = (s', d', pr) ->
  PoolInv cfgs (pool s') /\ DemOK d'.
Proof.
  intros cfgs c s d s' d' pr HP HD H. unfold dispatch_next in H.
  match type of H with (match ?X with _ => _ end) = _ => destruct X as [[s1 d1]|] eqn:Est end.
  2: { inversion H; subst; auto. }
  assert (H1 : PoolInv cfgs (pool s1) /\ DemOK d1).
  { destruct (cur_wg d); [inversion Est; subst; auto|].
    destruct (negb (has_next d)); [discriminate|].
    destruct (alg_next (c_alg c) (pool s) d) as [[[p' df] [pl|]]|] eqn:En.
    - inversion Est; subst. destruct (alg_next_pool _ _ _ _ _ _ _ HP HD En) as [Hq1 Hq2]. split; simpl; auto.
    - inversion Est; subst. destruct (alg_next_pool _ _ _ _ _ _ _ HP HD En) as [Hq1 Hq2]. split; simpl; auto.
    - inversion Est; subst. split; simpl; auto. }
  destruct H1 as [HP1 HD1].
  destruct (crashed s1); [inversion H; subst; auto|].
  destruct (cur_wg d1); [|inversion H; subst; auto].
  destruct (g_cur d1); [|inversion H; subst; auto].
  destruct (length (cu_out s1) <? c_cap c); [|inversion H; subst; auto].
  destruct (16 <? _); inversion H; subst; split; simpl; auto.
Qed.

Lemma dispatch_loop_pool : forall cfgs fuel c s d s' d' pr,
  PoolInv cfgs (pool s) -> DemOK d -> dispatch_loop fuel c s d = (s', d', pr) ->
  PoolInv cfgs (pool s') /\ DemOK d'.
Proof.
  induction fuel; intros c s d s' d' pr HP HD H; simpl in H; [inversion H; subst; auto|].
  destruct (dispatch_next c s d) as [[s1 d1] p1] eqn:E1.
  destruct (dispatch_next_pool _ _ _ _ _ _ _ HP HD E1) as [HP1 HD1].
  destruct (negb p1 || (0 <? cycle_left d1)%N || crashed s1); [inversion H; subst; auto|].
  destruct (dispatch_loop fuel c s1 d1) as [[s2 d2] p2] eqn:E2. inversion H; subst.
  eapply IHfuel; eauto.
Qed.

Lemma complete_ids_pool : forall cfgs c ids s d s' d',
  PoolInv cfgs (pool s) -> DemOK d -> complete_ids c ids s d = (s', d') ->
  PoolInv cfgs (pool s') /\ DemOK d'.
Proof.
  induction ids as [|id r IH]; intros s d s' d' HP HD H; simpl in H; [inversion H; subst; auto|].
  destruct (crashed s); [inversion H; subst; auto|].
  destruct (lookup_id id (inflight d)) as [w|]; [|inversion H; subst; auto].
  destruct (free _ _) as [c'|] eqn:Ef; [|inversion H; subst; auto].
  eapply IH; [| |exact H].
  - simpl. destruct (Nat.lt_ge_cases (dl_cu w) (length (pool s))) as [Hlt|Hge].
    + destruct (pool_nth _ _ _ HP Hlt) as [c0 [Hc HI]]. eapply pool_set_nth; eauto. eapply free_inv; eauto.
    + unfold set_nth, upd. rewrite firstn_all2 by lia. rewrite skipn_all2 by lia. rewrite app_nil_r. auto.
  - destruct (_ =? _)%N; exact HD.
Qed.

Lemma process_msgs_pool : forall cfgs fuel c s d s' d' pr,
  PoolInv cfgs (pool s) -> DemOK d -> process_msgs fuel c s d = (s', d', pr) ->
  PoolInv cfgs (pool s') /\ DemOK d'.
Proof.
  induction fuel; intros c s d s' d' pr HP HD H; simpl in H; [inversion H; subst; auto|].
  destruct (cu_in s) as [|ids rest]; [inversion H; subst; auto|].
  destruct (filter (known d) ids) as [|m0 mine]; [inversion H; subst; auto|].
  destruct (complete_ids c (m0 :: mine) s d) as [s1 d1] eqn:E1.
  destruct (complete_ids_pool _ _ _ _ _ _ _ HP HD E1) as [HP1 HD1].
  destruct (crashed s1); [inversion H; subst; auto|].
  destruct (filter (fun id => negb (known d id)) ids) as [|o0 others].
  - destruct (process_msgs fuel c _ d1) as [[s3 d3] p3] eqn:E3. inversion H; subst.
    eapply IHfuel; [| |exact E3]; simpl; auto.
  - inversion H; subst. split; simpl; auto.
Qed.

Lemma disp_tick_pool : forall cfgs c s d s' d' pr,
  PoolInv cfgs (pool s) -> DemOK d -> disp_tick c s d = (s', d', pr) ->
  PoolInv cfgs (pool s') /\ DemOK d'.
Proof.
  intros cfgs c s d s' d' pr HP HD H. unfold disp_tick in H.
  destruct (crashed s); [inversion H; subst; auto|].
  destruct (0 <? cycle_left d)%N; [inversion H; subst; auto|].
  destruct (match dispatching d with
            | Some l => if kernel_completed d then complete_kernel c s d l else dispatch_loop 8 c s d
            | None => (s, d, false)
            end) as [[s1 d1] p1] eqn:E1.
  assert (H1 : PoolInv cfgs (pool s1) /\ DemOK d1).
  { destruct (dispatching d); [|inversion E1; subst; auto].
    destruct (kernel_completed d).
    - unfold complete_kernel in E1. destruct (_ <? _); inversion E1; subst; auto.
    - eapply dispatch_loop_pool; eauto. }
  destruct H1 as [HP1 HD1].
  destruct (crashed s1); [inversion H; subst; auto|].
  destruct (process_msgs 8 c s1 d1) as [[s2 d2] p2] eqn:E2. inversion H; subst.
  eapply process_msgs_pool; eauto.
Qed.

Lemma tick_disps_pool : forall cfgs c ds s s' ds' pr,
  PoolInv cfgs (pool s) -> Forall DemOK ds -> tick_disps c s ds = (s', ds', pr) ->
  PoolInv cfgs (pool s') /\ Forall DemOK ds'.
Proof.
  induction ds as [|d r IH]; intros s s' ds' pr HP HD H; simpl in H; [inversion H; subst; auto|].
  destruct (disp_tick c s d) as [[s1 d1] p1] eqn:E1.
  destruct (tick_disps c s1 r) as [[s2 r2] p2] eqn:E2. inversion H; subst.
  inversion HD as [|? ? Hd Hr]; subst.
  destruct (disp_tick_pool _ _ _ _ _ _ _ HP Hd E1) as [HP1 HD1].
  destruct (IH _ _ _ _ HP1 Hr E2) as [HP2 HD2]. split; auto.
Qed.

Record PInv (cfgs : list cucfg) (s : cp) : Prop := mkPInv {
  pi_pool : PoolInv cfgs (pool (sh s));
  pi_disps : Forall DemOK (disps s);
  pi_in : Forall launch_ok (drv_in s)
}.

Lemma skipn_In_c09 : forall A n (l : list A) x, In x (skipn n l) -> In x l.
Proof. induction n; intros l x H; simpl in *; auto. destruct l; [inversion H|right; auto]. Qed.

Lemma start_DemOK : forall c ncu d l, DemOK d -> launch_ok l -> DemOK (start_dispatching c ncu d l).
Proof.
  intros c ncu d l [HD Hsh] Hl. unfold DemOK, start_dispatching, alg_start, alg_dems in *.
  rewrite Forall_forall in *. unfold launch_ok in Hl. rewrite Forall_forall in Hl.
  destruct (c_alg c); simpl.
  - split; auto. intros x Hx. apply in_app_or in Hx. destruct Hx as [Hx|Hx]; [apply HD; apply in_or_app; auto|].
    apply in_app_or in Hx. destruct Hx as [Hx|Hx]; [auto|]. apply HD. apply in_or_app. right. apply in_or_app. auto.
  - split; auto. intros x Hx. apply in_app_or in Hx. destruct Hx as [Hx|Hx]; [apply HD; apply in_or_app; auto|].
    apply in_app_or in Hx. destruct Hx as [Hx|Hx]; [auto|]. apply HD. apply in_or_app. right. apply in_or_app. auto.
  - split; [|rewrite repeat_length, map_length, seq_length; reflexivity].
    intros x Hx. apply in_app_or in Hx. destruct Hx as [Hx|Hx]; [apply HD; apply in_or_app; auto|].
    apply in_app_or in Hx. destruct Hx as [Hx|Hx]; [apply HD; apply in_or_app; right; apply in_or_app; auto|].
    apply in_app_or in Hx. destruct Hx as [Hx|Hx].
    + exfalso. apply in_map_iff in Hx. destruct Hx as [y [_ Hy]]. apply in_flat_map in Hy.
      destruct Hy as [o [Ho Hy]]. apply repeat_spec in Ho. subst. simpl in Hy. exact Hy.
    + apply in_flat_map in Hx. destruct Hx as [pt [Hpt Hx]]. apply in_map_iff in Hpt.
      destruct Hpt as [i [<- _]]. simpl in Hx. apply Hl. eapply skipn_In_c09; eauto.
Qed.

Lemma start_on_first_idle_dem : forall c ncu ds l ds',
  Forall DemOK ds -> launch_ok l -> start_on_first_idle c ncu ds l = Some ds' -> Forall DemOK ds'.
Proof.
  induction ds as [|d r IH]; intros l ds' HD Hl H; simpl in H; [discriminate|].
  inversion HD as [|? ? Hd Hr]; subst.
  destruct (dispatching d).
  - destruct (start_on_first_idle c ncu r l) eqn:E; [|discriminate]. inversion H; subst.
    constructor; eauto.
  - inversion H; subst. constructor; auto. apply start_DemOK; auto.
Qed.

Lemma handle_launch_pool : forall cfgs s s' p, PInv cfgs s -> handle_launch s = (s', p) -> PInv cfgs s'.
Proof.
  intros cfgs s s' p [HP HD HL] H. unfold handle_launch in H.
  destruct (crashed (sh s)); [inversion H; subst; constructor; auto|].
  destruct (drv_in s) as [|l rest] eqn:Ei; [inversion H; subst; constructor; auto; rewrite Ei; auto|].
  inversion HL; subst.
  destruct (start_on_first_idle (cfg s) (length (pool (sh s))) (disps s) l) as [ds|] eqn:E.
  - destruct (_ && _).
    + inversion H; subst. constructor; simpl; auto. rewrite Ei; auto.
    + inversion H; subst. constructor; simpl; auto. eapply start_on_first_idle_dem; eauto.
  - inversion H; subst. constructor; auto. rewrite Ei; auto.
Qed.

Definition ev_ok (e : ev) : Prop := match e with ELaunch l => launch_ok l | _ => True end.

Lemma step_pool : forall cfgs s e, PInv cfgs s -> ev_ok e -> PInv cfgs (fst (step s e)).
Proof.
  intros cfgs s e HI He. unfold step. destruct (crashed (sh s)) eqn:Ec; [exact HI|].
  destruct e; simpl in He.
  - destruct (_ <? _); simpl; auto. destruct HI. constructor; simpl; auto.
    apply Forall_app; auto.
  - destruct (_ <? _); simpl; auto. destruct HI. constructor; simpl; auto.
  - destruct (cp_tick s) as [s' p] eqn:E. simpl. unfold cp_tick in E. rewrite Ec in E.
    destruct (tick_disps (cfg s) (sh s) (disps s)) as [[sh1 ds1] p1] eqn:E1.
    destruct HI as [HP HD HL].
    destruct (tick_disps_pool _ _ _ _ _ _ _ HP HD E1) as [HP1 HD1].
    assert (HI1 : PInv cfgs (s <| sh := sh1 |> <| disps := ds1 |>)) by (constructor; simpl; auto).
    destruct (crashed sh1); [inversion E; subst; auto|].
    destruct (handle_launch _) as [s2 p2] eqn:E2 in E.
    destruct (handle_launch s2) as [s3 p3] eqn:E3. inversion E; subst.
    eapply handle_launch_pool; [|exact E3]. eapply handle_launch_pool; eauto.
  - destruct (cu_out (sh s)); simpl; auto. destruct HI. constructor; simpl; auto.
  - destruct (drv_out (sh s)); simpl; auto. destruct HI. constructor; simpl; auto.
Qed.

Lemma run_pool : forall cfgs evs s, PInv cfgs s -> Forall ev_ok evs -> PInv cfgs (run s evs).
Proof.
  induction evs as [|e evs IH]; intros s HI He; simpl; auto.
  inversion He; subst. apply IH; auto. apply step_pool; auto.
Qed.

Lemma init_pool : forall c cus n, PInv cus (init_cp c cus n).
Proof.
  intros. constructor; simpl.
  - unfold PoolInv. induction cus; simpl; constructor; auto. apply init_inv.
  - apply Forall_forall. intros d Hd. apply repeat_spec in Hd. subst. split; [constructor|reflexivity].
  - constructor.
Qed.

Lemma run_cfg : forall c cus n evs,
  crashed (sh (run (init_cp c cus n) evs)) = false -> cfg (run (init_cp c cus n) evs) = c.
Proof.
  intros c cus n evs Hcr.
  destruct (run_refines evs (init_cp c cus n) eq_refl (init_CInt c cus n) Hcr) as [Hs _].
  destruct (cpsteps_CPInv _ _ Hs (init_cp_inv c cus n)) as [_ E]. exact E.
Qed.
