(** No panic under the CU contract, and the link between the MapWGReqs and the
    shared CU pool.  Everything is proved on the small-step system of
    DispatcherSteps; [run] reaches only states reachable by small steps as long
    as it has not panicked, and a panic needs one of the conditions [ccrash_at],
    which the invariants below exclude. *)
From Coq Require Import List NArith Bool Arith Lia ZifyN ZifyNat ZifyBool Permutation.
From VCp Require Import Resource ResourceProofs Dispatcher DispatcherSteps DispatcherProofs.
From RecordUpdate Require Import RecordSet.
Import ListNotations RecordSetNotations.
Open Scope nat_scope.

(** * Who owns what in the pool *)

(** work-groups for which this dispatcher holds a reservation: the placed but
    not yet sent one and those in flight *)
Definition own (d : disp) : list (nat * wgkey) :=
  map (fun w => (dl_cu w, dl_key w)) (opt_list (cur_wg d) ++ map snd (inflight d)).

Definition owned (ds : list disp) : list (nat * wgkey) := flat_map own ds.

(** the work-group k is resident on CU j of the pool *)
Definition res_in (p : list cu) (j : nat) (k : wgkey) : Prop :=
  exists c, nth_error p j = Some c /\ lookup k (resident c) <> None.

Lemma wgkey_eq_dec : forall a b : wgkey, {a = b} + {a <> b}.
Proof. intros [a1 a2] [b1 b2]. destruct (N.eq_dec a1 b1), (N.eq_dec a2 b2); subst; auto; right; congruence. Qed.

Lemma owned_app : forall a b, owned (a ++ b) = owned a ++ owned b.
Proof. intros. unfold owned. apply flat_map_app. Qed.

Lemma lookup_remove_key_same : forall k res, NoDup (map fst res) -> lookup k (remove_key k res) = None.
Proof.
  induction res as [|[k' v] res IH]; intros Hn; simpl; auto. inversion Hn; subst.
  destruct (key_eqb k k') eqn:E.
  - apply key_eqb_eq in E. subst k'.
    destruct (lookup k res) eqn:El; auto. exfalso. apply H1.
    clear - El. induction res as [|[k2 v2] res IH]; simpl in *; [discriminate|].
    destruct (key_eqb k k2) eqn:E2; [apply key_eqb_eq in E2; auto|right; auto].
  - simpl. rewrite E. auto.
Qed.

Lemma lookup_remove_key_other : forall k k' res, k <> k' -> lookup k' (remove_key k res) = lookup k' res.
Proof.
  induction res as [|[k2 v] res IH]; intros Hne; simpl; auto.
  destruct (key_eqb k k2) eqn:E.
  - apply key_eqb_eq in E. subst k2. destruct (key_eqb k' k) eqn:E2; auto.
    apply key_eqb_eq in E2. congruence.
  - simpl. destruct (key_eqb k' k2); auto.
Qed.

Lemma free_resident : forall s k s', free s k = Some s' -> resident s' = remove_key k (resident s).
Proof.
  intros s k s' H. unfold free in H. destruct (lookup k (resident s)) as [[d locs]|]; [|discriminate].
  inversion H; subst. simpl. destruct (free_fold_components d locs s) as [_ [_ [_ [_ Hr]]]]. rewrite Hr. reflexivity.
Qed.

Lemma res_in_set_nth_other : forall p j c' j' k', j <> j' -> (res_in (set_nth j c' p) j' k' <-> res_in p j' k').
Proof. intros. unfold res_in. rewrite set_nth_other by auto. tauto. Qed.

Lemma res_in_set_nth_same : forall p j c' k', j < length p ->
  (res_in (set_nth j c' p) j k' <-> lookup k' (resident c') <> None).
Proof.
  intros p j c' k' Hj. unfold res_in. rewrite set_nth_same.
  destruct (nth_error p j) eqn:E; [|apply nth_error_None in E; lia]. simpl.
  split; [intros [c0 [E0 H]]; inversion E0; subst; auto|intros H; eauto].
Qed.

Lemma res_in_nth : forall p j k, j < length p ->
  (res_in p j k <-> lookup k (resident (nth j p dummy_cu)) <> None).
Proof.
  intros p j k Hj. unfold res_in.
  destruct (nth_error p j) eqn:E; [|apply nth_error_None in E; lia].
  rewrite (nth_nth_error _ _ _ dummy_cu _ E). split; [intros [c0 [E0 H]]; inversion E0; subst; auto|eauto].
Qed.

Lemma res_in_lt : forall p j k, res_in p j k -> j < length p.
Proof. intros p j k [c [H _]]. apply nth_error_Some. congruence. Qed.

(** effect of the three kinds of calls on residency *)
Lemma res_in_refused : forall p j k dm c' j' k',
  j < length p -> reserve (nth j p dummy_cu) k dm = Ret c' None ->
  (res_in (set_nth j c' p) j' k' <-> res_in p j' k').
Proof.
  intros p j k dm c' j' k' Hj Hr. pose proof (reserve_resident _ _ _ _ _ Hr) as Hres. simpl in Hres.
  destruct (Nat.eq_dec j j') as [<-|Hne]; [|apply res_in_set_nth_other; auto].
  rewrite res_in_set_nth_same by auto. rewrite res_in_nth by auto. rewrite Hres. tauto.
Qed.

Lemma res_in_placed : forall p j k dm c' locs j' k',
  j < length p -> reserve (nth j p dummy_cu) k dm = Ret c' (Some locs) ->
  (res_in (set_nth j c' p) j' k' <-> res_in p j' k' \/ (j' = j /\ k' = k)) /\ ~ res_in p j k.
Proof.
  intros p j k dm c' locs j' k' Hj Hr. destruct (reserve_resident _ _ _ _ _ Hr) as [Hres Hnone].
  split.
  - destruct (Nat.eq_dec j j') as [<-|Hne].
    + rewrite res_in_set_nth_same by auto. rewrite res_in_nth by auto. rewrite Hres. simpl.
      destruct (key_eqb k' k) eqn:E.
      * apply key_eqb_eq in E. subst. split; [auto|intros _; discriminate].
      * split; [auto|]. intros [H|[_ H]]; auto. subst. rewrite key_eqb_refl in E. discriminate.
    + rewrite res_in_set_nth_other by auto. split; [auto|]. intros [H|[H _]]; auto. congruence.
  - rewrite res_in_nth by auto. tauto.
Qed.

Lemma res_in_freed : forall c0 p j k c' j' k',
  j < length p -> Inv c0 (nth j p dummy_cu) -> free (nth j p dummy_cu) k = Some c' ->
  (res_in (set_nth j c' p) j' k' <-> res_in p j' k' /\ ~ (j' = j /\ k' = k)).
Proof.
  intros c0 p j k c' j' k' Hj HI Hf. pose proof (free_resident _ _ _ Hf) as Hres.
  destruct (Nat.eq_dec j j') as [<-|Hne].
  - rewrite res_in_set_nth_same by auto. rewrite res_in_nth by auto. rewrite Hres.
    destruct (wgkey_eq_dec k k') as [<-|Hk].
    + rewrite lookup_remove_key_same by (apply (inv_keys _ _ HI)). split; [congruence|tauto].
    + rewrite lookup_remove_key_other by auto. split; [intros H; split; auto; intros [_ E]; congruence|tauto].
  - rewrite res_in_set_nth_other by auto. split; [intros H; split; auto; intros [E _]; congruence|tauto].
Qed.

(** * The pool along the steps, and where placements come from *)

Section Link.
Context (cfgs : list cucfg) (P : demand -> Prop) (HP : forall dm, P dm -> dem_ok dm).

(** the reservation behind a MapWGReq was made on a CU of the pool that satisfied
    the resource invariant, for a demand satisfying P *)
Definition pl_link (p : placement) : Prop :=
  exists c0, nth_error cfgs (pl_cu p) = Some c0 /\ Inv c0 (pl_before p) /\ P (pl_dem p).

Definition Kd (alg : algo) (d : disp) : Prop :=
  (forall x, In x (alg_pending alg d) -> P (snd x)) /\
  Forall (fun mp => pl_link (snd mp)) (g_sent d) /\
  (forall p, g_cur d = Some p -> pl_link p).

Lemma free_dummy : forall k, free dummy_cu k = None.
Proof. reflexivity. Qed.

Lemma dstep_K : forall c x y, dstep c x y ->
  PoolInv cfgs (pool (fst x)) -> Kd (c_alg c) (snd x) ->
  PoolInv cfgs (pool (fst y)) /\ Kd (c_alg c) (snd y) /\
  (forall f, g_hist (fst y) = g_hist (fst x) ++ [f] -> Forall (fun mp => pl_link (snd mp)) (f_sent f)).
Proof.
  intros c x y H HPl [Hpe [Hse Hcu]]. destruct H; simpl in *.
  - destruct (core_fields _ _ H) as [_ [_ [_ [_ [_ [_ [_ [_ [_ [_ [_ [E12 E13]]]]]]]]]]]].
    split; auto. split; [split; [rewrite H0; auto|rewrite E12, E13; auto]|].
    intros f Hf. exfalso. apply (f_equal (@length _)) in Hf. rewrite app_length in Hf. simpl in Hf. lia.
  - destruct (pool_nth _ _ _ HPl H0) as [c0 [Hc0 HI0]].
    split; [eapply pool_set_nth; eauto; eapply reserve_inv; eauto; apply HP; exact (Hpe _ H)|].
    split; [split; auto|].
    intros f Hf. exfalso. apply (f_equal (@length _)) in Hf. rewrite app_length in Hf. simpl in Hf. lia.
  - destruct (pool_nth _ _ _ HPl H2) as [c0 [Hc0 HI0]].
    destruct (core_fields _ _ H4) as [_ [_ [_ [_ [_ [_ [_ [_ [_ [_ [_ [E12 E13]]]]]]]]]]]]. simpl in *.
    split; [eapply pool_set_nth; eauto; eapply reserve_inv; eauto; apply HP; exact (Hpe _ H1)|].
    split.
    + split; [|split].
      * intros x Hx. apply Hpe. eapply Permutation_in; [apply Permutation_sym; exact H5|]. right. exact Hx.
      * rewrite E12. auto.
      * intros p Hp. rewrite E13 in Hp. inversion Hp; subst. exists c0. simpl.
        split; [exact Hc0|]. split; [exact HI0|]. exact (Hpe _ H1).
    + intros f Hf. exfalso. apply (f_equal (@length _)) in Hf. rewrite app_length in Hf. simpl in Hf. lia.
  - split; auto. split.
    + unfold send_d. simpl. split; [auto|]. split; [|intros p Hp; discriminate].
      apply Forall_app. split; auto.
    + intros f Hf. exfalso. apply (f_equal (@length _)) in Hf. rewrite app_length in Hf. simpl in Hf. lia.
  - assert (Hj : dl_cu w < length (pool s)).
    { destruct (Nat.lt_ge_cases (dl_cu w) (length (pool s))); auto.
      rewrite nth_overflow in H2 by lia. rewrite free_dummy in H2. discriminate. }
    destruct (pool_nth _ _ _ HPl Hj) as [c0 [Hc0 HI0]].
    split; [eapply pool_set_nth; eauto; eapply free_inv; eauto|].
    split.
    + unfold complete_d. destruct (_ =? _)%N; simpl; split; auto.
    + intros f Hf. exfalso. apply (f_equal (@length _)) in Hf. rewrite app_length in Hf. simpl in Hf. lia.
  - split; auto. split.
    + split; [auto|]. split; [constructor|auto].
    + intros f Hf. apply app_inj_tail in Hf. destruct Hf as [_ <-]. simpl. exact Hse.
  - split; auto. split; [split; auto|].
    intros f Hf. exfalso. apply (f_equal (@length _)) in Hf. rewrite app_length in Hf. simpl in Hf. lia.
Qed.

End Link.

(** * Ownership invariant *)

Definition pkeys (d : disp) : list wgkey := map fst (placed d).
Definition OwnTag (d : disp) : Prop := forall j k, In (j, k) (own d) -> In k (pkeys d).

Record OInv (s : shared) (ds : list disp) : Prop := mkOInv {
  oi_nodup : NoDup (owned ds);
  oi_res : forall j k, In (j, k) (owned ds) <-> res_in (pool s) j k;
  oi_tag : Forall OwnTag ds;
  oi_ids : NoDup (map lr_id (running ds))
}.

Lemma owned_mid : forall ds1 d ds2, owned (ds1 ++ d :: ds2) = owned ds1 ++ own d ++ owned ds2.
Proof. intros. rewrite owned_app. simpl. reflexivity. Qed.

Lemma running_mid : forall ds1 d ds2,
  running (ds1 ++ d :: ds2) = running ds1 ++ opt_list (dispatching d) ++ running ds2.
Proof. intros. rewrite running_app. simpl. reflexivity. Qed.

Lemma lookup_id_split : forall id l w, lookup_id id l = Some w ->
  exists l1 l2, l = l1 ++ (id, w) :: l2 /\ remove_id id l = l1 ++ l2.
Proof.
  induction l as [|[i x] l IH]; intros w H; simpl in *; [discriminate|].
  destruct (i =? id)%N eqn:E.
  - apply N.eqb_eq in E. subst. inversion H; subst. exists [], l. auto.
  - destruct (IH w H) as [l1 [l2 [E1 E2]]]. exists ((i, x) :: l1), l2. simpl. rewrite E1 at 1. rewrite E2. auto.
Qed.

Lemma own_same : forall d d', cur_wg d' = cur_wg d -> inflight d' = inflight d -> own d' = own d.
Proof. intros d d' E1 E2. unfold own. rewrite E1, E2. reflexivity. Qed.

Lemma pkeys_same : forall d d', g_sent d' = g_sent d -> g_cur d' = g_cur d -> pkeys d' = pkeys d.
Proof. intros d d' E1 E2. unfold pkeys, placed. rewrite E1, E2. reflexivity. Qed.

Lemma NoDup_app_remove_mid : forall A (a : list A) x b, NoDup (a ++ x :: b) -> NoDup (a ++ b).
Proof. intros. eapply NoDup_remove_1; eauto. Qed.

Lemma in_mid_iff : forall A (a : list A) x b y, In y (a ++ x :: b) <-> y = x \/ In y (a ++ b).
Proof.
  intros. rewrite !in_app_iff. simpl. split.
  - intros [H|[H|H]]; auto.
  - intros [H|[H|H]]; auto.
Qed.

Section Own.
Context (cfgs : list cucfg) (c : cpcfg).
Let alg := c_alg c.

Lemma dstep_OInv : forall x y ds1 ds2,
  dstep c x y ->
  Forall (DInv alg) (ds1 ++ snd x :: ds2) -> PoolInv cfgs (pool (fst x)) ->
  OInv (fst x) (ds1 ++ snd x :: ds2) -> OInv (fst y) (ds1 ++ snd y :: ds2).
Proof.
  intros x y ds1 ds2 H HD HPl [Hn Hr Ht Hi].
  rewrite owned_mid in Hn, Hr. rewrite running_mid in Hi.
  apply Forall_app in Ht. destruct Ht as [Ht1 Ht2]. inversion Ht2 as [|? ? Htd Ht3]; subst.
  apply Forall_app in HD. destruct HD as [HD1 HD2]. inversion HD2 as [|? ? HDd HD3]; subst.
  destruct H; simpl in *.
  - (* internal *)
    destruct (core_fields _ _ H) as [E1 [E2 [_ [_ [_ [E6 [_ [_ [_ [_ [_ [E12 E13]]]]]]]]]]]].
    constructor.
    + rewrite owned_mid, (own_same _ _ E2 E6). exact Hn.
    + intros j k. rewrite owned_mid, (own_same _ _ E2 E6). apply Hr.
    + apply Forall_app. split; auto. constructor; auto.
      intros j k Hin. rewrite (own_same _ _ E2 E6) in Hin. rewrite (pkeys_same _ _ E12 E13). exact (Htd _ _ Hin).
    + rewrite running_mid, E1. exact Hi.
  - (* refuse *)
    constructor; simpl; auto.
    + rewrite owned_mid. exact Hn.
    + intros j0 k0. rewrite owned_mid, Hr. symmetry. eapply res_in_refused; eauto.
    + apply Forall_app. split; auto.
    + rewrite running_mid. exact Hi.
  - (* place *)
    destruct (core_fields _ _ H4) as [E1 [E2 [_ [_ [_ [E6 [_ [_ [_ [_ [_ [E12 E13]]]]]]]]]]]]. simpl in *.
    assert (Hown : own d' = (j, k) :: own d).
    { unfold own. rewrite E2, E6, H. reflexivity. }
    destruct (res_in_placed _ _ _ _ _ _ j k H2 H3) as [_ Hfresh].
    assert (Hnot : ~ In (j, k) (owned ds1 ++ own d ++ owned ds2)) by (rewrite Hr; exact Hfresh).
    constructor; simpl.
    + rewrite owned_mid, Hown. simpl.
      apply (Permutation_NoDup (l := (j, k) :: owned ds1 ++ own d ++ owned ds2)).
      * apply Permutation_middle.
      * constructor; auto.
    + intros j0 k0. rewrite owned_mid, Hown. simpl.
      destruct (res_in_placed _ _ _ _ _ _ j0 k0 H2 H3) as [Hiff _]. rewrite Hiff, <- Hr.
      rewrite in_mid_iff. split; [intros [E|Hin]; [inversion E; auto|auto]|intros [Hin|[-> ->]]; auto].
    + apply Forall_app. split; auto. constructor; auto.
      intros j0 k0 Hin. rewrite Hown in Hin. unfold pkeys, placed. rewrite E12, E13. simpl.
      rewrite map_app, in_app_iff. destruct Hin as [E|Hin].
      * inversion E; subst. right. simpl. auto.
      * left. specialize (Htd _ _ Hin). unfold pkeys, placed in Htd.
        assert (Eg : g_cur d = None).
        { destruct HDd as [Hc _]. unfold cur_ok in Hc. rewrite H in Hc. destruct (g_cur d); [tauto|auto]. }
        rewrite Eg in Htd. simpl in Htd. rewrite app_nil_r in Htd. exact Htd.
    + rewrite running_mid, E1. exact Hi.
  - (* send *)
    assert (Hown : own (send_d s d w pl) = own d).
    { unfold own, send_d. simpl. rewrite H. reflexivity. }
    constructor; simpl.
    + rewrite owned_mid, Hown. exact Hn.
    + intros j k. rewrite owned_mid, Hown. apply Hr.
    + apply Forall_app. split; auto. constructor; auto.
      intros j k Hin. rewrite Hown in Hin. specialize (Htd _ _ Hin).
      unfold pkeys, placed, send_d in *. simpl. rewrite H0 in Htd. simpl in Htd.
      rewrite map_app, app_nil_r. simpl. rewrite !map_app in *. simpl in *. exact Htd.
    + rewrite running_mid. exact Hi.
  - (* complete *)
    destruct (lookup_id_split _ _ _ H1) as [l1 [l2 [El Er]]].
    assert (Hj : dl_cu w < length (pool s)).
    { destruct (Nat.lt_ge_cases (dl_cu w) (length (pool s))); auto.
      rewrite nth_overflow in H2 by lia. rewrite free_dummy in H2. discriminate. }
    destruct (pool_nth _ _ _ HPl Hj) as [c0 [Hc0 HI0]].
    set (A := map (fun w => (dl_cu w, dl_key w)) (opt_list (cur_wg d) ++ map snd l1)).
    set (B := map (fun w => (dl_cu w, dl_key w)) (map snd l2)).
    assert (Hown : own d = A ++ (dl_cu w, dl_key w) :: B).
    { unfold own, A, B. rewrite El, map_app. simpl. rewrite !map_app. simpl. rewrite <- app_assoc. reflexivity. }
    assert (Hown' : own (complete_d c d id) = A ++ B).
    { unfold own, A, B. rewrite complete_d_inflight, Er.
      assert (Ec : cur_wg (complete_d c d id) = cur_wg d) by (unfold complete_d; destruct (_ =? _)%N; reflexivity).
      rewrite Ec, !map_app. rewrite <- app_assoc. reflexivity. }
    assert (Hperm : Permutation (owned ds1 ++ own d ++ owned ds2)
                      ((dl_cu w, dl_key w) :: owned ds1 ++ (A ++ B) ++ owned ds2)).
    { rewrite Hown. rewrite <- !app_assoc. simpl. rewrite app_assoc.
      rewrite (app_assoc (owned ds1) A). apply Permutation_sym. apply Permutation_middle. }
    pose proof (Permutation_NoDup Hperm Hn) as Hn2. inversion Hn2 as [|? ? Hnotin Hn3]; subst.
    constructor; simpl.
    + rewrite owned_mid, Hown'. exact Hn3.
    + intros j k. rewrite owned_mid, Hown'.
      rewrite (res_in_freed c0 _ _ _ _ j k Hj HI0 H2), <- Hr.
      split.
      * intros Hin. split; [eapply Permutation_in; [apply Permutation_sym; exact Hperm|right; exact Hin]|].
        intros [-> ->]. apply Hnotin. exact Hin.
      * intros [Hin Hne]. apply (Permutation_in _ Hperm) in Hin. destruct Hin as [E|Hin]; auto.
        inversion E; subst. exfalso. apply Hne. auto.
    + apply Forall_app. split; auto. constructor; auto.
      intros j k Hin. rewrite Hown' in Hin.
      assert (Hin2 : In (j, k) (own d)) by (rewrite Hown; apply in_app_or in Hin; apply in_or_app; destruct Hin; [left|right; right]; auto).
      specialize (Htd _ _ Hin2). unfold pkeys, placed, complete_d in *. destruct (_ =? _)%N; simpl; exact Htd.
    + rewrite running_mid, complete_d_dispatching. exact Hi.
  - (* response *)
    destruct (kernel_completed_facts _ _ _ HDd H H0) as [_ [_ [_ [Hinf [Hcw _]]]]].
    assert (Hown : own d = []) by (unfold own; rewrite Hinf, Hcw; reflexivity).
    constructor; simpl.
    + rewrite owned_mid. unfold own at 1. simpl. rewrite Hinf, Hcw. simpl. rewrite Hown in Hn. exact Hn.
    + intros j k. rewrite owned_mid. unfold own at 1. simpl. rewrite Hinf, Hcw. simpl.
      rewrite Hown in Hr. apply Hr.
    + apply Forall_app. split; auto. constructor; auto.
      intros j k Hin. unfold own in Hin. simpl in Hin. rewrite Hinf, Hcw in Hin. inversion Hin.
    + rewrite running_mid. simpl. rewrite H in Hi. simpl in Hi.
      rewrite map_app in *. simpl in Hi. eapply NoDup_remove_1; eauto.
  - (* countdown *)
    constructor; simpl.
    + rewrite owned_mid. exact Hn.
    + intros j k. rewrite owned_mid. apply Hr.
    + apply Forall_app. split; auto.
    + rewrite running_mid. exact Hi.
Qed.

End Own.

(** * No panic condition can hold *)

Definition dem16 (dm : demand) : Prop := 1 <= d_nwf dm <= 16.

Lemma dem16_ok : forall dm, dem16 dm -> dem_ok dm.
Proof. unfold dem16, dem_ok. intros; lia. Qed.

Lemma enum_keys : forall ds lid idx k dm,
  In (k, dm) (enum_from lid idx ds) -> fst k = lid /\ (idx <= snd k)%N.
Proof.
  induction ds as [|d0 ds IH]; intros lid idx k dm H; simpl in H; [tauto|].
  destruct H as [E|H]; [inversion E; subst; simpl; split; auto; lia|].
  destruct (IH _ _ _ _ H). split; auto. lia.
Qed.

Lemma enum_keys_nodup : forall ds lid idx, NoDup (map fst (enum_from lid idx ds)).
Proof.
  induction ds as [|d0 ds IH]; intros lid idx; simpl; constructor; auto.
  intros Hin. apply in_map_iff in Hin. destruct Hin as [[k dm] [E Hin]]. simpl in E. subst k.
  destruct (enum_keys _ _ _ _ _ Hin) as [_ Hle]. simpl in Hle. lia.
Qed.

Lemma DInv_keys : forall alg d l, DInv alg d -> dispatching d = Some l ->
  NoDup (map fst (placed d ++ alg_pending alg d)) /\
  forall k, In k (map fst (placed d ++ alg_pending alg d)) -> fst k = lr_id l.
Proof.
  intros alg d l [_ [_ [_ Hd]]] El. rewrite El in Hd. destruct Hd as [Hg _].
  apply gridrel_perm in Hg. split.
  - eapply Permutation_NoDup; [apply Permutation_map; exact Hg|]. apply enum_keys_nodup.
  - intros k Hk. apply (Permutation_in _ (Permutation_sym (Permutation_map fst Hg))) in Hk.
    apply in_map_iff in Hk. destruct Hk as [[k0 dm] [E Hin]]. simpl in E. subst k0.
    destruct (enum_keys _ _ _ _ _ Hin). auto.
Qed.

Lemma own_dispatching : forall alg d j k, DInv alg d -> OwnTag d -> In (j, k) (own d) ->
  exists l, dispatching d = Some l /\ fst k = lr_id l /\ In k (pkeys d).
Proof.
  intros alg d j k HD Ht Hin. destruct (dispatching d) as [l|] eqn:El.
  - exists l. split; auto. specialize (Ht _ _ Hin). split; auto.
    destruct (DInv_keys _ _ _ HD El) as [_ Hf]. apply Hf. rewrite map_app. apply in_or_app. left. exact Ht.
  - exfalso. destruct HD as [_ [_ [_ Hd]]]. rewrite El in Hd. destruct Hd as [Hw [Hi _]].
    unfold own in Hin. rewrite Hw, Hi in Hin. inversion Hin.
Qed.

Lemma NoDup_app_disjoint : forall A (a b : list A) x, NoDup (a ++ b) -> In x a -> In x b -> False.
Proof.
  induction a as [|y a IH]; intros b x Hn Ha Hb; simpl in *; [tauto|].
  inversion Hn as [|? ? Hna Hnb]; subst. destruct Ha as [E|Ha].
  - subst. apply Hna. apply in_or_app. auto.
  - eapply IH; eauto.
Qed.

Section Contract.
(** [P] is the property demanded of every work-group of every launch; it must
    imply 1..16 wavefronts. *)
Context (P : demand -> Prop) (HP16 : forall dm, P dm -> dem16 dm).

Lemma P_ok : forall dm, P dm -> dem_ok dm.
Proof. intros dm H. apply dem16_ok. apply HP16. exact H. Qed.

Section NoCrash.
Context (cfgs : list cucfg) (c : cpcfg).
Let alg := c_alg c.

Lemma no_crash_at : forall s ds1 d ds2,
  Forall (DInv alg) (ds1 ++ d :: ds2) -> PoolInv cfgs (pool s) ->
  Forall (fun c0 => cfg_simds c0 <> []) cfgs ->
  Kd cfgs P alg d -> OInv s (ds1 ++ d :: ds2) -> Forall (@NoDup N) (cu_in s) ->
  ~ crash_at c (s, d).
Proof.
  intros s ds1 d ds2 HD HPl Hsim [Hpe [_ Hcu]] [Hn Hr Ht Hi] HM Hcr.
  rewrite owned_mid in Hn, Hr. rewrite running_mid in Hi.
  pose proof HD as HDall.
  apply Forall_app in HD. destruct HD as [HD1 HD2]. inversion HD2 as [|? ? HDd HD3]; subst.
  pose proof Ht as Htall.
  apply Forall_app in Ht. destruct Ht as [Ht1 Ht2]. inversion Ht2 as [|? ? Htd Ht3]; subst.
  unfold crash_at in Hcr. simpl in Hcr.
  destruct Hcr as [[j [k [dm [Hin [Hj Hres]]]]]|[[Hp [Hhn [Hcw Hpn]]]|[[w [Hcw H16]]|[[m [rest [Hm Hnd]]]|[id [w [Hl Hf]]]]]]].
  - (* a reservation panics *)
    destruct (pool_nth _ _ _ HPl Hj) as [c0 [Hc0 HI0]].
    assert (Hs0 : simds (nth j (pool s) dummy_cu) <> []).
    { rewrite Forall_forall in Hsim. specialize (Hsim c0 (nth_error_In _ _ Hc0)).
      pose proof (inv_nsimd _ _ HI0) as Hl. intros E. rewrite E in Hl. simpl in Hl.
      destruct (cfg_simds c0); [congruence|discriminate]. }
    destruct (lookup k (resident (nth j (pool s) dummy_cu))) eqn:Elk.
    2: { exact (reserve_no_panic _ _ dm Hs0 Elk Hres). }
    assert (Hri : res_in (pool s) j k) by (apply res_in_nth; auto; congruence).
    apply Hr in Hri.
    (* the owner of (j,k) *)
    destruct (dispatching d) as [l|] eqn:El.
    2: { destruct HDd as [_ [_ [_ Hd]]]. rewrite El in Hd. destruct Hd as [_ [_ [_ [Hp0 _]]]].
         fold alg in Hin. rewrite Hp0 in Hin. inversion Hin. }
    destruct (DInv_keys _ _ _ HDd El) as [Hnk Hfk].
    assert (Hkl : fst k = lr_id l).
    { apply Hfk. rewrite map_app. apply in_or_app. right. apply in_map_iff. exists (k, dm). auto. }
    simpl in Hi. rewrite map_app in Hi. simpl in Hi.
    apply in_app_or in Hri. destruct Hri as [Hri|Hri]; [|apply in_app_or in Hri; destruct Hri as [Hri|Hri]].
    + unfold owned in Hri. apply in_flat_map in Hri. destruct Hri as [d2 [Hd2 Hown]].
      rewrite Forall_forall in HD1, Ht1.
      destruct (own_dispatching _ _ _ _ (HD1 _ Hd2) (Ht1 _ Hd2) Hown) as [l2 [El2 [Hk2 _]]].
      apply NoDup_remove_2 in Hi. apply Hi. apply in_or_app. left.
      apply in_map_iff. exists l2. split; [congruence|].
      unfold running. apply in_flat_map. exists d2. split; auto. rewrite El2. left. auto.
    + specialize (Htd _ _ Hri). rewrite map_app in Hnk.
      assert (Hk2 : In k (map fst (alg_pending alg d))) by (apply in_map_iff; exists (k, dm); auto).
      exact (NoDup_app_disjoint _ _ _ _ Hnk Htd Hk2).
    + unfold owned in Hri. apply in_flat_map in Hri. destruct Hri as [d2 [Hd2 Hown]].
      rewrite Forall_forall in HD3, Ht3.
      destruct (own_dispatching _ _ _ _ (HD3 _ Hd2) (Ht3 _ Hd2) Hown) as [l2 [El2 [Hk2 _]]].
      apply NoDup_remove_2 in Hi. apply Hi. apply in_or_app. right.
      apply in_map_iff. exists l2. split; [congruence|].
      unfold running. apply in_flat_map. exists d2. split; auto. rewrite El2. left. auto.
  - (* nothing left to place although HasNext *)
    destruct HDd as [Hcur [_ [_ Hd]]]. destruct (dispatching d) as [l|] eqn:El.
    + destruct Hd as [Hg [_ [Had Hnw]]]. unfold cur_ok in Hcur. rewrite Hcw in Hcur.
      destruct (g_cur d) eqn:Eg; [tauto|]. fold alg in Hpn.
      apply gridrel_perm, Permutation_length in Hg. unfold grid_of in Hg.
      rewrite enum_from_length in Hg. unfold placed in Hg. rewrite Eg, Hpn in Hg. simpl in Hg.
      rewrite !app_nil_r, map_length in Hg. simpl in Had.
      unfold has_next in Hhn. apply N.ltb_lt in Hhn. lia.
    + destruct Hd as [_ [_ [_ [_ Hh]]]]. congruence.
  - (* more than 16 wavefronts *)
    destruct HDd as [Hcur _]. unfold cur_ok in Hcur. rewrite Hcw in Hcur.
    destruct (g_cur d) as [p|] eqn:Eg; [|tauto]. destruct Hcur as [_ [_ [Hlocs [c' Hres]]]].
    destruct (Hcu p eq_refl) as [c0 [_ [HI0 HPd]]]. destruct (HP16 _ HPd) as [Hd1 Hd2].
    destruct (reserve_only_if_fits_lemma _ _ _ _ _ _ HI0 Hd1 Hres) as [Hlen _].
    rewrite Hlocs, Hlen in H16. lia.
  - (* an ID twice in one completion message *)
    rewrite Hm in HM. inversion HM; subst. auto.
  - (* freeing a work-group that is not resident *)
    assert (Hown : In (dl_cu w, dl_key w) (own d)).
    { unfold own. apply (in_map (fun w0 => (dl_cu w0, dl_key w0))). apply in_or_app. right.
      destruct (lookup_id_split _ _ _ Hl) as [l1 [l2 [E _]]]. rewrite E, map_app. apply in_or_app. right. left. auto. }
    assert (Hri : res_in (pool s) (dl_cu w) (dl_key w)).
    { apply Hr. apply in_or_app. right. apply in_or_app. left. exact Hown. }
    pose proof (res_in_lt _ _ _ Hri) as Hj. apply res_in_nth in Hri; auto.
    apply free_panics_iff in Hf. congruence.
Qed.

End NoCrash.

(** * The invariant of the whole command processor *)

Definition launchP (l : launch) : Prop := Forall P (lr_wgs l).

Record Safe (cfgs : list cucfg) (s : cp) : Prop := mkSafe {
  sf_cp : CPInv s;
  sf_pool : PoolInv cfgs (pool (sh s));
  sf_k : Forall (Kd cfgs P (c_alg (cfg s))) (disps s);
  sf_hist : Forall (fun f => Forall (fun mp => pl_link cfgs P (snd mp)) (f_sent f)) (g_hist (sh s));
  sf_own : OInv (sh s) (disps s);
  sf_msg : Forall (@NoDup N) (cu_in (sh s));
  sf_in : Forall launchP (drv_in s);
  sf_ids : NoDup (map lr_id (g_started s ++ drv_in s));
  sf_nc : crashed (sh s) = false
}.

Lemma dstep_msg : forall c x y, dstep c x y ->
  Forall (@NoDup N) (cu_in (fst x)) -> Forall (@NoDup N) (cu_in (fst y)).
Proof.
  intros c x y H HM. destruct H; simpl in *; auto.
  rewrite H in HM. inversion HM; subst. unfold drop_id.
  destruct (filter _ m) eqn:E; auto. constructor; auto. rewrite <- E. apply NoDup_filter. auto.
Qed.

Lemma grid_demands : forall l x, launchP l -> In x (grid_of l) -> P (snd x).
Proof.
  intros l x Hl Hin. unfold grid_of in Hin. unfold launchP in Hl. rewrite Forall_forall in Hl.
  revert Hin. generalize 0%N. induction (lr_wgs l) as [|dm r IH]; intros idx Hin; simpl in Hin; [tauto|].
  destruct Hin as [<-|Hin]; [simpl; apply Hl; left; auto|].
  eapply IH; eauto. intros y Hy. apply Hl. right. auto.
Qed.

Lemma istep_Safe : forall cfgs s s', istep s s' -> Safe cfgs s -> Safe cfgs s' /\ cfg s' = cfg s.
Proof.
  intros cfgs s s' H HS.
  destruct (cpstep_CPInv s s' (or_introl H) (sf_cp _ _ HS)) as [HCP Hcfg]. split; [|exact Hcfg].
  destruct HS as [HC HPl HK HH HO HM HIn HId Hnc]. destruct H.
  - (* a dispatcher step *)
    pose proof (ci_disps _ HC) as HD. simpl in HD.
    inversion H as [s0 s0' ds1 d d' ds2 Hst]; subst.
    match goal with E : _ ++ _ :: _ = disps s |- _ => rewrite <- E in *; clear E end.
    apply Forall_app in HK. destruct HK as [HK1 HK2]. inversion HK2 as [|? ? HKd HK3]; subst.
    destruct (dstep_K cfgs P P_ok _ _ _ Hst HPl HKd) as [HPl' [HKd' Hhist]]. simpl in *.
    constructor; simpl; auto.
    + apply Forall_app. split; auto.
    + assert (Hd : DInv (c_alg (cfg s)) d).
      { apply Forall_app in HD. destruct HD as [_ HD2]. inversion HD2; auto. }
      destruct (dstep_effect _ _ _ Hst Hd) as [[Eh _]|[l [f [_ [_ [_ [_ [Eh _]]]]]]]]; simpl in Eh; rewrite Eh; auto.
      apply Forall_app. split; auto.
    + apply (dstep_OInv cfgs (cfg s) _ _ ds1 ds2 Hst HD HPl HO).
    + apply (dstep_msg _ _ _ Hst HM).
    + destruct (dstep_frame _ _ _ Hst) as [_ [Ec _]]. simpl in Ec. congruence.
  - (* a launch starts *)
    pose proof (ci_disps _ HC) as HD. simpl in HD.
    rewrite H1 in *. rewrite H0 in HIn, HId. inversion HIn as [|? ? Hl16 HIn']; subst.
    apply Forall_app in HD. destruct HD as [HD1 HD2]. inversion HD2 as [|? ? HDd HD3]; subst.
    apply Forall_app in HK. destruct HK as [HK1 HK2]. inversion HK2 as [|? ? HKd HK3]; subst.
    assert (Hidle : cur_wg d = None /\ inflight d = [] /\ g_cur d = None /\
                    (is_partition (c_alg (cfg s)) = false -> a_cur d = None)).
    { destruct HDd as [Hcur [_ [_ Hd]]]. rewrite H2 in Hd. destruct Hd as [Hw [Hi [_ [Hp _]]]].
      unfold cur_ok in Hcur. rewrite Hw in Hcur. destruct (g_cur d) eqn:Eg; [tauto|].
      repeat split; auto. intros Hf. unfold alg_pending in Hp. destruct (c_alg (cfg s)); try discriminate;
        destruct (a_cur d); simpl in Hp; congruence. }
    destruct Hidle as [Hw [Hi [Hg Ha]]].
    set (d' := start_dispatching (cfg s) (length (pool (sh s))) d l).
    assert (E1 : cur_wg d' = None /\ inflight d' = [] /\ g_cur d' = None /\ g_sent d' = []).
    { unfold d', start_dispatching, alg_start. destruct (c_alg (cfg s)); simpl; auto. }
    destruct E1 as [E1 [E2 [E3 E4]]].
    constructor; simpl; auto.
    + apply Forall_app. split; auto. constructor; auto.
      split; [|split; [rewrite E4; constructor|intros p Hp; congruence]].
      intros x Hx. pose proof (start_pending (cfg s) (length (pool (sh s))) d l H4 Ha) as Hg0.
      apply gridrel_perm in Hg0. eapply grid_demands; eauto.
      eapply Permutation_in; [apply Permutation_sym; exact Hg0|exact Hx].
    + destruct HO as [Hn Hr Ht Hi0].
      assert (Hown : own d = [] /\ own d' = []).
      { unfold own. rewrite Hw, Hi, E1, E2. auto. }
      destruct Hown as [Ho1 Ho2].
      constructor.
      * rewrite owned_mid in *. rewrite Ho2. rewrite Ho1 in Hn. exact Hn.
      * intros j k. rewrite owned_mid in *. rewrite Ho2. rewrite Ho1 in Hr. apply Hr.
      * apply Forall_app in Ht. destruct Ht as [Ht1 Ht2]. inversion Ht2; subst.
        apply Forall_app. split; auto. constructor; auto. intros j k Hin. rewrite Ho2 in Hin. inversion Hin.
      * rewrite running_mid in *. rewrite H2 in Hi0. simpl in *.
        (* the new launch id is not among the running ones *)
        rewrite map_app in *. simpl.
        apply (Permutation_NoDup (l := lr_id l :: map lr_id (running ds1) ++ map lr_id (running ds2))).
        { apply Permutation_middle. }
        constructor; auto.
        intros Hin. simpl in HId. apply NoDup_remove_2 in HId. apply HId.
        apply in_or_app. left.
        pose proof (ci_started _ HC) as Hperm. simpl in Hperm. rewrite H1, running_mid, H2 in Hperm. simpl in Hperm.
        apply (Permutation_in _ (Permutation_sym (Permutation_map lr_id Hperm))).
        rewrite map_app. apply in_or_app. right. rewrite map_app. exact Hin.
    + rewrite <- app_assoc. simpl. exact HId.
Qed.

Lemma isteps_Safe : forall cfgs s s', isteps s s' -> Safe cfgs s -> Safe cfgs s' /\ cfg s' = cfg s.
Proof.
  induction 1; intros HS; [auto|].
  destruct (istep_Safe _ _ _ H HS) as [HS1 E1]. destruct (IHisteps HS1) as [HS2 E2]. split; auto. congruence.
Qed.

Lemma Forall2_len : forall A B (R : A -> B -> Prop) l1 l2, Forall2 R l1 l2 -> length l1 = length l2.
Proof. induction 1; simpl; auto. Qed.

Lemma Safe_no_ccrash : forall cfgs s,
  Safe cfgs s -> Forall (fun c0 => cfg_simds c0 <> []) cfgs ->
  (is_partition (c_alg (cfg s)) = true -> cfgs <> []) -> ~ ccrash_at s.
Proof.
  intros cfgs s HS Hsim Hp [[ds1 [d [ds2 [E Hcr]]]]|[Hpa [Hpool _]]].
  - simpl in E, Hcr. destruct HS as [HC HPl HK HH HO HM _ _ _].
    pose proof (ci_disps _ HC) as HD. rewrite E in HD, HK, HO.
    assert (HKd : Kd cfgs P (c_alg (cfg s)) d).
    { apply Forall_app in HK. destruct HK as [_ HK2]. inversion HK2; auto. }
    exact (no_crash_at cfgs (cfg s) _ _ _ _ HD HPl Hsim HKd HO HM Hcr).
  - specialize (Hp Hpa). pose proof (sf_pool _ _ HS) as HPl. unfold PoolInv in HPl.
    apply Forall2_len in HPl. rewrite Hpool in HPl. destruct cfgs; [congruence|discriminate].
Qed.

(** * Every run under the contract *)

(** the contract of the environment: launches carry work-groups of 1..16
    wavefronts, and no completion message lists an ID twice *)
Definition evP (e : ev) : Prop :=
  match e with
  | ELaunch l => launchP l
  | EComplete ids => NoDup ids
  | _ => True
  end.

Definition launch_ids (evs : list ev) : list N :=
  flat_map (fun e => match e with ELaunch l => [lr_id l] | _ => [] end) evs.

Lemma IdInv_cu_in : forall s d X, IdInv s d -> IdInv (s <| cu_in := X |>) d.
Proof. intros s d X H. exact H. Qed.

Lemma CInt_sh_same : forall s sh',
  CInt s -> pool sh' = pool (sh s) -> next_id sh' = next_id (sh s) -> disps s = disps s ->
  CInt (s <| sh := sh' |>).
Proof.
  intros s sh' HI Hp Hn _. unfold CInt in *. simpl. rewrite Hp.
  eapply Forall_impl; [|exact HI]. intros d [HA [H1 H2]]. split; auto. split; auto. rewrite Hn. exact H2.
Qed.

Lemma OInv_pool_same : forall s s' ds, OInv s ds -> pool s' = pool s -> OInv s' ds.
Proof. intros s s' ds [H1 H2 H3 H4] E. constructor; auto. intros j k. rewrite E. apply H2. Qed.

Lemma NoDup_app_snoc : forall A (l : list A) x, NoDup l -> ~ In x l -> NoDup (l ++ [x]).
Proof.
  intros A l x Hn Hx. apply (Permutation_NoDup (l := x :: l)).
  - rewrite Permutation_app_comm. simpl. apply Permutation_refl.
  - constructor; auto.
Qed.

Lemma step_Safe : forall cfgs s e,
  Safe cfgs s -> CInt s ->
  Forall (fun c0 => cfg_simds c0 <> []) cfgs -> (is_partition (c_alg (cfg s)) = true -> cfgs <> []) ->
  evP e ->
  match e with ELaunch l => ~ In (lr_id l) (map lr_id (g_started s ++ drv_in s)) | _ => True end ->
  Safe cfgs (fst (step s e)) /\ CInt (fst (step s e)) /\ cfg (fst (step s e)) = cfg s /\
  (forall l, In l (g_started (fst (step s e)) ++ drv_in (fst (step s e))) ->
             In l (g_started s ++ drv_in s) \/ e = ELaunch l).
Proof.
  intros cfgs s e HS HI Hsim Hpart He Hfresh. pose proof (sf_nc _ _ HS) as Hnc.
  unfold step. rewrite Hnc. destruct e; simpl in *.
  - (* launch request *)
    destruct (length (drv_in s) <? c_cap (cfg s)) eqn:E; simpl; [|split; [exact HS|split; [exact HI|split; [reflexivity|intros; left; assumption]]]].
    apply Nat.ltb_lt in E.
    destruct (cpstep_CPInv s _ (or_intror (CS_launch s l E)) (sf_cp _ _ HS)) as [HCP _].
    destruct HS as [HC HPl HK HH HO HM HIn HId _].
    split; [|split; [exact HI|split; [reflexivity|]]].
    + constructor; simpl; auto.
      * apply Forall_app. split; auto.
      * rewrite app_assoc, map_app. simpl. apply NoDup_app_snoc; auto.
    + intros l0 Hl0. rewrite app_assoc in Hl0. apply in_app_or in Hl0. destruct Hl0 as [?|[<-|[]]]; auto.
  - (* completion message *)
    destruct (length (cu_in (sh s)) <? c_cap (cfg s)) eqn:E; simpl; [|split; [exact HS|split; [exact HI|split; [reflexivity|intros; left; assumption]]]].
    apply Nat.ltb_lt in E.
    destruct (cpstep_CPInv s _ (or_intror (CS_complete s ids E)) (sf_cp _ _ HS)) as [HCP _].
    destruct HS as [HC HPl HK HH HO HM HIn HId _].
    split; [|split; [apply CInt_sh_same; auto|split; [reflexivity|auto]]].
    constructor; simpl; auto.
    + eapply OInv_pool_same; eauto.
    + apply Forall_app. split; auto.
  - (* tick *)
    destruct (cp_tick s) as [s' p] eqn:E. simpl.
    destruct (cp_tick_ref _ _ _ E Hnc HI) as [x [Hx Hr]].
    destruct (isteps_Safe cfgs _ _ Hx HS) as [HSx Hcx].
    destruct Hr as [[Hc1 [-> [HI1 [Hcf1 _]]]]|[Hc1 Hcr]].
    + split; [exact HSx|]. split; [exact HI1|]. split; [exact Hcf1|].
      intros l Hl. left.
      (* started ++ queued launches are the same list *)
      clear - Hx Hl. induction Hx; auto. apply IHHx in Hl. destruct H; simpl in *; auto.
      rewrite <- app_assoc in Hl. simpl in Hl. rewrite H0. exact Hl.
    + exfalso. apply (Safe_no_ccrash cfgs x HSx Hsim); [rewrite Hcx; exact Hpart|exact Hcr].
  - (* the CU side retrieves *)
    destruct (cu_out (sh s)) as [|m r] eqn:E; simpl; [split; [exact HS|split; [exact HI|split; [reflexivity|intros; left; assumption]]]|].
    destruct (cpstep_CPInv s _ (or_intror (CS_retr_cu s m r E)) (sf_cp _ _ HS)) as [HCP _].
    destruct HS as [HC HPl HK HH HO HM HIn HId _].
    split; [|split; [|split; [reflexivity|auto]]].
    + constructor; simpl; auto. eapply OInv_pool_same; eauto.
    + unfold CInt in *. simpl. exact HI.
  - (* the driver side retrieves *)
    destruct (drv_out (sh s)) as [|m r] eqn:E; simpl; [split; [exact HS|split; [exact HI|split; [reflexivity|intros; left; assumption]]]|].
    destruct (cpstep_CPInv s _ (or_intror (CS_retr_drv s m r E)) (sf_cp _ _ HS)) as [HCP _].
    destruct HS as [HC HPl HK HH HO HM HIn HId _].
    split; [|split; [|split; [reflexivity|auto]]].
    + constructor; simpl; auto. eapply OInv_pool_same; eauto.
    + unfold CInt in *. simpl. exact HI.
Qed.

Lemma init_Safe : forall c cus n, Safe cus (init_cp c cus n).
Proof.
  intros. constructor; simpl; auto.
  - apply init_cp_inv.
  - apply (pi_pool _ _ (init_pool c cus n)).
  - apply Forall_forall. intros d Hd. apply repeat_spec in Hd. subst.
    split; [|split; [constructor|intros p Hp; discriminate]].
    intros x Hx. unfold alg_pending, init_disp in Hx. destruct (c_alg c); simpl in Hx; tauto.
  - assert (Ho : owned (repeat init_disp n) = []).
    { induction n; simpl; auto. }
    assert (Hr : running (repeat init_disp n) = []).
    { induction n; simpl; auto. }
    constructor.
    + rewrite Ho. constructor.
    + intros j k. rewrite Ho. split; [intros []|].
      intros [c0 [Hc0 Hl]]. exfalso. apply Hl. simpl in Hc0. rewrite nth_error_map in Hc0.
      destruct (nth_error cus j); simpl in Hc0; [|discriminate]. inversion Hc0; subst. reflexivity.
    + apply Forall_forall. intros d Hd. apply repeat_spec in Hd. subst. intros j k Hin. inversion Hin.
    + rewrite Hr. constructor.
  - constructor.
Qed.

Lemma run_Safe : forall cfgs evs s,
  Safe cfgs s -> CInt s ->
  Forall (fun c0 => cfg_simds c0 <> []) cfgs -> (is_partition (c_alg (cfg s)) = true -> cfgs <> []) ->
  Forall evP evs -> NoDup (launch_ids evs) ->
  (forall l, In l (g_started s ++ drv_in s) -> ~ In (lr_id l) (launch_ids evs)) ->
  Safe cfgs (run s evs).
Proof.
  induction evs as [|e evs IH]; intros s HS HI Hsim Hpart He Hn Hfr; simpl; auto.
  inversion He as [|? ? He1 He2]; subst.
  assert (Hfresh : match e with
                   | ELaunch l => ~ In (lr_id l) (map lr_id (g_started s ++ drv_in s))
                   | _ => True
                   end).
  { destruct e; auto. intros Hin. apply in_map_iff in Hin. destruct Hin as [l0 [E Hl0]].
    apply (Hfr l0 Hl0). simpl. left. auto. }
  destruct (step_Safe cfgs s e HS HI Hsim Hpart He1 Hfresh) as [HS1 [HI1 [Hcf1 Hl1]]].
  apply IH; auto.
  - rewrite Hcf1. exact Hpart.
  - destruct e; simpl in Hn; auto. inversion Hn; auto.
  - intros l Hl. destruct (Hl1 l Hl) as [Hold|Enew].
    + intros Hin. apply (Hfr l Hold). destruct e; simpl; auto.
    + subst e. simpl in Hn. inversion Hn; auto.
Qed.

End Contract.

(** the plain contract: work-groups of 1..16 wavefronts *)
Definition ev16 : ev -> Prop := evP dem16.
Lemma dem16_id : forall dm, dem16 dm -> dem16 dm. Proof. auto. Qed.
