(** Invariant of the command-processor relay model and the lemmas behind
    cp_copy_waits_for_flush / cp_relay_exactly_once in props/C11.v. *)
From Coq Require Import List NArith Bool Arith Lia ZifyN ZifyNat ZifyBool Permutation.
From VCp Require Import CpRelay DmaProofs.
From RecordUpdate Require Import RecordSet.
Import ListNotations RecordSetNotations.
Open Scope N_scope.

Definition f_clone (e : clone * bool * N * N) : clone := fst (fst (fst e)).
Definition f_sent (e : clone * bool * N * N) : bool := snd (fst (fst e)).
Definition f_issued (e : clone * bool * N * N) : N := snd (fst e).
Definition f_acked (e : clone * bool * N * N) : N := snd e.
Definition r_rsp (e : drsp * bool * N * N) : drsp := fst (fst (fst e)).
Definition r_sent (e : drsp * bool * N * N) : bool := snd (fst (fst e)).
Definition r_issued (e : drsp * bool * N * N) : N := snd (fst e).
Definition r_acked (e : drsp * bool * N * N) : N := snd e.

Definition is_copy (r : dreq) : bool := match q_kind r with DH2D | DD2H => true | _ => false end.
Definition is_copy_rsp (e : drsp * bool * N * N) : bool :=
  match p_kind (r_rsp e) with DFlush => false | _ => true end.

Definition tabs (s : cp) : list (N * dreq) := tab_h2d s ++ tab_d2h s.

Record RInv (s : cp) : Prop := {
  ri_stream : g_retr s ++ drv_out s = map r_rsp (filter r_sent (g_rsp s));
  ri_cons : g_cons s ++ drv_in s = g_deliv s;
  ri_acks : g_wrapped s = false -> acks s + g_acked s = g_issued s;
  ri_fwd : Forall (fun e => g_wrapped s = false -> f_issued e = f_acked e) (g_fwd s);
  ri_rspf : Forall (fun e => p_kind (r_rsp e) = DFlush -> g_wrapped s = false -> r_issued e = r_acked e) (g_rsp s);
  ri_keys : NoDup (map fst (tabs s)) /\ Forall (fun e => fst e < fresh s) (tabs s) /\
            Forall (fun e => is_copy (snd e) = true) (tabs s);
  ri_once : Permutation (map (fun e => p_orig (r_rsp e)) (filter is_copy_rsp (g_rsp s)) ++
                         map (fun e => q_id (snd e)) (tabs s))
                        (map q_id (filter is_copy (g_cons s)));
  ri_fwdall : map (fun e => cl_orig (f_clone e)) (g_fwd s) = map q_id (filter is_copy (g_cons s))
}.

Ltac rsplit H := destruct H as [Hstream Hcons Hacks Hfwd Hrspf Hkeys Honce Hfwdall].

Lemma init_rinv n cap : RInv (init n cap).
Proof. constructor; cbn; auto; try lia. repeat split; constructor. Qed.

(** ** sending a response to the driver *)
Lemma send_drv_fields s r :
  drv_in (send_drv s r) = drv_in s /\ g_cons (send_drv s r) = g_cons s /\ g_deliv (send_drv s r) = g_deliv s /\
  acks (send_drv s r) = acks s /\ g_acked (send_drv s r) = g_acked s /\ g_issued (send_drv s r) = g_issued s /\
  g_wrapped (send_drv s r) = g_wrapped s /\ g_fwd (send_drv s r) = g_fwd s /\ g_retr (send_drv s r) = g_retr s /\
  tab_h2d (send_drv s r) = tab_h2d s /\ tab_d2h (send_drv s r) = tab_d2h s /\ fresh (send_drv s r) = fresh s.
Proof. unfold send_drv. cbn. repeat split. Qed.

Lemma send_stream s r :
  g_retr s ++ drv_out s = map r_rsp (filter r_sent (g_rsp s)) ->
  g_retr (send_drv s r) ++ drv_out (send_drv s r) = map r_rsp (filter r_sent (g_rsp (send_drv s r))).
Proof.
  intros H. unfold send_drv. cbn. rewrite filter_app, map_app.
  destruct (room (dcap s) (drv_out s)); cbn.
  - rewrite app_assoc, H. reflexivity.
  - rewrite !app_nil_r. exact H.
Qed.

Lemma send_flush_rsp_rinv s r : RInv s -> p_kind r = DFlush ->
  (g_wrapped s = false -> g_issued s = g_acked s) -> RInv (send_drv s r).
Proof.
  intros H Hk Hz. pose proof (send_stream s r (ri_stream _ H)) as Hs. rsplit H.
  unfold send_drv in *. constructor; cbn in *; auto.
  - apply Forall_app. split; [assumption|]. constructor; [|constructor]. unfold r_issued, r_acked. cbn. auto.
  - rewrite filter_app. cbn. unfold is_copy_rsp at 2. unfold r_rsp at 2. cbn. rewrite Hk. rewrite app_nil_r. assumption.
Qed.

(** ** tables *)
Lemma lookup_in c t r : lookup c t = Some r -> In (c, r) t.
Proof.
  induction t as [|[k v] t IH]; cbn; [discriminate|]. destruct (k =? c) eqn:E.
  - intros H. inversion H; subst. apply N.eqb_eq in E. subst. auto.
  - auto.
Qed.

Lemma lookup_none c t : lookup c t = None -> ~ In c (map fst t).
Proof.
  induction t as [|[k v] t IH]; cbn; [tauto|]. destruct (k =? c) eqn:E; [discriminate|].
  intros H [Hk|Hin]; [apply N.eqb_neq in E; contradiction|]. exact (IH H Hin).
Qed.

Lemma remove_notin c t : ~ In c (map fst t) -> remove c t = t.
Proof.
  unfold remove. induction t as [|[k v] t IH]; cbn; intros H; [reflexivity|].
  replace (k =? c) with false by (symmetry; apply N.eqb_neq; intuition). cbn. rewrite IH; intuition.
Qed.

Lemma remove_perm c t r : NoDup (map fst t) -> lookup c t = Some r -> Permutation t ((c, r) :: remove c t).
Proof.
  induction t as [|[k v] t IH]; cbn [lookup map fst]; intros Hn Hl; [discriminate|]. inversion Hn as [|? ? Hk Ht]; subst.
  unfold remove. cbn [filter fst]. fold (remove c t).
  destruct (k =? c) eqn:E; cbn [negb].
  - inversion Hl; subst. apply N.eqb_eq in E. subst. rewrite remove_notin by assumption. reflexivity.
  - rewrite (IH Ht Hl) at 1. apply perm_swap.
Qed.

Lemma remove_sub c t : incl (remove c t) t.
Proof. intros x Hx. unfold remove in Hx. apply filter_In in Hx. tauto. Qed.

Lemma remove_nodup c t : NoDup (map fst t) -> NoDup (map fst (remove c t)).
Proof.
  induction t as [|[k v] t IH]; cbn [map fst]; intros Hn; [constructor|]. inversion Hn; subst.
  unfold remove. cbn [filter fst]. fold (remove c t).
  destruct (negb (k =? c)); cbn [map fst]; auto. constructor; auto.
  intros Hin. apply in_map_iff in Hin as (x & E & Hx). apply remove_sub in Hx. apply H1. apply in_map_iff. eauto.
Qed.

(** ** the stages *)
Lemma panic_rinv s : RInv s -> RInv (s <| panicked := true |>).
Proof. intros H. rsplit H. constructor; cbn; auto. Qed.

Lemma process_flush_rinv s r rest : RInv s -> drv_in s = r :: rest -> q_kind r = DFlush ->
  RInv (fst (process_flush s r rest)).
Proof.
  intros H Hin Hk. unfold process_flush. destruct (0 <? acks s) eqn:Ea; [exact H|].
  destruct (negb _); [apply panic_rinv; exact H|]. cbv zeta.
  set (s1 := s <| cache_out := _ |> <| acks := _ |> <| g_issued := _ |> <| cur_flush := _ |>).
  assert (Hfilt : filter is_copy (g_cons s ++ [r]) = filter is_copy (g_cons s)).
  { rewrite filter_app. cbn. unfold is_copy at 2. rewrite Hk. apply app_nil_r. }
  assert (H1 : RInv s1 /\ acks s1 = N.of_nat (ncache s)).
  { split; [|reflexivity]. rsplit H. unfold s1. constructor; cbn; auto.
    intros Hw. specialize (Hacks Hw). lia. }
  destruct H1 as [H1 Ha1].
  assert (H2 : RInv (if acks s1 =? 0 then send_drv s1 (mkDRsp (q_id r) DFlush P_DRIVER) else s1) /\
               g_cons (if acks s1 =? 0 then send_drv s1 (mkDRsp (q_id r) DFlush P_DRIVER) else s1) = g_cons s /\
               drv_in (if acks s1 =? 0 then send_drv s1 (mkDRsp (q_id r) DFlush P_DRIVER) else s1) = drv_in s /\
               g_deliv (if acks s1 =? 0 then send_drv s1 (mkDRsp (q_id r) DFlush P_DRIVER) else s1) = g_deliv s).
  { destruct (acks s1 =? 0) eqn:Ez; [|split; [exact H1|split; [reflexivity|split; reflexivity]]].
    split; [|unfold send_drv, s1; cbn; auto]. apply N.eqb_eq in Ez.
    apply send_flush_rsp_rinv; [exact H1|reflexivity|].
    intros Hw. pose proof (ri_acks _ H1 Hw) as Ha. rewrite Ez in Ha. lia. }
  destruct H2 as (H2 & Ec & Ei & Ed). set (s2 := if acks s1 =? 0 then _ else s1) in *.
  rsplit H2. cbn [fst]. constructor; cbn; auto.
  - rewrite <- app_assoc. cbn [app]. rewrite Ec, Ei, Hin in Hcons. exact Hcons.
  - rewrite Hfilt. rewrite Ec in Honce. exact Honce.
  - rewrite Hfilt. rewrite Ec in Hfwdall. exact Hfwdall.
Qed.

Lemma process_copy_rinv s r rest : RInv s -> drv_in s = r :: rest -> is_copy r = true ->
  RInv (fst (process_copy s r rest)).
Proof.
  intros H Hin Hk. unfold process_copy. destruct (0 <? acks s) eqn:Ea; [exact H|].
  rsplit H. destruct Hkeys as (Hnd & Hlt & Hkind). cbn [fst].
  assert (Hfilt : filter is_copy (g_cons s ++ [r]) = filter is_copy (g_cons s) ++ [r]).
  { rewrite filter_app. cbn. rewrite Hk. reflexivity. }
  assert (Hfr : ~ In (fresh s) (map fst (tabs s))).
  { intros Hi. apply in_map_iff in Hi as (e & E & He). rewrite Forall_forall in Hlt. apply Hlt in He. lia. }
  assert (Ha0 : acks s = 0) by lia.
  unfold tabs in *.
  constructor; cbn.
  - assumption.
  - rewrite <- app_assoc. cbn. rewrite <- Hin. assumption.
  - assumption.
  - apply Forall_app. split; [assumption|]. constructor; [|constructor].
    unfold f_issued, f_acked. cbn. intros Hw. specialize (Hacks Hw). lia.
  - assumption.
  - unfold is_copy in Hk. destruct (q_kind r) eqn:Ek; try discriminate; cbn.
    + repeat split.
      * constructor; assumption.
      * constructor; [cbn; lia|]. eapply Forall_impl; [|exact Hlt]. cbn. intros; lia.
      * constructor; [unfold is_copy; cbn; try rewrite Ek; reflexivity|assumption].
    + repeat split.
      * rewrite map_app in *. cbn. apply NoDup_Add with (a := fresh s) (l := map fst (tab_h2d s) ++ map fst (tab_d2h s)).
        -- apply Add_app.
        -- split; assumption.
      * apply Forall_app. apply Forall_app in Hlt as [L1 L2]. split.
        -- eapply Forall_impl; [|exact L1]. cbn. intros; lia.
        -- constructor; [cbn; lia|]. eapply Forall_impl; [|exact L2]. cbn. intros; lia.
      * apply Forall_app. apply Forall_app in Hkind as [K1 K2]. split; [assumption|].
        constructor; [unfold is_copy; cbn; try rewrite Ek; reflexivity|assumption].
  - rewrite Hfilt, map_app. cbn. rewrite <- Permutation_cons_append.
    unfold is_copy in Hk. destruct (q_kind r) eqn:Ek; try discriminate; cbn.
    + rewrite <- Permutation_middle. constructor. rewrite map_app in Honce. assumption.
    + rewrite app_assoc. rewrite <- Permutation_middle. constructor.
      rewrite <- app_assoc. rewrite map_app in Honce. assumption.
  - rewrite Hfilt, !map_app. cbn. rewrite Hfwdall. reflexivity.
Qed.

Lemma cp_handle_rinv s : RInv s -> RInv (fst (cp_handle s)).
Proof.
  intros H. unfold cp_handle. destruct (drv_in s) as [|r rest] eqn:E; [exact H|].
  destruct (q_kind r) eqn:Ek.
  - apply process_flush_rinv; auto.
  - apply process_copy_rinv; auto. unfold is_copy. rewrite Ek. reflexivity.
  - apply process_copy_rinv; auto. unfold is_copy. rewrite Ek. reflexivity.
  - exact H.
Qed.

Lemma answer_rinv s c r rest (h2d : bool) :
  RInv s -> dma_in s = MRsp c :: rest ->
  (if h2d then lookup c (tab_h2d s) = Some r else lookup c (tab_h2d s) = None /\ lookup c (tab_d2h s) = Some r) ->
  RInv (send_drv (if h2d then s <| tab_h2d := remove c (tab_h2d s) |> else s <| tab_d2h := remove c (tab_d2h s) |>)
                 (mkDRsp (q_id r) (q_kind r) (q_src r)) <| dma_in := rest |>).
Proof.
  intros H Hin Hl. rsplit H. destruct Hkeys as (Hnd & Hlt & Hkind). unfold tabs in *.
  rewrite map_app in Hnd.
  destruct (nodup_app_inv _ _ Hnd) as (Hnd1 & Hnd2 & Hdis).
  assert (Hr : In (c, r) (tab_h2d s ++ tab_d2h s)).
  { apply in_app_iff. destruct h2d; [left|right]; apply lookup_in; tauto. }
  assert (Hcopy : is_copy r = true).
  { rewrite Forall_forall in Hkind. exact (Hkind _ Hr). }
  assert (Hnf : match q_kind r with DFlush => false | _ => true end = true).
  { unfold is_copy in Hcopy. destruct (q_kind r); auto. }
  set (s' := if h2d then _ else _).
  assert (Et : Permutation (tab_h2d s ++ tab_d2h s) ((c, r) :: tab_h2d s' ++ tab_d2h s')).
  { unfold s'. destruct h2d; cbn.
    - rewrite (remove_perm c (tab_h2d s) r Hnd1 Hl) at 1. reflexivity.
    - destruct Hl as [_ Hl]. rewrite (remove_perm c (tab_d2h s) r Hnd2 Hl) at 1.
      rewrite <- Permutation_middle. reflexivity. }
  assert (Esame : drv_in s' = drv_in s /\ g_cons s' = g_cons s /\ g_deliv s' = g_deliv s /\ acks s' = acks s /\
                  g_acked s' = g_acked s /\ g_issued s' = g_issued s /\ g_wrapped s' = g_wrapped s /\
                  g_fwd s' = g_fwd s /\ g_retr s' = g_retr s /\ drv_out s' = drv_out s /\ g_rsp s' = g_rsp s /\
                  fresh s' = fresh s /\ dcap s' = dcap s).
  { unfold s'. destruct h2d; cbn; repeat split. }
  destruct Esame as (E1 & E2 & E3 & E4 & E5 & E6 & E7 & E8 & E9 & E10 & E11 & E12 & E13).
  assert (Hsub : incl (tab_h2d s' ++ tab_d2h s') (tab_h2d s ++ tab_d2h s)).
  { unfold s'. destruct h2d; cbn; intros x Hx; apply in_app_iff in Hx as [Hx|Hx]; apply in_app_iff; auto.
    - left. eapply remove_sub; eauto.
    - right. eapply remove_sub; eauto. }
  pose proof (send_stream s' (mkDRsp (q_id r) (q_kind r) (q_src r))) as Hs. unfold send_drv in Hs. cbn in Hs.
  constructor; unfold send_drv; cbn.
  - apply Hs. rewrite E9, E10, E11. assumption.
  - rewrite E1, E2, E3. assumption.
  - rewrite E4, E5, E6, E7. assumption.
  - rewrite E7, E8. assumption.
  - rewrite E7, E11. apply Forall_app. split; [assumption|]. constructor; [|constructor].
    unfold r_rsp. cbn. intros Hf. exfalso. rewrite Hf in Hnf. discriminate.
  - unfold tabs. repeat split.
    + rewrite map_app. unfold s'. destruct h2d; cbn.
      * apply nodup_app_intro.
        -- apply remove_nodup. assumption.
        -- assumption.
        -- intros x Hx Hy. apply in_map_iff in Hx as (e & <- & He). apply remove_sub in He.
           apply (Hdis (fst e)); [apply in_map; assumption|assumption].
      * apply nodup_app_intro.
        -- assumption.
        -- apply remove_nodup. assumption.
        -- intros x Hx Hy. apply in_map_iff in Hy as (e & <- & He). apply remove_sub in He.
           apply (Hdis (fst e)); [assumption|apply in_map; assumption].
    + rewrite Forall_forall in *. intros e He. rewrite E12. apply Hlt. apply Hsub. assumption.
    + rewrite Forall_forall in *. intros e He. apply Hkind. apply Hsub. assumption.
  - rewrite E2, E11. rewrite filter_app, map_app. cbn. unfold is_copy_rsp at 2. unfold r_rsp at 2. cbn. rewrite Hnf. cbn.
    rewrite <- app_assoc. cbn. unfold tabs. rewrite <- Honce.
    apply Permutation_app_head. rewrite (Permutation_map (fun e => q_id (snd e)) Et). cbn. reflexivity.
  - rewrite E2, E8. assumption.
Qed.

Lemma cp_internal_rinv s : RInv s -> RInv (fst (cp_internal s)).
Proof.
  intros H. unfold cp_internal. destruct (dma_in s) as [|[c|] rest] eqn:E; [exact H| |apply panic_rinv; exact H].
  destruct (lookup c (tab_h2d s)) as [r|] eqn:L1.
  - cbn [fst]. exact (answer_rinv s c r rest true H E L1).
  - destruct (lookup c (tab_d2h s)) as [r|] eqn:L2; [|apply panic_rinv; exact H].
    cbn [fst]. exact (answer_rinv s c r rest false H E (conj L1 L2)).
Qed.

Lemma ctrl_internal_rinv s : RInv s -> RInv (fst (ctrl_internal s)).
Proof.
  intros H. unfold ctrl_internal. destruct (cache_in s) as [|[|] rest] eqn:E; [exact H| |apply panic_rinv; exact H].
  cbv zeta.
  set (s1 := s <| acks := _ |> <| cache_in := rest |> <| g_acked := _ |> <| g_wrapped := _ |>).
  assert (H1 : RInv s1).
  { rsplit H. unfold s1. constructor; cbn; auto.
    - intros Hw. apply orb_false_iff in Hw as [Hw Hz]. rewrite Hz. specialize (Hacks Hw). apply N.eqb_neq in Hz. lia.
    - eapply Forall_impl; [|exact Hfwd]. cbn. intros e He Hw. apply orb_false_iff in Hw as [Hw _]. auto.
    - eapply Forall_impl; [|exact Hrspf]. cbn. intros e He Hk Hw. apply orb_false_iff in Hw as [Hw _]. auto. }
  destruct (acks s1 =? 0) eqn:Ez; [|exact H1].
  destruct (cur_flush s1) as [f|]; [|apply panic_rinv; exact H1].
  cbn [fst]. apply N.eqb_eq in Ez.
  assert (H2 : RInv (send_drv s1 (mkDRsp (q_id f) DFlush (q_src f)))).
  { apply send_flush_rsp_rinv; [exact H1|reflexivity|]. intros Hw. pose proof (ri_acks _ H1 Hw) as Ha. rewrite Ez in Ha. lia. }
  rsplit H2. constructor; cbn; auto.
Qed.

Lemma andthen_rinv f g s :
  (forall x, RInv x -> RInv (fst (f x))) -> (forall x, RInv x -> RInv (fst (g x))) ->
  RInv s -> RInv (fst (andthen f g s)).
Proof.
  intros Hf Hg H. unfold andthen. pose proof (Hf s H) as H1. destruct (f s) as [s1 p1]. cbn in H1.
  destruct (panicked s1); [exact H1|]. pose proof (Hg s1 H1) as H2. destruct (g s1) as [s2 p2]. exact H2.
Qed.

Lemma round_rinv s : RInv s -> RInv (fst (round s)).
Proof.
  unfold round. apply andthen_rinv; [apply cp_handle_rinv|]. intros x.
  apply andthen_rinv; [apply cp_internal_rinv|apply ctrl_internal_rinv].
Qed.

Lemma tick_rinv s : RInv s -> RInv (fst (tick s)).
Proof.
  intros H. unfold tick. destruct (drv_in s); [apply round_rinv; exact H|].
  apply andthen_rinv; auto using round_rinv.
Qed.

Lemma step_rinv s e : RInv s -> RInv (fst (step s e)).
Proof.
  intros H. unfold step. destruct (panicked s); [exact H|]. destruct e.
  - destruct (room (dcap s) (drv_in s)); [|exact H]. rsplit H. constructor; cbn; auto.
    rewrite app_assoc, Hcons. reflexivity.
  - destruct (room PORT_CAP (dma_in s)); [|exact H]. rsplit H. constructor; cbn; auto.
  - destruct (room PORT_CAP (cache_in s)); [|exact H]. rsplit H. constructor; cbn; auto.
  - pose proof (tick_rinv s H) as Ht. destruct (tick s) as [s' p]. destruct (panicked s'); exact Ht.
  - destruct (drv_out s) as [|r t] eqn:E; [exact H|]. rsplit H. constructor; cbn; auto.
    rewrite <- Hstream, E, <- app_assoc. reflexivity.
  - destruct (dma_out s); [exact H|]. rsplit H. constructor; cbn; auto.
  - destruct (cache_out s); [exact H|]. rsplit H. constructor; cbn; auto.
Qed.

Lemma run_rinv evs : forall s, RInv s -> RInv (run s evs).
Proof.
  induction evs as [|e r IH]; intros s H; [exact H|].
  change (run s (e :: r)) with (run (fst (step s e)) r). apply IH. apply step_rinv. exact H.
Qed.

(** NoDup is inherited along a permutation and by the front part of an append. *)
Lemma once_nodup s : RInv s -> NoDup (map q_id (g_deliv s)) ->
  NoDup (map (fun e => p_orig (r_rsp e)) (filter is_copy_rsp (g_rsp s))).
Proof.
  intros H Hn. rsplit H. rewrite <- Hcons, map_app in Hn. destruct (nodup_app_inv _ _ Hn) as (Hc & _ & _).
  assert (Hf : NoDup (map q_id (filter is_copy (g_cons s)))).
  { clear - Hc. induction (g_cons s) as [|x r IH]; cbn in *; [constructor|]. inversion Hc; subst.
    destruct (is_copy x); cbn; auto. constructor; auto. intros Hin. apply H1.
    apply in_map_iff in Hin as (y & E & Hy). apply filter_In in Hy. apply in_map_iff. exists y. tauto. }
  apply (Permutation_NoDup (Permutation_sym Honce)) in Hf. destruct (nodup_app_inv _ _ Hf) as (A & _ & _). exact A.
Qed.
