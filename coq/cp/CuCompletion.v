(** Executable model of the work-group completion path of the emulation
    compute unit, amd/emu/computeunit.go: processMapWGReq (Tick), runEmulation,
    handleWGCompleteEvent with its batching of finished MapWGReq IDs and the
    retry when the one-entry port to the command processor is full.
    Definitions only; proofs are in CuCompletionProofs.v.

    A work-group is identified with the ID of its MapWGReq (Go keys cu.wfs by
    the work-group pointer; every MapWGReq carries its own work-group).
    Running the wavefronts is abstracted: every queued work-group terminates
    when the emulation event fires and raises one WGCompleteEvent.  The engine
    handles WGCompleteEvents in the order in which they were scheduled (the
    retry is scheduled one cycle later, emulation events at whole seconds). *)
From Coq Require Import List NArith Bool Arith Lia.
Import ListNotations.
Open Scope N_scope.

Record cust := mkCuSt {
  icap : nat; ocap : nat;     (* buffer sizes of ToDispatcher (1, 1) *)
  q_in : list N;              (* ToDispatcher incoming: MapWGReq ids *)
  queueing : list N;          (* cu.queueingWGs *)
  wfs : list N;               (* keys of cu.wfs *)
  finished : list N;          (* cu.finishedMapWGReqs *)
  q_out : list (list N);      (* ToDispatcher outgoing: WGCompletionMsg.RspTo *)
  pending : list N;           (* scheduled WGCompleteEvents, engine order *)
  (* ghost *)
  g_sent : list (list N);     (* every completion message pushed to the port *)
  g_retr : list (list N);     (* completion messages taken by the network *)
  g_deliv : list N            (* accepted MapWGReqs *)
}.

Definition init_cust (ic oc : nat) : cust := mkCuSt ic oc [] [] [] [] [] [] [] [] [].

Inductive cev :=
  | CDeliver (id : N)   (* Deliver a MapWGReq on ToDispatcher *)
  | CTick               (* ComputeUnit.Tick: processMapWGReq *)
  | CEmu                (* emulationEvent: runEmulation *)
  | CHandle             (* the next WGCompleteEvent: handleWGCompleteEvent *)
  | CRetr.              (* the network retrieves from ToDispatcher *)

Inductive cobs :=
  | CAcc (b : bool) | CDone | CHandled (id : option N) | CMsg (m : option (list N)).


Definition cstep (s : cust) (e : cev) : cust * cobs :=
  match e with
  | CDeliver id =>
    if (length (q_in s) <? icap s)%nat
    then (mkCuSt (icap s) (ocap s) (q_in s ++ [id]) (queueing s) (wfs s) (finished s) (q_out s) (pending s)
                 (g_sent s) (g_retr s) (g_deliv s ++ [id]), CAcc true)
    else (s, CAcc false)
  | CTick =>
    match q_in s with
    | [] => (s, CDone)
    | id :: r =>
      (mkCuSt (icap s) (ocap s) r (queueing s ++ [id]) (wfs s ++ [id]) (finished s) (q_out s) (pending s)
              (g_sent s) (g_retr s) (g_deliv s), CDone)
    end
  | CEmu =>
    (mkCuSt (icap s) (ocap s) (q_in s) [] (wfs s) (finished s) (q_out s) (pending s ++ queueing s)
            (g_sent s) (g_retr s) (g_deliv s), CDone)
  | CHandle =>
    match pending s with
    | [] => (s, CHandled None)
    | id :: p =>
      let w := filter (fun x => negb (x =? id)) (wfs s) in                 (* delete(cu.wfs, wg) *)
      let f := if existsb (N.eqb id) (finished s) then finished s else finished s ++ [id] in
      match w with
      | _ :: _ =>
        (mkCuSt (icap s) (ocap s) (q_in s) (queueing s) w f (q_out s) p (g_sent s) (g_retr s) (g_deliv s),
         CHandled (Some id))
      | [] =>
        if (length (q_out s) <? ocap s)%nat then
          (mkCuSt (icap s) (ocap s) (q_in s) (queueing s) w [] (q_out s ++ [f]) p (g_sent s ++ [f]) (g_retr s)
                  (g_deliv s), CHandled (Some id))
        else
          (* Send failed: the same event is scheduled again for the next cycle *)
          (mkCuSt (icap s) (ocap s) (q_in s) (queueing s) w f (q_out s) (p ++ [id]) (g_sent s) (g_retr s)
                  (g_deliv s), CHandled (Some id))
      end
    end
  | CRetr =>
    match q_out s with
    | [] => (s, CMsg None)
    | m :: r =>
      (mkCuSt (icap s) (ocap s) (q_in s) (queueing s) (wfs s) (finished s) r (pending s) (g_sent s)
              (g_retr s ++ [m]) (g_deliv s), CMsg (Some m))
    end
  end.

Definition crun (s : cust) (evs : list cev) : cust := fold_left (fun s e => fst (cstep s e)) evs s.

(** * Correspondence (harness/cmd/c09, mode "emu"): after every event the
    observation and the message waiting in the outgoing port are compared. *)

Definition nl_eqb (a b : list N) : bool :=
  (fix go a b := match a, b with
                 | [], [] => true
                 | x :: a', y :: b' => (x =? y) && go a' b'
                 | _, _ => false
                 end) a b.

Definition on_eqb {A} (e : A -> A -> bool) (a b : option A) : bool :=
  match a, b with Some x, Some y => e x y | None, None => true | _, _ => false end.

Definition cobs_eqb (a b : cobs) : bool :=
  match a, b with
  | CAcc x, CAcc y => Bool.eqb x y
  | CDone, CDone => true
  | CHandled x, CHandled y => on_eqb N.eqb x y
  | CMsg x, CMsg y => on_eqb nl_eqb x y
  | _, _ => false
  end.

(** trace entry: event, observation, head of the outgoing port afterwards *)
Record ecase := mkECase { ec_trace : list (cev * cobs * option (list N)) }.

Fixpoint erun (s : cust) (tr : list (cev * cobs * option (list N))) (i : nat) : option nat :=
  match tr with
  | [] => None
  | (e, o, h) :: r =>
    let '(s', o') := cstep s e in
    if cobs_eqb o o' && on_eqb nl_eqb h (hd_error (q_out s')) then erun s' r (S i) else Some i
  end.

Definition check_ecase (c : ecase) : option nat := erun (init_cust 1 1) (ec_trace c) 0.

Fixpoint emismatches_from (i : nat) (cs : list ecase) : list (nat * nat) :=
  match cs with
  | [] => []
  | c :: r => match check_ecase c with
              | None => emismatches_from (S i) r
              | Some k => (i, k) :: emismatches_from (S i) r
              end
  end.
Definition emismatches := emismatches_from 0.
