(** Proofs about VCp.Resource: the mask primitives, then the invariant of a
    CU resource under every sequence of reserve/free calls. *)
From Coq Require Import List NArith Bool Arith Lia ZifyN ZifyNat ZifyBool.
From VCp Require Import Resource.
Import ListNotations.
Open Scope nat_scope.

(** * Regions and coverage *)

Definition region := (nat * nat)%type.
Definition inreg (r : region) (i : nat) : bool := (fst r <=? i) && (i <? fst r + snd r).

(** number of regions of the list that contain cell i *)
Fixpoint cover (rs : list region) (i : nat) : nat :=
  match rs with
  | [] => 0
  | r :: rs' => (if inreg r i then 1 else 0) + cover rs' i
  end.

Lemma cover_app : forall a b i, cover (a ++ b) i = cover a i + cover b i.
Proof. induction a; simpl; intros; [reflexivity|rewrite IHa; lia]. Qed.

Lemma inreg_iff : forall o l i, inreg (o, l) i = true <-> o <= i < o + l.
Proof. intros. unfold inreg; simpl. rewrite andb_true_iff, Nat.leb_le, Nat.ltb_lt. tauto. Qed.

Lemma inreg_false_iff : forall o l i, inreg (o, l) i = false <-> ~ (o <= i < o + l).
Proof. intros. rewrite <- inreg_iff. destruct (inreg (o, l) i); split; intros; congruence. Qed.

Lemma status_eqb_eq : forall a b, status_eqb a b = true <-> a = b.
Proof. destruct a, b; simpl; split; intros; congruence. Qed.

Lemma status_eqb_refl : forall a, status_eqb a a = true.
Proof. destruct a; reflexivity. Qed.

(** * nextRegion *)

Lemma next_region_go_spec : forall m pre len st cur o,
  cur < len -> cur <= length pre ->
  (forall j, length pre - cur <= j < length pre -> nth_error (pre ++ m) j = Some st) ->
  next_region_go m len st (length pre) cur = Some o ->
  o + len <= length (pre ++ m) /\
  (forall j, o <= j < o + len -> nth_error (pre ++ m) j = Some st).
Proof.
  induction m as [|x m IH]; intros pre len st cur o Hc Hp Hrun Hgo; cbn [next_region_go] in Hgo; [discriminate|].
  destruct (status_eqb x st) eqn:Ex.
  - apply status_eqb_eq in Ex. subst x.
    destruct (Nat.eqb (S cur) len) eqn:El.
    + apply Nat.eqb_eq in El. injection Hgo as <-.
      rewrite app_length; simpl. split; [lia|].
      intros j Hj. destruct (Nat.lt_ge_cases j (length pre)).
      * apply Hrun. lia.
      * assert (j = length pre) by lia. subst j.
        rewrite nth_error_app2 by lia. rewrite Nat.sub_diag. reflexivity.
    + apply Nat.eqb_neq in El.
      specialize (IH (pre ++ [st]) len st (S cur) o).
      rewrite app_length in IH; simpl in IH. rewrite Nat.add_1_r in IH.
      rewrite <- app_assoc in IH; simpl in IH.
      apply IH; try lia; auto.
      intros j Hj. destruct (Nat.lt_ge_cases j (length pre)).
      * apply Hrun. lia.
      * assert (j = length pre) by lia. subst j.
        rewrite nth_error_app2 by lia. rewrite Nat.sub_diag. reflexivity.
  - specialize (IH (pre ++ [x]) len st 0 o).
    rewrite app_length in IH; simpl in IH. rewrite Nat.add_1_r in IH.
    rewrite <- app_assoc in IH; simpl in IH.
    apply IH; auto; try (intros; lia).
Qed.

Lemma next_region_spec : forall m len st o,
  next_region m len st = Some o ->
  o + len <= length m /\ (forall j, o <= j < o + len -> nth_error m j = Some st).
Proof.
  intros m len st o H. destruct len as [|l].
  - simpl in H. inversion H; subst. split; [lia|intros; lia].
  - unfold next_region in H.
    apply (next_region_go_spec m [] (S l) st 0 o); simpl; auto; try (intros; lia).
Qed.

(** completeness: when nextRegion fails there is no run of [len] cells in
    the requested status. *)
Lemma next_region_go_none : forall m pre len st cur,
  cur < len -> cur <= length pre ->
  (forall j, length pre - cur <= j < length pre -> nth_error (pre ++ m) j = Some st) ->
  (cur < length pre -> nth_error (pre ++ m) (length pre - S cur) <> Some st) ->
  (forall o, o + len <= length pre ->
     ~ (forall j, o <= j < o + len -> nth_error (pre ++ m) j = Some st)) ->
  next_region_go m len st (length pre) cur = None ->
  forall o, o + len <= length (pre ++ m) ->
    ~ (forall j, o <= j < o + len -> nth_error (pre ++ m) j = Some st).
Proof.
  induction m as [|x m IH]; intros pre len st cur Hc Hp Hrun Hbrk Hold Hgo o Ho Hall.
  - rewrite app_nil_r in *. eapply Hold; eauto.
  - assert (Hx : nth_error (pre ++ x :: m) (length pre) = Some x).
    { rewrite nth_error_app2 by lia. rewrite Nat.sub_diag. reflexivity. }
    cbn [next_region_go] in Hgo. destruct (status_eqb x st) eqn:Ex.
    + apply status_eqb_eq in Ex; subst x.
      destruct (Nat.eqb (S cur) len) eqn:El; [discriminate|]. apply Nat.eqb_neq in El.
      specialize (IH (pre ++ [st]) len st (S cur)).
      rewrite app_length in IH; cbn [length] in IH. rewrite Nat.add_1_r in IH.
      rewrite <- app_assoc in IH; cbn [app] in IH.
      refine (IH _ _ _ _ _ Hgo o Ho Hall).
      * lia.
      * lia.
      * intros j Hj. destruct (Nat.lt_ge_cases j (length pre)).
        -- apply Hrun; lia.
        -- assert (j = length pre) by lia. subst j. exact Hx.
      * intros Hlt. replace (S (length pre) - S (S cur)) with (length pre - S cur) by lia.
        apply Hbrk. lia.
      * intros o' Ho' Hall'.
        destruct (Nat.le_gt_cases (o' + len) (length pre)).
        -- eapply Hold; eauto.
        -- assert (o' + len = S (length pre)) by lia.
           assert (cur < length pre) by lia.
           apply Hbrk; auto. apply Hall'. lia.
    + specialize (IH (pre ++ [x]) len st 0).
      rewrite app_length in IH; cbn [length] in IH. rewrite Nat.add_1_r in IH.
      rewrite <- app_assoc in IH; cbn [app] in IH.
      assert (Hne : Some x <> Some st).
      { intros E; inversion E; subst. rewrite status_eqb_refl in Ex. discriminate. }
      refine (IH _ _ _ _ _ Hgo o Ho Hall).
      * lia.
      * lia.
      * intros j Hj; lia.
      * intros _. replace (S (length pre) - 1) with (length pre) by lia. rewrite Hx. exact Hne.
      * intros o' Ho' Hall'.
        destruct (Nat.le_gt_cases (o' + len) (length pre)).
        -- eapply Hold; eauto.
        -- assert (o' + len = S (length pre)) by lia.
           apply Hne. rewrite <- Hx. apply Hall'. lia.
Qed.

Lemma next_region_none : forall m len st,
  next_region m len st = None ->
  forall o, o + len <= length m -> ~ (forall j, o <= j < o + len -> nth_error m j = Some st).
Proof.
  intros m len st H. destruct len as [|l]; [discriminate|].
  unfold next_region in H.
  apply (next_region_go_none m [] (S l) st 0); simpl; auto; try (intros; lia).
Qed.

(** * setStatus, convertStatus *)

Lemma set_status_length : forall m off len st, length (set_status m off len st) = length m.
Proof.
  induction m; intros; simpl; [reflexivity|].
  destruct off; [destruct len|]; simpl; auto.
Qed.

Lemma bool_ext : forall a b : bool, (a = true <-> b = true) -> a = b.
Proof. intros [] [] [H1 H2]; auto. symmetry; auto. Qed.

Lemma inreg_shift : forall o l i, inreg (S o, l) (S i) = inreg (o, l) i.
Proof. intros. apply bool_ext. rewrite !inreg_iff. lia. Qed.
Lemma inreg_shift0 : forall l i, inreg (0, S l) (S i) = inreg (0, l) i.
Proof. intros. apply bool_ext. rewrite !inreg_iff. lia. Qed.
Lemma inreg_zero_len : forall o i, inreg (o, 0) i = false.
Proof. intros. apply inreg_false_iff. lia. Qed.
Lemma inreg_S_0 : forall o l, inreg (S o, l) 0 = false.
Proof. intros. apply inreg_false_iff. lia. Qed.
Lemma inreg_0_0 : forall l, inreg (0, S l) 0 = true.
Proof. intros. apply inreg_iff. lia. Qed.

Lemma set_status_nth : forall m off len st i,
  nth_error (set_status m off len st) i =
  if inreg (off, len) i then (match nth_error m i with Some _ => Some st | None => None end)
  else nth_error m i.
Proof.
  induction m as [|x m IH]; intros off len st i.
  - simpl. destruct i; simpl; destruct (inreg _ _); reflexivity.
  - cbn [set_status]. destruct off as [|o].
    + destruct len as [|l].
      * rewrite inreg_zero_len. reflexivity.
      * destruct i as [|i]; cbn [nth_error].
        -- rewrite inreg_0_0. reflexivity.
        -- rewrite IH, inreg_shift0. reflexivity.
    + destruct i as [|i]; cbn [nth_error].
      * rewrite inreg_S_0. reflexivity.
      * rewrite IH, inreg_shift. reflexivity.
Qed.

Lemma convert_length : forall m a b, length (convert_status m a b) = length m.
Proof. intros. apply map_length. Qed.

Lemma convert_nth : forall m a b i,
  nth_error (convert_status m a b) i =
  option_map (fun x => if status_eqb x a then b else x) (nth_error m i).
Proof. intros. unfold convert_status. apply nth_error_map. Qed.

Lemma nth_error_ext : forall A (l1 l2 : list A),
  (forall i, nth_error l1 i = nth_error l2 i) -> l1 = l2.
Proof.
  induction l1; destruct l2; intros H; auto.
  - specialize (H 0); discriminate.
  - specialize (H 0); discriminate.
  - f_equal. + specialize (H 0); simpl in H; congruence.
    + apply IHl1. intros i. apply (H (S i)).
Qed.

(** * The mask invariant *)

Definition cell_ok (st : status) (o n : nat) : Prop :=
  match st with
  | SFree => o = 0 /\ n = 0
  | SToReserve => o = 0 /\ n = 1
  | SReserved => o = 1 /\ n = 0
  | SUsed => False
  end.

Definition in_range (size : nat) (r : region) : Prop := fst r + snd r <= size.

(** [old]: regions of resident work-groups; [new]: regions tentatively taken
    by the reservation in progress. *)
Definition mask_ok (m : mask) (old new : list region) : Prop :=
  (forall i st, nth_error m i = Some st -> cell_ok st (cover old i) (cover new i)) /\
  Forall (in_range (length m)) (old ++ new).

Lemma mask_ok_ext : forall m old new old' new',
  (forall i, cover old i = cover old' i) -> (forall i, cover new i = cover new' i) ->
  Forall (in_range (length m)) (old' ++ new') ->
  mask_ok m old new -> mask_ok m old' new'.
Proof.
  intros m old new old' new' Ho Hn Hr [H _]. split; auto.
  intros i st Hi. rewrite <- Ho, <- Hn. auto.
Qed.

Lemma mask_ok_alloc : forall m old new len off,
  mask_ok m old new -> next_region m len SFree = Some off ->
  mask_ok (set_status m off len SToReserve) old (new ++ [(off, len)]).
Proof.
  intros m old new len off [Hc Hr] Hn.
  apply next_region_spec in Hn. destruct Hn as [Hle Hfree].
  split.
  - intros i st Hi. rewrite set_status_nth in Hi. rewrite cover_app; simpl.
    destruct (inreg (off, len) i) eqn:E.
    + apply inreg_iff in E. rewrite (Hfree i E) in Hi. inversion Hi; subst st.
      specialize (Hc i SFree (Hfree i E)). simpl in *. lia.
    + specialize (Hc i st Hi). destruct st; simpl in *; lia.
  - rewrite set_status_length. rewrite app_assoc. apply Forall_app. split; [exact Hr|].
    constructor; [|constructor]. unfold in_range; simpl; lia.
Qed.

Lemma mask_ok_commit : forall m old new,
  mask_ok m old new -> mask_ok (convert_status m SToReserve SReserved) (new ++ old) [].
Proof.
  intros m old new [Hc Hr]. split.
  - intros i st Hi. rewrite convert_nth in Hi.
    destruct (nth_error m i) as [x|] eqn:E; simpl in Hi; [|discriminate].
    inversion Hi; subst st; clear Hi. specialize (Hc i x E). rewrite cover_app.
    destruct x; simpl in *; lia.
  - rewrite convert_length, app_nil_r. apply Forall_app in Hr. apply Forall_app. tauto.
Qed.

Lemma mask_ok_abort : forall m old new,
  mask_ok m old new -> mask_ok (convert_status m SToReserve SFree) old [].
Proof.
  intros m old new [Hc Hr]. split.
  - intros i st Hi. rewrite convert_nth in Hi.
    destruct (nth_error m i) as [x|] eqn:E; simpl in Hi; [|discriminate].
    inversion Hi; subst st; clear Hi. specialize (Hc i x E).
    destruct x; simpl in *; lia.
  - rewrite convert_length, app_nil_r. apply Forall_app in Hr. tauto.
Qed.

Lemma mask_ok_release : forall m l1 l2 off len,
  mask_ok m (l1 ++ (off, len) :: l2) [] ->
  mask_ok (set_status m off len SFree) (l1 ++ l2) [].
Proof.
  intros m l1 l2 off len [Hc Hr]. split.
  - intros i st Hi. rewrite set_status_nth in Hi.
    destruct (inreg (off, len) i) eqn:E.
    + destruct (nth_error m i) as [x|] eqn:Ex; [|discriminate]. inversion Hi; subst st.
      specialize (Hc i x Ex). rewrite cover_app in *. simpl in Hc. rewrite E in Hc.
      destruct x; simpl in *; lia.
    + specialize (Hc i st Hi). rewrite cover_app in *. simpl in Hc. rewrite E in Hc. exact Hc.
  - rewrite set_status_length, app_nil_r in *.
    apply Forall_app in Hr. destruct Hr as [H1 H2]. inversion H2; subst.
    apply Forall_app; auto.
Qed.

(** setting a region Free whose cells are uncovered changes nothing in the invariant *)
Lemma mask_ok_refree : forall m old off len,
  mask_ok m old [] -> off + len <= length m ->
  (forall i, off <= i < off + len -> nth_error m i = Some SFree) ->
  set_status m off len SFree = m.
Proof.
  intros m old off len _ Hle Hf. apply nth_error_ext. intros i.
  rewrite set_status_nth. destruct (inreg (off, len) i) eqn:E; [|reflexivity].
  apply inreg_iff in E. rewrite (Hf i E). reflexivity.
Qed.

(** consequences of mask_ok with no reservation in progress *)
Lemma mask_ok_status : forall m old i st,
  mask_ok m old [] -> nth_error m i = Some st ->
  (st = SReserved /\ cover old i = 1) \/ (st = SFree /\ cover old i = 0).
Proof.
  intros m old i st [Hc _] Hi. specialize (Hc i st Hi).
  destruct st; simpl in *; try tauto; try lia.
Qed.

Lemma cover_le1_disjoint : forall l1 r1 l2 r2 l3 i,
  cover (l1 ++ r1 :: l2 ++ r2 :: l3) i <= 1 -> inreg r1 i = true -> inreg r2 i = true -> False.
Proof.
  intros. rewrite cover_app in H. simpl in H. rewrite cover_app in H. simpl in H.
  rewrite H0, H1 in H. lia.
Qed.

Lemma mask_ok_cover_le1 : forall m old i, mask_ok m old [] -> i < length m -> cover old i <= 1.
Proof.
  intros m old i H Hi. destruct (nth_error m i) as [st|] eqn:E.
  - destruct (mask_ok_status _ _ _ _ H E) as [[_ ?]|[_ ?]]; lia.
  - apply nth_error_None in E. lia.
Qed.

Lemma cover_in_range_zero : forall size rs i,
  Forall (in_range size) rs -> size <= i -> cover rs i = 0.
Proof.
  induction rs as [|[o l] rs IH]; intros i Hr Hi; simpl; [reflexivity|].
  inversion Hr; subst. rewrite IH by auto.
  replace (inreg (o, l) i) with false; [reflexivity|].
  symmetry. apply inreg_false_iff. unfold in_range in H1; simpl in H1. lia.
Qed.

(** * The CU resource: regions recorded for resident work-groups *)

Definition sreq (d : demand) : nat := units (d_sgpr d) SREG_GRAN.
Definition vreq (d : demand) : nat := units (d_vgpr d) VREG_GRAN.
Definition lreq (d : demand) : nat := units (lds_bytes d) LDS_GRAN.

(** the unit regions FreeResourcesForWG recomputes from a recorded location *)
Definition sreg_of (d : demand) (l : loc) : region := (N.to_nat (l_sgpr l / 4 / SREG_GRAN), sreq d).
Definition vreg_of (d : demand) (l : loc) : region := (N.to_nat (l_vgpr l / 4 / VREG_GRAN), vreq d).
Definition lreg_of (d : demand) (l : loc) : region := (N.to_nat (l_lds l / LDS_GRAN), lreq d).

Definition entry := (wgkey * (demand * list loc))%type.
Definition e_dem (e : entry) : demand := fst (snd e).
Definition e_locs (e : entry) : list loc := snd (snd e).

Definition on_simd (i : nat) (l : loc) : bool := Nat.eqb (l_simd l) i.

Definition sregs (res : list entry) : list region :=
  flat_map (fun e => map (sreg_of (e_dem e)) (e_locs e)) res.
Definition vregs (i : nat) (res : list entry) : list region :=
  flat_map (fun e => map (vreg_of (e_dem e)) (filter (on_simd i) (e_locs e))) res.
Definition lregs (res : list entry) : list region :=
  flat_map (fun e => match e_locs e with [] => [] | l :: _ => [lreg_of (e_dem e) l] end) res.
(** resident wavefronts on SIMD i *)
Definition wf_on (i : nat) (res : list entry) : nat :=
  length (flat_map (fun e => filter (on_simd i) (e_locs e)) res).

Definition entry_ok (nsimd : nat) (e : entry) : Prop :=
  length (e_locs e) = d_nwf (e_dem e) /\ 1 <= d_nwf (e_dem e) /\
  (forall l l', In l (e_locs e) -> In l' (e_locs e) -> l_lds l = l_lds l') /\
  Forall (fun l => l_simd l < nsimd) (e_locs e).

Record Inv (c : cucfg) (s : cu) : Prop := mkInv {
  inv_s : mask_ok (smask s) (sregs (resident s)) [];
  inv_slen : length (smask s) = N.to_nat (cfg_sregs c / SREG_GRAN);
  inv_l : mask_ok (lmask s) (lregs (resident s)) [];
  inv_llen : length (lmask s) = N.to_nat (cfg_lds c / LDS_GRAN);
  inv_nsimd : length (simds s) = length (cfg_simds c);
  inv_v : forall i sd p, nth_error (simds s) i = Some sd -> nth_error (cfg_simds c) i = Some p ->
            mask_ok (vmask sd) (vregs i (resident s)) [] /\
            length (vmask sd) = N.to_nat (fst p / VREG_GRAN / 64) /\
            (wf_free sd + N.of_nat (wf_on i (resident s)) = snd p)%N;
  inv_next : next_simd s < length (simds s) \/ (simds s = [] /\ next_simd s = 0);
  inv_keys : NoDup (map fst (resident s));
  inv_entries : Forall (entry_ok (length (simds s))) (resident s)
}.

(** ** helper lemmas *)

Lemma upd_length : forall A i (f : A -> A) l, length (upd i f l) = length l.
Proof.
  intros. unfold upd. rewrite app_length.
  destruct (skipn i l) eqn:E.
  - apply (f_equal (@length A)) in E. rewrite skipn_length in E. rewrite firstn_length. simpl in *. lia.
  - apply (f_equal (@length A)) in E. rewrite skipn_length in E. rewrite firstn_length. simpl in *. lia.
Qed.

Lemma upd_nth_same : forall A i (f : A -> A) l, nth_error (upd i f l) i = option_map f (nth_error l i).
Proof.
  intros A i f l. revert i. induction l as [|x l IH]; intros [|i]; simpl; auto.
  unfold upd in *. simpl. apply IH.
Qed.

Lemma upd_nth_other : forall A i j (f : A -> A) l, i <> j -> nth_error (upd i f l) j = nth_error l j.
Proof.
  intros A i j f l. revert i j. induction l as [|x l IH]; intros i j H.
  - unfold upd. rewrite firstn_nil, skipn_nil. reflexivity.
  - destruct i as [|i], j as [|j]; try congruence; unfold upd in *; simpl; try reflexivity.
    apply IH. congruence.
Qed.

Lemma nth_nth_error : forall A (l : list A) i d x, nth_error l i = Some x -> nth i l d = x.
Proof. intros. apply nth_error_nth. assumption. Qed.

Lemma sgpr_roundtrip : forall o, N.to_nat ((N.of_nat o * 16 * 4) / 4 / SREG_GRAN) = o.
Proof. intros. unfold SREG_GRAN. rewrite N.div_mul by lia. rewrite N.div_mul by lia. lia. Qed.
Lemma vgpr_roundtrip : forall o, N.to_nat ((N.of_nat o * VREG_GRAN * 4) / 4 / VREG_GRAN) = o.
Proof. intros. unfold VREG_GRAN. rewrite N.div_mul by lia. rewrite N.div_mul by lia. lia. Qed.
Lemma lds_roundtrip : forall o, N.to_nat ((N.of_nat o * LDS_GRAN) / LDS_GRAN) = o.
Proof. intros. unfold LDS_GRAN. rewrite N.div_mul by lia. lia. Qed.

Lemma mk_locs_length : forall soffs loff vs, length soffs = length vs -> length (mk_locs soffs loff vs) = length vs.
Proof.
  induction soffs; destruct vs as [|[sd vo] vs]; simpl; intros; try lia. rewrite IHsoffs; lia.
Qed.

Lemma mk_locs_sregs : forall d soffs loff vs, length soffs = length vs ->
  map (sreg_of d) (mk_locs soffs loff vs) = map (fun o => (o, sreq d)) soffs.
Proof.
  induction soffs; destruct vs as [|[sd vo] vs]; simpl; intros; try lia; auto.
  f_equal. - unfold sreg_of; simpl. rewrite sgpr_roundtrip. reflexivity.
  - apply IHsoffs. lia.
Qed.

Lemma mk_locs_vregs : forall d i soffs loff vs, length soffs = length vs ->
  map (vreg_of d) (filter (on_simd i) (mk_locs soffs loff vs)) =
  map (fun p => (snd p, vreq d)) (filter (fun p => Nat.eqb (fst p) i) vs).
Proof.
  induction soffs; destruct vs as [|[sd vo] vs]; simpl; intros; try lia; auto.
  unfold on_simd at 1; simpl. destruct (Nat.eqb sd i); simpl.
  - f_equal. + unfold vreg_of; simpl. rewrite vgpr_roundtrip. reflexivity.
    + apply IHsoffs; lia.
  - apply IHsoffs; lia.
Qed.

Lemma mk_locs_filter_length : forall i soffs loff vs, length soffs = length vs ->
  length (filter (on_simd i) (mk_locs soffs loff vs)) = length (filter (fun p => Nat.eqb (fst p) i) vs).
Proof.
  induction soffs; destruct vs as [|[sd vo] vs]; simpl; intros; try lia; auto.
  unfold on_simd at 1; simpl. destruct (Nat.eqb sd i); simpl; rewrite IHsoffs; lia.
Qed.

Lemma mk_locs_lds : forall soffs loff vs l, In l (mk_locs soffs loff vs) -> l_lds l = (N.of_nat loff * LDS_GRAN)%N.
Proof.
  induction soffs; destruct vs as [|[sd vo] vs]; simpl; intros; try tauto.
  destruct H; [subst; reflexivity|eauto].
Qed.

Lemma mk_locs_simd : forall n soffs loff vs, Forall (fun p => fst p < n) vs ->
  Forall (fun l => l_simd l < n) (mk_locs soffs loff vs).
Proof.
  induction soffs; destruct vs as [|[sd vo] vs]; simpl; intros; auto.
  inversion H; subst. constructor; auto.
Qed.

Lemma lookup_none : forall k res, lookup k res = None -> ~ In k (map fst res).
Proof.
  induction res as [|[k' v] res IH]; simpl; intros H; [tauto|].
  destruct (key_eqb k k') eqn:E; [discriminate|].
  intros [H1|H1]; [|apply IH; auto].
  subst k'. unfold key_eqb in E. rewrite !N.eqb_refl in E. discriminate.
Qed.

Lemma key_eqb_eq : forall a b, key_eqb a b = true <-> a = b.
Proof.
  intros [a1 a2] [b1 b2]. unfold key_eqb; simpl. rewrite andb_true_iff, !N.eqb_eq.
  split; [intros [? ?]; subst; auto|intros H; inversion H; auto].
Qed.

(** ** the three passes of ReserveResourceForWG *)

Lemma sgpr_pass_ok : forall n m req old new m' r,
  mask_ok m old new -> sgpr_pass m req n = (m', r) ->
  length m' = length m /\
  (exists new', mask_ok m' old new') /\
  (forall offs, r = Some offs ->
     length offs = n /\ mask_ok m' old (new ++ map (fun o => (o, req)) offs)).
Proof.
  induction n; intros m req old new m' r Hok Hp; simpl in Hp.
  - inversion Hp; subst. split; auto. split; [eauto|].
    intros offs E; inversion E; subst. simpl. rewrite app_nil_r. auto.
  - destruct (next_region m req SFree) as [off|] eqn:En.
    + destruct (sgpr_pass (set_status m off req SToReserve) req n) as [m2 r2] eqn:E2.
      inversion Hp; subst; clear Hp.
      pose proof (mask_ok_alloc _ _ _ _ _ Hok En) as Hok2.
      destruct (IHn _ _ _ _ _ _ Hok2 E2) as [Hl [Hex Hs]].
      rewrite set_status_length in Hl. split; auto. split; auto.
      intros offs E. destruct r2 as [offs2|]; simpl in E; [|discriminate].
      inversion E; subst. destruct (Hs offs2 eq_refl) as [Hlen Hm].
      split; [simpl; lia|]. simpl. rewrite <- app_assoc in Hm. exact Hm.
    + inversion Hp; subst. split; auto. split; [eauto|]. intros; discriminate.
Qed.

Definition vsel (i : nat) (vs : list (nat * nat)) : list (nat * nat) :=
  filter (fun p => Nat.eqb (fst p) i) vs.

(** state of the SIMD arrays while wavefronts are being matched: [vs] are the
    (SIMD, offset) pairs chosen so far. *)
Definition vpass_ok (res : list entry) (sims0 sims : list simd) (used : list N)
           (vs : list (nat * nat)) (req : nat) : Prop :=
  length sims = length sims0 /\ length used = length sims0 /\
  Forall (fun p => fst p < length sims0) vs /\
  forall i sd0, nth_error sims0 i = Some sd0 ->
    exists sd, nth_error sims i = Some sd /\
      nth_error used i = Some (N.of_nat (length (vsel i vs))) /\
      wf_free sd = wf_free sd0 /\ length (vmask sd) = length (vmask sd0) /\
      mask_ok (vmask sd) (vregs i res) (map (fun p => (snd p, req)) (vsel i vs)) /\
      (N.of_nat (length (vsel i vs)) <= wf_free sd0)%N.

Lemma bump_lt : forall n len, 0 < len -> bump n len < len.
Proof. intros. unfold bump. destruct (S n <? len) eqn:E; [apply Nat.ltb_lt in E|]; lia. Qed.

Lemma vsel_app : forall i a b, vsel i (a ++ b) = vsel i a ++ vsel i b.
Proof. intros. apply filter_app. Qed.

Lemma try_simds_ok : forall fuel res sims0 sims used vs req nxt sims' used' nxt' r,
  vpass_ok res sims0 sims used vs req -> nxt < length sims ->
  try_simds fuel sims used nxt req = (sims', used', nxt', r) ->
  nxt' < length sims /\
  match r with
  | Some p => vpass_ok res sims0 sims' used' (vs ++ [p]) req
  | None => sims' = sims /\ used' = used
  end.
Proof.
  induction fuel; intros res sims0 sims used vs req nxt sims' used' nxt' r Hok Hn Ht; simpl in Ht.
  - inversion Ht; subst. auto.
  - assert (Hb : bump nxt (length sims) < length sims) by (apply bump_lt; lia).
    destruct Hok as [Hl1 [Hl2 [Hfst Hall]]].
    destruct (nth_error sims0 nxt) as [sd0|] eqn:E0; [|apply nth_error_None in E0; lia].
    destruct (Hall nxt sd0 E0) as [sd [Esd [Eu [Hwf [Hlen [Hm Hle]]]]]].
    rewrite (nth_nth_error _ _ _ dummy_simd _ Esd) in Ht.
    rewrite (nth_nth_error _ _ _ 0%N _ Eu) in Ht.
    assert (Hrec : forall sims' used' nxt' r,
      try_simds fuel sims used (bump nxt (length sims)) req = (sims', used', nxt', r) ->
      nxt' < length sims /\
      match r with
      | Some p => vpass_ok res sims0 sims' used' (vs ++ [p]) req
      | None => sims' = sims /\ used' = used
      end).
    { intros. eapply IHfuel; eauto. repeat split; auto. }
    destruct (next_region (vmask sd) req SFree) as [off|] eqn:En; [|eauto].
    destruct (N.ltb (N.of_nat (length (vsel nxt vs))) (wf_free sd)) eqn:Elt; [|eauto].
    apply N.ltb_lt in Elt.
    inversion Ht; subst; clear Ht. split; auto.
    split; [rewrite upd_length; auto|]. split; [rewrite upd_length; auto|].
    split. { apply Forall_app. split; auto. constructor; auto. simpl. lia. }
    intros i sdi Ei. rewrite vsel_app. simpl.
    destruct (Nat.eq_dec nxt i) as [->|Hne].
    + rewrite Nat.eqb_refl. rewrite E0 in Ei. inversion Ei; subst sdi.
      eexists. rewrite upd_nth_same, Esd. simpl. split; [reflexivity|].
      rewrite upd_nth_same, Eu. simpl. rewrite app_length. simpl.
      split; [f_equal; lia|]. split; auto. rewrite set_status_length. split; auto.
      split. * rewrite map_app. simpl. apply mask_ok_alloc; auto.
      * lia.
    + replace (Nat.eqb nxt i) with false by (symmetry; apply Nat.eqb_neq; auto).
      rewrite app_nil_r. destruct (Hall i sdi Ei) as [sd' H'].
      exists sd'. rewrite !upd_nth_other by auto. exact H'.
Qed.

Lemma vgpr_pass_ok : forall n res sims0 sims used vs req nxt sims' nxt' r,
  vpass_ok res sims0 sims used vs req -> nxt < length sims ->
  vgpr_pass n sims used nxt req = (sims', nxt', r) ->
  nxt' < length sims /\
  exists used' vs', vpass_ok res sims0 sims' used' vs' req /\
    (forall vs2, r = Some vs2 -> vs' = vs ++ vs2 /\ length vs2 = n).
Proof.
  induction n; intros res sims0 sims used vs req nxt sims' nxt' r Hok Hn Hp; simpl in Hp.
  - inversion Hp; subst. split; auto. exists used, vs. split; auto.
    intros vs2 E; inversion E; subst. rewrite app_nil_r; auto.
  - destruct (try_simds (length sims) sims used nxt req) as [[[sims1 used1] nxt1] r1] eqn:Et.
    pose proof (try_simds_ok _ _ _ _ _ _ _ _ _ _ _ _ Hok Hn Et) as [Hn1 Hr1].
    destruct r1 as [p|].
    + destruct (vgpr_pass n sims1 used1 nxt1 req) as [[sims2 nxt2] r2] eqn:E2.
      inversion Hp; subst; clear Hp.
      assert (Hl : length sims1 = length sims) by (destruct Hr1 as [? _]; destruct Hok as [? _]; congruence).
      rewrite <- Hl in Hn1.
      destruct (IHn _ _ _ _ _ _ _ _ _ _ Hr1 Hn1 E2) as [Hn2 [used' [vs' [Hok' Hvs]]]].
      split; [lia|]. exists used', vs'. split; auto.
      intros vs2 E. destruct r2 as [vs3|]; simpl in E; [|discriminate]. inversion E; subst.
      destruct (Hvs vs3 eq_refl) as [-> Hlen]. rewrite <- app_assoc. simpl. split; auto.
    + inversion Hp; subst. destruct Hr1 as [-> ->]. split; auto.
      exists used, vs. split; auto. intros; discriminate.
Qed.

(** ** ReserveResourceForWG preserves the invariant *)

Lemma conv_simds_nth : forall sims a b i,
  nth_error (conv_simds sims a b) i =
  option_map (fun sd => mkSimd (convert_status (vmask sd) a b) (wf_free sd)) (nth_error sims i).
Proof. intros. unfold conv_simds. apply nth_error_map. Qed.

Lemma conv_simds_length : forall sims a b, length (conv_simds sims a b) = length sims.
Proof. intros. apply map_length. Qed.

Lemma dec_wf_fold_length : forall locs sims, length (fold_left dec_wf locs sims) = length sims.
Proof.
  induction locs; intros; simpl; auto. rewrite IHlocs. unfold dec_wf. apply upd_length.
Qed.

Lemma dec_wf_fold : forall locs sims i sd,
  nth_error sims i = Some sd ->
  exists sd', nth_error (fold_left dec_wf locs sims) i = Some sd' /\ vmask sd' = vmask sd /\
     wf_free sd' = (wf_free sd - N.of_nat (length (filter (on_simd i) locs)))%N.
Proof.
  induction locs as [|l locs IH]; intros sims i sd Hi; simpl.
  - exists sd. repeat split; auto. lia.
  - unfold on_simd at 1. destruct (Nat.eqb (l_simd l) i) eqn:E.
    + apply Nat.eqb_eq in E.
      destruct (IH (dec_wf sims l) i (mkSimd (vmask sd) (wf_free sd - 1))) as [sd' [H1 [H2 H3]]].
      { unfold dec_wf. rewrite E, upd_nth_same, Hi. reflexivity. }
      exists sd'. split; auto. split; auto. simpl in *. lia.
    + apply Nat.eqb_neq in E.
      destruct (IH (dec_wf sims l) i sd) as [sd' [H1 [H2 H3]]].
      { unfold dec_wf. rewrite upd_nth_other; auto. }
      exists sd'. auto.
Qed.

(** a reservation in progress: some cells carry ToReserve marks, nothing else differs *)
Definition Pending (s0 s : cu) : Prop :=
  resident s = resident s0 /\
  (exists n, mask_ok (smask s) (sregs (resident s0)) n) /\ length (smask s) = length (smask s0) /\
  (exists n, mask_ok (lmask s) (lregs (resident s0)) n) /\ length (lmask s) = length (lmask s0) /\
  length (simds s) = length (simds s0) /\
  (forall i sd0, nth_error (simds s0) i = Some sd0 ->
     exists sd n, nth_error (simds s) i = Some sd /\ wf_free sd = wf_free sd0 /\
       length (vmask sd) = length (vmask sd0) /\ mask_ok (vmask sd) (vregs i (resident s0)) n) /\
  (next_simd s < length (simds s) \/ (simds s = [] /\ next_simd s = 0)).

Lemma clear_inv : forall c s0 s, Inv c s0 -> Pending s0 s -> Inv c (clear_temp s).
Proof.
  intros c s0 s HI [Hres [[sn Hs] [Hsl [[ln Hl] [Hll [Hnl [Hv Hnext]]]]]]].
  destruct HI. constructor; simpl; rewrite ?Hres.
  - eapply mask_ok_abort; eauto.
  - rewrite convert_length. congruence.
  - eapply mask_ok_abort; eauto.
  - rewrite convert_length. congruence.
  - rewrite conv_simds_length. congruence.
  - intros i sd p Hi Hp. rewrite conv_simds_nth in Hi.
    destruct (nth_error (simds s) i) as [sdm|] eqn:Em; simpl in Hi; [|discriminate].
    inversion Hi; subst sd; clear Hi. simpl.
    destruct (nth_error (simds s0) i) as [sd0|] eqn:E0.
    2: { apply nth_error_None in E0. assert (i < length (simds s)) by (apply nth_error_Some; congruence). lia. }
    destruct (Hv i sd0 E0) as [sd' [n [H1 [H2 [H3 H4]]]]]. rewrite Em in H1. inversion H1; subst sd'.
    destruct (inv_v0 i sd0 p E0 Hp) as [_ [Hlen Hwf]].
    split; [eapply mask_ok_abort; eauto|]. rewrite convert_length. split; congruence.
  - rewrite conv_simds_length. destruct Hnext as [?|[? ?]]; [left; auto|right].
    split; auto. destruct (simds s); [reflexivity|discriminate].
  - assumption.
  - rewrite conv_simds_length, Hnl. assumption.
Qed.

Lemma nth_error_repeat : forall A (x : A) n i, i < n -> nth_error (repeat x n) i = Some x.
Proof. induction n; intros [|i] H; simpl; try lia; auto. apply IHn. lia. Qed.

Lemma vpass_init : forall c s req, Inv c s ->
  vpass_ok (resident s) (simds s) (simds s) (repeat 0%N (length (simds s))) [] req.
Proof.
  intros c s req HI. split; auto. split; [apply repeat_length|]. split; [constructor|].
  intros i sd0 Hi. exists sd0. split; auto.
  assert (i < length (simds s)) by (apply nth_error_Some; congruence).
  split; [simpl; apply nth_error_repeat; auto|]. split; auto. split; auto.
  destruct (nth_error (cfg_simds c) i) as [p|] eqn:Ep.
  2: { apply nth_error_None in Ep. rewrite (inv_nsimd _ _ HI) in H. lia. }
  destruct (inv_v _ _ HI i sd0 p Hi Ep) as [Hm _]. split; [exact Hm|simpl; lia].
Qed.

Lemma pending_of_vpass : forall s sims used vs req,
  vpass_ok (resident s) (simds s) sims used vs req ->
  length sims = length (simds s) /\
  forall i sd0, nth_error (simds s) i = Some sd0 ->
     exists sd n, nth_error sims i = Some sd /\ wf_free sd = wf_free sd0 /\
       length (vmask sd) = length (vmask sd0) /\ mask_ok (vmask sd) (vregs i (resident s)) n.
Proof.
  intros s sims used vs req [Hl [_ [_ Hall]]]. split; auto.
  intros i sd0 Hi. destruct (Hall i sd0 Hi) as [sd [H1 [_ [H2 [H3 [H4 _]]]]]].
  exists sd. eexists. eauto.
Qed.

Lemma pending_refl_simds : forall c s, Inv c s ->
  forall i sd0, nth_error (simds s) i = Some sd0 ->
     exists sd n, nth_error (simds s) i = Some sd /\ wf_free sd = wf_free sd0 /\
       length (vmask sd) = length (vmask sd0) /\ mask_ok (vmask sd) (vregs i (resident s)) n.
Proof.
  intros c s HI i sd0 Hi. exists sd0, []. split; [auto|]. split; [auto|]. split; [auto|].
  assert (i < length (simds s)) by (apply nth_error_Some; congruence).
  destruct (nth_error (cfg_simds c) i) as [p|] eqn:Ep.
  2: { apply nth_error_None in Ep. rewrite (inv_nsimd _ _ HI) in H. lia. }
  destruct (inv_v _ _ HI i sd0 p Hi Ep) as [Hm _]. exact Hm.
Qed.

Lemma reserve_inv : forall c s k d s' r,
  Inv c s -> 1 <= d_nwf d -> reserve s k d = Ret s' r -> Inv c s'.
Proof.
  intros c s k d s' r HI Hnwf Hr. unfold reserve in Hr.
  destruct (sgpr_pass (smask s) (units (d_sgpr d) SREG_GRAN) (d_nwf d)) as [sm so] eqn:Es.
  destruct (sgpr_pass_ok _ _ _ _ _ _ _ (inv_s _ _ HI) Es) as [Hsl [[snew Hsok] Hsome]].
  destruct so as [soffs|].
  2: { inversion Hr; subst. eapply clear_inv; eauto.
       split; simpl; auto. split; [eauto|]. split; auto. split; [exists []; apply (inv_l _ _ HI)|].
       split; auto. split; auto. split; [eapply pending_refl_simds; eauto|apply (inv_next _ _ HI)]. }
  destruct (Hsome soffs eq_refl) as [Hslen Hsm]. simpl in Hsm. cbn [lmask] in Hr.
  destruct (next_region (lmask s) (units (lds_bytes d) LDS_GRAN) SFree) as [loff|] eqn:El.
  2: { inversion Hr; subst. eapply clear_inv; eauto.
       split; simpl; auto. split; [eauto|]. split; auto. split; [exists []; apply (inv_l _ _ HI)|].
       split; auto. split; auto. split; [eapply pending_refl_simds; eauto|apply (inv_next _ _ HI)]. }
  pose proof (mask_ok_alloc _ _ _ _ _ (inv_l _ _ HI) El) as Hlm. simpl in Hlm.
  destruct (Nat.eqb (length (simds s)) 0 && negb (Nat.eqb (d_nwf d) 0)) eqn:Ez; [discriminate|].
  assert (Hns : 0 < length (simds s)).
  { apply andb_false_iff in Ez. destruct Ez as [Ez|Ez].
    - apply Nat.eqb_neq in Ez. lia.
    - apply negb_false_iff, Nat.eqb_eq in Ez. lia. }
  cbn [simds next_simd smask lmask] in Hr.
  destruct (vgpr_pass (d_nwf d) (simds s) (repeat 0%N (length (simds s))) (next_simd s)
                      (units (d_vgpr d) VREG_GRAN)) as [[sims nxt] vo] eqn:Ev.
  assert (Hnx : next_simd s < length (simds s)).
  { destruct (inv_next _ _ HI) as [?|[E _]]; auto. rewrite E in Hns. simpl in Hns. lia. }
  destruct (vgpr_pass_ok _ _ _ _ _ _ _ _ _ _ _ (vpass_init c s _ HI) Hnx Ev) as [Hnx' [used' [vs' [Hvok Hvs]]]].
  destruct (pending_of_vpass _ _ _ _ _ Hvok) as [Hsimlen Hpend].
  destruct vo as [vs|].
  2: { inversion Hr; subst. eapply clear_inv; eauto.
       split; simpl; auto. split; [eauto|]. split; auto. split; [eauto|].
       split; [apply set_status_length|]. split; auto. split; auto. left. lia. }
  destruct (Hvs vs eq_refl) as [Hvs' Hvlen]. simpl in Hvs'. subst vs'.
  destruct (lookup k (resident s)) eqn:Elk; [discriminate|].
  inversion Hr; subst s' r; clear Hr.
  assert (Hlens : length soffs = length vs) by lia.
  set (locs := mk_locs soffs loff vs).
  destruct Hvok as [Hl1 [Hl2 [Hfst Hall]]].
  constructor; simpl.
  - (* sgpr *)
    unfold sregs; simpl. fold (sregs (resident s)). unfold e_dem, e_locs; simpl.
    unfold locs. rewrite mk_locs_sregs by auto. apply mask_ok_commit. exact Hsm.
  - rewrite convert_length. rewrite Hsl. apply (inv_slen _ _ HI).
  - (* lds *)
    unfold lregs; simpl. fold (lregs (resident s)). unfold e_dem, e_locs; simpl.
    assert (Hloc : match locs with [] => [] | l :: _ => [lreg_of d l] end = [(loff, lreq d)]).
    { unfold locs. destruct soffs as [|so soffs]; [simpl in *; lia|].
      destruct vs as [|[sd vo] vs]; [simpl in *; lia|]. simpl.
      unfold lreg_of; simpl. rewrite lds_roundtrip. reflexivity. }
    fold locs. rewrite Hloc. apply (mask_ok_commit _ _ _ Hlm).
  - rewrite convert_length, set_status_length. apply (inv_llen _ _ HI).
  - rewrite conv_simds_length, dec_wf_fold_length. rewrite Hsimlen. apply (inv_nsimd _ _ HI).
  - (* vgpr and wavefront slots *)
    intros i sd p Hi Hp. rewrite conv_simds_nth in Hi.
    destruct (nth_error (simds s) i) as [sd0|] eqn:E0.
    2: { apply nth_error_None in E0. assert (i < length (cfg_simds c)) by (apply nth_error_Some; congruence).
         rewrite <- (inv_nsimd _ _ HI) in H. lia. }
    destruct (Hall i sd0 E0) as [sdm [Em [_ [Hwf [Hlen [Hm Hle]]]]]].
    destruct (dec_wf_fold locs sims i sdm Em) as [sdd [Ed [Hdv Hdw]]].
    rewrite Ed in Hi. simpl in Hi. inversion Hi; subst sd; clear Hi. simpl.
    destruct (inv_v _ _ HI i sd0 p E0 Hp) as [_ [Hlen0 Hwf0]].
    split; [|split].
    + unfold vregs; simpl. fold (vregs i (resident s)). unfold e_dem, e_locs; simpl.
      unfold locs. rewrite mk_locs_vregs by auto. rewrite Hdv. apply mask_ok_commit. exact Hm.
    + rewrite convert_length, Hdv. congruence.
    + unfold wf_on; simpl. fold (wf_on i (resident s)). unfold e_locs at 1; simpl.
      rewrite app_length. rewrite Hdw. unfold locs at 1 2. rewrite mk_locs_filter_length by auto.
      unfold vsel in Hle. unfold wf_on in *. lia.
  - left. rewrite conv_simds_length, dec_wf_fold_length. lia.
  - constructor; [apply lookup_none; auto|apply (inv_keys _ _ HI)].
  - rewrite conv_simds_length, dec_wf_fold_length, Hsimlen. constructor; [|apply (inv_entries _ _ HI)].
    unfold entry_ok, e_dem, e_locs; simpl. split; [unfold locs; rewrite mk_locs_length; lia|].
    split; auto. split.
    + intros l l' H1 H2. unfold locs in *. rewrite (mk_locs_lds _ _ _ _ H1), (mk_locs_lds _ _ _ _ H2). reflexivity.
    + apply mk_locs_simd. exact Hfst.
Qed.

(** ** FreeResourcesForWG preserves the invariant *)

Definition sfree (d : demand) (m : mask) (l : loc) : mask :=
  set_status m (fst (sreg_of d l)) (snd (sreg_of d l)) SFree.
Definition lfree (d : demand) (m : mask) (l : loc) : mask :=
  set_status m (fst (lreg_of d l)) (snd (lreg_of d l)) SFree.
Definition vfree (d : demand) (sims : list simd) (l : loc) : list simd :=
  upd (l_simd l)
      (fun sd => mkSimd (set_status (vmask sd) (fst (vreg_of d l)) (snd (vreg_of d l)) SFree) (wf_free sd + 1))
      sims.

Lemma free_fold_components : forall d locs s,
  let s' := fold_left (free_loc d) locs s in
  smask s' = fold_left (sfree d) locs (smask s) /\
  lmask s' = fold_left (lfree d) locs (lmask s) /\
  simds s' = fold_left (vfree d) locs (simds s) /\
  next_simd s' = next_simd s /\ resident s' = resident s.
Proof.
  induction locs as [|l locs IH]; intros s; simpl; auto.
  destruct (IH (free_loc d s l)) as [H1 [H2 [H3 [H4 H5]]]].
  rewrite H1, H2, H3, H4, H5. simpl. repeat split; reflexivity.
Qed.

Lemma sfree_fold_ok : forall d todo m a b,
  mask_ok m (a ++ map (sreg_of d) todo ++ b) [] ->
  mask_ok (fold_left (sfree d) todo m) (a ++ b) [].
Proof.
  induction todo as [|l t IH]; intros m a b H; simpl in *; auto.
  apply IH. unfold sfree. destruct (sreg_of d l) as [o n]. simpl.
  apply mask_ok_release. exact H.
Qed.

Lemma sfree_fold_length : forall d todo m, length (fold_left (sfree d) todo m) = length m.
Proof. induction todo; intros; simpl; auto. rewrite IHtodo. apply set_status_length. Qed.
Lemma lfree_fold_length : forall d todo m, length (fold_left (lfree d) todo m) = length m.
Proof. induction todo; intros; simpl; auto. rewrite IHtodo. apply set_status_length. Qed.

Lemma set_status_idem : forall m o l st, set_status (set_status m o l st) o l st = set_status m o l st.
Proof.
  intros. apply nth_error_ext. intros i. rewrite !set_status_nth.
  destruct (inreg (o, l) i); [|reflexivity]. destruct (nth_error m i); reflexivity.
Qed.

Lemma lfree_fold_same : forall d r t m,
  (forall l, In l t -> lreg_of d l = r) ->
  set_status m (fst r) (snd r) SFree = m -> fold_left (lfree d) t m = m.
Proof.
  induction t as [|l t IH]; intros m Hall Hm; simpl; auto.
  unfold lfree at 2. rewrite (Hall l) by (left; auto). rewrite Hm. apply IH; auto.
  intros; apply Hall; right; auto.
Qed.

Lemma lfree_fold_ok : forall d l0 t m a b,
  (forall l, In l t -> lreg_of d l = lreg_of d l0) ->
  mask_ok m (a ++ lreg_of d l0 :: b) [] ->
  mask_ok (fold_left (lfree d) (l0 :: t) m) (a ++ b) [].
Proof.
  intros d l0 t m a b Hall H. simpl. unfold lfree at 2.
  rewrite (lfree_fold_same d (lreg_of d l0)); auto.
  - destruct (lreg_of d l0) as [o n]. simpl. apply mask_ok_release. exact H.
  - apply set_status_idem.
Qed.

Lemma vfree_fold_length : forall d todo sims, length (fold_left (vfree d) todo sims) = length sims.
Proof. induction todo; intros; simpl; auto. rewrite IHtodo. apply upd_length. Qed.

Lemma vfree_fold_ok : forall d todo sims i sd a b,
  nth_error sims i = Some sd ->
  mask_ok (vmask sd) (a ++ map (vreg_of d) (filter (on_simd i) todo) ++ b) [] ->
  exists sd', nth_error (fold_left (vfree d) todo sims) i = Some sd' /\
    mask_ok (vmask sd') (a ++ b) [] /\ length (vmask sd') = length (vmask sd) /\
    wf_free sd' = (wf_free sd + N.of_nat (length (filter (on_simd i) todo)))%N.
Proof.
  induction todo as [|l t IH]; intros sims i sd a b Hi Hm; simpl in *.
  - exists sd. split; [auto|]. split; [auto|]. split; [auto|]. lia.
  - unfold on_simd at 1 in Hm. unfold on_simd at 1.
    destruct (Nat.eqb (l_simd l) i) eqn:E.
    + apply Nat.eqb_eq in E. simpl in Hm.
      destruct (vreg_of d l) as [o n] eqn:Er.
      destruct (IH (vfree d sims l) i
                   (mkSimd (set_status (vmask sd) o n SFree) (wf_free sd + 1)) a b) as [sd' [H1 [H2 [H3 H4]]]].
      * unfold vfree. rewrite E, upd_nth_same, Hi, Er. reflexivity.
      * simpl. apply mask_ok_release. exact Hm.
      * exists sd'. split; auto. split; auto. simpl in *. rewrite set_status_length in H3.
        split; auto. lia.
    + apply Nat.eqb_neq in E.
      destruct (IH (vfree d sims l) i sd a b) as [sd' H']; auto.
      * unfold vfree. rewrite upd_nth_other; auto.
      * exists sd'. exact H'.
Qed.

Lemma lookup_split : forall k res v, lookup k res = Some v ->
  exists l1 l2, res = l1 ++ (k, v) :: l2 /\ remove_key k res = l1 ++ l2.
Proof.
  induction res as [|[k' v'] res IH]; intros v H; simpl in *; [discriminate|].
  destruct (key_eqb k k') eqn:E.
  - apply key_eqb_eq in E. subst k'. inversion H; subst. exists [], res. auto.
  - destruct (IH v H) as [l1 [l2 [H1 H2]]]. exists ((k', v') :: l1), l2.
    simpl. rewrite H1 at 1. rewrite H2. auto.
Qed.

Lemma sregs_app : forall a b, sregs (a ++ b) = sregs a ++ sregs b.
Proof. intros. unfold sregs. apply flat_map_app. Qed.
Lemma lregs_app : forall a b, lregs (a ++ b) = lregs a ++ lregs b.
Proof. intros. unfold lregs. apply flat_map_app. Qed.
Lemma vregs_app : forall i a b, vregs i (a ++ b) = vregs i a ++ vregs i b.
Proof. intros. unfold vregs. apply flat_map_app. Qed.
Lemma wf_on_app : forall i a b, wf_on i (a ++ b) = wf_on i a + wf_on i b.
Proof. intros. unfold wf_on. rewrite flat_map_app, app_length. reflexivity. Qed.

Lemma free_inv : forall c s k s', Inv c s -> free s k = Some s' -> Inv c s'.
Proof.
  intros c s k s' HI Hf. unfold free in Hf.
  destruct (lookup k (resident s)) as [[d locs]|] eqn:El; [|discriminate].
  inversion Hf; subst s'; clear Hf.
  destruct (free_fold_components d locs s) as [Hs [Hl [Hv [Hn Hr]]]].
  destruct (lookup_split _ _ _ El) as [l1 [l2 [Hres Hrem]]].
  rewrite Hs, Hl, Hv, Hn, Hr, Hrem.
  pose proof (inv_entries _ _ HI) as Hent. rewrite Hres in Hent.
  apply Forall_app in Hent. destruct Hent as [Hent1 Hent2]. inversion Hent2 as [|? ? He Hent3]; subst.
  destruct He as [Hlen [Hnwf [Hlds Hsim]]]. unfold e_dem, e_locs in *; simpl in *.
  destruct HI. rewrite Hres in *.
  constructor; simpl.
  - rewrite sregs_app. apply sfree_fold_ok. rewrite sregs_app in inv_s0. simpl in inv_s0.
    unfold sregs at 2 in inv_s0. simpl in inv_s0. fold (sregs l2) in inv_s0. exact inv_s0.
  - rewrite sfree_fold_length. assumption.
  - rewrite lregs_app in *. destruct locs as [|l0 t]; [simpl in Hlen; lia|].
    apply lfree_fold_ok.
    + intros l Hin. unfold lreg_of. rewrite (Hlds l l0); auto; simpl; auto.
    + unfold lregs at 2 in inv_l0. simpl in inv_l0. exact inv_l0.
  - rewrite lfree_fold_length. assumption.
  - rewrite vfree_fold_length. assumption.
  - intros i sd p Hi Hp.
    destruct (nth_error (simds s) i) as [sd0|] eqn:E0.
    2: { apply nth_error_None in E0. assert (i < length (cfg_simds c)) by (apply nth_error_Some; congruence). lia. }
    destruct (inv_v0 i sd0 p E0 Hp) as [Hm [Hlen0 Hwf]].
    rewrite vregs_app in Hm. unfold vregs at 2 in Hm. simpl in Hm. fold (vregs i l2) in Hm.
    unfold e_dem, e_locs in Hm; simpl in Hm.
    destruct (vfree_fold_ok d locs (simds s) i sd0 _ _ E0 Hm) as [sd' [H1 [H2 [H3 H4]]]].
    rewrite H1 in Hi. inversion Hi; subst sd'. rewrite vregs_app, wf_on_app.
    split; auto. split; [congruence|].
    rewrite wf_on_app in Hwf. unfold wf_on at 2 in Hwf. simpl in Hwf.
    unfold e_locs at 1 in Hwf; simpl in Hwf. rewrite app_length in Hwf. unfold wf_on in *. lia.
  - destruct inv_next0 as [?|[E1 E2]]; [left; rewrite vfree_fold_length; auto|right].
    split; auto. apply length_zero_iff_nil. rewrite vfree_fold_length, E1. reflexivity.
  - rewrite map_app in *. simpl in inv_keys0. eapply NoDup_remove_1; eauto.
  - rewrite vfree_fold_length. apply Forall_app; auto.
Qed.

(** ** every history *)

Lemma init_inv : forall c, Inv c (init_cu c).
Proof.
  intros c. constructor; simpl.
  - split; [|constructor]. intros i st Hi. apply nth_error_In, repeat_spec in Hi. subst. simpl. auto.
  - apply repeat_length.
  - split; [|constructor]. intros i st Hi. apply nth_error_In, repeat_spec in Hi. subst. simpl. auto.
  - apply repeat_length.
  - apply map_length.
  - intros i sd p Hi Hp. rewrite nth_error_map, Hp in Hi. simpl in Hi. inversion Hi; subst; simpl.
    split; [|split; [apply repeat_length|unfold wf_on; simpl; lia]].
    split; [|constructor]. intros j st Hj. apply nth_error_In, repeat_spec in Hj. subst. simpl. auto.
  - rewrite map_length. destruct (cfg_simds c); simpl; [right; auto|left; lia].
  - constructor.
  - constructor.
Qed.

(** the caller's side of the contract: every work-group has a wavefront *)
Definition op_ok (o : op) : Prop :=
  match o with OReserve _ d => 1 <= d_nwf d | OFree _ => True end.

Lemma step_inv : forall c s o s' r, Inv c s -> op_ok o -> step s o = Some (s', r) -> Inv c s'.
Proof.
  intros c s [k d|k] s' r HI Ho Hs; simpl in *.
  - destruct (reserve s k d) as [|s1 r1] eqn:E; [discriminate|]. inversion Hs; subst.
    eapply reserve_inv; eauto.
  - destruct (free s k) as [s1|] eqn:E; [|discriminate]. inversion Hs; subst.
    eapply free_inv; eauto.
Qed.

Lemma run_inv : forall c h s s', Inv c s -> Forall op_ok h -> run s h = Some s' -> Inv c s'.
Proof.
  induction h as [|o h IH]; intros s s' HI Hh Hr; simpl in Hr.
  - inversion Hr; subst; auto.
  - inversion Hh; subst. destruct (step s o) as [[s1 r]|] eqn:E; [|discriminate].
    apply (IH s1 s'); auto. eapply step_inv; eauto.
Qed.

(** * Consequences of the invariant *)

Lemma cover_in : forall rs r i, In r rs -> inreg r i = true -> 1 <= cover rs i.
Proof.
  induction rs as [|x rs IH]; intros r i Hin Hi; simpl in *; [tauto|].
  destruct Hin as [->|Hin]; [rewrite Hi; lia|]. specialize (IH r i Hin Hi). lia.
Qed.

(** pairwise disjointness of the regions recorded in a mask *)
Lemma mask_ok_disjoint : forall m rs l1 r1 l2 r2 l3 i,
  mask_ok m rs [] -> rs = l1 ++ r1 :: l2 ++ r2 :: l3 ->
  inreg r1 i = true -> inreg r2 i = true -> False.
Proof.
  intros m rs l1 r1 l2 r2 l3 i Hok -> H1 H2.
  assert (Hi : i < length m).
  { destruct Hok as [_ Hr]. rewrite app_nil_r in Hr. apply Forall_app in Hr. destruct Hr as [_ Hr].
    inversion Hr; subst. destruct r1 as [o n]. apply inreg_iff in H1. unfold in_range in H3. simpl in *. lia. }
  apply (cover_le1_disjoint l1 r1 l2 r2 l3 i); auto. eapply mask_ok_cover_le1; eauto.
Qed.

(** a mask is determined by its size and the regions it records *)
Lemma mask_ok_unique : forall m1 m2 rs1 rs2,
  mask_ok m1 rs1 [] -> mask_ok m2 rs2 [] -> length m1 = length m2 ->
  (forall i, cover rs1 i = cover rs2 i) -> m1 = m2.
Proof.
  intros m1 m2 rs1 rs2 H1 H2 Hl Hc. apply nth_error_ext. intros i.
  destruct (nth_error m1 i) as [a|] eqn:E1; destruct (nth_error m2 i) as [b|] eqn:E2; auto.
  - destruct (mask_ok_status _ _ _ _ H1 E1) as [[-> Ha]|[-> Ha]];
    destruct (mask_ok_status _ _ _ _ H2 E2) as [[-> Hb]|[-> Hb]]; auto; rewrite Hc in Ha; lia.
  - apply nth_error_None in E2. assert (i < length m1) by (apply nth_error_Some; congruence). lia.
  - apply nth_error_None in E1. assert (i < length m2) by (apply nth_error_Some; congruence). lia.
Qed.

(** two states with the same resident set and the same capacities have the
    same occupancy (only nextSIMD may differ) *)
Lemma inv_determined : forall c s1 s2,
  Inv c s1 -> Inv c s2 -> resident s1 = resident s2 ->
  smask s1 = smask s2 /\ lmask s1 = lmask s2 /\ simds s1 = simds s2.
Proof.
  intros c s1 s2 H1 H2 Hr. split; [|split].
  - eapply mask_ok_unique; [apply (inv_s _ _ H1)|apply (inv_s _ _ H2)| |rewrite Hr; auto].
    rewrite (inv_slen _ _ H1), (inv_slen _ _ H2). reflexivity.
  - eapply mask_ok_unique; [apply (inv_l _ _ H1)|apply (inv_l _ _ H2)| |rewrite Hr; auto].
    rewrite (inv_llen _ _ H1), (inv_llen _ _ H2). reflexivity.
  - apply nth_error_ext. intros i.
    destruct (nth_error (simds s1) i) as [a|] eqn:E1; destruct (nth_error (simds s2) i) as [b|] eqn:E2; auto.
    + destruct (nth_error (cfg_simds c) i) as [p|] eqn:Ep.
      2: { apply nth_error_None in Ep. assert (i < length (simds s1)) by (apply nth_error_Some; congruence).
           rewrite (inv_nsimd _ _ H1) in H. lia. }
      destruct (inv_v _ _ H1 i a p E1 Ep) as [Ha1 [Ha2 Ha3]].
      destruct (inv_v _ _ H2 i b p E2 Ep) as [Hb1 [Hb2 Hb3]].
      destruct a as [ma fa], b as [mb fb]. simpl in *. f_equal. f_equal.
      * eapply mask_ok_unique; eauto; [congruence|rewrite Hr; auto].
      * rewrite Hr in Ha3. lia.
    + apply nth_error_None in E2. assert (i < length (simds s1)) by (apply nth_error_Some; congruence).
      rewrite (inv_nsimd _ _ H1) in H. rewrite (inv_nsimd _ _ H2) in E2. lia.
    + apply nth_error_None in E1. assert (i < length (simds s2)) by (apply nth_error_Some; congruence).
      rewrite (inv_nsimd _ _ H2) in H. rewrite (inv_nsimd _ _ H1) in E1. lia.
Qed.

(** what reserve does to the resident set *)
Lemma reserve_resident : forall s k d s' r,
  reserve s k d = Ret s' r ->
  match r with
  | Some locs => resident s' = (k, (d, locs)) :: resident s /\ lookup k (resident s) = None
  | None => resident s' = resident s
  end.
Proof.
  intros s k d s' r H. unfold reserve in H.
  destruct (sgpr_pass _ _ _) as [sm [soffs|]]; [|inversion H; subst; reflexivity].
  cbn [lmask] in H.
  destruct (next_region (lmask s) _ SFree) as [loff|]; [|inversion H; subst; reflexivity].
  destruct (_ && _); [discriminate|].
  destruct (vgpr_pass _ _ _ _ _) as [[sims nxt] [vs|]]; [|inversion H; subst; reflexivity].
  destruct (lookup k (resident s)) eqn:E; [discriminate|].
  inversion H; subst. simpl. auto.
Qed.

Lemma key_eqb_refl : forall k, key_eqb k k = true.
Proof. intros. apply key_eqb_eq. reflexivity. Qed.

(** free_restores *)
Lemma free_restores_lemma : forall c s k d s1 locs,
  Inv c s -> 1 <= d_nwf d -> reserve s k d = Ret s1 (Some locs) ->
  exists s2, free s1 k = Some s2 /\
    smask s2 = smask s /\ lmask s2 = lmask s /\ simds s2 = simds s /\ resident s2 = resident s.
Proof.
  intros c s k d s1 locs HI Hn Hr.
  pose proof (reserve_inv _ _ _ _ _ _ HI Hn Hr) as HI1.
  destruct (reserve_resident _ _ _ _ _ Hr) as [Hres _].
  destruct (free s1 k) as [s2|] eqn:Ef.
  2: { unfold free in Ef. rewrite Hres in Ef. simpl in Ef. rewrite key_eqb_refl in Ef. discriminate. }
  exists s2. split; auto.
  pose proof (free_inv _ _ _ _ HI1 Ef) as HI2.
  assert (Hres2 : resident s2 = resident s).
  { unfold free in Ef. rewrite Hres in Ef. simpl in Ef. rewrite key_eqb_refl in Ef.
    inversion Ef; subst; clear Ef. simpl.
    destruct (free_fold_components d locs s1) as [_ [_ [_ [_ Hrr]]]]. rewrite Hrr, Hres. simpl.
    rewrite key_eqb_refl. reflexivity. }
  destruct (inv_determined _ _ _ HI2 HI Hres2) as [? [? ?]]. auto.
Qed.

(** a refused reservation leaves the occupancy as it was *)
Lemma reserve_refused_unchanged : forall c s k d s',
  Inv c s -> 1 <= d_nwf d -> reserve s k d = Ret s' None ->
  smask s' = smask s /\ lmask s' = lmask s /\ simds s' = simds s /\ resident s' = resident s.
Proof.
  intros c s k d s' HI Hn Hr.
  pose proof (reserve_inv _ _ _ _ _ _ HI Hn Hr) as HI1.
  pose proof (reserve_resident _ _ _ _ _ Hr) as Hres. simpl in Hres.
  destruct (inv_determined _ _ _ HI1 HI Hres) as [? [? ?]]. auto.
Qed.

Definition all_free (m : mask) (r : region) : Prop :=
  fst r + snd r <= length m /\ forall i, inreg r i = true -> nth_error m i = Some SFree.

Lemma fresh_region_free : forall m m' old new r,
  mask_ok m old [] -> mask_ok m' (new ++ old) [] -> length m' = length m ->
  In r new -> all_free m r.
Proof.
  intros m m' old new r Hm Hm' Hl Hin.
  assert (Hr : fst r + snd r <= length m).
  { destruct Hm' as [_ Hf]. rewrite app_nil_r in Hf. apply Forall_app in Hf. destruct Hf as [Hf _].
    rewrite Forall_forall in Hf. specialize (Hf r Hin). unfold in_range in Hf. lia. }
  split; auto. intros i Hi.
  assert (i < length m). { destruct r as [o n]. apply inreg_iff in Hi. simpl in *. lia. }
  destruct (nth_error m i) as [st|] eqn:E; [|apply nth_error_None in E; lia].
  destruct (mask_ok_status _ _ _ _ Hm E) as [[-> Hc]|[-> Hc]]; auto.
  exfalso. assert (Hle : cover (new ++ old) i <= 1) by (eapply mask_ok_cover_le1; eauto; lia).
  rewrite cover_app in Hle. pose proof (cover_in _ _ _ Hin Hi). lia.
Qed.

(** reserve_only_if_fits *)
Lemma reserve_only_if_fits_lemma : forall c s k d s' locs,
  Inv c s -> 1 <= d_nwf d -> reserve s k d = Ret s' (Some locs) ->
  length locs = d_nwf d /\
  (forall l, In l locs -> all_free (smask s) (sreg_of d l)) /\
  (forall l, In l locs -> all_free (lmask s) (lreg_of d l)) /\
  (forall l, In l locs -> exists sd, nth_error (simds s) (l_simd l) = Some sd /\
                                     all_free (vmask sd) (vreg_of d l)) /\
  (forall i sd, nth_error (simds s) i = Some sd ->
     (N.of_nat (length (filter (on_simd i) locs)) <= wf_free sd)%N).
Proof.
  intros c s k d s' locs HI Hn Hr.
  pose proof (reserve_inv _ _ _ _ _ _ HI Hn Hr) as HI1.
  destruct (reserve_resident _ _ _ _ _ Hr) as [Hres _].
  pose proof (inv_entries _ _ HI1) as Hent. rewrite Hres in Hent. inversion Hent as [|? ? He _]; subst.
  destruct He as [Hlen [_ [Hlds Hsim]]]. unfold e_dem, e_locs in *; simpl in *.
  split; auto. split; [|split; [|split]].
  - intros l Hin. pose proof (inv_s _ _ HI1) as H1. rewrite Hres in H1.
    unfold sregs in H1; simpl in H1. fold (sregs (resident s)) in H1. unfold e_dem, e_locs in H1; simpl in H1.
    eapply fresh_region_free; [apply (inv_s _ _ HI)|apply H1| |apply in_map; auto].
    rewrite (inv_slen _ _ HI1), (inv_slen _ _ HI). reflexivity.
  - intros l Hin. pose proof (inv_l _ _ HI1) as H1. rewrite Hres in H1.
    unfold lregs in H1; simpl in H1. fold (lregs (resident s)) in H1. unfold e_dem, e_locs in H1; simpl in H1.
    destruct locs as [|l0 t]; [simpl in Hin; tauto|].
    assert (lreg_of d l = lreg_of d l0) as -> by (unfold lreg_of; rewrite (Hlds l l0); simpl; auto).
    eapply fresh_region_free; [apply (inv_l _ _ HI)|apply H1| |left; auto].
    rewrite (inv_llen _ _ HI1), (inv_llen _ _ HI). reflexivity.
  - intros l Hin. rewrite Forall_forall in Hsim. specialize (Hsim l Hin).
    assert (Hsl : length (simds s') = length (simds s)) by (rewrite (inv_nsimd _ _ HI1), (inv_nsimd _ _ HI); auto).
    destruct (nth_error (simds s) (l_simd l)) as [sd|] eqn:E; [|apply nth_error_None in E; lia].
    destruct (nth_error (simds s') (l_simd l)) as [sd'|] eqn:E'; [|apply nth_error_None in E'; lia].
    destruct (nth_error (cfg_simds c) (l_simd l)) as [p|] eqn:Ep.
    2: { apply nth_error_None in Ep. rewrite (inv_nsimd _ _ HI1) in Hsim. lia. }
    exists sd. split; auto.
    destruct (inv_v _ _ HI _ _ _ E Ep) as [Hm [Hl _]].
    destruct (inv_v _ _ HI1 _ _ _ E' Ep) as [Hm' [Hl' _]]. rewrite Hres in Hm'.
    unfold vregs in Hm'; simpl in Hm'. fold (vregs (l_simd l) (resident s)) in Hm'.
    unfold e_dem, e_locs in Hm'; simpl in Hm'.
    eapply fresh_region_free; [apply Hm|apply Hm'|congruence|].
    apply in_map. apply filter_In. split; auto. unfold on_simd. apply Nat.eqb_refl.
  - intros i sd Hi.
    assert (Hsl : length (simds s') = length (simds s)) by (rewrite (inv_nsimd _ _ HI1), (inv_nsimd _ _ HI); auto).
    assert (i < length (simds s)) by (apply nth_error_Some; congruence).
    destruct (nth_error (simds s') i) as [sd'|] eqn:E'; [|apply nth_error_None in E'; lia].
    destruct (nth_error (cfg_simds c) i) as [p|] eqn:Ep.
    2: { apply nth_error_None in Ep. rewrite (inv_nsimd _ _ HI) in H. lia. }
    destruct (inv_v _ _ HI _ _ _ Hi Ep) as [_ [_ Hw]].
    destruct (inv_v _ _ HI1 _ _ _ E' Ep) as [_ [_ Hw']]. rewrite Hres in Hw'.
    unfold wf_on in Hw'; simpl in Hw'. unfold e_locs at 1 in Hw'; simpl in Hw'.
    rewrite app_length in Hw'. unfold wf_on in Hw. lia.
Qed.

(** panics are exactly the protocol violations *)
Lemma free_panics_iff : forall s k, free s k = None <-> lookup k (resident s) = None.
Proof.
  intros. unfold free. destruct (lookup k (resident s)) as [[d l]|]; split; intros; congruence.
Qed.

Lemma reserve_no_panic : forall s k d,
  simds s <> [] -> lookup k (resident s) = None -> reserve s k d <> Crash.
Proof.
  intros s k d Hs Hk. unfold reserve.
  destruct (sgpr_pass _ _ _) as [sm [soffs|]]; [|discriminate].
  cbn [lmask]. destruct (next_region (lmask s) _ SFree) as [loff|]; [|discriminate].
  replace (Nat.eqb (length (simds s)) 0) with false.
  2: { symmetry. apply Nat.eqb_neq. destruct (simds s); [congruence|simpl; lia]. }
  simpl. destruct (vgpr_pass _ _ _ _ _) as [[sims nxt] [vs|]]; [|discriminate].
  rewrite Hk. discriminate.
Qed.

(** * Conservation *)

(** when no work-group is resident the occupancy is the initial one *)
Lemma conserved_when_empty : forall c s, Inv c s -> resident s = [] ->
  smask s = smask (init_cu c) /\ lmask s = lmask (init_cu c) /\ simds s = simds (init_cu c).
Proof. intros c s HI Hr. apply (inv_determined c s (init_cu c) HI (init_inv c)). exact Hr. Qed.

Lemma total_app_aux : forall a b, fold_right (fun (r : nat * nat) x => snd r + x) 0 (a ++ b) =
  fold_right (fun (r : nat * nat) x => snd r + x) 0 a + fold_right (fun (r : nat * nat) x => snd r + x) 0 b.
Proof. induction a; intros; simpl; [reflexivity|]. rewrite IHa. lia. Qed.

(** * Capacity, with the dynamic part of the LDS included *)

(** number of (cell, region) incidences among the first [n] cells *)
Fixpoint csum (rs : list region) (n : nat) : nat :=
  match n with 0 => 0 | S k => cover rs k + csum rs k end.

Definition total (rs : list region) : nat := fold_right (fun r a => snd r + a) 0 rs.

Lemma csum_le : forall rs n, (forall i, i < n -> cover rs i <= 1) -> csum rs n <= n.
Proof.
  induction n; intros H; simpl; [lia|].
  assert (cover rs n <= 1) by (apply H; lia).
  assert (csum rs n <= n) by (apply IHn; intros; apply H; lia). lia.
Qed.

Lemma csum_cons : forall r rs n, csum (r :: rs) n = csum [r] n + csum rs n.
Proof. induction n; simpl; [reflexivity|]. simpl in IHn. rewrite IHn. lia. Qed.

Lemma csum_single : forall o l n, csum [(o, l)] n = Nat.min (o + l) n - Nat.min o n.
Proof.
  induction n; simpl; [lia|]. rewrite IHn.
  destruct (inreg (o, l) n) eqn:E.
  - apply inreg_iff in E. lia.
  - apply inreg_false_iff in E. lia.
Qed.

Lemma csum_total : forall rs n, Forall (in_range n) rs -> csum rs n = total rs.
Proof.
  induction rs as [|[o l] rs IH]; intros n H.
  - clear H. induction n; simpl; auto.
  - inversion H as [|x y Hr Hrest]; subst. rewrite csum_cons, csum_single, (IH n Hrest).
    unfold in_range in Hr; simpl in Hr. simpl. lia.
Qed.

Lemma mask_ok_total : forall m rs, mask_ok m rs [] -> total rs <= length m.
Proof.
  intros m rs [Hc Hr]. rewrite app_nil_r in Hr. rewrite <- (csum_total rs (length m) Hr).
  apply csum_le. intros i Hi.
  destruct (nth_error m i) as [st|] eqn:E; [|apply nth_error_None in E; lia].
  specialize (Hc i st E). destruct st; simpl in Hc; lia.
Qed.

(** LDS units in use by the resident work-groups, dynamic part included *)
Definition lds_in_use (res : list entry) : nat :=
  fold_right (fun e a => units (N.max (d_lds (e_dem e)) (d_dyn (e_dem e))) LDS_GRAN + a) 0 res.

Lemma lregs_total : forall n res, Forall (entry_ok n) res -> total (lregs res) = lds_in_use res.
Proof.
  induction res as [|e res IH]; intros H; [reflexivity|].
  inversion H as [|x y He Hrest]; subst.
  change (lregs (e :: res)) with
    ((match e_locs e with [] => [] | l :: _ => [lreg_of (e_dem e) l] end) ++ lregs res).
  unfold total. rewrite total_app_aux. fold (total (lregs res)). rewrite (IH Hrest).
  destruct He as [Hl [Hn _]].
  destruct (e_locs e) as [|l ls]; [simpl in Hl; lia|]. simpl. unfold lreq, lds_bytes. lia.
Qed.

Lemma lds_capacity : forall c s, Inv c s -> lds_in_use (resident s) <= N.to_nat (cfg_lds c / LDS_GRAN).
Proof.
  intros c s HI. rewrite <- (lregs_total _ _ (inv_entries _ _ HI)), <- (inv_llen _ _ HI).
  apply mask_ok_total, (inv_l _ _ HI).
Qed.
