(** The command-processor model of VCp.Dispatcher as a small-step system.
    Every call of the transition functions (DispatcherImpl.Tick, the tick of all
    dispatchers, the launch hand-over, the whole CommandProcessor.Tick) is shown
    to be a finite sequence of the abstract steps defined here, ending either
    in the state the function returns or in a state in which one of the
    explicit panic conditions holds.  All invariants (DispatcherProofs,
    DispatcherSafety, DispatcherLive) are proved step by step on this system. *)
From Coq Require Import List NArith Bool Arith Lia ZifyN ZifyNat ZifyBool Permutation.
From VCp Require Import Resource ResourceProofs Dispatcher.
From RecordUpdate Require Import RecordSet.
Import ListNotations RecordSetNotations.
Open Scope nat_scope.

Definition kd := (wgkey * demand)%type.

(** the work-groups of a launch with their keys, in NextWG order *)
Fixpoint enum_from (lid idx : N) (ds : list demand) : list kd :=
  match ds with
  | [] => []
  | dm :: r => ((lid, idx), dm) :: enum_from lid (idx + 1)%N r
  end.
Definition grid_of (l : launch) : list kd := enum_from (lr_id l) 0%N (lr_wgs l).

Definition opt_list {A} (o : option A) : list A := match o with Some x => [x] | None => [] end.

(** work-groups a partition still has to hand out: the parked one and the
    rest of its slice *)
Definition part_todo (lid : N) (per : nat) (z : part * option kd) : list kd :=
  opt_list (snd z) ++
  enum_from lid (pt_idx (fst z))
            (firstn (per - (pt_disp (fst z) + length (opt_list (snd z)))) (pt_rest (fst z))).

Definition part_pending (d : disp) : list kd :=
  flat_map (part_todo (a_lid d) (p_per d)) (combine (p_parts d) (p_cur d)).

(** the work-groups of the current launch that the algorithm has not placed yet *)
Definition alg_pending (alg : algo) (d : disp) : list kd :=
  match alg with
  | Partition => part_pending d
  | _ => opt_list (a_cur d) ++ enum_from (a_lid d) (a_idx d) (a_rest d)
  end.

(** internal shape of the algorithm state ([ncu] = number of CUs of the pool) *)
Definition AInt (alg : algo) (ncu : nat) (d : disp) : Prop :=
  match alg with
  | Partition => length (p_cur d) = length (p_parts d) /\ (p_parts d = [] \/ length (p_parts d) = ncu)
  | _ => True
  end.

(** everything of a dispatcher except the cursor state of the algorithm *)
Definition core (d : disp) :=
  (dispatching d, cur_wg d, cycle_left d, n_disp d, n_comp d, inflight d,
   (first_launched d, prev_count d, a_ndisp d, a_numwg d, a_lid d, g_sent d, g_cur d)).

Definition drop_id (id : N) (m : list N) (rest : list (list N)) : list (list N) :=
  match filter (fun x => negb (N.eqb x id)) m with
  | [] => rest
  | m' => m' :: rest
  end.

Definition send_sh (s : shared) (w : dloc) : shared :=
  s <| cu_out := cu_out s ++ [mkMapReq (next_id s) (dl_cu w) (dl_key w) (dl_locs w)] |>
    <| next_id := (next_id s + 1)%N |>
    <| g_maps := g_maps s ++ [mkMapReq (next_id s) (dl_cu w) (dl_key w) (dl_locs w)] |>.

Definition send_d (s : shared) (d : disp) (w : dloc) (pl : placement) : disp :=
  d <| cur_wg := None |> <| g_cur := None |> <| n_disp := (n_disp d + 1)%N |>
    <| inflight := (next_id s, w) :: inflight d |>
    <| g_sent := g_sent d ++ [(mkMapReq (next_id s) (dl_cu w) (dl_key w) (dl_locs w), pl)] |>
    <| cycle_left := 0%N |>.

Definition complete_d (c : cpcfg) (d : disp) (id : N) : disp :=
  let d1 := d <| inflight := remove_id id (inflight d) |> <| n_comp := (n_comp d + 1)%N |> in
  if (n_comp d1 =? a_numwg d1)%N then d1 <| cycle_left := c_kernel_ov c |> else d1.

(** one abstract step of one dispatcher on the shared state *)
Inductive dstep (c : cpcfg) : shared * disp -> shared * disp -> Prop :=
| DS_internal : forall s d d',
    core d' = core d -> alg_pending (c_alg c) d' = alg_pending (c_alg c) d ->
    dstep c (s, d) (s, d')
| DS_refuse : forall s d j k dm cu',
    In (k, dm) (alg_pending (c_alg c) d) -> j < length (pool s) ->
    reserve (nth j (pool s) dummy_cu) k dm = Ret cu' None ->
    dstep c (s, d) (s <| pool := set_nth j cu' (pool s) |>, d)
| DS_place : forall s d d' j k dm cu' locs,
    cur_wg d = None -> dispatching d <> None ->
    In (k, dm) (alg_pending (c_alg c) d) -> j < length (pool s) ->
    reserve (nth j (pool s) dummy_cu) k dm = Ret cu' (Some locs) ->
    core d' = core (d <| cur_wg := Some (mkDloc j k locs) |>
                      <| g_cur := Some (mkPl j k dm locs (nth j (pool s) dummy_cu)) |>
                      <| a_ndisp := (a_ndisp d + 1)%N |>) ->
    Permutation (alg_pending (c_alg c) d) ((k, dm) :: alg_pending (c_alg c) d') ->
    (is_partition (c_alg c) = false -> alg_pending (c_alg c) d = (k, dm) :: alg_pending (c_alg c) d') ->
    dstep c (s, d) (s <| pool := set_nth j cu' (pool s) |>, d')
| DS_send : forall s d w pl,
    cur_wg d = Some w -> g_cur d = Some pl -> length (cu_out s) < c_cap c -> length (dl_locs w) <= 16 ->
    dstep c (s, d) (send_sh s w, send_d s d w pl)
| DS_complete : forall s d m rest id w cu',
    cu_in s = m :: rest -> In id m -> lookup_id id (inflight d) = Some w ->
    free (nth (dl_cu w) (pool s) dummy_cu) (dl_key w) = Some cu' ->
    dstep c (s, d) (s <| pool := set_nth (dl_cu w) cu' (pool s) |> <| cu_in := drop_id id m rest |>,
                    complete_d c d id)
| DS_rsp : forall s d l,
    dispatching d = Some l -> kernel_completed d = true -> length (drv_out s) < c_cap c ->
    dstep c (s, d)
          (s <| drv_out := drv_out s ++ [lr_id l] |>
             <| g_hist := g_hist s ++ [mkFin l (g_sent d) (n_disp d) (n_comp d)] |>,
           d <| prev_count := n_disp d |> <| dispatching := None |> <| g_sent := [] |>)
| DS_count : forall s d,
    (0 < cycle_left d)%N ->
    dstep c (s, d) (s, d <| cycle_left := (cycle_left d - 1)%N |>).

Inductive dsteps (c : cpcfg) : shared * disp -> shared * disp -> Prop :=
| dsteps_refl : forall x, dsteps c x x
| dsteps_step : forall x y z, dstep c x y -> dsteps c y z -> dsteps c x z.

Lemma dsteps_trans : forall c x y z, dsteps c x y -> dsteps c y z -> dsteps c x z.
Proof. induction 1; intros; auto. econstructor; eauto. Qed.

Lemma dsteps_one : forall c x y, dstep c x y -> dsteps c x y.
Proof. intros. econstructor; eauto. constructor. Qed.

(** the conditions under which the Go code panics *)
Definition crash_at (c : cpcfg) (x : shared * disp) : Prop :=
  let s := fst x in let d := snd x in
  (exists j k dm, In (k, dm) (alg_pending (c_alg c) d) /\ j < length (pool s) /\
                  reserve (nth j (pool s) dummy_cu) k dm = Crash) \/
  (is_partition (c_alg c) = false /\ has_next d = true /\ cur_wg d = None /\ alg_pending (c_alg c) d = []) \/
  (exists w, cur_wg d = Some w /\ 16 < length (dl_locs w)) \/
  (exists m rest, cu_in s = m :: rest /\ ~ NoDup m) \/
  (exists id w, lookup_id id (inflight d) = Some w /\
                free (nth (dl_cu w) (pool s) dummy_cu) (dl_key w) = None).

(** * list helpers *)

Lemma set_nth_length : forall A i (x : A) l, length (set_nth i x l) = length l.
Proof. intros. apply upd_length. Qed.

Lemma set_nth_same : forall A i (x : A) l, nth_error (set_nth i x l) i = option_map (fun _ => x) (nth_error l i).
Proof. intros. apply upd_nth_same. Qed.

Lemma set_nth_other : forall A i j (x : A) l, i <> j -> nth_error (set_nth i x l) j = nth_error l j.
Proof. intros. apply upd_nth_other. assumption. Qed.

Lemma set_nth_app : forall A (l1 : list A) x y l2 i, length l1 = i ->
  set_nth i y (l1 ++ x :: l2) = l1 ++ y :: l2.
Proof.
  intros A l1 x y l2 i <-. unfold set_nth, upd.
  rewrite firstn_app, Nat.sub_diag, firstn_all. simpl. rewrite app_nil_r.
  rewrite skipn_app, Nat.sub_diag, skipn_all. simpl. reflexivity.
Qed.

Lemma set_nth_nil : forall A i (x : A), set_nth i x [] = [].
Proof. intros. unfold set_nth, upd. rewrite firstn_nil, skipn_nil. reflexivity. Qed.

Lemma combine_set_nth : forall A B (l1 : list A) (l2 : list B) i a b,
  combine (set_nth i a l1) (set_nth i b l2) = set_nth i (a, b) (combine l1 l2).
Proof.
  induction l1 as [|x l1 IH]; intros l2 i a b.
  - rewrite set_nth_nil. simpl. rewrite set_nth_nil. reflexivity.
  - destruct l2 as [|y l2].
    + rewrite set_nth_nil. simpl. rewrite set_nth_nil.
      destruct (set_nth i a (x :: l1)); reflexivity.
    + destruct i as [|i].
      * unfold set_nth, upd. simpl. reflexivity.
      * unfold set_nth, upd in *. simpl. f_equal. apply IH.
Qed.

Lemma nth_error_split' : forall A (l : list A) i x, nth_error l i = Some x ->
  exists l1 l2, l = l1 ++ x :: l2 /\ length l1 = i.
Proof. intros. apply nth_error_split. assumption. Qed.

Lemma nth_in_range : forall A (l : list A) i d x, nth i l d = x -> x <> d -> i < length l.
Proof.
  intros A l i d x H Hn. destruct (Nat.lt_ge_cases i (length l)); auto.
  rewrite nth_overflow in H by lia. congruence.
Qed.

Lemma set_pool_same : forall s : shared, s <| pool := pool s |> = s.
Proof. destruct s; reflexivity. Qed.

Lemma enum_from_app : forall a b lid idx,
  enum_from lid idx (a ++ b) = enum_from lid idx a ++ enum_from lid (idx + N.of_nat (length a))%N b.
Proof.
  induction a; intros; simpl.
  - f_equal. lia.
  - f_equal. rewrite IHa. f_equal. f_equal. lia.
Qed.

Lemma enum_from_length : forall ds lid idx, length (enum_from lid idx ds) = length ds.
Proof. induction ds; intros; simpl; auto. Qed.

(** * the placement algorithms as steps *)

Section Refine.
Context (c : cpcfg).
Let alg := c_alg c.

Lemma rr_scan_ref : forall fuel i s start k dm res,
  rr_scan fuel i (pool s) start k dm = res ->
  forall d, In (k, dm) (alg_pending alg d) -> (0 < fuel -> 0 < length (pool s)) ->
  match res with
  | Some (p', None) => dsteps c (s, d) (s <| pool := p' |>, d)
  | Some (p', Some pl) =>
    exists s1 j cu' locs, dsteps c (s, d) (s1, d) /\ j < length (pool s1) /\
      reserve (nth j (pool s1) dummy_cu) k dm = Ret cu' (Some locs) /\
      p' = set_nth j cu' (pool s1) /\ pl = mkPl j k dm locs (nth j (pool s1) dummy_cu) /\
      s1 <| pool := p' |> = s <| pool := p' |>
  | None => exists s1 j, dsteps c (s, d) (s1, d) /\ j < length (pool s1) /\
                         reserve (nth j (pool s1) dummy_cu) k dm = Crash
  end.
Proof.
  induction fuel; intros i s start k dm res H d Hin Hlen; simpl in H.
  - subst res. rewrite set_pool_same. constructor.
  - assert (Hp : 0 < length (pool s)) by (apply Hlen; lia).
    assert (Hj : (start + i) mod length (pool s) < length (pool s)) by (apply Nat.mod_upper_bound; lia).
    set (j := (start + i) mod length (pool s)) in *.
    destruct (reserve (nth j (pool s) dummy_cu) k dm) as [|c' [locs|]] eqn:E.
    + subst res. exists s, j. split; [constructor|]. auto.
    + subst res. exists s, j, c', locs. split; [constructor|]. repeat split; auto.
    + pose proof (DS_refuse c s d j k dm c' Hin Hj E) as Hst.
      set (s1 := s <| pool := set_nth j c' (pool s) |>) in *.
      specialize (IHfuel (S i) s1 start k dm res).
      assert (Hp1 : pool s1 = set_nth j c' (pool s)) by reflexivity.
      rewrite Hp1 in IHfuel. specialize (IHfuel H d Hin).
      assert (Hl1 : 0 < fuel -> 0 < length (set_nth j c' (pool s))) by (intros; rewrite set_nth_length; auto).
      specialize (IHfuel Hl1).
      destruct res as [[p' [pl|]]|].
      * destruct IHfuel as [s2 [j2 [cu2 [locs2 [H1 [H2 [H3 [H4 [H5 H6]]]]]]]]].
        exists s2, j2, cu2, locs2. split; [econstructor; eauto|]. repeat split; auto.
      * econstructor; eauto.
      * destruct IHfuel as [s2 [j2 [H1 [H2 H3]]]]. exists s2, j2. split; [econstructor; eauto|]. auto.
Qed.

Lemma rr_next_ref : forall s d p' d' r,
  is_partition alg = false ->
  rr_next alg (pool s) d = Some (p', d', r) ->
  cur_wg d = None -> dispatching d <> None ->
  dispatching d' = dispatching d /\
  match r with
  | None => dsteps c (s, d) (s <| pool := p' |>, d')
  | Some pl => dsteps c (s, d) (s <| pool := p' |>,
                                d' <| cur_wg := Some (mkDloc (pl_cu pl) (pl_key pl) (pl_locs pl)) |> <| g_cur := Some pl |>)
  end.
Proof.
  intros s d p' d' r Halg H Hcw Hdisp. unfold rr_next in H.
  assert (Hpend : forall x, alg_pending alg x = opt_list (a_cur x) ++ enum_from (a_lid x) (a_idx x) (a_rest x)).
  { intros x. unfold alg_pending. destruct alg; try discriminate; reflexivity. }
  (* fetch *)
  assert (Hf : exists d1, (match a_cur d with
                    | Some _ => Some d
                    | None => match a_rest d with
                              | [] => None
                              | dm :: r => Some (d <| a_cur := Some ((a_lid d, a_idx d), dm) |> <| a_rest := r |>
                                                   <| a_idx := (a_idx d + 1)%N |>)
                              end
                    end) = Some d1).
  { destruct (a_cur d); [eauto|]. destruct (a_rest d); [discriminate|eauto]. }
  destruct Hf as [d1 Ed1]. rewrite Ed1 in H.
  assert (H1 : dsteps c (s, d) (s, d1) /\ cur_wg d1 = None /\ dispatching d1 <> None /\ dispatching d1 = dispatching d).
  { destruct (a_cur d) as [x|] eqn:Ea.
    - inversion Ed1; subst. split; [constructor|auto].
    - destruct (a_rest d) as [|dm r0] eqn:Er; [discriminate|]. inversion Ed1; subst d1; clear Ed1.
      split; [|simpl; auto]. apply dsteps_one. apply DS_internal; [reflexivity|].
      fold alg. rewrite !Hpend. simpl. rewrite Ea, Er. reflexivity. }
  destruct H1 as [Hs1 [Hcw1 [Hdisp1 Hdeq]]].
  destruct (a_cur d1) as [[k dm]|] eqn:Ea1; [|discriminate].
  assert (Hin : In (k, dm) (alg_pending alg d1)) by (rewrite Hpend, Ea1; left; reflexivity).
  match type of H with (match rr_scan ?F ?I _ ?ST k dm with _ => _ end) = _ =>
    pose proof (rr_scan_ref F I s ST k dm _ eq_refl d1 Hin (fun H => H)) as Hsc;
    destruct (rr_scan F I (pool s) ST k dm) as [[p1 [pl|]]|] eqn:Esc end; [| |discriminate].
  - inversion H; subst p' d' r; clear H. split; [exact Hdeq|].
    destruct Hsc as [s1 [j [cu' [locs [Hd1 [Hj [Hres [Hp1 [Hpl Heq]]]]]]]]].
    eapply dsteps_trans; [exact Hs1|]. eapply dsteps_trans; [exact Hd1|].
    apply dsteps_one. rewrite <- Heq, Hp1.
    eapply DS_place with (k := k) (dm := dm) (locs := locs); eauto.
    + subst pl. reflexivity.
    + fold alg. rewrite !Hpend. simpl. rewrite Ea1. simpl. reflexivity.
    + intros _. fold alg. rewrite !Hpend. simpl. rewrite Ea1. reflexivity.
  - inversion H; subst p' d' r; clear H. split; [exact Hdeq|].
    eapply dsteps_trans; [exact Hs1|exact Hsc].
Qed.

Lemma rr_next_crash : forall s d,
  is_partition alg = false ->
  rr_next alg (pool s) d = None ->
  cur_wg d = None -> has_next d = true ->
  exists x, dsteps c (s, d) x /\ crash_at c x.
Proof.
  intros s d Halg H Hcw Hn. unfold rr_next in H.
  assert (Hpend : forall x, alg_pending alg x = opt_list (a_cur x) ++ enum_from (a_lid x) (a_idx x) (a_rest x)).
  { intros x. unfold alg_pending. destruct alg; try discriminate; reflexivity. }
  destruct (a_cur d) as [[k dm]|] eqn:Ea.
  - rewrite Ea in H.
    assert (Hin : In (k, dm) (alg_pending alg d)) by (rewrite Hpend, Ea; left; reflexivity).
    match type of H with (match rr_scan ?F ?I _ ?ST k dm with _ => _ end) = _ =>
      pose proof (rr_scan_ref F I s ST k dm _ eq_refl d Hin (fun H => H)) as Hsc;
      destruct (rr_scan F I (pool s) ST k dm) as [[p1 [pl|]]|] eqn:Esc end; try discriminate.
    destruct Hsc as [s1 [j [H1 [H2 H3]]]]. exists (s1, d). split; auto.
    left. exists j, k, dm. auto.
  - destruct (a_rest d) as [|dm r0] eqn:Er.
    + exists (s, d). split; [constructor|]. right. left. simpl. fold alg. rewrite Hpend, Ea, Er. auto.
    + simpl in H.
      set (d1 := d <| a_cur := Some ((a_lid d, a_idx d), dm) |> <| a_rest := r0 |> <| a_idx := (a_idx d + 1)%N |>) in *.
      assert (Hs1 : dsteps c (s, d) (s, d1)).
      { apply dsteps_one. apply DS_internal; [reflexivity|].
        fold alg. rewrite !Hpend. simpl. rewrite Ea, Er. reflexivity. }
      assert (Hin : In ((a_lid d, a_idx d), dm) (alg_pending alg d1)) by (rewrite Hpend; left; reflexivity).
      match type of H with (match rr_scan ?F ?I _ ?ST ?K ?DM with _ => _ end) = _ =>
        pose proof (rr_scan_ref F I s ST K DM _ eq_refl d1 Hin (fun H => H)) as Hsc;
        destruct (rr_scan F I (pool s) ST K DM) as [[p1 [pl|]]|] eqn:Esc end; try discriminate.
      destruct Hsc as [s1 [j [H1 [H2 H3]]]]. exists (s1, d1). split; [eapply dsteps_trans; eauto|].
      left. exists j, (a_lid d, a_idx d), dm. auto.
Qed.

(** ** partition.go *)

Lemma first_parked_spec : forall l i x j,
  first_parked l i = Some (x, j) -> exists k, j = i + k /\ nth_error l k = Some (Some x).
Proof.
  induction l as [|[y|] l IH]; intros i x j H; simpl in H; [discriminate| |].
  - inversion H; subst. exists 0. split; [lia|reflexivity].
  - destruct (IH _ _ _ H) as [k [Hk Hn]]. exists (S k). split; [lia|exact Hn].
Qed.

Lemma nth_error_combine : forall A B (l1 : list A) (l2 : list B) i a b,
  nth_error l1 i = Some a -> nth_error l2 i = Some b -> nth_error (combine l1 l2) i = Some (a, b).
Proof.
  induction l1; intros l2 i x y H1 H2; destruct i, l2; simpl in *; try discriminate.
  - inversion H1; inversion H2; reflexivity.
  - eauto.
Qed.

Lemma part_pending_split : forall d i pt cu,
  nth_error (p_parts d) i = Some pt -> nth_error (p_cur d) i = Some cu ->
  exists Z1 Z2, combine (p_parts d) (p_cur d) = Z1 ++ (pt, cu) :: Z2 /\ length Z1 = i /\
    part_pending d = flat_map (part_todo (a_lid d) (p_per d)) Z1 ++ part_todo (a_lid d) (p_per d) (pt, cu)
                     ++ flat_map (part_todo (a_lid d) (p_per d)) Z2.
Proof.
  intros d i pt cu H1 H2. pose proof (nth_error_combine _ _ _ _ _ _ _ H1 H2) as H.
  destruct (nth_error_split' _ _ _ _ H) as [Z1 [Z2 [E L]]]. exists Z1, Z2. split; auto. split; auto.
  unfold part_pending. rewrite E, flat_map_app. simpl. reflexivity.
Qed.

Lemma part_fetch_ref : forall d pi d1 r ncu,
  part_fetch d pi = (d1, r) -> AInt Partition ncu d -> pi < length (p_parts d) ->
  core d1 = core d /\ part_pending d1 = part_pending d /\ AInt Partition ncu d1 /\
  p_next d1 = p_next d /\ length (p_parts d1) = length (p_parts d) /\
  match r with
  | Some (x, from) => nth_error (p_cur d1) from = Some (Some x) /\ from < length (p_parts d1)
  | None => True
  end.
Proof.
  intros d pi d1 r ncu H [Hsh Hn] Hpi. unfold part_fetch in H.
  destruct (nth_error (p_parts d) pi) as [pt|] eqn:Ept; [|apply nth_error_None in Ept; lia].
  rewrite (nth_nth_error _ _ _ dummy_part _ Ept) in H.
  destruct (p_per d <=? pt_disp pt) eqn:Eex.
  - inversion H; subst d1 r; clear H. repeat split; auto.
    destruct (first_parked (p_cur d) 0) as [[x from]|] eqn:Efp; auto.
    destruct (first_parked_spec _ _ _ _ Efp) as [k [Hk Hnk]]. simpl in Hk. subst k.
    split; auto. rewrite <- Hsh. apply nth_error_Some. congruence.
  - apply Nat.leb_gt in Eex.
    destruct (nth_error (p_cur d) pi) as [cu|] eqn:Ecu; [|apply nth_error_None in Ecu; lia].
    rewrite (nth_nth_error _ _ _ None _ Ecu) in H.
    destruct cu as [x|].
    + inversion H; subst d1 r; clear H. repeat split; auto.
    + destruct (pt_rest pt) as [|dm r0] eqn:Er.
      * inversion H; subst d1 r; clear H. repeat split; auto.
      * inversion H; subst d1 r; clear H. simpl.
        split; [reflexivity|].
        split.
        { destruct (part_pending_split d pi pt None Ept Ecu) as [Z1 [Z2 [E [L Hp]]]].
          rewrite Hp.
          match goal with |- part_pending ?D = _ => set (d1 := D) end.
          assert (E1 : p_parts d1 = set_nth pi (mkPart r0 (pt_idx pt + 1)%N (pt_disp pt)) (p_parts d)) by reflexivity.
          assert (E2 : p_cur d1 = set_nth pi (Some (a_lid d, pt_idx pt, dm)) (p_cur d)) by reflexivity.
          assert (E3 : a_lid d1 = a_lid d) by reflexivity.
          assert (E4 : p_per d1 = p_per d) by reflexivity.
          unfold part_pending. rewrite E1, E2, E3, E4.
          rewrite combine_set_nth. setoid_rewrite E. rewrite (set_nth_app _ Z1 _ _ Z2 pi L).
          rewrite flat_map_app. cbn [flat_map]. f_equal. f_equal.
          unfold part_todo. simpl. rewrite Er.
          replace (p_per d - (pt_disp pt + 0)) with (S (p_per d - (pt_disp pt + 1))) by lia.
          simpl. reflexivity. }
        split; [split; [rewrite !set_nth_length; auto|rewrite set_nth_length; destruct Hn as [Hn|Hn]; auto]|].
        { left. rewrite Hn in Hpi. simpl in Hpi. lia. }
        split; [reflexivity|]. split; [apply set_nth_length|].
        split; [rewrite set_nth_same; setoid_rewrite Ecu; reflexivity|rewrite set_nth_length; auto].
Qed.

Lemma core_fields : forall d d', core d' = core d ->
  dispatching d' = dispatching d /\ cur_wg d' = cur_wg d /\ cycle_left d' = cycle_left d /\
  n_disp d' = n_disp d /\ n_comp d' = n_comp d /\ inflight d' = inflight d /\
  first_launched d' = first_launched d /\ prev_count d' = prev_count d /\ a_ndisp d' = a_ndisp d /\
  a_numwg d' = a_numwg d /\ a_lid d' = a_lid d /\ g_sent d' = g_sent d /\ g_cur d' = g_cur d.
Proof. intros d d' H. unfold core in H. inversion H. repeat split; auto. Qed.

Lemma part_scan_ref : forall fuel index s d res ncu,
  c_alg c = Partition ->
  part_scan fuel index (pool s) d = res -> AInt Partition ncu d -> length (pool s) = ncu ->
  (0 < fuel -> 0 < length (p_parts d)) -> cur_wg d = None -> dispatching d <> None ->
  match res with
  | Some (p', d', None) => dsteps c (s, d) (s <| pool := p' |>, d') /\ AInt Partition ncu d' /\ dispatching d' = dispatching d
  | Some (p', d', Some pl) =>
    dsteps c (s, d) (s <| pool := p' |>,
                     d' <| cur_wg := Some (mkDloc (pl_cu pl) (pl_key pl) (pl_locs pl)) |> <| g_cur := Some pl |>) /\
    AInt Partition ncu d' /\ dispatching d' = dispatching d
  | None => exists x, dsteps c (s, d) x /\ crash_at c x
  end.
Proof.
  induction fuel; intros index s d res ncu Halg H HA Hlen Hfuel Hcw Hdisp; simpl in H.
  - subst res. rewrite set_pool_same. split; [constructor|auto].
  - assert (Hp : 0 < length (p_parts d)) by (apply Hfuel; lia).
    assert (Hi : (index + p_next d) mod length (p_parts d) < length (p_parts d)) by (apply Nat.mod_upper_bound; lia).
    set (i := (index + p_next d) mod length (p_parts d)) in *.
    destruct (part_fetch d i) as [d1 r] eqn:Ef.
    destruct (part_fetch_ref d i d1 r ncu Ef HA Hi) as [Hcore [Hpend [HA1 [Hnext [Hlen1 Hr]]]]].
    destruct (core_fields _ _ Hcore) as [Hd1 [Hc1 _]].
    assert (Hs1 : dsteps c (s, d) (s, d1)).
    { apply dsteps_one. apply DS_internal; auto. rewrite Halg. exact Hpend. }
    assert (Hfuel1 : 0 < fuel -> 0 < length (p_parts d1)) by (intros; lia).
    assert (Hcw1 : cur_wg d1 = None) by congruence.
    assert (Hdisp1 : dispatching d1 <> None) by congruence.
    assert (Hncu : i < length (pool s)).
    { destruct HA as [_ [E|E]]; [rewrite E in Hp; simpl in Hp; lia|lia]. }
    destruct r as [[[k dm] from]|].
    2: { specialize (IHfuel (S index) s d1 res ncu Halg H HA1 Hlen Hfuel1 Hcw1 Hdisp1).
         destruct res as [[[p' d'] [pl|]]|].
         - destruct IHfuel as [? [? ?]]. split; [eapply dsteps_trans; eauto|]. split; auto. congruence.
         - destruct IHfuel as [? [? ?]]. split; [eapply dsteps_trans; eauto|]. split; auto. congruence.
         - destruct IHfuel as [x [? ?]]. exists x. split; auto. eapply dsteps_trans; eauto. }
    destruct Hr as [Hcu Hfrom].
    destruct (nth_error (p_parts d1) from) as [pf|] eqn:Epf; [|apply nth_error_None in Epf; lia].
    destruct (part_pending_split d1 from pf (Some (k, dm)) Epf Hcu) as [Z1 [Z2 [EZ [LZ Hsplit]]]].
    assert (Hin : In (k, dm) (alg_pending (c_alg c) d1)).
    { rewrite Halg. simpl. rewrite Hsplit. apply in_or_app. right. left. reflexivity. }
    destruct (reserve (nth i (pool s) dummy_cu) k dm) as [|c' [locs|]] eqn:Eres.
    + subst res. exists (s, d1). split; auto. left. exists i, k, dm. auto.
    + subst res. split.
      * eapply dsteps_trans; [exact Hs1|]. apply dsteps_one.
        match goal with |- dstep _ _ (_, ?D) => set (dfin := D) end.
        assert (Hcore2 : core dfin = core (d1 <| cur_wg := Some (mkDloc i k locs) |>
                      <| g_cur := Some (mkPl i k dm locs (nth i (pool s) dummy_cu)) |>
                      <| a_ndisp := (a_ndisp d1 + 1)%N |>)) by reflexivity.
        assert (Hnp : is_partition (c_alg c) = false ->
                      alg_pending (c_alg c) d1 = (k, dm) :: alg_pending (c_alg c) dfin).
        { intros Hf. rewrite Halg in Hf. discriminate. }
        assert (Hperm : Permutation (alg_pending (c_alg c) d1) ((k, dm) :: alg_pending (c_alg c) dfin)).
        { rewrite Halg. cbn [alg_pending]. rewrite Hsplit.
           assert (E1 : p_parts dfin = set_nth from (mkPart (pt_rest (nth from (p_parts d1) dummy_part))
                                                         (pt_idx (nth from (p_parts d1) dummy_part))
                                                         (S (pt_disp (nth from (p_parts d1) dummy_part)))) (p_parts d1)) by reflexivity.
           assert (E2 : p_cur dfin = set_nth from None (p_cur d1)) by reflexivity.
           assert (E3 : a_lid dfin = a_lid d1) by reflexivity.
           assert (E4 : p_per dfin = p_per d1) by reflexivity.
           unfold part_pending. rewrite E1, E2, E3, E4. rewrite (nth_nth_error _ _ _ dummy_part _ Epf).
           rewrite combine_set_nth. setoid_rewrite EZ. rewrite (set_nth_app _ Z1 _ _ Z2 from LZ).
           rewrite flat_map_app. cbn [flat_map].
           set (tail := enum_from (a_lid d1) (pt_idx pf) (firstn (p_per d1 - (pt_disp pf + 1)) (pt_rest pf))).
           assert (T1 : part_todo (a_lid d1) (p_per d1) (pf, Some (k, dm)) = (k, dm) :: tail) by reflexivity.
           assert (T2 : part_todo (a_lid d1) (p_per d1)
                          (mkPart (pt_rest pf) (pt_idx pf) (S (pt_disp pf)), None) = tail).
           { unfold part_todo, tail. cbn [fst snd opt_list length app pt_rest pt_idx pt_disp].
             replace (p_per d1 - (S (pt_disp pf) + 0)) with (p_per d1 - (pt_disp pf + 1)) by lia. reflexivity. }
           setoid_rewrite T1. setoid_rewrite T2. cbn [app].
           apply Permutation_sym. apply Permutation_middle. }
        exact (DS_place c s d1 dfin i k dm c' locs Hcw1 Hdisp1 Hin Hncu Eres Hcore2 Hperm Hnp).
      * split; [|simpl; auto]. destruct HA1 as [Ha Hb]. split; simpl; rewrite !set_nth_length; auto.
        destruct Hb as [Hb|Hb]; auto. left. rewrite Hb in Hfrom. simpl in Hfrom. lia.
    + pose proof (DS_refuse c s d1 i k dm c' Hin Hncu Eres) as Hst.
      set (s1 := s <| pool := set_nth i c' (pool s) |>) in *.
      assert (Hl1 : length (pool s1) = ncu) by (simpl; rewrite set_nth_length; auto).
      specialize (IHfuel (S index) s1 d1 res ncu Halg H HA1 Hl1 Hfuel1 Hcw1 Hdisp1).
      assert (Hs2 : dsteps c (s, d) (s1, d1)) by (eapply dsteps_trans; [exact Hs1|apply dsteps_one; exact Hst]).
      destruct res as [[[p' d'] [pl|]]|].
      * destruct IHfuel as [? [? ?]]. split; [eapply dsteps_trans; eauto|]. split; auto. congruence.
      * destruct IHfuel as [? [? ?]]. split; [eapply dsteps_trans; eauto|]. split; auto. congruence.
      * destruct IHfuel as [x [? ?]]. exists x. split; auto. eapply dsteps_trans; eauto.
Qed.

Lemma alg_next_ref : forall s d ncu res,
  alg_next alg (pool s) d = res -> AInt alg ncu d -> length (pool s) = ncu ->
  cur_wg d = None -> dispatching d <> None -> has_next d = true ->
  match res with
  | Some (p', d', None) => dsteps c (s, d) (s <| pool := p' |>, d') /\ AInt alg ncu d' /\ dispatching d' = dispatching d
  | Some (p', d', Some pl) =>
    dsteps c (s, d) (s <| pool := p' |>,
                     d' <| cur_wg := Some (mkDloc (pl_cu pl) (pl_key pl) (pl_locs pl)) |> <| g_cur := Some pl |>) /\
    AInt alg ncu d' /\ dispatching d' = dispatching d
  | None => exists x, dsteps c (s, d) x /\ crash_at c x
  end.
Proof.
  intros s d ncu res H HA Hlen Hcw Hdisp Hn. unfold alg_next in H.
  destruct alg eqn:Ealg.
  - assert (Hp : is_partition alg = false) by (rewrite Ealg; reflexivity).
    destruct res as [[[p' d'] r]|].
    + pose proof (rr_next_ref s d p' d' r Hp) as Hr. rewrite Ealg in Hr. destruct (Hr H Hcw Hdisp) as [Hd Hs].
      destruct r; split; auto; split; auto; exact I.
    + pose proof (rr_next_crash s d Hp) as Hr. rewrite Ealg in Hr. apply Hr; auto.
  - assert (Hp : is_partition alg = false) by (rewrite Ealg; reflexivity).
    destruct res as [[[p' d'] r]|].
    + pose proof (rr_next_ref s d p' d' r Hp) as Hr. rewrite Ealg in Hr. destruct (Hr H Hcw Hdisp) as [Hd Hs].
      destruct r; split; auto; split; auto; exact I.
    + pose proof (rr_next_crash s d Hp) as Hr. rewrite Ealg in Hr. apply Hr; auto.
  - unfold part_next in H. destruct (a_numwg d <=? a_ndisp d)%N.
    + subst res. rewrite set_pool_same. split; [constructor|auto].
    + eapply part_scan_ref; eauto.
Qed.

(** frame facts of one step *)
Lemma dstep_frame : forall x y, dstep c x y ->
  length (pool (fst y)) = length (pool (fst x)) /\ crashed (fst y) = crashed (fst x) /\
  (next_id (fst x) <= next_id (fst y))%N.
Proof.
  intros x y H. destruct H; simpl; repeat split; auto; try lia; try (rewrite set_nth_length; auto).
Qed.

Lemma dsteps_frame : forall x y, dsteps c x y ->
  length (pool (fst y)) = length (pool (fst x)) /\ crashed (fst y) = crashed (fst x) /\
  (next_id (fst x) <= next_id (fst y))%N.
Proof.
  induction 1; [repeat split; auto; lia|].
  destruct (dstep_frame _ _ H) as [? [? ?]]. destruct IHdsteps as [? [? ?]].
  repeat split; try congruence; lia.
Qed.

(** identifiers of the work-groups in flight are distinct and were drawn from the counter *)
Definition IdInv (s : shared) (d : disp) : Prop :=
  NoDup (map fst (inflight d)) /\ forall id, In id (map fst (inflight d)) -> (id < next_id s)%N.

Lemma remove_id_subset : forall id l x, In x (map fst (remove_id id l)) -> In x (map fst l).
Proof.
  induction l as [|[i w] l IH]; simpl; intros x H; auto.
  destruct (i =? id)%N; simpl in *; auto. destruct H; auto.
Qed.

Lemma remove_id_nodup : forall id l, NoDup (map fst l) -> NoDup (map fst (remove_id id l)).
Proof.
  induction l as [|[i w] l IH]; simpl; intros H; auto. inversion H; subst.
  destruct (i =? id)%N; auto. simpl. constructor; auto.
  intros Hin. apply H2. eapply remove_id_subset; eauto.
Qed.

Lemma lookup_id_in : forall id l w, lookup_id id l = Some w -> In id (map fst l).
Proof.
  induction l as [|[i x] l IH]; simpl; intros w H; [discriminate|].
  destruct (i =? id)%N eqn:E; [apply N.eqb_eq in E; auto|right; eauto].
Qed.

Lemma lookup_id_none : forall id l, lookup_id id l = None -> ~ In id (map fst l).
Proof.
  induction l as [|[i x] l IH]; simpl; intros H; [tauto|].
  destruct (i =? id)%N eqn:E; [discriminate|]. apply N.eqb_neq in E. intros [?|?]; [congruence|]. apply IH; auto.
Qed.

Lemma remove_id_gone : forall id l, NoDup (map fst l) -> ~ In id (map fst (remove_id id l)).
Proof.
  induction l as [|[i w] l IH]; simpl; intros H; [tauto|]. inversion H; subst.
  destruct (i =? id)%N eqn:E.
  - apply N.eqb_eq in E. subst. auto.
  - apply N.eqb_neq in E. simpl. intros [?|?]; [congruence|]. apply IH; auto.
Qed.

Lemma lookup_remove_other : forall id id' l, id <> id' -> lookup_id id' (remove_id id l) = lookup_id id' l.
Proof.
  induction l as [|[i w] l IH]; simpl; intros H; auto.
  destruct (i =? id)%N eqn:E.
  - apply N.eqb_eq in E. subst. destruct (id =? id')%N eqn:E2; auto. apply N.eqb_eq in E2. congruence.
  - simpl. destruct (i =? id')%N; auto.
Qed.

Lemma dstep_IdInv : forall x y, dstep c x y -> IdInv (fst x) (snd x) -> IdInv (fst y) (snd y).
Proof.
  intros x y H [Hn Hb]. destruct H; unfold IdInv; simpl in *; auto.
  - match goal with H : core _ = core _ |- _ => destruct (core_fields _ _ H) as [_ [_ [_ [_ [_ [E _]]]]]] end.
    rewrite E. auto.
  - match goal with H : core _ = core _ |- _ => destruct (core_fields _ _ H) as [_ [_ [_ [_ [_ [E _]]]]]] end.
    rewrite E. simpl. auto.
  - split.
    + constructor; auto. intros Hin. specialize (Hb _ Hin). lia.
    + intros id [<-|Hin]; [lia|]. specialize (Hb _ Hin). lia.
  - assert (E : inflight (complete_d c d id) = remove_id id (inflight d)).
    { unfold complete_d. destruct (_ =? _)%N; reflexivity. }
    rewrite E. split; [apply remove_id_nodup; auto|].
    intros x Hx. apply Hb. eapply remove_id_subset; eauto.
Qed.

Lemma dsteps_IdInv : forall x y, dsteps c x y -> IdInv (fst x) (snd x) -> IdInv (fst y) (snd y).
Proof.
  induction 1; auto. intros HI. apply IHdsteps. eapply dstep_IdInv; eauto.
Qed.


(** result of a refined call: the state reached by the steps is the returned
    one (and [P] holds), or the call panicked in a state satisfying a panic
    condition *)
Definition refined (s' : shared) (d' : disp) (x : shared * disp) (P : Prop) : Prop :=
  (crashed s' = false /\ x = (s', d') /\ P) \/ (crashed s' = true /\ crash_at c x).

Lemma dispatch_next_ref : forall s d s' d' pr ncu,
  dispatch_next c s d = (s', d', pr) -> crashed s = false ->
  AInt alg ncu d -> length (pool s) = ncu -> dispatching d <> None ->
  exists x, dsteps c (s, d) x /\ refined s' d' x (AInt alg ncu d' /\ dispatching d' = dispatching d).
Proof.
  intros s d s' d' pr ncu H Hc HA Hlen Hdisp. unfold dispatch_next in H.
  assert (Hstage : forall s1 d1,
    (match cur_wg d with
     | Some _ => Some (s, d)
     | None =>
       if negb (has_next d) then None else
       match alg_next (c_alg c) (pool s) d with
       | None => Some (crash s, d)
       | Some (p', d', None) => Some (s <| pool := p' |>, d')
       | Some (p', d', Some pl) =>
         Some (s <| pool := p' |>,
               d' <| cur_wg := Some (mkDloc (pl_cu pl) (pl_key pl) (pl_locs pl)) |> <| g_cur := Some pl |>)
       end
     end) = Some (s1, d1) ->
    (crashed s1 = false /\ dsteps c (s, d) (s1, d1) /\ AInt alg ncu d1 /\ dispatching d1 = dispatching d) \/
    (crashed s1 = true /\ exists x, dsteps c (s, d) x /\ crash_at c x)).
  { intros s1 d1 Hst. destruct (cur_wg d) eqn:Ew.
    - inversion Hst; subst s1 d1. left. split; auto. split; [constructor|auto].
    - destruct (negb (has_next d)) eqn:En; [discriminate|]. apply negb_false_iff in En.
      pose proof (alg_next_ref s d ncu _ eq_refl HA Hlen Ew Hdisp En) as Hr. fold alg in Hst.
      destruct (alg_next alg (pool s) d) as [[[p' d0] [pl|]]|].
      + inversion Hst; subst s1 d1. left. destruct Hr as [? [? ?]]. simpl. auto.
      + inversion Hst; subst s1 d1. left. destruct Hr as [? [? ?]]. simpl. auto.
      + inversion Hst; subst s1 d1. right. simpl. auto. }
  match type of H with (match ?X with _ => _ end) = _ => destruct X as [[s1 d1]|] eqn:Est end.
  2: { inversion H; subst s' d' pr. exists (s, d). split; [constructor|]. left. auto. }
  destruct (Hstage s1 d1 eq_refl) as [[Hc1 [Hs1 [HA1 Hd1]]]|[Hc1 [x [Hx1 Hx2]]]].
  2: { rewrite Hc1 in H. inversion H; subst s' d' pr. exists x. split; auto. right. auto. }
  rewrite Hc1 in H.
  destruct (cur_wg d1) as [w|] eqn:Ew1.
  2: { inversion H; subst s' d' pr. exists (s1, d1). split; auto. left. auto. }
  destruct (g_cur d1) as [pl|] eqn:Eg1.
  2: { inversion H; subst s' d' pr. exists (s1, d1). split; auto. left. auto. }
  destruct (length (cu_out s1) <? c_cap c) eqn:Eroom.
  2: { inversion H; subst s' d' pr. exists (s1, d1). split; auto. left. auto. }
  apply Nat.ltb_lt in Eroom.
  destruct (16 <? length (dl_locs w)) eqn:E16.
  - apply Nat.ltb_lt in E16. inversion H; subst s' d' pr. exists (s1, d1). split; auto. right. split; [reflexivity|].
    right. right. left. exists w. auto.
  - apply Nat.ltb_ge in E16. inversion H; subst s' d' pr; clear H.
    exists (send_sh s1 w, send_d s1 d1 w pl). split.
    + eapply dsteps_trans; [exact Hs1|]. apply dsteps_one. apply DS_send; auto.
    + left. split; [exact Hc1|]. split; [reflexivity|]. split; [|simpl; auto].
      unfold AInt in *. destruct alg; auto.
Qed.

Lemma dispatch_loop_ref : forall fuel s d s' d' pr ncu,
  dispatch_loop fuel c s d = (s', d', pr) -> crashed s = false ->
  AInt alg ncu d -> length (pool s) = ncu -> dispatching d <> None ->
  exists x, dsteps c (s, d) x /\ refined s' d' x (AInt alg ncu d' /\ dispatching d' = dispatching d).
Proof.
  induction fuel; intros s d s' d' pr ncu H Hc HA Hlen Hdisp; simpl in H.
  - inversion H; subst s' d' pr. exists (s, d). split; [constructor|]. left. auto.
  - destruct (dispatch_next c s d) as [[s1 d1] p1] eqn:E1.
    destruct (dispatch_next_ref _ _ _ _ _ _ E1 Hc HA Hlen Hdisp) as [x [Hx Hr]].
    destruct (negb p1 || (0 <? cycle_left d1)%N || crashed s1) eqn:Eb.
    + inversion H; subst s' d' pr. exists x. auto.
    + destruct (dispatch_loop fuel c s1 d1) as [[s2 d2] p2] eqn:E2. inversion H; subst s' d' pr; clear H.
      apply orb_false_iff in Eb. destruct Eb as [_ Ec1].
      destruct Hr as [[_ [-> [HA1 Hd1]]]|[Hc1 _]]; [|congruence].
      destruct (dsteps_frame _ _ Hx) as [Hl1 _]. simpl in Hl1.
      assert (Hdisp1 : dispatching d1 <> None) by congruence.
      assert (Hlen1 : length (pool s1) = ncu) by congruence.
      destruct (IHfuel _ _ _ _ _ _ E2 Ec1 HA1 Hlen1 Hdisp1) as [y [Hy Hr2]].
      exists y. split; [eapply dsteps_trans; eauto|].
      destruct Hr2 as [[? [? [? ?]]]|?]; [left|right; auto]. repeat split; auto. congruence.
Qed.

(** ** completion messages *)

Definition memN (id : N) (l : list N) : bool := existsb (N.eqb id) l.

Lemma memN_in : forall id l, memN id l = true <-> In id l.
Proof.
  intros. unfold memN. rewrite existsb_exists. split.
  - intros [x [Hx E]]. apply N.eqb_eq in E. subst. auto.
  - intros H. exists id. split; auto. apply N.eqb_refl.
Qed.

Definition head_after (done m : list N) (rest : list (list N)) : list (list N) :=
  match filter (fun x => negb (memN x done)) m with
  | [] => rest
  | o => o :: rest
  end.

Inductive completes : list N -> shared * disp -> shared * disp -> Prop :=
| cs_nil : forall x, completes [] x x
| cs_cons : forall id r s d w cu' z,
    lookup_id id (inflight d) = Some w ->
    free (nth (dl_cu w) (pool s) dummy_cu) (dl_key w) = Some cu' ->
    completes r (s <| pool := set_nth (dl_cu w) cu' (pool s) |>, complete_d c d id) z ->
    completes (id :: r) (s, d) z.

Lemma complete_d_inflight : forall d id, inflight (complete_d c d id) = remove_id id (inflight d).
Proof. intros. unfold complete_d. destruct (_ =? _)%N; reflexivity. Qed.

Lemma complete_d_dispatching : forall d id, dispatching (complete_d c d id) = dispatching d.
Proof. intros. unfold complete_d. destruct (_ =? _)%N; reflexivity. Qed.

Lemma complete_d_AInt : forall a n d id, AInt a n (complete_d c d id) <-> AInt a n d.
Proof. intros. unfold complete_d, AInt. destruct (_ =? _)%N; destruct a; simpl; tauto. Qed.

Lemma complete_ids_spec : forall ids s d s' d',
  complete_ids c ids s d = (s', d') -> crashed s = false ->
  (crashed s' = false /\ completes ids (s, d) (s', d')) \/
  (crashed s' = true /\ exists done id rest0 s0 d0,
      ids = done ++ id :: rest0 /\ completes done (s, d) (s0, d0) /\
      (lookup_id id (inflight d0) = None \/
       exists w, lookup_id id (inflight d0) = Some w /\
                 free (nth (dl_cu w) (pool s0) dummy_cu) (dl_key w) = None)).
Proof.
  induction ids as [|id r IH]; intros s d s' d' H Hc; simpl in H.
  - inversion H; subst s' d'. left. split; auto. constructor.
  - rewrite Hc in H. destruct (lookup_id id (inflight d)) as [w|] eqn:El.
    2: { inversion H; subst s' d'. right. split; [reflexivity|].
         exists [], id, r, s, d. split; auto. split; [constructor|auto]. }
    destruct (free (nth (dl_cu w) (pool s) dummy_cu) (dl_key w)) as [cu'|] eqn:Ef.
    2: { inversion H; subst s' d'. right. split; [reflexivity|].
         exists [], id, r, s, d. split; auto. split; [constructor|]. right. exists w. auto. }
    fold (complete_d c d id) in H.
    assert (Hc2 : crashed (s <| pool := set_nth (dl_cu w) cu' (pool s) |>) = false) by (simpl; exact Hc).
    destruct (IH _ _ _ _ H Hc2) as [[Hc' Hcs]|[Hc' [done [id0 [rest0 [s0 [d0 [E [Hcs Hx]]]]]]]]].
    + left. split; auto. econstructor; eauto.
    + right. split; auto. exists (id :: done), id0, rest0, s0, d0. split; [simpl; congruence|].
      split; [econstructor; eauto|auto].
Qed.

Lemma completes_cu_in : forall ids s d s' d' X,
  completes ids (s, d) (s', d') -> completes ids (s <| cu_in := X |>, d) (s' <| cu_in := X |>, d').
Proof.
  induction ids as [|id r IH]; intros s d s' d' X H; inversion H; subst.
  - constructor.
  - econstructor; eauto. apply (IH _ _ _ _ X) in H7. exact H7.
Qed.

Lemma completes_inflight_subset : forall ids s d s' d' x,
  completes ids (s, d) (s', d') -> In x (map fst (inflight d')) -> In x (map fst (inflight d)).
Proof.
  induction ids as [|id r IH]; intros s d s' d' x H Hin; inversion H; subst; auto.
  eapply IH in H7; eauto. rewrite complete_d_inflight in H7. eapply remove_id_subset; eauto.
Qed.

Lemma completes_all_known : forall ids s d s' d' x,
  completes ids (s, d) (s', d') -> In x ids -> In x (map fst (inflight d)).
Proof.
  induction ids as [|id r IH]; intros s d s' d' x H Hin; inversion H; subst; [inversion Hin|].
  destruct Hin as [<-|Hin]; [eapply lookup_id_in; eauto|].
  eapply IH in H7; eauto. rewrite complete_d_inflight in H7. eapply remove_id_subset; eauto.
Qed.

Lemma completes_nodup : forall ids s d s' d',
  completes ids (s, d) (s', d') -> NoDup (map fst (inflight d)) -> NoDup ids.
Proof.
  induction ids as [|id r IH]; intros s d s' d' H Hn; inversion H; subst; constructor.
  - intros Hin. eapply completes_all_known in H7; eauto. rewrite complete_d_inflight in H7.
    eapply remove_id_gone; eauto.
  - eapply IH; eauto. rewrite complete_d_inflight. apply remove_id_nodup; auto.
Qed.

Lemma completes_removed : forall ids s d s' d' x,
  completes ids (s, d) (s', d') -> In x (map fst (inflight d)) -> ~ In x (map fst (inflight d')) -> In x ids.
Proof.
  induction ids as [|id r IH]; intros s d s' d' x H Hin Hout; inversion H; subst; [tauto|].
  destruct (N.eq_dec x id) as [->|Hne]; [left; auto|right].
  eapply IH; eauto. rewrite complete_d_inflight.
  clear - Hin Hne. induction (inflight d) as [|[i w0] l IHl]; simpl in *; [tauto|].
  destruct (i =? id)%N eqn:E.
  - apply N.eqb_eq in E. subst. destruct Hin; [congruence|auto].
  - simpl. destruct Hin; auto.
Qed.

Lemma completes_facts : forall ids s d s' d' a n,
  completes ids (s, d) (s', d') ->
  dispatching d' = dispatching d /\ (AInt a n d' <-> AInt a n d) /\ crashed s' = crashed s /\
  cu_in s' = cu_in s.
Proof.
  induction ids as [|id r IH]; intros s d s' d' a n H; inversion H; subst.
  - repeat split; auto.
  - destruct (IH _ _ _ _ a n H7) as [F1 [F2 [F3 F4]]]. simpl in *.
    rewrite complete_d_dispatching in F1. rewrite complete_d_AInt in F2. auto.
Qed.

Lemma filter_filter_mem : forall id r m,
  filter (fun x => negb (memN x r)) (filter (fun x => negb (N.eqb x id)) m) =
  filter (fun x => negb (memN x (id :: r))) m.
Proof.
  induction m as [|y m IH]; simpl; auto.
  destruct (N.eqb y id) eqn:E; simpl; [auto|]. rewrite IH. reflexivity.
Qed.

Lemma set_cu_in_twice : forall (s : shared) X Y, s <| cu_in := X |> <| cu_in := Y |> = s <| cu_in := Y |>.
Proof. destruct s; reflexivity. Qed.

Lemma completes_steps : forall ids s d s' d' m rest,
  completes ids (s, d) (s', d') -> cu_in s = m :: rest -> NoDup ids -> (forall id, In id ids -> In id m) ->
  ids <> [] ->
  dsteps c (s, d) (s' <| cu_in := head_after ids m rest |>, d').
Proof.
  induction ids as [|id r IH]; intros s d s' d' m rest H Hin Hn Hsub Hne; [congruence|].
  inversion H as [|? ? ? ? ? ? ? Hlk Hfr Hrest]; subst. inversion Hn as [|? ? Hnotin Hndr]; subst.
  assert (Hidm : In id m) by (apply Hsub; left; auto).
  pose proof (DS_complete c s d m rest id w cu' Hin Hidm Hlk Hfr) as Hst.
  destruct r as [|id2 r2].
  - inversion Hrest; subst. apply dsteps_one.
    replace (head_after [id] m rest) with (drop_id id m rest); [exact Hst|].
    unfold head_after, drop_id.
    assert (E : filter (fun x => negb (N.eqb x id)) m = filter (fun x => negb (memN x [id])) m).
    { apply filter_ext. intros x. simpl. rewrite orb_false_r. reflexivity. }
    rewrite E. reflexivity.
  - set (m1 := filter (fun x => negb (N.eqb x id)) m).
    assert (Hm1 : In id2 m1).
    { apply filter_In. split; [apply Hsub; right; left; auto|].
      apply negb_true_iff, N.eqb_neq. intros ->. apply Hnotin. left; auto. }
    assert (Hd : drop_id id m rest = m1 :: rest).
    { unfold drop_id. fold m1. destruct m1; [inversion Hm1|reflexivity]. }
    rewrite Hd in Hst.
    apply (completes_cu_in _ _ _ _ _ (m1 :: rest)) in Hrest.
    eapply dsteps_step; [exact Hst|].
    specialize (IH _ _ _ _ m1 rest Hrest eq_refl Hndr).
    rewrite set_cu_in_twice in IH.
    replace (head_after (id :: id2 :: r2) m rest) with (head_after (id2 :: r2) m1 rest).
    + apply IH; [|discriminate].
      intros x Hx. apply filter_In. split; [apply Hsub; right; auto|].
      apply negb_true_iff, N.eqb_neq. intros ->. apply Hnotin. exact Hx.
    + unfold head_after, m1. rewrite filter_filter_mem. reflexivity.
Qed.

Lemma filter_not_mine : forall (f : N -> bool) l,
  filter (fun x => negb (memN x (filter f l))) l = filter (fun x => negb (f x)) l.
Proof.
  intros f l. apply filter_ext_in. intros x Hx. f_equal.
  destruct (f x) eqn:E.
  - apply memN_in. apply filter_In. auto.
  - destruct (memN x (filter f l)) eqn:E2; auto. apply memN_in, filter_In in E2. destruct E2. congruence.
Qed.

Lemma known_in : forall d id, known d id = true -> In id (map fst (inflight d)).
Proof.
  intros d id H. unfold known in H. destruct (lookup_id id (inflight d)) eqn:E; [|discriminate].
  eapply lookup_id_in; eauto.
Qed.

Lemma NoDup_filter : forall A (f : A -> bool) l, NoDup l -> NoDup (filter f l).
Proof.
  induction l; simpl; intros H; auto. inversion H; subst.
  destruct (f a); auto. constructor; auto. intros Hin. apply filter_In in Hin. tauto.
Qed.

Lemma process_msgs_ref : forall fuel s d s' d' pr ncu,
  process_msgs fuel c s d = (s', d', pr) -> crashed s = false -> IdInv s d ->
  exists x, dsteps c (s, d) x /\
    refined s' d' x (dispatching d' = dispatching d /\ (AInt alg ncu d' <-> AInt alg ncu d)).
Proof.
  induction fuel; intros s d s' d' pr ncu H Hc HId; simpl in H.
  - inversion H; subst s' d' pr. exists (s, d). split; [constructor|]. left. tauto.
  - destruct (cu_in s) as [|m rest] eqn:Ein.
    { inversion H; subst s' d' pr. exists (s, d). split; [constructor|]. left. tauto. }
    destruct (filter (known d) m) as [|m0 mine'] eqn:Emine.
    { inversion H; subst s' d' pr. exists (s, d). split; [constructor|]. left. tauto. }
    set (mine := m0 :: mine') in *.
    assert (Hsub : forall id, In id mine -> In id m).
    { intros id Hid. rewrite <- Emine in Hid. apply filter_In in Hid. tauto. }
    assert (Hknown : forall id, In id mine -> In id (map fst (inflight d))).
    { intros id Hid. rewrite <- Emine in Hid. apply filter_In in Hid. apply known_in. tauto. }
    destruct (complete_ids c mine s d) as [s1 d1] eqn:E1.
    destruct (complete_ids_spec _ _ _ _ _ E1 Hc) as [[Hc1 Hcs]|[Hc1 [done [id [rest0 [s0 [d0 [Ed [Hcs Hx]]]]]]]]].
    + (* all of [mine] completed *)
      rewrite Hc1 in H.
      pose proof (completes_nodup _ _ _ _ _ Hcs (proj1 HId)) as Hnd.
      assert (Hne : mine <> []) by discriminate.
      pose proof (completes_steps _ _ _ _ _ m rest Hcs Ein Hnd Hsub Hne) as Hst.
      destruct (completes_facts _ _ _ _ _ alg ncu Hcs) as [Hd1 [HA1 [_ Hin1]]].
      assert (Hhead : head_after mine m rest =
                      match filter (fun id => negb (known d id)) m with [] => rest | o => o :: rest end).
      { unfold head_after. subst mine. rewrite <- Emine. rewrite filter_not_mine. reflexivity. }
      rewrite Hhead in Hst.
      destruct (filter (fun id => negb (known d id)) m) as [|o0 others] eqn:Eo.
      * destruct (process_msgs fuel c (s1 <| cu_in := rest |>) d1) as [[s3 d3] p3] eqn:E3.
        inversion H; subst s' d' pr; clear H.
        assert (HId1 : IdInv (s1 <| cu_in := rest |>) d1) by (apply (dsteps_IdInv _ _ Hst); exact HId).
        destruct (IHfuel _ _ _ _ _ ncu E3 Hc1 HId1) as [y [Hy Hr]].
        exists y. split; [eapply dsteps_trans; eauto|].
        destruct Hr as [[? [? [? ?]]]|?]; [left|right; auto]. repeat split; auto; try congruence; tauto.
      * inversion H; subst s' d' pr; clear H.
        exists (s1 <| cu_in := (o0 :: others) :: rest |>, d1). split; auto. left. repeat split; auto; tauto.
    + (* a panic while completing *)
      rewrite Hc1 in H. inversion H; subst s' d' pr; clear H.
      destruct Hx as [Hx|[w [Hw Hf]]].
      * (* the ID is no longer in flight: it occurs twice in the message *)
        exists (s, d). split; [constructor|]. right. split; auto.
        right. right. right. left. exists m, rest. split; auto. intros Hndm.
        assert (Hndmine : NoDup mine) by (subst mine; rewrite <- Emine; apply NoDup_filter; auto).
        rewrite Ed in Hndmine. apply NoDup_remove_2 in Hndmine. apply Hndmine. apply in_or_app. left.
        eapply completes_removed; eauto.
        -- apply Hknown. rewrite Ed. apply in_or_app. right. left. auto.
        -- apply lookup_id_none. exact Hx.
      * destruct done as [|dn done'].
        -- inversion Hcs; subst. exists (s0, d0). split; [constructor|]. right. split; auto.
           right. right. right. right. exists id, w. auto.
        -- pose proof (completes_nodup _ _ _ _ _ Hcs (proj1 HId)) as Hnd.
           assert (Hsub2 : forall x, In x (dn :: done') -> In x m).
           { intros x Hx'. apply Hsub. rewrite Ed. apply in_or_app. auto. }
           assert (Hne : dn :: done' <> []) by discriminate.
           pose proof (completes_steps _ _ _ _ _ m rest Hcs Ein Hnd Hsub2 Hne) as Hst.
           eexists. split; [exact Hst|]. right. split; auto.
           right. right. right. right. exists id, w. simpl. auto.
Qed.

(** ** DispatcherImpl.Tick *)

Lemma disp_tick_ref : forall s d s' d' pr ncu,
  disp_tick c s d = (s', d', pr) -> crashed s = false ->
  AInt alg ncu d -> length (pool s) = ncu -> IdInv s d ->
  exists x, dsteps c (s, d) x /\ refined s' d' x (AInt alg ncu d' /\ IdInv s' d').
Proof.
  intros s d s' d' pr ncu H Hc HA Hlen HId. unfold disp_tick in H. rewrite Hc in H.
  destruct (0 <? cycle_left d)%N eqn:Ecl.
  { apply N.ltb_lt in Ecl. inversion H; subst s' d' pr; clear H.
    eexists. split; [apply dsteps_one; apply DS_count; exact Ecl|].
    left. split; [exact Hc|]. split; [reflexivity|]. split; [destruct alg; exact HA|exact HId]. }
  destruct (match dispatching d with
            | Some l => if kernel_completed d then complete_kernel c s d l else dispatch_loop 8 c s d
            | None => (s, d, false)
            end) as [[s1 d1] p1] eqn:E1.
  assert (Hph1 : exists x, dsteps c (s, d) x /\ refined s1 d1 x (AInt alg ncu d1)).
  { destruct (dispatching d) as [l|] eqn:El.
    - destruct (kernel_completed d) eqn:Ek.
      + unfold complete_kernel in E1. destruct (length (drv_out s) <? c_cap c) eqn:Er.
        * apply Nat.ltb_lt in Er. inversion E1; subst s1 d1 p1; clear E1.
          eexists. split; [apply dsteps_one; apply (DS_rsp c s d l El Ek Er)|].
          left. split; [exact Hc|]. split; [reflexivity|]. destruct alg; exact HA.
        * inversion E1; subst s1 d1 p1. exists (s, d). split; [constructor|]. left. auto.
      + assert (Hd : dispatching d <> None) by congruence.
        destruct (dispatch_loop_ref _ _ _ _ _ _ _ E1 Hc HA Hlen Hd) as [x [Hx Hr]].
        exists x. split; auto. destruct Hr as [[? [? [? ?]]]|?]; [left|right]; auto.
    - inversion E1; subst s1 d1 p1. exists (s, d). split; [constructor|]. left. auto. }
  destruct Hph1 as [x [Hx Hr]].
  destruct Hr as [[Hc1 [-> HA1]]|[Hc1 Hcr]].
  2: { rewrite Hc1 in H. inversion H; subst s' d' pr. exists x. split; auto. right. auto. }
  rewrite Hc1 in H.
  destruct (process_msgs 8 c s1 d1) as [[s2 d2] p2] eqn:E2. inversion H; subst s' d' pr; clear H.
  assert (HId1 : IdInv s1 d1) by (apply (dsteps_IdInv _ _ Hx); exact HId).
  destruct (process_msgs_ref _ _ _ _ _ _ ncu E2 Hc1 HId1) as [y [Hy Hr2]].
  exists y. split; [eapply dsteps_trans; eauto|].
  destruct Hr2 as [[Hc2 [-> [Hd2 HA2]]]|?]; [left|right; auto].
  split; auto. split; auto. split; [tauto|]. apply (dsteps_IdInv _ _ Hy). exact HId1.
Qed.

End Refine.

(** * All dispatchers: steps of the i-th dispatcher in its context *)

Inductive gstep (c : cpcfg) : shared * list disp -> shared * list disp -> Prop :=
| GS : forall s s' ds1 d d' ds2,
    dstep c (s, d) (s', d') -> gstep c (s, ds1 ++ d :: ds2) (s', ds1 ++ d' :: ds2).

Inductive gsteps (c : cpcfg) : shared * list disp -> shared * list disp -> Prop :=
| gsteps_refl : forall x, gsteps c x x
| gsteps_step : forall x y z, gstep c x y -> gsteps c y z -> gsteps c x z.

Lemma gsteps_trans : forall c x y z, gsteps c x y -> gsteps c y z -> gsteps c x z.
Proof. induction 1; intros; auto. econstructor; eauto. Qed.

Lemma dsteps_gsteps : forall c ds1 ds2 x y, dsteps c x y ->
  gsteps c (fst x, ds1 ++ snd x :: ds2) (fst y, ds1 ++ snd y :: ds2).
Proof.
  induction 1; [constructor|]. destruct x, y. simpl in *.
  econstructor; [apply GS; eauto|exact IHdsteps].
Qed.

(** a panic condition holds for some dispatcher *)
Definition gcrash_at (c : cpcfg) (x : shared * list disp) : Prop :=
  exists ds1 d ds2, snd x = ds1 ++ d :: ds2 /\ crash_at c (fst x, d).

Definition DInt (c : cpcfg) (ncu : nat) (s : shared) (d : disp) : Prop :=
  AInt (c_alg c) ncu d /\ IdInv s d.

Lemma IdInv_mono : forall s s' d, IdInv s d -> (next_id s <= next_id s')%N -> IdInv s' d.
Proof. intros s s' d [H1 H2] Hle. split; auto. intros id Hin. specialize (H2 _ Hin). lia. Qed.

Lemma tick_disps_ref : forall c ncu ds pre s s' ds' pr,
  tick_disps c s ds = (s', ds', pr) -> crashed s = false -> length (pool s) = ncu ->
  Forall (DInt c ncu s) (pre ++ ds) ->
  exists x, gsteps c (s, pre ++ ds) x /\
    ((crashed s' = false /\ x = (s', pre ++ ds') /\ Forall (DInt c ncu s') (pre ++ ds')) \/
     (crashed s' = true /\ gcrash_at c x)).
Proof.
  induction ds as [|d r IH]; intros pre s s' ds' pr H Hc Hlen HD; simpl in H.
  - inversion H; subst s' ds' pr. exists (s, pre ++ []). split; [constructor|]. left. auto.
  - destruct (disp_tick c s d) as [[s1 d1] p1] eqn:E1.
    destruct (tick_disps c s1 r) as [[s2 r2] p2] eqn:E2. inversion H; subst s' ds' pr; clear H.
    assert (Hd : DInt c ncu s d). { rewrite Forall_forall in HD. apply HD. apply in_or_app. right. left. auto. }
    destruct Hd as [HA HId].
    destruct (disp_tick_ref c _ _ _ _ _ ncu E1 Hc HA Hlen HId) as [x [Hx Hr]].
    pose proof (dsteps_gsteps c pre r _ _ Hx) as Hg. simpl in Hg.
    destruct Hr as [[Hc1 [-> [HA1 HId1]]]|[Hc1 Hcr]].
    + destruct (dsteps_frame c _ _ Hx) as [Hl1 [_ Hn1]]. simpl in *.
      assert (HD1 : Forall (DInt c ncu s1) ((pre ++ [d1]) ++ r)).
      { rewrite <- app_assoc. simpl. apply Forall_app. apply Forall_app in HD. destruct HD as [HDp HDr].
        inversion HDr; subst. split.
        - eapply Forall_impl; [|exact HDp]. intros a [? ?]. split; auto. eapply IdInv_mono; eauto.
        - constructor; [split; auto|]. eapply Forall_impl; [|exact H2]. intros a [? ?]. split; auto.
          eapply IdInv_mono; eauto. }
      assert (Hlen1 : length (pool s1) = ncu) by congruence.
      destruct (IH (pre ++ [d1]) _ _ _ _ E2 Hc1 Hlen1 HD1) as [y [Hy Hr2]].
      rewrite <- !app_assoc in Hy. simpl in Hy.
      exists y. split; [eapply gsteps_trans; eauto|].
      rewrite <- !app_assoc in Hr2. simpl in Hr2. exact Hr2.
    + (* the dispatcher panicked: the remaining ones do nothing *)
      assert (Hs2 : crashed s2 = true).
      { clear - E2 Hc1. revert s1 s2 r2 p2 E2 Hc1. induction r as [|d0 r IHr]; intros; simpl in E2.
        - inversion E2; subst. auto.
        - unfold disp_tick in E2 at 1. rewrite Hc1 in E2.
          destruct (tick_disps c s1 r) as [[s3 r3] p3] eqn:E3. inversion E2; subst. eapply IHr; eauto. }
      exists (fst x, pre ++ snd x :: r). split; [exact Hg|]. right. split; [exact Hs2|].
      exists pre, (snd x), r. split; [reflexivity|]. simpl. destruct x; exact Hcr.
Qed.

Lemma gstep_frame : forall c x y, gstep c x y ->
  length (pool (fst y)) = length (pool (fst x)) /\ crashed (fst y) = crashed (fst x) /\
  (next_id (fst x) <= next_id (fst y))%N.
Proof. intros c x y H. destruct H. apply (dstep_frame c _ _ H). Qed.

Lemma gsteps_frame : forall c x y, gsteps c x y ->
  length (pool (fst y)) = length (pool (fst x)) /\ crashed (fst y) = crashed (fst x) /\
  (next_id (fst x) <= next_id (fst y))%N.
Proof.
  induction 1; [repeat split; auto; lia|].
  destruct (gstep_frame _ _ _ H) as [? [? ?]]. destruct IHgsteps as [? [? ?]].
  repeat split; try congruence; lia.
Qed.

(** * The whole command processor *)

(** internal steps: a dispatcher acts, or a launch is handed to an idle dispatcher *)
Inductive istep : cp -> cp -> Prop :=
| CS_disp : forall s sh' ds',
    gstep (cfg s) (sh s, disps s) (sh', ds') ->
    istep s (s <| sh := sh' |> <| disps := ds' |>)
| CS_start : forall s l rest ds1 d ds2,
    crashed (sh s) = false -> drv_in s = l :: rest -> disps s = ds1 ++ d :: ds2 ->
    dispatching d = None -> Forall (fun x => dispatching x <> None) ds1 ->
    (is_partition (c_alg (cfg s)) = true -> 0 < length (pool (sh s))) ->
    istep s (s <| disps := ds1 ++ start_dispatching (cfg s) (length (pool (sh s))) d l :: ds2 |>
               <| drv_in := rest |> <| g_started := g_started s ++ [l] |>).

(** steps of the environment on the two ports *)
Inductive estep : cp -> cp -> Prop :=
| CS_launch : forall s l,
    length (drv_in s) < c_cap (cfg s) -> estep s (s <| drv_in := drv_in s ++ [l] |>)
| CS_complete : forall s ids,
    length (cu_in (sh s)) < c_cap (cfg s) ->
    estep s (s <| sh := sh s <| cu_in := cu_in (sh s) ++ [ids] |> |>)
| CS_retr_cu : forall s m r,
    cu_out (sh s) = m :: r ->
    estep s (s <| sh := sh s <| cu_out := r |> |> <| g_mretr := g_mretr s ++ [m] |>)
| CS_retr_drv : forall s m r,
    drv_out (sh s) = m :: r ->
    estep s (s <| sh := sh s <| drv_out := r |> |> <| g_rretr := g_rretr s ++ [m] |>).

Definition cpstep (s s' : cp) : Prop := istep s s' \/ estep s s'.

Inductive isteps : cp -> cp -> Prop :=
| isteps_refl : forall x, isteps x x
| isteps_step : forall x y z, istep x y -> isteps y z -> isteps x z.

Lemma isteps_trans : forall x y z, isteps x y -> isteps y z -> isteps x z.
Proof. induction 1; intros; auto. econstructor; eauto. Qed.

Lemma isteps_one : forall x y, istep x y -> isteps x y.
Proof. intros. econstructor; eauto. constructor. Qed.

Inductive cpsteps : cp -> cp -> Prop :=
| cpsteps_refl : forall x, cpsteps x x
| cpsteps_step : forall x y z, cpstep x y -> cpsteps y z -> cpsteps x z.

Lemma cpsteps_trans : forall x y z, cpsteps x y -> cpsteps y z -> cpsteps x z.
Proof. induction 1; intros; auto. econstructor; eauto. Qed.

Lemma cpsteps_one : forall x y, cpstep x y -> cpsteps x y.
Proof. intros. econstructor; eauto. constructor. Qed.

Lemma isteps_cpsteps : forall x y, isteps x y -> cpsteps x y.
Proof. induction 1; [constructor|]. econstructor; [left; eauto|auto]. Qed.

Lemma set_sh_disps_same : forall s : cp, s <| sh := sh s |> <| disps := disps s |> = s.
Proof. destruct s; reflexivity. Qed.

Lemma set_sh_disps_twice : forall (s : cp) a b a' b',
  s <| sh := a |> <| disps := b |> <| sh := a' |> <| disps := b' |> = s <| sh := a' |> <| disps := b' |>.
Proof. destruct s; reflexivity. Qed.

Lemma gsteps_cpsteps : forall c x y, gsteps c x y ->
  forall s, c = cfg s -> x = (sh s, disps s) -> isteps s (s <| sh := fst y |> <| disps := snd y |>).
Proof.
  induction 1; intros s Hc Hx.
  - subst x. simpl. rewrite set_sh_disps_same. constructor.
  - subst x c. destruct y as [sh1 ds1].
    eapply isteps_step; [apply CS_disp; exact H|].
    assert (E1 : cfg s = cfg (s <| sh := sh1 |> <| disps := ds1 |>)) by reflexivity.
    assert (E2 : (sh1, ds1) = (sh (s <| sh := sh1 |> <| disps := ds1 |>), disps (s <| sh := sh1 |> <| disps := ds1 |>))) by reflexivity.
    specialize (IHgsteps (s <| sh := sh1 |> <| disps := ds1 |>) E1 E2).
    rewrite set_sh_disps_twice in IHgsteps. exact IHgsteps.
Qed.

(** panic conditions of the command processor *)
Definition ccrash_at (s : cp) : Prop :=
  gcrash_at (cfg s) (sh s, disps s) \/
  (is_partition (c_alg (cfg s)) = true /\ pool (sh s) = [] /\ drv_in s <> [] /\
   exists d, In d (disps s) /\ dispatching d = None).

Definition CInt (s : cp) : Prop :=
  Forall (DInt (cfg s) (length (pool (sh s))) (sh s)) (disps s).

Lemma start_on_first_idle_split : forall c ncu ds l ds',
  start_on_first_idle c ncu ds l = Some ds' ->
  exists ds1 d ds2, ds = ds1 ++ d :: ds2 /\ dispatching d = None /\
    Forall (fun x => dispatching x <> None) ds1 /\ ds' = ds1 ++ start_dispatching c ncu d l :: ds2.
Proof.
  induction ds as [|d r IH]; intros l ds' H; simpl in H; [discriminate|].
  destruct (dispatching d) eqn:Ed.
  - destruct (start_on_first_idle c ncu r l) as [r'|] eqn:Er; [|discriminate]. inversion H; subst.
    destruct (IH _ _ Er) as [ds1 [d0 [ds2 [E1 [E2 [E3 E4]]]]]].
    exists (d :: ds1), d0, ds2. subst. repeat split; auto. constructor; auto. congruence.
  - inversion H; subst. exists [], d, r. repeat split; auto.
Qed.

Lemma start_on_first_idle_none : forall c ncu ds l,
  start_on_first_idle c ncu ds l = None -> Forall (fun x => dispatching x <> None) ds.
Proof.
  induction ds as [|d r IH]; intros l H; simpl in H; [constructor|].
  destruct (dispatching d) eqn:Ed; [|discriminate].
  destruct (start_on_first_idle c ncu r l) eqn:Er; [discriminate|].
  constructor; [congruence|eauto].
Qed.

Lemma start_DInt : forall c ncu s d l, DInt c ncu s d -> DInt c ncu s (start_dispatching c ncu d l).
Proof.
  intros c ncu s d l [HA HI]. split.
  - unfold AInt, start_dispatching, alg_start. destruct (c_alg c) eqn:E; simpl; auto.
    rewrite repeat_length, map_length, seq_length. split; auto.
  - unfold IdInv, start_dispatching, alg_start in *. destruct (c_alg c); simpl; exact HI.
Qed.

Lemma handle_launch_ref : forall s s' p,
  handle_launch s = (s', p) -> crashed (sh s) = false -> CInt s ->
  (crashed (sh s') = false /\ (s' = s \/ istep s s') /\ CInt s' /\ cfg s' = cfg s /\
   length (pool (sh s')) = length (pool (sh s))) \/
  (crashed (sh s') = true /\ ccrash_at s).
Proof.
  intros s s' p H Hc HI. unfold handle_launch in H. rewrite Hc in H.
  destruct (drv_in s) as [|l rest] eqn:Ein.
  { inversion H; subst. left. auto. }
  destruct (start_on_first_idle (cfg s) (length (pool (sh s))) (disps s) l) as [ds|] eqn:Es.
  2: { inversion H; subst. left. auto. }
  destruct (start_on_first_idle_split _ _ _ _ _ Es) as [ds1 [d [ds2 [E1 [E2 [E3 E4]]]]]].
  destruct (is_partition (c_alg (cfg s)) && Nat.eqb (length (pool (sh s))) 0) eqn:Ep.
  - inversion H; subst s' p. right. split; [reflexivity|]. right.
    apply andb_true_iff in Ep. destruct Ep as [Ep1 Ep2]. apply Nat.eqb_eq in Ep2.
    split; auto. split; [destruct (pool (sh s)); [auto|discriminate]|].
    split; [rewrite Ein; discriminate|]. exists d. split; auto. rewrite E1. apply in_or_app. right. left. auto.
  - inversion H; subst s' p. left. split; [exact Hc|]. split.
    + right. rewrite E4. apply CS_start; auto.
      intros Hp. rewrite Hp in Ep. simpl in Ep. apply Nat.eqb_neq in Ep. lia.
    + split; [|split; reflexivity].
      unfold CInt in *. simpl. rewrite E4. rewrite E1 in HI.
      apply Forall_app in HI. destruct HI as [H1 H2]. inversion H2; subst.
      apply Forall_app. split; auto. constructor; auto. apply start_DInt. auto.
Qed.

Lemma CInt_of_gsteps : forall s sh' ds',
  Forall (DInt (cfg s) (length (pool (sh s))) sh') ds' -> length (pool sh') = length (pool (sh s)) ->
  CInt (s <| sh := sh' |> <| disps := ds' |>).
Proof. intros. unfold CInt. simpl. rewrite H0. exact H. Qed.

Lemma cp_tick_ref : forall s s' p,
  cp_tick s = (s', p) -> crashed (sh s) = false -> CInt s ->
  exists x, isteps s x /\
    ((crashed (sh s') = false /\ x = s' /\ CInt s' /\ cfg s' = cfg s /\
      length (pool (sh s')) = length (pool (sh s))) \/
     (crashed (sh s') = true /\ ccrash_at x)).
Proof.
  intros s s' p H Hc HI. unfold cp_tick in H. rewrite Hc in H.
  destruct (tick_disps (cfg s) (sh s) (disps s)) as [[sh1 ds1] p1] eqn:E1.
  destruct (tick_disps_ref (cfg s) (length (pool (sh s))) (disps s) [] _ _ _ _ E1 Hc eq_refl HI) as [x [Hx Hr]].
  simpl in Hx, Hr.
  pose proof (gsteps_cpsteps _ _ _ Hx s eq_refl eq_refl) as Hcs.
  destruct (gsteps_frame _ _ _ Hx) as [Hlx _]. simpl in Hlx.
  destruct Hr as [[Hc1 [-> HD1]]|[Hc1 Hcr]].
  2: { rewrite Hc1 in H. inversion H; subst s' p. eexists. split; [exact Hcs|]. right. split; [exact Hc1|].
       left. simpl. destruct x; exact Hcr. }
  rewrite Hc1 in H. simpl in Hcs, Hlx.
  set (s1 := s <| sh := sh1 |> <| disps := ds1 |>) in *.
  assert (HI1 : CInt s1) by (apply CInt_of_gsteps; auto).
  destruct (handle_launch s1) as [s2 p2] eqn:E2.
  destruct (handle_launch s2) as [s3 p3] eqn:E3. inversion H; subst s' p; clear H.
  destruct (handle_launch_ref _ _ _ E2 Hc1 HI1) as [[Hc2 [Hst2 [HI2 [Hcf2 Hl2]]]]|[Hc2 Hcr2]].
  2: { (* the second hand-over does nothing after a panic *)
       unfold handle_launch in E3. rewrite Hc2 in E3. inversion E3; subst.
       exists s1. split; [exact Hcs|]. right. auto. }
  assert (Hcs2 : isteps s s2).
  { destruct Hst2 as [->|Hst2]; [exact Hcs|]. eapply isteps_trans; [exact Hcs|apply isteps_one; exact Hst2]. }
  destruct (handle_launch_ref _ _ _ E3 Hc2 HI2) as [[Hc3 [Hst3 [HI3 [Hcf3 Hl3]]]]|[Hc3 Hcr3]].
  - exists s3. split.
    + destruct Hst3 as [->|Hst3]; [exact Hcs2|]. eapply isteps_trans; [exact Hcs2|apply isteps_one; exact Hst3].
    + assert (Ec1 : cfg s1 = cfg s) by reflexivity.
      assert (El1 : length (pool (sh s1)) = length (pool sh1)) by reflexivity.
      left. split; auto. split; auto. split; auto. split; congruence.
  - exists s2. split; auto.
Qed.

Lemma step_ref : forall s e,
  crashed (sh s) = false -> CInt s ->
  exists x, cpsteps s x /\
    ((crashed (sh (fst (step s e))) = false /\ x = fst (step s e) /\ CInt x /\ cfg x = cfg s /\
      length (pool (sh x)) = length (pool (sh s))) \/
     (crashed (sh (fst (step s e))) = true /\ ccrash_at x)).
Proof.
  intros s e Hc HI. unfold step. rewrite Hc. destruct e.
  - destruct (length (drv_in s) <? c_cap (cfg s)) eqn:E; simpl.
    + apply Nat.ltb_lt in E. eexists. split; [apply cpsteps_one; right; apply CS_launch; exact E|].
      left. repeat split; auto.
    + exists s. split; [constructor|]. left. repeat split; auto.
  - destruct (length (cu_in (sh s)) <? c_cap (cfg s)) eqn:E; simpl.
    + apply Nat.ltb_lt in E. eexists. split; [apply cpsteps_one; right; apply CS_complete; exact E|].
      left. repeat split; auto.
    + exists s. split; [constructor|]. left. repeat split; auto.
  - destruct (cp_tick s) as [s' p] eqn:E. simpl.
    destruct (cp_tick_ref _ _ _ E Hc HI) as [x [Hx Hr]]. exists x. split; [apply isteps_cpsteps; auto|].
    destruct Hr as [[? [? [? [? ?]]]]|[? ?]]; [left|right]; subst; auto.
  - destruct (cu_out (sh s)) as [|m r] eqn:E; simpl.
    + exists s. split; [constructor|]. left. repeat split; auto.
    + eexists. split; [apply cpsteps_one; right; eapply CS_retr_cu; exact E|]. left. repeat split; auto.
  - destruct (drv_out (sh s)) as [|m r] eqn:E; simpl.
    + exists s. split; [constructor|]. left. repeat split; auto.
    + eexists. split; [apply cpsteps_one; right; eapply CS_retr_drv; exact E|]. left. repeat split; auto.
Qed.
