(** Executable model of the kernel-launch path of the command processor:
    amd/timing/cp/internal/dispatching/dispatcher.go (DispatcherImpl),
    roundrobin.go, greedy.go, partition.go (placement algorithms), cpMiddleware.go (processLaunchKernelReq,
    findAvailableDispatcher) and commandprocessor.go (Tick), over the CU
    resource model of Resource.v.  Definitions only; proofs in DispatcherProofs.v.

    The grid cursor (kernels.GridBuilder) is abstracted: a launch carries the
    list of its work-groups (what NextWG returns, in order; NumWG = its length).
    Not modelled: the float scaling of the subsequent-launch overhead
    (wgScalingThreshold > 0; cp.MakeBuilder leaves it 0), tracing, progress
    bars, sampling, the other request kinds of the command processor. *)
From Coq Require Import List NArith Bool Arith Lia.
From VCp Require Import Resource.
From RecordUpdate Require Import RecordSet.
Import ListNotations RecordSetNotations.
Open Scope N_scope.

(** LaunchKernelReq: its identity and the work-groups of its grid. *)
Record launch := mkLaunch { lr_id : N; lr_wgs : list demand }.

(** dispatchLocation (valid ones) *)
Record dloc := mkDloc { dl_cu : nat; dl_key : wgkey; dl_locs : list loc }.

(** MapWGReq as seen on the CU-facing port. *)
Record mapreq := mkMapReq { mr_id : N; mr_cu : nat; mr_key : wgkey; mr_locs : list loc }.

(** ghost: a placement = one successful Next() of the algorithm *)
Record placement := mkPl { pl_cu : nat; pl_key : wgkey; pl_dem : demand; pl_locs : list loc; pl_before : cu }.

(** partition.go: one partition per CU; [pt_rest]/[pt_idx] are the cursor of the
    partition's own grid builder (it is not bounded by the end of the
    partition), [pt_disp] = partition.dispatchedWG *)
Record part := mkPart { pt_rest : list demand; pt_idx : N; pt_disp : nat }.

Record disp := mkDisp {
  dispatching : option launch;        (* d.dispatching *)
  cur_wg : option dloc;               (* d.currWG when valid *)
  cycle_left : N;
  n_disp : N; n_comp : N;             (* numDispatchedWGs, numCompletedWGs *)
  inflight : list (N * dloc);         (* inflightWGs, keyed by MapWGReq id *)
  first_launched : bool;
  prev_count : N;                     (* prevKernelWGCount *)
  (* roundRobinAlgorithm *)
  a_cur : option (wgkey * demand);    (* a.currWG *)
  a_next_cu : nat;
  a_ndisp : N;                        (* a.numDispatchedWGs *)
  a_numwg : N;                        (* gridBuilder.NumWG() *)
  a_rest : list demand;               (* what NextWG will still return *)
  a_lid : N; a_idx : N;               (* key of the next work-group *)
  (* partitionAlgorithm (numDispatchedWG, numWG reuse a_ndisp, a_numwg) *)
  p_parts : list part;                (* a.partitions *)
  p_cur : list (option (wgkey * demand));   (* a.currWGs *)
  p_next : nat;                       (* a.nextPartition *)
  p_per : nat;                        (* a.numWGPerPartition *)
  (* ghost, never read by the transition function *)
  g_sent : list (mapreq * placement); (* MapWGReqs sent for the current launch *)
  g_cur : option placement            (* placement behind cur_wg *)
}.
#[export] Instance eta_disp : Settable _ := settable! mkDisp
  <dispatching; cur_wg; cycle_left; n_disp; n_comp; inflight; first_launched; prev_count;
   a_cur; a_next_cu; a_ndisp; a_numwg; a_rest; a_lid; a_idx; p_parts; p_cur; p_next; p_per; g_sent; g_cur>.

Definition init_disp : disp :=
  mkDisp None None 0 0 0 [] false 0 None 0%nat 0 0 [] 0 0 [] [] 0%nat 0%nat [] None.

(** placement algorithm of the dispatchers: roundrobin.go, greedy.go (always
    scans the CUs from 0 and keeps no cursor) or partition.go (CU i serves the
    i-th slice of the grid and, once its slice is exhausted, takes over
    work-groups that other partitions have fetched but not placed) *)
Inductive algo := RoundRobin | Greedy | Partition.

Record cpcfg := mkCpCfg {
  c_alg : algo;
  c_launch_ov : N;      (* constantKernelLaunchOverhead *)
  c_sub_ov : N;         (* subsequentKernelLaunchOverhead *)
  c_kernel_ov : N;      (* constantKernelOverhead (effective value) *)
  c_cap : nat           (* capacity of every port buffer (4096) *)
}.

(** ghost: what was known when a LaunchKernelRsp was sent *)
Record finished := mkFin { f_launch : launch; f_sent : list (mapreq * placement); f_ndisp : N; f_ncomp : N }.

(** What the dispatchers share. *)
Record shared := mkSh {
  pool : list cu;                     (* the one CUResourcePool *)
  cu_in : list (list N);              (* ToCUs incoming: WGCompletionMsg.RspTo *)
  cu_out : list mapreq;               (* ToCUs outgoing *)
  drv_out : list N;                   (* ToDriver outgoing: LaunchKernelRsp.RspTo *)
  next_id : N;                        (* fresh MapWGReq ids *)
  crashed : bool;
  g_hist : list finished;             (* ghost: one entry per LaunchKernelRsp sent *)
  g_maps : list mapreq                (* ghost: every MapWGReq ever sent *)
}.
#[export] Instance eta_sh : Settable _ := settable! mkSh
  <pool; cu_in; cu_out; drv_out; next_id; crashed; g_hist; g_maps>.

Record cp := mkCP {
  cfg : cpcfg;
  sh : shared;
  disps : list disp;
  drv_in : list launch;               (* ToDriver incoming *)
  g_started : list launch;            (* ghost: launches handed to a dispatcher *)
  g_rretr : list N;                   (* ghost: LaunchKernelRsp retrieved by the driver side *)
  g_mretr : list mapreq               (* ghost: MapWGReq retrieved by the CU side *)
}.
#[export] Instance eta_cp : Settable _ := settable! mkCP <cfg; sh; disps; drv_in; g_started; g_rretr; g_mretr>.

Definition ID_BASE : N := 1000000.

Definition init_cp (c : cpcfg) (cus : list cucfg) (ndisp : nat) : cp :=
  mkCP c (mkSh (map init_cu cus) [] [] [] ID_BASE false [] []) (repeat init_disp ndisp) [] [] [] [].

Definition dummy_cu : cu := mkCU [] [] [] 0%nat [].

Definition set_nth {A} (i : nat) (x : A) (l : list A) : list A := upd i (fun _ => x) l.

(** * roundRobinAlgorithm *)

Definition has_next (d : disp) : bool := a_ndisp d <? a_numwg d.

(** the loop of Next(): CUs nextCU, nextCU+1, ... each tried once; a failed
    reservation still changes that CU (nextSIMD), so the pool is threaded.
    None = panic inside ReserveResourceForWG. *)
Fixpoint rr_scan (fuel i : nat) (p : list cu) (start : nat) (k : wgkey) (dm : demand)
  : option (list cu * option placement) :=
  match fuel with
  | O => Some (p, None)
  | S f =>
    let cuid := ((start + i) mod (length p))%nat in
    let c := nth cuid p dummy_cu in
    match reserve c k dm with
    | Crash => None
    | Ret c' (Some locs) => Some (set_nth cuid c' p, Some (mkPl cuid k dm locs c))
    | Ret c' None => rr_scan f (S i) (set_nth cuid c' p) start k dm
    end
  end.

(** Next(); None = panic *)
Definition rr_next (alg : algo) (p : list cu) (d : disp) : option (list cu * disp * option placement) :=
  let d1 :=
    match a_cur d with
    | Some _ => Some d
    | None =>
      match a_rest d with
      | [] => None      (* NextWG() = nil, then a nil work-group is dereferenced *)
      | dm :: r => Some (d <| a_cur := Some ((a_lid d, a_idx d), dm) |> <| a_rest := r |>
                           <| a_idx := a_idx d + 1 |>)
      end
    end in
  match d1 with
  | None => None
  | Some d1 =>
    match a_cur d1 with
    | None => None
    | Some (k, dm) =>
      match rr_scan (length p) 0 p (match alg with RoundRobin => a_next_cu d1 | _ => 0%nat end) k dm with
      | None => None
      | Some (p', None) => Some (p', d1, None)
      | Some (p', Some pl) =>
        Some (p', d1 <| a_next_cu := match alg with
                                     | RoundRobin => ((pl_cu pl + 1) mod (length p))%nat
                                     | _ => a_next_cu d1
                                     end |>
                     <| a_cur := None |> <| a_ndisp := a_ndisp d1 + 1 |>, Some pl)
      end
    end
  end.

(** * partitionAlgorithm *)

Fixpoint first_parked (l : list (option (wgkey * demand))) (i : nat) : option ((wgkey * demand) * nat) :=
  match l with
  | [] => None
  | Some x :: _ => Some (x, i)
  | None :: r => first_parked r (S i)
  end.

Definition dummy_part : part := mkPart [] 0 0%nat.

(** nextWG(partitionIndex): the work-group to try and the partition it comes from *)
Definition part_fetch (d : disp) (pi : nat) : disp * option ((wgkey * demand) * nat) :=
  let pt := nth pi (p_parts d) dummy_part in
  if (p_per d <=? pt_disp pt)%nat then (d, first_parked (p_cur d) 0%nat)      (* noWGInPartition: steal *)
  else
    match nth pi (p_cur d) None with
    | Some x => (d, Some (x, pi))
    | None =>
      match pt_rest pt with
      | [] => (d, None)                                                      (* NextWG() = nil *)
      | dm :: r =>
        let x := ((a_lid d, pt_idx pt), dm) in
        (d <| p_parts := set_nth pi (mkPart r (pt_idx pt + 1) (pt_disp pt)) (p_parts d) |>
           <| p_cur := set_nth pi (Some x) (p_cur d) |>, Some (x, pi))
      end
    end.

(** the loop of Next() over the partitions, starting at nextPartition; CU i is
    tried with the work-group that partition i offers.  None = panic. *)
Fixpoint part_scan (fuel index : nat) (p : list cu) (d : disp) : option (list cu * disp * option placement) :=
  match fuel with
  | O => Some (p, d, None)
  | S f =>
    let i := ((index + p_next d) mod (length (p_parts d)))%nat in
    let '(d1, r) := part_fetch d i in
    match r with
    | None => part_scan f (S index) p d1
    | Some ((k, dm), from) =>
      let c := nth i p dummy_cu in
      match reserve c k dm with
      | Crash => None
      | Ret c' (Some locs) =>
        let pf := nth from (p_parts d1) dummy_part in
        Some (set_nth i c' p,
              d1 <| p_cur := set_nth from None (p_cur d1) |>
                 <| p_parts := set_nth from (mkPart (pt_rest pf) (pt_idx pf) (S (pt_disp pf))) (p_parts d1) |>
                 <| a_ndisp := a_ndisp d1 + 1 |> <| p_next := S i |>,
              Some (mkPl i k dm locs c))
      | Ret c' None => part_scan f (S index) (set_nth i c' p) d1
      end
    end
  end.

Definition part_next (p : list cu) (d : disp) : option (list cu * disp * option placement) :=
  if a_numwg d <=? a_ndisp d then Some (p, d, None)          (* allWGDispatched *)
  else part_scan (length (p_parts d)) 0 p d.

Definition alg_next (alg : algo) (p : list cu) (d : disp) : option (list cu * disp * option placement) :=
  match alg with
  | Partition => part_next p d
  | _ => rr_next alg p d
  end.

(** * DispatcherImpl *)

Definition crash (s : shared) : shared := s <| crashed := true |>.

(** dispatchNextWG *)
Definition dispatch_next (c : cpcfg) (s : shared) (d : disp) : shared * disp * bool :=
  let placed :=
    match cur_wg d with
    | Some _ => Some (s, d)
    | None =>
      if negb (has_next d) then None else
      match alg_next (c_alg c) (pool s) d with
      | None => Some (crash s, d)
      | Some (p', d', None) => Some (s <| pool := p' |>, d')     (* invalid location: no progress *)
      | Some (p', d', Some pl) =>
        Some (s <| pool := p' |>,
              d' <| cur_wg := Some (mkDloc (pl_cu pl) (pl_key pl) (pl_locs pl)) |> <| g_cur := Some pl |>)
      end
    end in
  match placed with
  | None => (s, d, false)
  | Some (s1, d1) =>
    if crashed s1 then (s1, d1, false) else
    match cur_wg d1, g_cur d1 with
    | Some w, Some pl =>
      if (length (cu_out s1) <? c_cap c)%nat then
        let req := mkMapReq (next_id s1) (dl_cu w) (dl_key w) (dl_locs w) in
        let s2 := s1 <| cu_out := cu_out s1 ++ [req] |> <| next_id := next_id s1 + 1 |>
                     <| g_maps := g_maps s1 ++ [req] |> in
        let d2 := d1 <| cur_wg := None |> <| g_cur := None |> <| n_disp := n_disp d1 + 1 |>
                     <| inflight := (mr_id req, w) :: inflight d1 |>
                     <| g_sent := g_sent d1 ++ [(req, pl)] |> in
        (* cycleLeft = latencyTable[len(locations)]: 17 zero entries *)
        if (16 <? length (dl_locs w))%nat then (crash s2, d2, true)
        else (s2, d2 <| cycle_left := 0 |>, true)
      else (s1, d1, false)
    | _, _ => (s1, d1, false)
    end
  end.

(** the loop "dispatch up to 8 WGs per cycle" *)
Fixpoint dispatch_loop (fuel : nat) (c : cpcfg) (s : shared) (d : disp) : shared * disp * bool :=
  match fuel with
  | O => (s, d, false)
  | S f =>
    let '(s1, d1, pr) := dispatch_next c s d in
    if negb pr || (0 <? cycle_left d1) || crashed s1 then (s1, d1, pr)
    else let '(s2, d2, pr2) := dispatch_loop f c s1 d1 in (s2, d2, true)
  end.

Fixpoint lookup_id (id : N) (l : list (N * dloc)) : option dloc :=
  match l with
  | [] => None
  | (i, w) :: r => if i =? id then Some w else lookup_id id r
  end.

Fixpoint remove_id (id : N) (l : list (N * dloc)) : list (N * dloc) :=
  match l with
  | [] => []
  | (i, w) :: r => if i =? id then r else (i, w) :: remove_id id r
  end.

Definition known (d : disp) (id : N) : bool :=
  match lookup_id id (inflight d) with Some _ => true | None => false end.

(** the loop over the IDs this dispatcher owns *)
Fixpoint complete_ids (c : cpcfg) (ids : list N) (s : shared) (d : disp) : shared * disp :=
  match ids with
  | [] => (s, d)
  | id :: r =>
    if crashed s then (s, d) else
    match lookup_id id (inflight d) with
    | None => (crash s, d)     (* an ID listed twice: zero dispatchLocation, FreeResourcesForWG(nil) panics *)
    | Some w =>
      match free (nth (dl_cu w) (pool s) dummy_cu) (dl_key w) with
      | None => (crash s, d)
      | Some c' =>
        let s1 := s <| pool := set_nth (dl_cu w) c' (pool s) |> in
        let d1 := d <| inflight := remove_id id (inflight d) |> <| n_comp := n_comp d + 1 |> in
        let d2 := if n_comp d1 =? a_numwg d1 then d1 <| cycle_left := c_kernel_ov c |> else d1 in
        complete_ids c r s1 d2
      end
    end
  end.

(** processMessagesFromCU: up to 8 messages.  A message may carry IDs of
    several dispatchers: this one consumes the IDs it owns ([mine]) and leaves
    the others at the head of the port. *)
Fixpoint process_msgs (fuel : nat) (c : cpcfg) (s : shared) (d : disp) : shared * disp * bool :=
  match fuel with
  | O => (s, d, false)
  | S f =>
    match cu_in s with
    | [] => (s, d, false)
    | ids :: rest =>
      let mine := filter (known d) ids in
      let others := filter (fun id => negb (known d id)) ids in
      match mine with
      | [] => (s, d, false)
      | _ :: _ =>
        let '(s1, d1) := complete_ids c mine s d in
        if crashed s1 then (s1, d1, true) else
        match others with
        | _ :: _ => (s1 <| cu_in := others :: rest |>, d1, true)
        | [] =>
          let s2 := s1 <| cu_in := rest |> in
          let '(s3, d3, _) := process_msgs f c s2 d1 in (s3, d3, true)
        end
      end
    end
  end.

Definition kernel_completed (d : disp) : bool :=
  match cur_wg d with
  | Some _ => false
  | None => negb (has_next d) && negb (n_comp d <? n_disp d)
  end.

(** completeKernel *)
Definition complete_kernel (c : cpcfg) (s : shared) (d : disp) (l : launch) : shared * disp * bool :=
  if (length (drv_out s) <? c_cap c)%nat then
    (s <| drv_out := drv_out s ++ [lr_id l] |>
       <| g_hist := g_hist s ++ [mkFin l (g_sent d) (n_disp d) (n_comp d)] |>,
     d <| prev_count := n_disp d |> <| dispatching := None |> <| g_sent := [] |>, true)
  else (s, d, false).

(** DispatcherImpl.Tick *)
Definition disp_tick (c : cpcfg) (s : shared) (d : disp) : shared * disp * bool :=
  if crashed s then (s, d, false) else
  if 0 <? cycle_left d then (s, d <| cycle_left := cycle_left d - 1 |>, true) else
  let '(s1, d1, p1) :=
    match dispatching d with
    | None => (s, d, false)
    | Some l => if kernel_completed d then complete_kernel c s d l else dispatch_loop 8 c s d
    end in
  if crashed s1 then (s1, d1, p1) else
  let '(s2, d2, p2) := process_msgs 8 c s1 d1 in
  (s2, d2, p2 || p1).

(** tickDispatchers *)
Fixpoint tick_disps (c : cpcfg) (s : shared) (ds : list disp) : shared * list disp * bool :=
  match ds with
  | [] => (s, [], false)
  | d :: r =>
    let '(s1, d1, p1) := disp_tick c s d in
    let '(s2, r2, p2) := tick_disps c s1 r in
    (s2, d1 :: r2, p1 || p2)
  end.

(** numWGPerPartition = (numWG-1)/numCU + 1 in Go integer arithmetic *)
Definition per_partition (n ncu : nat) : nat :=
  match n with
  | O => if Nat.eqb ncu 1 then 0%nat else 1%nat
  | S m => (m / ncu + 1)%nat
  end.

(** alg.StartNewKernel *)
Definition alg_start (alg : algo) (ncu : nat) (d : disp) (l : launch) : disp :=
  match alg with
  | Partition =>
    let per := per_partition (length (lr_wgs l)) ncu in
    d <| a_ndisp := 0 |> <| a_numwg := N.of_nat (length (lr_wgs l)) |> <| a_lid := lr_id l |>
      <| p_per := per |>
      <| p_parts := map (fun i => mkPart (skipn (i * per) (lr_wgs l)) (N.of_nat (i * per)) 0%nat) (seq 0 ncu) |>
      <| p_cur := repeat None ncu |>
  | _ =>
    d <| a_ndisp := 0 |> <| a_rest := lr_wgs l |> <| a_numwg := N.of_nat (length (lr_wgs l)) |>
      <| a_lid := lr_id l |> <| a_idx := 0 |>
  end.

(** StartDispatching (the caller has checked IsDispatching() = false) *)
Definition start_dispatching (c : cpcfg) (ncu : nat) (d : disp) (l : launch) : disp :=
  (alg_start (c_alg c) ncu d l)
    <| dispatching := Some l |> <| n_disp := 0 |> <| n_comp := 0 |>
    <| cycle_left := if first_launched d then c_sub_ov c else c_launch_ov c |>
    <| first_launched := true |> <| g_sent := [] |>.

(** findAvailableDispatcher + StartDispatching *)
Fixpoint start_on_first_idle (c : cpcfg) (ncu : nat) (ds : list disp) (l : launch) : option (list disp) :=
  match ds with
  | [] => None
  | d :: r =>
    match dispatching d with
    | None => Some (start_dispatching c ncu d l :: r)
    | Some _ => option_map (cons d) (start_on_first_idle c ncu r l)
    end
  end.

(** cpMiddleware.Handle for a LaunchKernelReq at the head of ToDriver *)
Definition is_partition (a : algo) : bool := match a with Partition => true | _ => false end.

Definition handle_launch (s : cp) : cp * bool :=
  if crashed (sh s) then (s, false) else
  match drv_in s with
  | [] => (s, false)
  | l :: rest =>
    let ncu := length (pool (sh s)) in
    match start_on_first_idle (cfg s) ncu (disps s) l with
    | None => (s, false)
    | Some ds =>
      (* partitionAlgorithm.StartNewKernel divides by the number of CUs *)
      if is_partition (c_alg (cfg s)) && Nat.eqb ncu 0 then (s <| sh := crash (sh s) |>, false)
      else (s <| disps := ds |> <| drv_in := rest |> <| g_started := g_started s ++ [l] |>, true)
    end
  end.

(** CommandProcessor.Tick: dispatchers, then the middleware runs twice
    (processReqFromDriver and processRspFromInternal). *)
Definition cp_tick (s : cp) : cp * bool :=
  if crashed (sh s) then (s, false) else
  let '(sh1, ds1, p1) := tick_disps (cfg s) (sh s) (disps s) in
  let s1 := s <| sh := sh1 |> <| disps := ds1 |> in
  if crashed sh1 then (s1, p1) else
  let '(s2, p2) := handle_launch s1 in
  let '(s3, p3) := handle_launch s2 in
  (s3, p1 || p2 || p3).

(** * Environment events *)

Inductive ev :=
  | ELaunch (l : launch)          (* Deliver a LaunchKernelReq on ToDriver *)
  | EComplete (ids : list N)      (* Deliver a WGCompletionMsg on ToCUs *)
  | ETick
  | ERetrCU                       (* RetrieveOutgoing on ToCUs *)
  | ERetrDrv.                     (* RetrieveOutgoing on ToDriver *)

Inductive obs :=
  | OAcc (b : bool) | OTick (progress : bool) | OCrash
  | OMap (m : option mapreq) | ORsp (r : option N).

Definition step (s : cp) (e : ev) : cp * obs :=
  if crashed (sh s) then (s, OCrash) else
  match e with
  | ELaunch l =>
    if (length (drv_in s) <? c_cap (cfg s))%nat then (s <| drv_in := drv_in s ++ [l] |>, OAcc true)
    else (s, OAcc false)
  | EComplete ids =>
    if (length (cu_in (sh s)) <? c_cap (cfg s))%nat
    then (s <| sh := sh s <| cu_in := cu_in (sh s) ++ [ids] |> |>, OAcc true)
    else (s, OAcc false)
  | ETick => let '(s', p) := cp_tick s in (s', if crashed (sh s') then OCrash else OTick p)
  | ERetrCU =>
    match cu_out (sh s) with
    | [] => (s, OMap None)
    | m :: r => (s <| sh := sh s <| cu_out := r |> |> <| g_mretr := g_mretr s ++ [m] |>, OMap (Some m))
    end
  | ERetrDrv =>
    match drv_out (sh s) with
    | [] => (s, ORsp None)
    | m :: r => (s <| sh := sh s <| drv_out := r |> |> <| g_rretr := g_rretr s ++ [m] |>, ORsp (Some m))
    end
  end.

Definition run (s : cp) (evs : list ev) : cp := fold_left (fun s e => fst (step s e)) evs s.

Fixpoint run_obs (s : cp) (evs : list ev) : list obs :=
  match evs with
  | [] => []
  | e :: r => let '(s', o) := step s e in o :: run_obs s' r
  end.

(** * Correspondence with the implementation (harness/cmd/c09, mode "cp") *)

Definition mapreq_eqb (a b : mapreq) : bool :=
  (mr_id a =? mr_id b) && Nat.eqb (mr_cu a) (mr_cu b) && key_eqb (mr_key a) (mr_key b) &&
  list_eqb tuple_eqb (map loc_tuple (mr_locs a)) (map loc_tuple (mr_locs b)).

Definition obs_eqb (a b : obs) : bool :=
  match a, b with
  | OAcc x, OAcc y => Bool.eqb x y
  | OTick x, OTick y => Bool.eqb x y
  | OCrash, OCrash => true
  | OMap None, OMap None => true
  | OMap (Some x), OMap (Some y) => mapreq_eqb x y
  | ORsp None, ORsp None => true
  | ORsp (Some x), ORsp (Some y) => x =? y
  | _, _ => false
  end.

Record ccase := mkCCase { cc_cfg : cpcfg; cc_cus : list cucfg; cc_ndisp : nat; cc_trace : list (ev * obs) }.

Fixpoint first_odiff (i : nat) (l1 l2 : list obs) : option nat :=
  match l1, l2 with
  | [], [] => None
  | a :: l1', b :: l2' => if obs_eqb a b then first_odiff (S i) l1' l2' else Some i
  | _, _ => Some i
  end.

Definition check_ccase (c : ccase) : option nat :=
  first_odiff 0 (run_obs (init_cp (cc_cfg c) (cc_cus c) (cc_ndisp c)) (map fst (cc_trace c)))
              (map snd (cc_trace c)).

Fixpoint cmismatches_from (i : nat) (cs : list ccase) : list (nat * nat) :=
  match cs with
  | [] => []
  | c :: r => match check_ccase c with
              | None => cmismatches_from (S i) r
              | Some k => (i, k) :: cmismatches_from (S i) r
              end
  end.
Definition cmismatches := cmismatches_from 0.
