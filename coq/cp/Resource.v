(** Executable model of amd/timing/cp/internal/resource: resourcemask.go
    (resourceMaskImpl) and curesourceimpl.go (CUResourceImpl), as built by
    curesourcepool.go for CUs that report finite capacities.
    Definitions only; proofs are in ResourceProofs.v.

    Not modelled: unlimitedResourceMask (negative reported capacities, used
    by the emulation CU), Go int overflow. *)
From Coq Require Import List NArith Bool Arith Lia.
Import ListNotations.
Open Scope N_scope.

(** * resourcemask.go *)

Inductive status := SFree | SToReserve | SReserved | SUsed.

Definition status_eqb (a b : status) : bool :=
  match a, b with
  | SFree, SFree | SToReserve, SToReserve | SReserved, SReserved | SUsed, SUsed => true
  | _, _ => false
  end.

Definition mask := list status.

(** nextRegion: [off] is the loop counter "offset", [cur] is currLength.
    On a hit currLength is incremented; when it reaches [len] the function
    returns offset - currLength + 1. *)
Fixpoint next_region_go (m : mask) (len : nat) (st : status) (off cur : nat) : option nat :=
  match m with
  | [] => None
  | x :: m' =>
    if status_eqb x st then
      if Nat.eqb (S cur) len then Some (S off - S cur)%nat
      else next_region_go m' len st (S off) (S cur)
    else next_region_go m' len st (S off) 0%nat
  end.

Definition next_region (m : mask) (len : nat) (st : status) : option nat :=
  match len with
  | O => Some O
  | _ => next_region_go m len st 0%nat 0%nat
  end.

(** setStatus: writes [len] cells from [off].  Go panics (index out of range)
    when off+len exceeds the mask; the model stops at the end of the list and
    ResourceProofs shows that every call made by reserve/free is in range. *)
Fixpoint set_status (m : mask) (off len : nat) (st : status) : mask :=
  match m with
  | [] => []
  | x :: m' =>
    match off with
    | S o => x :: set_status m' o len st
    | O => match len with
           | O => x :: m'
           | S l => st :: set_status m' O l st
           end
    end
  end.

(** convertStatus *)
Definition convert_status (m : mask) (from to : status) : mask :=
  map (fun x => if status_eqb x from then to else x) m.

(** statusCount *)
Definition status_count (m : mask) (st : status) : nat :=
  length (filter (fun x => status_eqb x st) m).

(** * curesourceimpl.go *)

(** What the work-group carries: len(wg.Wavefronts), co.WFSgprCount,
    co.WIVgprCount, co.GroupSegmentByteSize (the statically declared LDS), and
    [d_dyn] = wg.Packet.GroupSegmentSize, the LDS size the dispatch packet asks
    for (static + dynamically sized LDS; the driver sets it, the compute unit
    allocates it).  ReserveResourceForWG and FreeResourcesForWG account for
    [lds_bytes] = the larger of the two on both paths (repaired code; the pinned
    code read the static size only). *)
Record demand := mkDemand { d_nwf : nat; d_sgpr : N; d_vgpr : N; d_lds : N; d_dyn : N }.

(** ldsBytes (curesourceimpl.go): the LDS a work-group occupies is the size in
    the dispatch packet (static + dynamic), never less than the static size of
    the code object; used by the reserve path and the free path alike. *)
Definition lds_bytes (d : demand) : N := N.max (d_lds d) (d_dyn d).

(** WfLocation without the wavefront pointer; offsets are in bytes as in Go. *)
Record loc := mkLoc { l_simd : nat; l_vgpr : N; l_sgpr : N; l_lds : N }.

Record simd := mkSimd { vmask : mask; wf_free : N }.

(** Identity of a work-group (Go: the *kernels.WorkGroup pointer used as the
    key of reservedWGs): launch id, index within the launch. *)
Definition wgkey := (N * N)%type.
Definition key_eqb (a b : wgkey) : bool := (fst a =? fst b) && (snd a =? snd b).

Record cu := mkCU {
  smask : mask;                   (* sregMask, 16-register units *)
  lmask : mask;                   (* ldsMask, 256-byte units *)
  simds : list simd;              (* vregMasks[i] (4-register units), wfPoolFreeCount[i] *)
  next_simd : nat;                (* nextSIMD *)
  resident : list (wgkey * (demand * list loc))   (* reservedWGs *)
}.

Definition SREG_GRAN : N := 16.
Definition VREG_GRAN : N := 4.
Definition LDS_GRAN : N := 256.

(** unitsOccupy *)
Definition units (amount gran : N) : nat :=
  N.to_nat (if amount mod gran =? 0 then amount / gran else amount / gran + 1).

(** Capacities as registered by CUResourcePoolImpl.RegisterCU. *)
Record cucfg := mkCfg {
  cfg_sregs : N;                  (* SRegCount(), multiple of 16 *)
  cfg_lds : N;                    (* LDSBytes(), multiple of 256 *)
  cfg_simds : list (N * N)        (* per SIMD: VRegCounts()[i] (multiple of 256), WfPoolSizes()[i] *)
}.

Definition init_cu (c : cucfg) : cu :=
  mkCU (repeat SFree (N.to_nat (cfg_sregs c / SREG_GRAN)))
       (repeat SFree (N.to_nat (cfg_lds c / LDS_GRAN)))
       (map (fun p => mkSimd (repeat SFree (N.to_nat (fst p / VREG_GRAN / 64))) (snd p)) (cfg_simds c))
       0%nat [].

(** withinSGPRLimitation: one region per wavefront, each marked ToReserve
    before the next search.  Returns the marked mask (also on failure) and the
    unit offsets found. *)
Fixpoint sgpr_pass (m : mask) (req n : nat) : mask * option (list nat) :=
  match n with
  | O => (m, Some [])
  | S n' =>
    match next_region m req SFree with
    | None => (m, None)
    | Some off =>
      let '(m2, r) := sgpr_pass (set_status m off req SToReserve) req n' in
      (m2, option_map (cons off) r)
    end
  end.

Definition upd {A} (i : nat) (f : A -> A) (l : list A) : list A :=
  firstn i l ++ match skipn i l with [] => [] | x :: r => f x :: r end.

Definition bump (n len : nat) : nat := if (S n <? len)%nat then S n else 0%nat.

Definition dummy_simd : simd := mkSimd [] 0.

(** Inner loop of matchWfWithSIMDs for one wavefront.  The Go loop
    [for firstTry || nextSIMD != firstSIMDTested] visits every SIMD at most
    once, so the fuel is the number of SIMDs.  Result: SIMDs with the new
    ToReserve mark, wfPoolEntryUsed, nextSIMD, and (SIMD, unit offset). *)
Fixpoint try_simds (fuel : nat) (sims : list simd) (used : list N) (nxt : nat) (req : nat)
  : list simd * list N * nat * option (nat * nat) :=
  match fuel with
  | O => (sims, used, nxt, None)
  | S f =>
    let sd := nth nxt sims dummy_simd in
    let nxt' := bump nxt (length sims) in
    match next_region (vmask sd) req SFree with
    | Some off =>
      if nth nxt used 0 <? wf_free sd then
        (upd nxt (fun sd => mkSimd (set_status (vmask sd) off req SToReserve) (wf_free sd)) sims,
         upd nxt N.succ used, nxt', Some (nxt, off))
      else try_simds f sims used nxt' req
    | None => try_simds f sims used nxt' req
    end
  end.

(** Outer loop of matchWfWithSIMDs. *)
Fixpoint vgpr_pass (n : nat) (sims : list simd) (used : list N) (nxt : nat) (req : nat)
  : list simd * nat * option (list (nat * nat)) :=
  match n with
  | O => (sims, nxt, Some [])
  | S n' =>
    match try_simds (length sims) sims used nxt req with
    | (sims1, used1, nxt1, Some p) =>
      let '(sims2, nxt2, r) := vgpr_pass n' sims1 used1 nxt1 req in
      (sims2, nxt2, option_map (cons p) r)
    | (sims1, _, nxt1, None) => (sims1, nxt1, None)
    end
  end.

(** The locations array: SGPROffset = offset*16*4, LDSOffset = offset*256,
    VGPROffset = offset*4*4. *)
Fixpoint mk_locs (soffs : list nat) (loff : nat) (vs : list (nat * nat)) : list loc :=
  match soffs, vs with
  | so :: soffs', (sd, vo) :: vs' =>
    mkLoc sd (N.of_nat vo * VREG_GRAN * 4) (N.of_nat so * 16 * 4) (N.of_nat loff * LDS_GRAN)
    :: mk_locs soffs' loff vs'
  | _, _ => []
  end.

Definition conv_simds (sims : list simd) (from to : status) : list simd :=
  map (fun sd => mkSimd (convert_status (vmask sd) from to) (wf_free sd)) sims.

(** clearTempReservation *)
Definition clear_temp (s : cu) : cu :=
  mkCU (convert_status (smask s) SToReserve SFree)
       (convert_status (lmask s) SToReserve SFree)
       (conv_simds (simds s) SToReserve SFree)
       (next_simd s) (resident s).

Fixpoint lookup (k : wgkey) (l : list (wgkey * (demand * list loc))) : option (demand * list loc) :=
  match l with
  | [] => None
  | (k', v) :: r => if key_eqb k k' then Some v else lookup k r
  end.

Fixpoint remove_key (k : wgkey) (l : list (wgkey * (demand * list loc))) :=
  match l with
  | [] => []
  | (k', v) :: r => if key_eqb k k' then r else (k', v) :: remove_key k r
  end.

Definition dec_wf (sims : list simd) (l : loc) : list simd :=
  upd (l_simd l) (fun sd => mkSimd (vmask sd) (wf_free sd - 1)) sims.

(** [Crash] stands for a Go panic. *)
Inductive outcome := Crash | Ret (s : cu) (r : option (list loc)).

(** ReserveResourceForWG *)
Definition reserve (s : cu) (k : wgkey) (d : demand) : outcome :=
  let sreq := units (d_sgpr d) SREG_GRAN in
  let lreq := units (lds_bytes d) LDS_GRAN in
  let vreq := units (d_vgpr d) VREG_GRAN in
  let '(sm, so) := sgpr_pass (smask s) sreq (d_nwf d) in
  let s1 := mkCU sm (lmask s) (simds s) (next_simd s) (resident s) in
  match so with
  | None => Ret (clear_temp s1) None
  | Some soffs =>
    match next_region (lmask s1) lreq SFree with
    | None => Ret (clear_temp s1) None
    | Some loff =>
      let s2 := mkCU sm (set_status (lmask s1) loff lreq SToReserve) (simds s) (next_simd s) (resident s) in
      (* vregMasks[nextSIMD] with no SIMD at all: index out of range *)
      if Nat.eqb (length (simds s)) 0 && negb (Nat.eqb (d_nwf d) 0) then Crash else
      let '(sims, nxt, vo) :=
        vgpr_pass (d_nwf d) (simds s2) (repeat 0 (length (simds s2))) (next_simd s2) vreq in
      let s3 := mkCU (smask s2) (lmask s2) sims nxt (resident s) in
      match vo with
      | None => Ret (clear_temp s3) None
      | Some vs =>
        (* reserveResources *)
        let locs := mk_locs soffs loff vs in
        let sims4 := conv_simds (fold_left dec_wf locs sims) SToReserve SReserved in
        let s4 := mkCU (convert_status (smask s3) SToReserve SReserved)
                       (convert_status (lmask s3) SToReserve SReserved)
                       sims4 nxt ((k, (d, locs)) :: resident s) in
        match lookup k (resident s) with
        | Some _ => Crash                     (* "reserving a work-group twice" *)
        | None => Ret s4 (Some locs)
        end
      end
    end
  end.

Definition free_loc (d : demand) (s : cu) (l : loc) : cu :=
  mkCU (set_status (smask s) (N.to_nat (l_sgpr l / 4 / SREG_GRAN)) (units (d_sgpr d) SREG_GRAN) SFree)
       (set_status (lmask s) (N.to_nat (l_lds l / LDS_GRAN)) (units (lds_bytes d) LDS_GRAN) SFree)
       (upd (l_simd l)
            (fun sd => mkSimd (set_status (vmask sd) (N.to_nat (l_vgpr l / 4 / VREG_GRAN))
                                          (units (d_vgpr d) VREG_GRAN) SFree)
                              (wf_free sd + 1))
            (simds s))
       (next_simd s) (resident s).

(** FreeResourcesForWG; [None] = panic("work-group not found"). *)
Definition free (s : cu) (k : wgkey) : option cu :=
  match lookup k (resident s) with
  | None => None
  | Some (d, locs) =>
    let s' := fold_left (free_loc d) locs s in
    Some (mkCU (smask s') (lmask s') (simds s') (next_simd s') (remove_key k (resident s')))
  end.

(** * Histories of calls on one CU *)

Inductive op := OReserve (k : wgkey) (d : demand) | OFree (k : wgkey).

(** One call; [None] = the implementation panicked. *)
Definition step (s : cu) (o : op) : option (cu * option (list loc)) :=
  match o with
  | OReserve k d => match reserve s k d with Crash => None | Ret s' r => Some (s', r) end
  | OFree k => match free s k with None => None | Some s' => Some (s', None) end
  end.

Fixpoint run (s : cu) (h : list op) : option cu :=
  match h with
  | [] => Some s
  | o :: r => match step s o with None => None | Some (s', _) => run s' r end
  end.

(** * Correspondence with the implementation (harness/cmd/c09, mode "res") *)

Definition status_code (x : status) : N :=
  match x with SFree => 0 | SToReserve => 1 | SReserved => 2 | SUsed => 3 end.

(** Observation after a call: crashed?, ok bit, locations as
    (SIMD, VGPROffset, SGPROffset, LDSOffset), then the snapshot of the
    private state: sreg mask, lds mask, per SIMD (vreg mask, wfPoolFree),
    nextSIMD, number of resident work-groups. *)
Record robs := mkRobs {
  o_crash : bool; o_ok : bool; o_locs : list (N * N * N * N);
  o_smask : list (N * N); o_lmask : list (N * N); o_simds : list (list (N * N) * N);
  o_next : N; o_nres : N
}.

(** masks are compared in run-length encoding: (status code, run length) *)
Fixpoint rle (l : list N) : list (N * N) :=
  match l with
  | [] => []
  | x :: r =>
    match rle r with
    | (y, n) :: t => if x =? y then (y, n + 1) :: t else (x, 1) :: (y, n) :: t
    | [] => [(x, 1)]
    end
  end.
Definition mask_code (m : mask) : list (N * N) := rle (map status_code m).

Definition loc_tuple (l : loc) : N * N * N * N := (N.of_nat (l_simd l), l_vgpr l, l_sgpr l, l_lds l).

Definition snapshot (s : cu) (ok : bool) (locs : list loc) : robs :=
  mkRobs false ok (map loc_tuple locs) (mask_code (smask s)) (mask_code (lmask s))
         (map (fun sd => (mask_code (vmask sd), wf_free sd)) (simds s))
         (N.of_nat (next_simd s)) (N.of_nat (length (resident s))).

Definition crash_obs : robs := mkRobs true false [] [] [] [] 0 0.

Fixpoint run_obs (s : cu) (h : list op) : list robs :=
  match h with
  | [] => []
  | o :: r =>
    match step s o with
    | None => [crash_obs]
    | Some (s', res) =>
      snapshot s' (match res with Some _ => true | None => false end)
               (match res with Some l => l | None => [] end) :: run_obs s' r
    end
  end.


Definition tuple_eqb (a b : N * N * N * N) : bool :=
  let '(a1, a2, a3, a4) := a in let '(b1, b2, b3, b4) := b in
  (a1 =? b1) && (a2 =? b2) && (a3 =? b3) && (a4 =? b4).

Fixpoint list_eqb {A} (e : A -> A -> bool) (a b : list A) : bool :=
  match a, b with
  | [], [] => true
  | x :: a', y :: b' => e x y && list_eqb e a' b'
  | _, _ => false
  end.

Definition nlist_eqb : list (N * N) -> list (N * N) -> bool :=
  list_eqb (fun x y => (fst x =? fst y) && (snd x =? snd y)).

Definition robs_eqb (a b : robs) : bool :=
  Bool.eqb (o_crash a) (o_crash b) &&
  (if o_crash a then true else
   Bool.eqb (o_ok a) (o_ok b) && list_eqb tuple_eqb (o_locs a) (o_locs b) &&
   nlist_eqb (o_smask a) (o_smask b) && nlist_eqb (o_lmask a) (o_lmask b) &&
   list_eqb (fun x y => nlist_eqb (fst x) (fst y) && (snd x =? snd y)) (o_simds a) (o_simds b) &&
   (o_next a =? o_next b) && (o_nres a =? o_nres b)).

Record rcase := mkRCase { rc_cfg : cucfg; rc_trace : list (op * robs) }.

Fixpoint first_diff (i : nat) (l1 l2 : list robs) : option nat :=
  match l1, l2 with
  | [], [] => None
  | a :: l1', b :: l2' => if robs_eqb a b then first_diff (S i) l1' l2' else Some i
  | _, _ => Some i
  end.

Definition check_rcase (c : rcase) : option nat :=
  first_diff 0 (run_obs (init_cu (rc_cfg c)) (map fst (rc_trace c))) (map snd (rc_trace c)).

Fixpoint rmismatches_from (i : nat) (cs : list rcase) : list (nat * nat) :=
  match cs with
  | [] => []
  | c :: r => match check_rcase c with
              | None => rmismatches_from (S i) r
              | Some k => (i, k) :: rmismatches_from (S i) r
              end
  end.
Definition rmismatches := rmismatches_from 0.
