(** Invariant of the DMA-engine model and the lemmas behind props/C11.v. *)
From Coq Require Import List NArith Bool Arith Lia ZifyN ZifyNat ZifyBool.
From VLib Require Import Chunks ChunksProofs.
From VCp Require Import Dma.
From RecordUpdate Require Import RecordSet.
Import ListNotations RecordSetNotations.
Open Scope N_scope.

(** Sub-requests of a list that have not been answered yet. *)
Definition unans (ans ids : list N) : list N := filter (fun i => negb (has_id i ans)) ids.

Arguments has_id : simpl never.
Arguments unans : simpl never.

(** Same command up to the contents of its buffer. *)
Definition same_cmd (a b : copy) : Prop :=
  c_id a = c_id b /\ c_kind a = c_kind b /\ c_src a = c_src b /\ c_addr a = c_addr b.

Definition coll_ok (s : dma) (rc : coll) : Prop :=
  NoDup (k_subs rc) /\ Forall (fun i => i < next_id s) (k_subs rc) /\
  k_count rc = N.of_nat (length (unans (g_ans s) (k_subs rc))) /\
  exists c0, nth_error (g_acc s) (k_seq rc) = Some (c0, k_subs rc) /\ same_cmd c0 (k_sup rc).

Definition done_ok (s : dma) (d : nat * copy) : Prop :=
  exists c0 ids, nth_error (g_acc s) (fst d) = Some (c0, ids) /\ same_cmd c0 (snd d) /\
                 incl ids (g_ans s).

Record Inv (s : dma) : Prop := {
  i_flow : g_retr s ++ cp_out s ++ to_cp s = map snd (g_done s);
  i_coll : Forall (coll_ok s) (processing s);
  i_pend : Forall (fun q => s_id q < next_id s /\ has_id (s_id q) (g_ans s) = false) (pending s);
  i_ans  : Forall (fun i => i < next_id s) (g_ans s);
  i_ansnd : NoDup (g_ans s);
  i_seq  : NoDup (map k_seq (processing s));
  i_seqd : forall rc, In rc (processing s) -> ~ In (k_seq rc) (map fst (g_done s));
  i_donend : NoDup (map fst (g_done s));
  i_done : Forall (done_ok s) (g_done s);
  i_cap  : (length (processing s) <= maxreq s)%nat;
  i_accnd : NoDup (concat (map snd (g_acc s)));
  i_accfr : Forall (fun i => i < next_id s) (concat (map snd (g_acc s)))
}.

Ltac inv_split H :=
  destruct H as [Hflow Hcoll Hpend Hans Hansnd Hseq Hseqd Hdonend Hdone Hcap Haccnd Haccfr].

Lemma init_inv l mx : Inv (init l mx).
Proof. constructor; cbn; auto using NoDup_nil; try lia. Qed.

(** ** small list facts *)
Lemma has_id_in id l : has_id id l = true <-> In id l.
Proof.
  unfold has_id. rewrite existsb_exists. split.
  - intros (x & Hin & E). apply N.eqb_eq in E. subst. assumption.
  - intros Hin. exists id. split; [assumption|apply N.eqb_refl].
Qed.

Lemma has_id_false id l : has_id id l = false <-> ~ In id l.
Proof. rewrite <- has_id_in. destruct (has_id id l); split; congruence. Qed.

Lemma has_id_app id l x : has_id id (l ++ [x]) = has_id id l || (id =? x).
Proof. unfold has_id. rewrite existsb_app. cbn. rewrite orb_false_r. reflexivity. Qed.

Lemma unans_notin ans ids id : ~ In id ids -> unans (ans ++ [id]) ids = unans ans ids.
Proof.
  unfold unans. induction ids as [|x r IH]; cbn; intros Hn; [reflexivity|].
  rewrite has_id_app. replace (x =? id) with false by (symmetry; apply N.eqb_neq; intuition).
  rewrite orb_false_r. rewrite IH by intuition. reflexivity.
Qed.

Lemma unans_in ans ids id : NoDup ids -> In id ids -> ~ In id ans ->
  S (length (unans (ans ++ [id]) ids)) = length (unans ans ids).
Proof.
  pose proof (unans_notin ans) as Hnot. unfold unans in *.
  induction 1 as [|x r Hx Hr IH]; cbn; intros Hin Hna; [contradiction|].
  rewrite has_id_app. destruct Hin as [->|Hin].
  - rewrite N.eqb_refl, orb_true_r. cbn.
    replace (has_id id ans) with false by (symmetry; apply has_id_false; assumption). cbn.
    rewrite Hnot by assumption. reflexivity.
  - replace (x =? id) with false by (symmetry; apply N.eqb_neq; intros ->; contradiction).
    rewrite orb_false_r. destruct (negb (has_id x ans)); cbn; rewrite <- IH; auto.
Qed.

Lemma unans_fresh ans ids : (forall i, In i ids -> ~ In i ans) -> unans ans ids = ids.
Proof.
  unfold unans. induction ids as [|x r IH]; cbn; intros H; [reflexivity|].
  replace (has_id x ans) with false by (symmetry; apply has_id_false; apply H; auto). cbn.
  rewrite IH; auto.
Qed.

Lemma unans_nil_incl ans ids : length (unans ans ids) = 0%nat -> incl ids ans.
Proof.
  unfold unans. induction ids as [|x r IH]; cbn; intros H i Hi; [contradiction|].
  destruct (has_id x ans) eqn:E; cbn in H; [|discriminate].
  destruct Hi as [<-|Hi]; [apply has_id_in; assumption|apply IH; assumption].
Qed.

Lemma nodup_map_inj {A B} (f : A -> B) l a b :
  NoDup (map f l) -> In a l -> In b l -> f a = f b -> a = b.
Proof.
  induction l as [|x r IH]; cbn; intros Hn Ha Hb E; [contradiction|].
  inversion Hn as [|? ? Hx Hr]; subst.
  destruct Ha as [->|Ha], Hb as [->|Hb]; auto.
  - exfalso. apply Hx. rewrite E. apply in_map. assumption.
  - exfalso. apply Hx. rewrite <- E. apply in_map. assumption.
Qed.

Lemma nodup_map_filter {A B} (f : A -> B) p l : NoDup (map f l) -> NoDup (map f (filter p l)).
Proof.
  induction l as [|x r IH]; cbn; intros Hn; [constructor|].
  inversion Hn as [|? ? Hx Hr]; subst. destruct (p x); cbn; auto.
  constructor; auto. intros Hin. apply Hx. apply in_map_iff in Hin as (y & E & Hy).
  apply in_map_iff. exists y. split; [assumption|]. apply filter_In in Hy. tauto.
Qed.

Lemma nodup_snoc {A} (l : list A) x : NoDup l -> ~ In x l -> NoDup (l ++ [x]).
Proof.
  induction 1 as [|y r Hy Hr IH]; cbn; intros Hn.
  - constructor; [intros []|constructor].
  - constructor.
    + rewrite in_app_iff. cbn. intuition.
    + apply IH. intuition.
Qed.

Lemma nodup_app_inv {A} (a b : list A) :
  NoDup (a ++ b) -> NoDup a /\ NoDup b /\ forall x, In x a -> ~ In x b.
Proof.
  induction a as [|y r IH]; cbn; intros H.
  - split; [constructor|]. split; [assumption|]. intros x [].
  - inversion H as [|? ? Hy Hr]; subst. destruct (IH Hr) as (A1 & A2 & A3).
    split; [constructor; auto; intros Hin; apply Hy; apply in_app_iff; auto|].
    split; [assumption|]. intros x [<-|Hx]; [intros Hb; apply Hy; apply in_app_iff; auto|auto].
Qed.

Lemma nodup_app_intro {A} (a b : list A) :
  NoDup a -> NoDup b -> (forall x, In x a -> ~ In x b) -> NoDup (a ++ b).
Proof.
  induction 1 as [|y r Hy Hr IH]; cbn; intros Hb Hd; [assumption|].
  constructor.
  - rewrite in_app_iff. intros [Hin|Hin]; [contradiction|]. exact (Hd y (or_introl eq_refl) Hin).
  - apply IH; auto.
Qed.

Lemma concat_owner {A} (L : list (list A)) : NoDup (concat L) -> forall i j a b x,
  nth_error L i = Some a -> nth_error L j = Some b -> In x a -> In x b -> i = j.
Proof.
  induction L as [|l0 L' IH]; cbn; intros Hn i j a b x Hi Hj Ha Hb.
  - destruct i; discriminate.
  - destruct (nodup_app_inv _ _ Hn) as (N1 & N2 & N3).
    assert (Hsub : forall k c, nth_error L' k = Some c -> In x c -> In x (concat L')).
    { intros k c Hk Hc. apply in_concat. exists c. split; [eapply nth_error_In; eauto|assumption]. }
    destruct i as [|i], j as [|j]; cbn in *; auto.
    + inversion Hi; subst. exfalso. eapply N3; eauto.
    + inversion Hj; subst. exfalso. eapply N3; eauto.
    + f_equal. eapply IH; eauto.
Qed.

Lemma filter_len_le {A} (p : A -> bool) l : (length (filter p l) <= length l)%nat.
Proof. induction l as [|x r IH]; cbn; [lia|]. destruct (p x); cbn; lia. Qed.

Lemma forall_filter {A} (P : A -> Prop) p l : Forall P l -> Forall P (filter p l).
Proof. induction 1; cbn; auto. destruct (p x); auto. Qed.

(** ** find / last match / update *)
Lemma find_pending_some id l q : find_pending id l = Some q -> In q l /\ s_id q = id.
Proof.
  induction l as [|x r IH]; cbn; [discriminate|].
  destruct (find_pending id r) as [y|] eqn:E.
  - intros H; inversion H; subst. destruct (IH eq_refl). auto.
  - destruct (s_id x =? id) eqn:Ex; [|discriminate]. intros H; inversion H; subst.
    apply N.eqb_eq in Ex. auto.
Qed.

Lemma last_match_some id l rc : last_match id l = Some rc -> In rc l /\ has_id id (k_subs rc) = true.
Proof.
  induction l as [|x r IH]; cbn; [discriminate|].
  destruct (last_match id r) as [y|] eqn:E.
  - intros H; inversion H; subst. destruct (IH eq_refl). auto.
  - destruct (has_id id (k_subs x)) eqn:Ex; [|discriminate]. intros H; inversion H; subst. auto.
Qed.

Lemma upd_last_in id f l rc : last_match id l = Some rc -> In (f rc) (upd_last id f l).
Proof.
  induction l as [|x r IH]; cbn; [discriminate|].
  destruct (last_match id r) as [y|] eqn:E.
  - intros H; inversion H; subst. right. auto.
  - destruct (has_id id (k_subs x)); [|discriminate]. intros H; inversion H; subst. left. reflexivity.
Qed.

Lemma upd_last_shape id f l :
  Forall2 (fun a b => b = a \/ (b = f a /\ has_id id (k_subs a) = true)) l (upd_last id f l).
Proof.
  induction l as [|x r IH]; cbn; [constructor|].
  assert (R : Forall2 (fun a b => b = a \/ (b = f a /\ has_id id (k_subs a) = true)) r r).
  { clear. induction r; constructor; auto. }
  destruct (last_match id r).
  - constructor; auto.
  - destruct (has_id id (k_subs x)) eqn:E; constructor; auto.
Qed.

Lemma forall2_map_eq {A B} (g : A -> B) (R : A -> A -> Prop) l l' :
  Forall2 R l l' -> (forall a b, R a b -> g b = g a) -> map g l' = map g l.
Proof. induction 1; cbn; intros H'; [reflexivity|]. rewrite (H' _ _ H), IHForall2; auto. Qed.

Lemma forall2_forall {A} (R : A -> A -> Prop) (P Q : A -> Prop) l l' :
  Forall2 R l l' -> Forall P l -> (forall a b, R a b -> P a -> Q b) -> Forall Q l'.
Proof.
  induction 1; intros HP HR; [constructor|]. inversion HP; subst. constructor; eauto.
Qed.

Lemma forall2_in {A} (R : A -> A -> Prop) l l' b :
  Forall2 R l l' -> In b l' -> exists a, In a l /\ R a b.
Proof.
  induction 1; cbn; [contradiction|]. intros [<-|Hin].
  - eauto.
  - destruct (IHForall2 Hin) as (a & Ha & Hr). eauto.
Qed.

Lemma forall2_length {A} (R : A -> A -> Prop) l l' : Forall2 R l l' -> length l' = length l.
Proof. induction 1; cbn; congruence. Qed.

(** ** the invariant is insensitive to the fields it does not mention *)
Lemma crash_inv s : Inv s -> Inv (s <| crashed := true |>).
Proof. intros H; inv_split H; constructor; cbn; auto. Qed.

Lemma mem_in_inv s l : Inv s -> Inv (s <| mem_in := l |>).
Proof. intros H; inv_split H; constructor; cbn; auto. Qed.

Lemma send_cp_inv s : Inv s -> Inv (fst (send_cp s)).
Proof.
  intros H. unfold send_cp. destruct (to_cp s) as [|c r] eqn:E; [exact H|].
  destruct (room CP_CAP (cp_out s)); [|exact H].
  inv_split H; constructor; cbn; auto.
  rewrite <- Hflow, E. rewrite <- !app_assoc. reflexivity.
Qed.

Lemma send_mem_inv s : Inv s -> Inv (fst (send_mem s)).
Proof.
  intros H. unfold send_mem. destruct (to_mem s) as [|c r] eqn:E; [exact H|].
  destruct (room MEM_CAP (mem_out s)); [|exact H].
  inv_split H; constructor; cbn; auto.
Qed.

(** ** answering one pending sub-request *)
Lemma dec_coll_fields id rc :
  k_sup (dec_coll id rc) = k_sup rc /\ k_subs (dec_coll id rc) = k_subs rc /\ k_seq (dec_coll id rc) = k_seq rc.
Proof. unfold dec_coll. destruct (has_id id (k_subs rc)); auto. Qed.

Lemma map_seq_dec id l : map k_seq (map (dec_coll id) l) = map k_seq l.
Proof. rewrite map_map. apply map_ext. intros rc. apply dec_coll_fields. Qed.

Lemma answer_core_inv s q : Inv s -> In q (pending s) -> Inv (answer_core s (s_id q)).
Proof.
  intros H Hq. inv_split H. unfold answer_core.
  rewrite Forall_forall in Hpend. destruct (Hpend q Hq) as [Hlt Hna]. apply has_id_false in Hna.
  constructor; cbn.
  - assumption.
  - rewrite Forall_forall in *. intros rc Hin. apply in_map_iff in Hin as (rc0 & <- & Hin0).
    destruct (Hcoll rc0 Hin0) as (Hnd & Hfr & Hcnt & c0 & Hnth & Hsame).
    destruct (dec_coll_fields (s_id q) rc0) as (E1 & E2 & E3).
    unfold coll_ok. cbn. rewrite E1, E2, E3. repeat split; auto.
    + unfold dec_coll. destruct (has_id (s_id q) (k_subs rc0)) eqn:Eh; cbn.
      * apply has_id_in in Eh. rewrite Hcnt.
        rewrite <- (unans_in (g_ans s) (k_subs rc0) (s_id q)) by assumption. lia.
      * apply has_id_false in Eh. rewrite unans_notin by assumption. assumption.
    + exists c0. auto.
  - unfold drop_pending. rewrite Forall_forall. intros x Hx. apply filter_In in Hx as [Hx Hne].
    destruct (Hpend x Hx) as [Hl Hn]. split; [assumption|].
    rewrite has_id_app, Hn. cbn. apply negb_true_iff in Hne. assumption.
  - apply Forall_app. split; auto.
  - apply nodup_snoc; assumption.
  - rewrite map_seq_dec. assumption.
  - intros rc Hin. apply in_map_iff in Hin as (rc0 & <- & Hin0).
    destruct (dec_coll_fields (s_id q) rc0) as (_ & _ & E3). rewrite E3. auto.
  - assumption.
  - eapply Forall_impl; [|exact Hdone]. intros d (c0 & ids & A & B & D).
    exists c0, ids. cbn. split; [exact A|]. split; [exact B|]. apply incl_appl. assumption.
  - rewrite map_length. assumption.
  - assumption.
  - assumption.
Qed.

(** ** writing a D2H buffer through the collection *)
Lemma same_cmd_trans a b c : same_cmd a b -> same_cmd b c -> same_cmd a c.
Proof. unfold same_cmd. intuition congruence. Qed.

Lemma upd_inv s id c' :
  Inv s ->
  (forall rc, In rc (processing s) -> has_id id (k_subs rc) = true -> same_cmd (k_sup rc) c') ->
  Inv (s <| processing := upd_last id (fun x => set_sup x c') (processing s) |>).
Proof.
  intros H Hc. inv_split H.
  pose proof (upd_last_shape id (fun x => set_sup x c') (processing s)) as Sh.
  assert (Hseqs : map k_seq (upd_last id (fun x => set_sup x c') (processing s)) = map k_seq (processing s)).
  { eapply forall2_map_eq; [exact Sh|]. intros a b [->|[-> _]]; reflexivity. }
  constructor; cbn; auto.
  - rewrite Forall_forall in *. intros b Hb.
    destruct (forall2_in _ _ _ _ Sh Hb) as (a & Ha & Hab).
    destruct (Hcoll a Ha) as (Hnd & Hfr & Hcnt & c0 & Hnth & Hsame).
    destruct Hab as [->|[-> Hid]]; [exact (Hcoll a Ha)|].
    unfold coll_ok. cbn. split; [exact Hnd|]. split; [exact Hfr|]. split; [exact Hcnt|].
    exists c0. split; [assumption|]. eapply same_cmd_trans; [exact Hsame|]. apply Hc; assumption.
  - rewrite Hseqs. assumption.
  - intros b Hb. destruct (forall2_in _ _ _ _ Sh Hb) as (a & Ha & [->|[-> _]]); cbn; auto.
  - rewrite (forall2_length _ _ _ Sh). assumption.
Qed.

(** ** queueing a completion *)
Lemma finish_inv s rc :
  Inv s -> In rc (processing s) -> k_count rc = 0 -> Inv (finish s rc).
Proof.
  intros H Hin Hz. inv_split H. unfold finish.
  rewrite Forall_forall in Hcoll. destruct (Hcoll rc Hin) as (Hnd & Hfr & Hcnt & c0 & Hnth & Hsame).
  constructor; cbn.
  - rewrite map_app. cbn. rewrite <- Hflow. rewrite <- !app_assoc. reflexivity.
  - unfold drop_processing. apply forall_filter. rewrite Forall_forall. intros x Hx.
    destruct (Hcoll x Hx) as (A & B & C & D). unfold coll_ok. cbn. auto.
  - assumption.
  - assumption.
  - assumption.
  - unfold drop_processing. apply nodup_map_filter. assumption.
  - intros x Hx. unfold drop_processing in Hx. apply filter_In in Hx as [Hx Hne'].
    rewrite map_app, in_app_iff. cbn. intros [Hd|[E|[]]].
    + exact (Hseqd x Hx Hd).
    + assert (x = rc) by (eapply nodup_map_inj; eauto). subst.
      rewrite N.eqb_refl in Hne'. discriminate.
  - rewrite map_app. cbn. apply nodup_snoc; auto.
  - apply Forall_app. split.
    + eapply Forall_impl; [|exact Hdone]. intros d (c1 & ids & A & B & D). exists c1, ids. cbn. auto.
    + constructor; [|constructor]. exists c0, (k_subs rc). cbn.
      split; [assumption|]. split; [assumption|].
      apply unans_nil_incl. lia.
  - unfold drop_processing. etransitivity; [apply filter_len_le|assumption].
  - assumption.
  - assumption.
Qed.

Lemma parse_from_mem_inv s : Inv s -> Inv (fst (parse_from_mem s)).
Proof.
  intros H. unfold parse_from_mem. destruct (mem_in s) as [|r rest] eqn:Em; [exact H|].
  cbv zeta. pose proof (mem_in_inv s rest H) as H0. set (s0 := s <| mem_in := rest |>) in *.
  assert (Hp0 : pending s0 = pending s) by reflexivity.
  destruct (r_kind r).
  - (* DataReady *)
    destruct (find_pending (r_to r) (pending s0)) as [q|] eqn:Ef; [|apply crash_inv; exact H0].
    destruct (find_pending_some _ _ _ Ef) as [Hq _].
    destruct (s_write q); [apply crash_inv; exact H0|].
    pose proof (answer_core_inv s0 q H0 Hq) as H1. set (s1 := answer_core s0 (s_id q)) in *.
    destruct (last_match (s_id q) (processing s1)) as [rc|] eqn:El; [|apply crash_inv; exact H1].
    destruct (last_match_some _ _ _ El) as [Hrc Hid].
    destruct (c_kind (k_sup rc)) eqn:Ek; try (apply crash_inv; exact H1).
    destruct (len (c_data (k_sup rc)) <? s_addr q - c_addr (k_sup rc)); [apply crash_inv; exact H1|].
    set (c' := set_data (k_sup rc) _).
    assert (H2 : Inv (s1 <| processing := upd_last (s_id q) (fun x => set_sup x c') (processing s1) |>)).
    { apply upd_inv; [exact H1|]. intros x Hx Hxid.
      (* sub-request IDs belong to one collection only: x and rc share a sequence number *)
      assert (x = rc); [|subst; unfold same_cmd, c'; cbn; auto].
      destruct H1 as [_ Hcoll _ _ _ Hseq _ _ _ _ Haccnd _]. rewrite Forall_forall in Hcoll.
      destruct (Hcoll x Hx) as (_ & _ & _ & cx & Hnx & _).
      destruct (Hcoll rc Hrc) as (_ & _ & _ & cr & Hnr & _).
      eapply nodup_map_inj; eauto.
      apply has_id_in in Hxid. apply has_id_in in Hid.
      apply (concat_owner _ Haccnd (k_seq x) (k_seq rc) (k_subs x) (k_subs rc) (s_id q));
        [exact (map_nth_error snd _ _ Hnx)|exact (map_nth_error snd _ _ Hnr)|assumption|assumption]. }
    destruct (k_count rc =? 0) eqn:Ez; [|exact H2].
    cbn [fst]. apply finish_inv; auto.
    + cbn. apply (upd_last_in _ (fun x => set_sup x c')) in El. exact El.
    + cbn. apply N.eqb_eq. assumption.
  - (* WriteDone *)
    destruct (find_pending (r_to r) (pending s0)) as [q|] eqn:Ef; [|apply crash_inv; exact H0].
    destruct (find_pending_some _ _ _ Ef) as [Hq _].
    pose proof (answer_core_inv s0 q H0 Hq) as H1. set (s1 := answer_core s0 (s_id q)) in *.
    destruct (last_match (s_id q) (processing s1)) as [rc|] eqn:El; [|apply crash_inv; exact H1].
    destruct (last_match_some _ _ _ El) as [Hrc Hid].
    destruct (k_count rc =? 0) eqn:Ez; [|exact H1].
    destruct (c_kind (k_sup rc)); try (apply crash_inv; exact H1).
    cbn [fst]. apply finish_inv; auto.
    apply N.eqb_eq. assumption.
  - apply crash_inv. exact H0.
Qed.

(** ** accepting a command *)
Lemma mk_subs_ids c n l :
  let ids := map s_id (mk_subs c n l) in
  length ids = length l /\ NoDup ids /\ Forall (fun i => n <= i < n + N.of_nat (length l)) ids.
Proof.
  revert n. induction l as [|p r IH]; intros n; cbn.
  - repeat split; constructor.
  - destruct (IH (n + 1)) as (A & B & C). cbn in *.
    assert (Hid : s_id (mk_sub c n p) = n) by (unfold mk_sub; destruct (c_kind c); reflexivity).
    rewrite Hid. split; [lia|]. split.
    + constructor; [|assumption]. intros Hin. rewrite Forall_forall in C. apply C in Hin. lia.
    + constructor; [lia|]. eapply Forall_impl; [|exact C]. cbn. intros; lia.
Qed.

Lemma mk_subs_length c n l : length (mk_subs c n l) = length l.
Proof. revert n. induction l; intros; cbn; auto. Qed.

Lemma nth_error_snoc_old {A} (l : list A) x k v : nth_error l k = Some v -> nth_error (l ++ [x]) k = Some v.
Proof. intros H. rewrite nth_error_app1; [assumption|]. apply nth_error_Some. congruence. Qed.

Lemma accept_inv s c rest l : Inv s -> (length (processing s) < maxreq s)%nat ->
  Inv (accept_state s c rest l).
Proof.
  intros H Ecap. destruct (mk_subs_ids c (next_id s) l) as (Hlen & Hnd & Hrange).
  unfold accept_state, accept_coll, accept_subs. cbv zeta.
  set (subs := mk_subs c (next_id s) l) in *. set (ids := map s_id subs) in *.
  assert (Hslen : length subs = length ids) by (unfold ids; rewrite map_length; reflexivity).
  inv_split H.
  assert (Hfresh : forall i, In i ids -> ~ In i (g_ans s)).
  { intros i Hi Ha. rewrite Forall_forall in Hrange, Hans. apply Hrange in Hi. apply Hans in Ha. lia. }
  assert (Hseqlt : forall rc, In rc (processing s) -> (k_seq rc < length (g_acc s))%nat).
  { intros rc Hrc. rewrite Forall_forall in Hcoll. destruct (Hcoll rc Hrc) as (_ & _ & _ & c0 & Hn & _).
    apply nth_error_Some. congruence. }
  constructor; cbn.
  - assumption.
  - apply Forall_app. split.
    + eapply Forall_impl; [|exact Hcoll]. intros rc (A & B & C & c0 & D & E).
      unfold coll_ok. cbn. split; [exact A|]. split; [eapply Forall_impl; [|exact B]; cbn; intros; lia|].
      split; [exact C|]. exists c0. split; [apply nth_error_snoc_old; exact D|exact E].
    + constructor; [|constructor]. unfold coll_ok. cbn. split; [exact Hnd|].
      split; [eapply Forall_impl; [|exact Hrange]; cbn; intros; lia|].
      split; [rewrite unans_fresh by exact Hfresh; reflexivity|].
      exists c. split; [|unfold same_cmd; auto].
      rewrite nth_error_app2 by lia. rewrite Nat.sub_diag. reflexivity.
  - apply Forall_app. split.
    + eapply Forall_impl; [|exact Hpend]. cbn. intros q [A B]. split; [lia|exact B].
    + rewrite Forall_forall. intros q Hq.
      assert (Hi : In (s_id q) ids) by (apply in_map; exact Hq).
      split; [rewrite Forall_forall in Hrange; apply Hrange in Hi; lia|].
      apply has_id_false. apply Hfresh. exact Hi.
  - eapply Forall_impl; [|exact Hans]. cbn. intros; lia.
  - assumption.
  - rewrite map_app. cbn. apply nodup_snoc; [assumption|].
    intros Hin. apply in_map_iff in Hin as (rc & E & Hrc). apply Hseqlt in Hrc. lia.
  - intros rc Hrc. apply in_app_iff in Hrc as [Hrc|[<-|[]]]; [auto|]. cbn.
    intros Hin. apply in_map_iff in Hin as (d & E & Hd).
    rewrite Forall_forall in Hdone. destruct (Hdone d Hd) as (c0 & ids0 & A & _).
    assert (fst d < length (g_acc s))%nat by (apply nth_error_Some; congruence). lia.
  - assumption.
  - eapply Forall_impl; [|exact Hdone]. intros d (c0 & ids0 & A & B & D).
    exists c0, ids0. cbn. split; [apply nth_error_snoc_old; exact A|auto].
  - rewrite app_length. cbn. lia.
  - rewrite map_app, concat_app. cbn. rewrite app_nil_r. apply nodup_app_intro; auto.
    intros x Hx Hi. rewrite Forall_forall in Haccfr, Hrange. apply Haccfr in Hx. apply Hrange in Hi. lia.
  - rewrite map_app, concat_app. cbn. rewrite app_nil_r. apply Forall_app. split.
    + eapply Forall_impl; [|exact Haccfr]. cbn. intros; lia.
    + eapply Forall_impl; [|exact Hrange]. cbn. intros; lia.
Qed.


Lemma parse_from_cp_inv s : Inv s -> Inv (fst (parse_from_cp s)).
Proof.
  intros H. unfold parse_from_cp.
  destruct (Nat.leb (maxreq s) (length (processing s))) eqn:Ecap; [exact H|].
  apply Nat.leb_gt in Ecap.
  destruct (cp_in s) as [|c rest] eqn:Ein; [exact H|].
  assert (Hcr : Inv (s <| crashed := true |>)) by (apply crash_inv; exact H).
  destruct (split_lines (lg s) (c_addr c) (len (c_data c))) as [l| |] eqn:Es;
    [|destruct (c_kind c); exact Hcr|destruct (c_kind c); exact Hcr].
  pose proof (accept_inv s c rest l H Ecap) as Hgoal.
  assert (Hfin : Inv (fst (if k_count (accept_coll s c l) =? 0
                           then (finish (accept_state s c rest l) (accept_coll s c l), true)
                           else (accept_state s c rest l, true)))).
  { destruct (k_count (accept_coll s c l) =? 0) eqn:Ez; [|exact Hgoal]. cbn [fst].
    apply finish_inv; [exact Hgoal| |apply N.eqb_eq; exact Ez].
    unfold accept_state. cbn. apply in_app_iff. right. left. reflexivity. }
  destruct (c_kind c); [exact Hfin|exact Hfin|exact Hcr].
Qed.

(** ** ticks, steps, runs *)
Lemma andthen_inv f g s :
  (forall x, Inv x -> Inv (fst (f x))) -> (forall x, Inv x -> Inv (fst (g x))) ->
  Inv s -> Inv (fst (andthen f g s)).
Proof.
  intros Hf Hg H. unfold andthen. pose proof (Hf s H) as H1. destruct (f s) as [s1 p1]. cbn in H1.
  destruct (crashed s1); [exact H1|]. pose proof (Hg s1 H1) as H2. destruct (g s1) as [s2 p2]. exact H2.
Qed.

Lemma tick_inv s : Inv s -> Inv (fst (tick s)).
Proof.
  unfold tick. apply andthen_inv; [apply send_cp_inv|]. intros x.
  apply andthen_inv; [apply send_mem_inv|]. intros y.
  apply andthen_inv; [apply parse_from_mem_inv|apply parse_from_cp_inv].
Qed.

Lemma step_inv s e : Inv s -> Inv (fst (step s e)).
Proof.
  intros H. unfold step. destruct (crashed s); [exact H|]. destruct e.
  - destruct (room CP_CAP (cp_in s)); [|exact H]. inv_split H; constructor; cbn; auto.
  - destruct (room MEM_CAP (mem_in s)); [|exact H]. inv_split H; constructor; cbn; auto.
  - pose proof (tick_inv s H) as Ht. destruct (tick s) as [s' p]. destruct (crashed s'); exact Ht.
  - destruct (cp_out s) as [|c r] eqn:E; [exact H|]. inv_split H; constructor; cbn; auto.
    rewrite <- Hflow, E. rewrite <- !app_assoc. reflexivity.
  - destruct (mem_out s) as [|c r] eqn:E; [exact H|]. inv_split H; constructor; cbn; auto.
Qed.

Lemma run_inv evs : forall s, Inv s -> Inv (run s evs).
Proof.
  induction evs as [|e r IH]; intros s H; [exact H|]. cbn. apply IH. apply step_inv. exact H.
Qed.

(** maxRequestCount is configuration: no transition changes it. *)
Lemma andthen_cfg f g s :
  (forall x, maxreq (fst (f x)) = maxreq x /\ lg (fst (f x)) = lg x) ->
  (forall x, maxreq (fst (g x)) = maxreq x /\ lg (fst (g x)) = lg x) ->
  maxreq (fst (andthen f g s)) = maxreq s /\ lg (fst (andthen f g s)) = lg s.
Proof.
  intros Hf Hg. unfold andthen. pose proof (Hf s) as H1. destruct (f s) as [s1 p1]. cbn in H1.
  destruct (crashed s1); [exact H1|]. pose proof (Hg s1) as H2. destruct (g s1) as [s2 p2]. cbn in *.
  destruct H1, H2. split; congruence.
Qed.

Lemma tick_cfg s : maxreq (fst (tick s)) = maxreq s /\ lg (fst (tick s)) = lg s.
Proof.
  unfold tick. apply andthen_cfg.
  { intros x. unfold send_cp. destruct (to_cp x); [auto|]. destruct (room CP_CAP (cp_out x)); auto. }
  intros x. apply andthen_cfg.
  { intros y. unfold send_mem. destruct (to_mem y); [auto|]. destruct (room MEM_CAP (mem_out y)); auto. }
  intros y. apply andthen_cfg.
  - intros z. unfold parse_from_mem. destruct (mem_in z); [auto|]. cbv zeta.
    destruct (r_kind r); cbn; auto.
    + destruct (find_pending _ _); cbn; auto. destruct (s_write s0); cbn; auto.
      destruct (last_match _ _); cbn; auto. destruct (c_kind (k_sup c)); cbn; auto.
      destruct (_ <? _); cbn; auto. destruct (k_count c =? 0); cbn; auto.
    + destruct (find_pending _ _); cbn; auto. destruct (last_match _ _); cbn; auto.
      destruct (k_count c =? 0); cbn; auto. destruct (c_kind (k_sup c)); cbn; auto.
  - intros z. unfold parse_from_cp. destruct (Nat.leb _ _); [auto|]. destruct (cp_in z); [auto|].
    destruct (c_kind c); cbn; auto; destruct (split_lines _ _ _); cbn; auto;
      match goal with |- context [if ?b then _ else _] => destruct b; cbn; auto end.
Qed.

Lemma step_cfg s e : maxreq (fst (step s e)) = maxreq s /\ lg (fst (step s e)) = lg s.
Proof.
  unfold step. destruct (crashed s); [auto|]. destruct e.
  - destruct (room CP_CAP (cp_in s)); auto.
  - destruct (room MEM_CAP (mem_in s)); auto.
  - pose proof (tick_cfg s). destruct (tick s) as [s' p]. destruct (crashed s'); auto.
  - destruct (cp_out s); auto.
  - destruct (mem_out s); auto.
Qed.

Lemma run_cfg evs : forall s, maxreq (run s evs) = maxreq s /\ lg (run s evs) = lg s.
Proof.
  induction evs as [|e r IH]; intros s; [auto|].
  change (run s (e :: r)) with (run (fst (step s e)) r). destruct (IH (fst (step s e))) as [A B].
  destruct (step_cfg s e) as [C D]. split; congruence.
Qed.
