(** Executable model of the code-object loader of amd/insts/hsaco.go
    (loadKernelCodeObjectFromELF and everything it calls).  The model starts
    AFTER Go's debug/elf (trusted): its input is the abstract view of an ELF
    file that debug/elf hands to the loader -- the section list (name, address,
    contents; index = ELF section index, entry 0 is the null section) and the
    symbol table returned by [File.Symbols] (absent when there is no .symtab).
    Definitions only; proofs are in HsacoProofs.v.

    Go quirks transcribed on purpose: uint64 / uint16 wrap-around, the slice
    expressions that panic, log.Fatal (the process exits), the [break] after the
    first size-64 [.kd] symbol, first-match lookups. *)
From Coq Require Import NArith List String Bool Uint63 ZArith.
From RecordUpdate Require Import RecordSet.
Import ListNotations RecordSetNotations.
Open Scope N_scope.

Definition bytes := list N.

(** ------------------------------------------------------------------ input *)
Record section := mkSec { s_name : string; s_addr : N; s_data : bytes }.
(** elf.Symbol: Name, Info, Other, Section, Value, Size *)
Record symbol := mkSym { y_name : string; y_info : N; y_other : N; y_shndx : N;
                         y_value : N; y_size : N }.
Record view := mkView { v_secs : list section; v_syms : option (list symbol) }.

(** ----------------------------------------------------------------- output *)
Record kmeta := mkMeta {
  rsrc1 : N; rsrc2 : N; rsrc3 : N;
  kernarg_size : N; group_size : N; private_size : N;
  entry_off : N;
  en_private_segment_buffer : bool; en_dispatch_ptr : bool; en_queue_ptr : bool;
  en_kernarg_segment_ptr : bool; en_dispatch_id : bool; en_flat_scratch_init : bool;
  en_private_segment_size : bool; en_grid_wg_count_x : bool; en_grid_wg_count_y : bool;
  en_grid_wg_count_z : bool;
  code_version_major : N; code_version_minor : N;
  machine_kind : N; machine_version_major : N; machine_version_minor : N;
  machine_version_stepping : N;
  wf_sgpr_count : N; wi_vgpr_count : N
}.
#[export] Instance eta_kmeta : Settable _ := settable! mkMeta
  <rsrc1; rsrc2; rsrc3; kernarg_size; group_size; private_size; entry_off;
   en_private_segment_buffer; en_dispatch_ptr; en_queue_ptr; en_kernarg_segment_ptr;
   en_dispatch_id; en_flat_scratch_init; en_private_segment_size; en_grid_wg_count_x;
   en_grid_wg_count_y; en_grid_wg_count_z; code_version_major; code_version_minor;
   machine_kind; machine_version_major; machine_version_minor; machine_version_stepping;
   wf_sgpr_count; wi_vgpr_count>.

(** new(KernelCodeObjectMeta) *)
Definition zero_meta : kmeta :=
  mkMeta 0 0 0 0 0 0 0 false false false false false false false false false false
         0 0 0 0 0 0 0 0.

Record kobj := mkObj { o_version : N; o_data : bytes; o_sym : option symbol; o_meta : kmeta }.

(** What a call of the loader ends in.  [Fatal]: log.Fatal (1 = no .text
    section, 2 = several kernels and no name given, 3 = kernel not found);
    [Panic]: a Go run-time panic (slice bounds). *)
Inductive outcome := Fatal (why : N) | Panic | Loaded (o : kobj).

(** ------------------------------------------------------- machine integers *)
Definition w16 (x : N) : N := x mod 65536.
Definition w64 (x : N) : N := x mod 18446744073709551616.
(** a - b on uint64 (a, b < 2^64) *)
Definition sub64 (a b : N) : N := w64 (a + 18446744073709551616 - w64 b).

Fixpoint lenN_from {A} (acc : N) (l : list A) : N :=
  match l with [] => acc | _ :: r => lenN_from (N.succ acc) r end.
Definition lenN {A} (l : list A) : N := lenN_from 0 l.

(** Go [d[a:b]] for uint64 a, b on a slice whose capacity equals its length:
    panics unless a <= b <= len d. *)
Definition slice (d : bytes) (a b : N) : option bytes :=
  if (a <=? b) && (b <=? lenN d)
  then Some (firstn (N.to_nat (b - a)) (skipn (N.to_nat a) d))
  else None.

(** binary.LittleEndian.UintNN(d[off:off+n]) *)
Fixpoint le_list (l : bytes) : N :=
  match l with [] => 0 | b :: r => b + 256 * le_list r end.
Definition le (d : bytes) (off n : nat) : N := le_list (firstn n (skipn off d)).

(** (x & (1<<k)) != 0 *)
Definition bit_set (x : N) (k : N) : bool := negb (N.land x (N.shiftl 1 k) =? 0).

(** extractBits(number, lo, hi) of disassembler.go *)
Definition extract_bits (x lo hi : N) : N :=
  N.shiftr (N.land x (N.shiftl (N.shiftl 1 (hi - lo + 1) - 1) lo)) lo.

(** ---------------------------------------------------------- isV2V3Header *)
Definition is_v2v3_header (d : bytes) : bool :=
  if lenN d <? 256 then false else
  let major := le d 0 4 in
  let minor := le d 4 4 in
  let kind := le d 8 2 in
  if negb (major =? 1) || (2 <? minor) || negb (kind =? 1) then false else
  let mvm := le d 10 2 in
  if (mvm <? 7) || (9 <? mvm) then false else
  let entry := le d 16 8 in
  if negb (entry =? 256) then false else true.

(** -------------------------------------------------------- parseV2V3Header *)
Definition parse_hdr (d : bytes) : kmeta :=
  let flags := le d 56 4 in
  {| code_version_major := le d 0 4;
     code_version_minor := le d 4 4;
     machine_kind := le d 8 2;
     machine_version_major := le d 10 2;
     machine_version_minor := le d 12 2;
     machine_version_stepping := le d 14 2;
     entry_off := le d 16 8;
     rsrc1 := le d 48 4;
     rsrc2 := le d 52 4;
     rsrc3 := 0;
     en_private_segment_buffer := bit_set flags 0;
     en_dispatch_ptr := bit_set flags 1;
     en_queue_ptr := bit_set flags 2;
     en_kernarg_segment_ptr := bit_set flags 3;
     en_dispatch_id := bit_set flags 4;
     en_flat_scratch_init := bit_set flags 5;
     en_private_segment_size := bit_set flags 6;
     en_grid_wg_count_x := bit_set flags 7;
     en_grid_wg_count_y := bit_set flags 8;
     en_grid_wg_count_z := bit_set flags 9;
     private_size := le d 60 4;
     group_size := le d 64 4;
     kernarg_size := le d 72 8;
     wf_sgpr_count := le d 84 2;
     wi_vgpr_count := le d 86 2 |}.

(** ------------------------------------------------- parseV5KernelDescriptor *)
(** the rewriting of compute_pgm_rsrc2 *)
Definition fix_rsrc2 (kernarg_ptr : bool) (r : N) : N :=
  let r := N.ldiff r 1 in                                     (* rsrc2 &^= 1 *)
  let r := if kernarg_ptr
           then N.lor (N.ldiff r (N.shiftl 31 1)) (N.shiftl 2 1)   (* user_sgpr_count = 2 *)
           else r in
  let r := N.lor r (N.shiftl 1 7) in
  let r := N.lor r (N.shiftl 1 8) in
  if N.land (N.shiftr r 11) 3 =? 0
  then N.lor (N.ldiff r (N.shiftl 3 11)) (N.shiftl 1 11)
  else r.

Definition parse_kd (d : bytes) : kmeta :=
  let r1 := le d 48 4 in
  let ka := le d 8 4 in
  let kptr := 0 <? ka in
  {| group_size := le d 0 4;
     private_size := le d 4 4;
     kernarg_size := ka;
     entry_off := le d 16 8;
     rsrc3 := le d 44 4;
     rsrc1 := r1;
     rsrc2 := fix_rsrc2 kptr (le d 52 4);
     wi_vgpr_count := w16 ((extract_bits r1 0 5 + 1) * 4);
     wf_sgpr_count := w16 ((extract_bits r1 6 9 + 1) * 8);
     en_private_segment_buffer := false;
     en_kernarg_segment_ptr := kptr;
     en_dispatch_ptr := false;
     en_queue_ptr := false;
     en_dispatch_id := false;
     en_flat_scratch_init := false;
     en_private_segment_size := false;
     en_grid_wg_count_x := false;
     en_grid_wg_count_y := false;
     en_grid_wg_count_z := false;
     code_version_major := 0; code_version_minor := 0; machine_kind := 0;
     machine_version_major := 0; machine_version_minor := 0; machine_version_stepping := 0 |}.

(** ------------------------------- newKernelCodeObjectFromEntireTextSection *)
Definition from_entire (d : bytes) (y : option symbol) : kobj :=
  if (256 <=? lenN d) && is_v2v3_header d
  then mkObj 3 (skipn 256 d) y (parse_hdr d <| entry_off := 0 |>)
  else mkObj 5 d y zero_meta.

(** ------------------------------------------- overrideRegisterCountsFromSymbols *)
Definition sgpr_sym (name : string) : string := (name ++ ".numbered_sgpr")%string.
Definition vgpr_sym (name : string) : string := (name ++ ".num_vgpr")%string.
Definition kd_sym (name : string) : string := (name ++ ".kd")%string.

(** uint16(sym.Value)+2 rounded up to a multiple of 8, all in uint16 *)
Definition sgpr_of_value (v : N) : N := w16 (w16 (w16 (w16 v + 2) + 7) / 8 * 8).
Definition vgpr_of_value (v : N) : N := w16 (w16 (w16 v + 3) / 4 * 4).

Definition override_step (name : string) (m : kmeta) (y : symbol) : kmeta :=
  if String.eqb (y_name y) (sgpr_sym name) then
    let c := sgpr_of_value (y_value y) in
    if wf_sgpr_count m <? c then m <| wf_sgpr_count := c |> else m
  else if String.eqb (y_name y) (vgpr_sym name) then
    let c := vgpr_of_value (y_value y) in
    if wi_vgpr_count m <? c then m <| wi_vgpr_count := c |> else m
  else m.

Definition override (name : string) (syms : list symbol) (m : kmeta) : kmeta :=
  fold_left (override_step name) syms m.

(** ------------------------------------------------ findV5KernelDescriptor *)
Definition find_section (name : string) (secs : list section) : option section :=
  find (fun s => String.eqb (s_name s) name) secs.

Inductive kd_result := KdNone | KdPanic | KdMeta (m : kmeta).

Definition is_kd_sym (name : string) (y : symbol) : bool :=
  String.eqb (y_name y) (kd_sym name) && (y_size y =? 64).

(** what happens with the first symbol called <name>.kd of size 64 *)
Definition kd_of_symbol (secs : list section) (ro : section) (y : symbol) : kd_result :=
  match nth_error secs (N.to_nat (y_shndx y)) with
  | None => KdNone
  | Some sec =>
    if String.eqb (s_name sec) ".rodata" then
      let off := sub64 (y_value y) (s_addr ro) in
      let hi := w64 (off + 64) in
      if hi <=? lenN (s_data ro) then
        match slice (s_data ro) off hi with
        | Some d => KdMeta (parse_kd d)
        | None => KdPanic
        end
      else KdNone
    else KdNone
  end.

Definition find_kd (name : string) (syms : list symbol) (secs : list section)
           (rodata : option section) : kd_result :=
  match rodata with
  | None => KdNone
  | Some ro =>
    match find (is_kd_sym name) syms with
    | None => KdNone
    | Some y => kd_of_symbol secs ro y
    end
  end.

(** ------------------------------------------- loadKernelCodeObjectFromELF *)
Definition is_kernel_sym (secs : list section) (y : symbol) : bool :=
  if y_shndx y =? 0 then false else
  match nth_error secs (N.to_nat (y_shndx y)) with
  | None => false
  | Some sec => String.eqb (s_name sec) ".text" && (0 <? y_size y)
  end.

Definition has_name (name : string) (y : symbol) : bool := String.eqb (y_name y) name.

Definition load_symbol (secs : list section) (text : section) (rodata : option section)
           (syms : list symbol) (name : string) (y : symbol) : outcome :=
  let off := sub64 (y_value y) (s_addr text) in
  match slice (s_data text) off (w64 (off + y_size y)) with
  | None => Panic
  | Some kdata =>
    match find_kd name syms secs rodata with
    | KdPanic => Panic
    | KdMeta m => Loaded (mkObj 5 kdata (Some y) (override name syms m))
    | KdNone => Loaded (from_entire kdata (Some y))
    end
  end.

Definition load_named (secs : list section) (text : section) (rodata : option section)
           (syms : list symbol) (name : string) : outcome :=
  match find (has_name name) (filter (is_kernel_sym secs) syms) with
  | None => Fatal 3
  | Some y => load_symbol secs text rodata syms name y
  end.

Definition load (v : view) (name : string) : outcome :=
  match find_section ".text" (v_secs v) with
  | None => Fatal 1
  | Some text =>
    let rodata := find_section ".rodata" (v_secs v) in
    match v_syms v with
    | None => Loaded (from_entire (s_data text) None)
    | Some syms =>
      if String.eqb name "" then
        match filter (is_kernel_sym (v_secs v)) syms with
        | [] => Loaded (from_entire (s_data text) None)
        | [k] => load_named (v_secs v) text rodata syms (y_name k)
        | _ => Fatal 2
        end
      else load_named (v_secs v) text rodata syms name
    end
  end.

(** --------------------------------------------------- correspondence check *)
(** byte strings are written by the harness as 7 little-endian bytes per
    primitive integer (fast to parse) plus the total length *)
Fixpoint unpack_word (k : nat) (w : N) : bytes :=
  match k with O => [] | S k => (w mod 256) :: unpack_word k (w / 256) end.
Definition unpack (p : N * list int) : bytes :=
  firstn (N.to_nat (fst p)) (flat_map (fun w => unpack_word 7 (Z.to_N (Uint63.to_Z w))) (snd p)).

Definition sec (name : string) (addr : N) (p : N * list int) : section := mkSec name addr (unpack p).

Inductive obs :=
| OFatal (why : N) | OPanic
| OLoaded (version : N) (data : N * list int) (sym : option symbol) (m : kmeta).

Record case := mkCase { c_secs : list section; c_syms : option (list symbol);
                        c_queries : list (string * obs) }.

Fixpoint bytes_eqb (a b : bytes) : bool :=
  match a, b with
  | [], [] => true
  | x :: a, y :: b => (x =? y) && bytes_eqb a b
  | _, _ => false
  end.

Definition sym_eqb (a b : symbol) : bool :=
  String.eqb (y_name a) (y_name b) && (y_info a =? y_info b) && (y_other a =? y_other b) &&
  (y_shndx a =? y_shndx b) && (y_value a =? y_value b) && (y_size a =? y_size b).

Definition osym_eqb (a b : option symbol) : bool :=
  match a, b with None, None => true | Some a, Some b => sym_eqb a b | _, _ => false end.

(** first differing field (codes 10..34), or None *)
Definition meta_diff (a b : kmeta) : option nat :=
  let n f k := if f a =? f b then None else Some k in
  let bl (f : kmeta -> bool) k := if Bool.eqb (f a) (f b) then None else Some k in
  let fix first (l : list (option nat)) := match l with [] => None | Some k :: _ => Some k | None :: r => first r end in
  first [n rsrc1 10; n rsrc2 11; n rsrc3 12; n kernarg_size 13; n group_size 14; n private_size 15;
         n entry_off 16; bl en_private_segment_buffer 17; bl en_dispatch_ptr 18; bl en_queue_ptr 19;
         bl en_kernarg_segment_ptr 20; bl en_dispatch_id 21; bl en_flat_scratch_init 22;
         bl en_private_segment_size 23; bl en_grid_wg_count_x 24; bl en_grid_wg_count_y 25;
         bl en_grid_wg_count_z 26; n code_version_major 27; n code_version_minor 28; n machine_kind 29;
         n machine_version_major 30; n machine_version_minor 31; n machine_version_stepping 32;
         n wf_sgpr_count 33; n wi_vgpr_count 34]%nat.

(** 1 = outcome class differs, 2 = fatal reason, 3 = version, 4 = data bytes,
    5 = symbol, 10.. = metadata field *)
Definition obs_diff (o : outcome) (e : obs) : option nat :=
  match o, e with
  | Fatal a, OFatal b => if a =? b then None else Some 2%nat
  | Panic, OPanic => None
  | Loaded k, OLoaded ver data sy m =>
    if negb (o_version k =? ver) then Some 3%nat
    else if negb (bytes_eqb (o_data k) (unpack data)) then Some 4%nat
    else if negb (osym_eqb (o_sym k) sy) then Some 5%nat
    else meta_diff (o_meta k) m
  | _, _ => Some 1%nat
  end.

Definition check_case (c : case) : option nat :=
  let v := mkView (c_secs c) (c_syms c) in
  let fix go (i : nat) (qs : list (string * obs)) :=
    match qs with
    | [] => None
    | (name, e) :: r =>
      match obs_diff (load v name) e with
      | Some k => Some (100 * i + k)%nat
      | None => go (S i) r
      end
    end in
  go O (c_queries c).

(** printed in N_scope as plain [(case, detail)] pairs *)
Fixpoint mismatches_from (i : N) (cs : list case) : list (N * N) :=
  match cs with
  | [] => []
  | c :: r => match check_case c with
              | None => mismatches_from (N.succ i) r
              | Some k => (i, N.of_nat k) :: mismatches_from (N.succ i) r
              end
  end.
Definition mismatches := mismatches_from 0.
