(** Proofs about the loader model (Hsaco.v) against the specification-side
    definitions (HsacoSpec.v). *)
From Coq Require Import PeanoNat NArith List String Bool Lia ZifyN ZifyNat ZifyBool Permutation.
From RecordUpdate Require Import RecordSet.
From VHsaco Require Import Hsaco HsacoSpec.
Import ListNotations RecordSetNotations.
Open Scope N_scope.

(** ------------------------------------------------------------ list facts *)
Lemma find_filter_and {A} (p q : A -> bool) l :
  find p (filter q l) = find (fun y => q y && p y) l.
Proof.
  induction l as [|a l IH]; simpl; [reflexivity|].
  destruct (q a); simpl; [destruct (p a); auto|auto].
Qed.

Lemma find_filter_irrel {A} (g r : A -> bool) l :
  (forall y, g y = true -> r y = true) -> find g (filter r l) = find g l.
Proof.
  intros H; induction l as [|a l IH]; simpl; [reflexivity|].
  destruct (r a) eqn:Hr; simpl.
  - destruct (g a); auto.
  - destruct (g a) eqn:Hg; auto. apply H in Hg. congruence.
Qed.

Lemma fold_left_filter_irrel {A B} (f : B -> A -> B) (r : A -> bool) l :
  (forall m y, r y = false -> f m y = m) ->
  forall m, fold_left f (filter r l) m = fold_left f l m.
Proof.
  intros H; induction l as [|a l IH]; simpl; intros m; [reflexivity|].
  destruct (r a) eqn:Hr; simpl; [apply IH|]. rewrite H by assumption. apply IH.
Qed.

Lemma find_ext {A} (f g : A -> bool) l : (forall x, f x = g x) -> find f l = find g l.
Proof. intros H; induction l; simpl; [reflexivity|]. rewrite H, IHl. reflexivity. Qed.

Lemma find_perm {A B} (f : A -> B) (g : A -> bool) l l' :
  Permutation l l' -> NoDup (map f l) ->
  (forall x y, g x = true -> g y = true -> f x = f y) ->
  find g l = find g l'.
Proof.
  intros HP; induction HP; intros Hn Hg.
  - reflexivity.
  - simpl. destruct (g x); [reflexivity|]. apply IHHP; auto. inversion Hn; auto.
  - simpl. destruct (g y) eqn:Gy, (g x) eqn:Gx; try reflexivity.
    exfalso. inversion Hn as [|? ? Hnin _]; subst. apply Hnin. simpl. left. apply Hg; auto.
  - rewrite IHHP1 by auto. apply IHHP2; auto.
    eapply Permutation_NoDup; [apply Permutation_map; eassumption|assumption].
Qed.

Lemma fold_left_perm {A B} (f : B -> A -> B) l l' :
  (forall m x y, f (f m x) y = f (f m y) x) ->
  Permutation l l' -> forall m, fold_left f l m = fold_left f l' m.
Proof.
  intros Hc HP; induction HP; intros m; simpl; auto.
  - rewrite Hc. reflexivity.
  - rewrite IHHP1. apply IHHP2.
Qed.

Lemma lenN_from_spec {A} (l : list A) : forall acc, lenN_from acc l = acc + N.of_nat (List.length l).
Proof. induction l; intros acc; simpl lenN_from; [simpl; lia|]. rewrite IHl. simpl List.length. lia. Qed.

Lemma lenN_spec {A} (l : list A) : lenN l = N.of_nat (List.length l).
Proof. unfold lenN. rewrite lenN_from_spec. lia. Qed.

(** --------------------------------- independence from unrelated symbols *)
Lemma kernel_find_relevant secs name syms :
  find (has_name name) (filter (is_kernel_sym secs) (filter (relevant name) syms)) =
  find (has_name name) (filter (is_kernel_sym secs) syms).
Proof.
  rewrite !find_filter_and. apply find_ext. intros y.
  destruct (has_name name y) eqn:H.
  - unfold has_name in H. unfold relevant. rewrite H. reflexivity.
  - rewrite !andb_false_r. reflexivity.
Qed.

Lemma kd_find_relevant name syms :
  find (is_kd_sym name) (filter (relevant name) syms) = find (is_kd_sym name) syms.
Proof.
  apply find_filter_irrel. intros y H. unfold is_kd_sym in H. apply andb_true_iff in H as [H _].
  unfold relevant. rewrite H. rewrite !orb_true_r. reflexivity.
Qed.

Lemma override_relevant name syms m :
  override name (filter (relevant name) syms) m = override name syms m.
Proof.
  unfold override. apply fold_left_filter_irrel. intros m' y H. unfold relevant in H.
  apply orb_false_iff in H as [H Hv]. apply orb_false_iff in H as [H Hs].
  unfold override_step. rewrite Hs, Hv. reflexivity.
Qed.

Lemma find_kd_relevant name syms secs ro :
  find_kd name (filter (relevant name) syms) secs ro = find_kd name syms secs ro.
Proof. unfold find_kd. destruct ro; [|reflexivity]. rewrite kd_find_relevant. reflexivity. Qed.

Lemma load_named_relevant secs text ro syms name :
  load_named secs text ro (filter (relevant name) syms) name = load_named secs text ro syms name.
Proof.
  unfold load_named. rewrite kernel_find_relevant.
  destruct (find _ _); [|reflexivity]. unfold load_symbol.
  rewrite find_kd_relevant. destruct (slice _ _ _); [|reflexivity].
  destruct (find_kd _ _ _ _); try reflexivity. rewrite override_relevant. reflexivity.
Qed.

Lemma load_explicit secs syms name :
  name <> ""%string ->
  load (mkView secs (Some syms)) name =
  match find_section ".text" secs with
  | None => Fatal 1
  | Some text => load_named secs text (find_section ".rodata" secs) syms name
  end.
Proof.
  intros Hn. unfold load. simpl. destruct (find_section ".text" secs); [|reflexivity].
  destruct (String.eqb_spec name ""); [contradiction|reflexivity].
Qed.

Lemma load_same_relevant secs l1 l2 name :
  name <> ""%string ->
  filter (relevant name) l1 = filter (relevant name) l2 ->
  load (mkView secs (Some l1)) name = load (mkView secs (Some l2)) name.
Proof.
  intros Hn H. rewrite !load_explicit by assumption.
  destruct (find_section ".text" secs); [|reflexivity].
  rewrite <- (load_named_relevant _ _ _ l1), <- (load_named_relevant _ _ _ l2), H. reflexivity.
Qed.

(** the override steps commute (they are maxima on two different fields) *)
Lemma override_step_comm name m x y :
  override_step name (override_step name m x) y = override_step name (override_step name m y) x.
Proof.
  unfold override_step.
  destruct (String.eqb (y_name x) (sgpr_sym name)), (String.eqb (y_name y) (sgpr_sym name)),
           (String.eqb (y_name x) (vgpr_sym name)), (String.eqb (y_name y) (vgpr_sym name));
    try reflexivity;
    repeat match goal with
           | |- context [wf_sgpr_count m <? ?b] => destruct (N.ltb_spec (wf_sgpr_count m) b)
           | |- context [wi_vgpr_count m <? ?b] => destruct (N.ltb_spec (wi_vgpr_count m) b)
           end;
    unfold set; cbn;
    repeat (match goal with
            | |- context [?a <? ?b] => destruct (N.ltb_spec a b)
            end; cbn);
    try reflexivity; try (f_equal; lia); try lia.
Qed.

Lemma load_named_perm secs text ro l1 l2 name :
  Permutation l1 l2 -> NoDup (map y_name l1) ->
  load_named secs text ro l1 name = load_named secs text ro l2 name.
Proof.
  intros HP Hn. unfold load_named. rewrite !find_filter_and.
  rewrite (find_perm y_name _ l1 l2 HP Hn).
  2:{ intros x y Hx Hy. apply andb_true_iff in Hx as [_ Hx]. apply andb_true_iff in Hy as [_ Hy].
      unfold has_name in *. apply String.eqb_eq in Hx, Hy. congruence. }
  destruct (find _ l2); [|reflexivity]. unfold load_symbol.
  assert (Hk : find_kd name l1 secs ro = find_kd name l2 secs ro).
  { unfold find_kd. destruct ro; [|reflexivity].
    rewrite (find_perm y_name _ l1 l2 HP Hn); [reflexivity|].
    intros x y Hx Hy. unfold is_kd_sym in *. apply andb_true_iff in Hx as [Hx _].
    apply andb_true_iff in Hy as [Hy _]. apply String.eqb_eq in Hx, Hy. congruence. }
  rewrite Hk. destruct (slice _ _ _); [|reflexivity].
  destruct (find_kd name l2 secs ro); try reflexivity.
  unfold override. rewrite (fold_left_perm _ l1 l2 (override_step_comm name) HP). reflexivity.
Qed.

Lemma load_perm_relevant secs l1 l2 name :
  name <> ""%string ->
  Permutation (filter (relevant name) l1) (filter (relevant name) l2) ->
  NoDup (map y_name (filter (relevant name) l1)) ->
  load (mkView secs (Some l1)) name = load (mkView secs (Some l2)) name.
Proof.
  intros Hn HP Hd. rewrite !load_explicit by assumption.
  destruct (find_section ".text" secs); [|reflexivity].
  rewrite <- (load_named_relevant _ _ _ l1), <- (load_named_relevant _ _ _ l2).
  apply load_named_perm; assumption.
Qed.

(** ------------------------------------------- what the loader reads of sections *)
Lemma names_nth (secs secs' : list section) i :
  map s_name secs = map s_name secs' ->
  option_map s_name (nth_error secs i) = option_map s_name (nth_error secs' i).
Proof. intros H. rewrite <- !nth_error_map, H. reflexivity. Qed.

Lemma is_kernel_sym_names secs secs' y :
  map s_name secs = map s_name secs' -> is_kernel_sym secs y = is_kernel_sym secs' y.
Proof.
  intros H. unfold is_kernel_sym. destruct (y_shndx y =? 0); [reflexivity|].
  pose proof (names_nth secs secs' (N.to_nat (y_shndx y)) H) as E.
  destruct (nth_error secs _), (nth_error secs' _); simpl in E; try discriminate; [|reflexivity].
  injection E as E. rewrite E. reflexivity.
Qed.

Lemma filter_kernel_names secs secs' syms :
  map s_name secs = map s_name secs' ->
  filter (is_kernel_sym secs) syms = filter (is_kernel_sym secs') syms.
Proof. intros H. apply filter_ext. intros y. apply is_kernel_sym_names, H. Qed.

Lemma kd_of_symbol_names secs secs' ro y :
  map s_name secs = map s_name secs' -> kd_of_symbol secs ro y = kd_of_symbol secs' ro y.
Proof.
  intros H. unfold kd_of_symbol.
  pose proof (names_nth secs secs' (N.to_nat (y_shndx y)) H) as E.
  destruct (nth_error secs _), (nth_error secs' _); simpl in E; try discriminate; [|reflexivity].
  injection E as E. rewrite E. reflexivity.
Qed.

Lemma load_named_names secs secs' text ro syms name :
  map s_name secs = map s_name secs' ->
  load_named secs text ro syms name = load_named secs' text ro syms name.
Proof.
  intros H. unfold load_named. rewrite (filter_kernel_names secs secs' syms H).
  destruct (find _ _); [|reflexivity]. unfold load_symbol, find_kd.
  destruct ro; [|reflexivity]. destruct (find (is_kd_sym name) syms); [|reflexivity].
  rewrite (kd_of_symbol_names secs secs' _ _ H). reflexivity.
Qed.

Lemma load_names_same secs secs' sy name :
  map s_name secs = map s_name secs' ->
  find_section ".text" secs = find_section ".text" secs' ->
  find_section ".rodata" secs = find_section ".rodata" secs' ->
  load (mkView secs sy) name = load (mkView secs' sy) name.
Proof.
  intros H Ht Hr. unfold load. cbn [v_secs v_syms]. rewrite Ht, Hr.
  destruct (find_section ".text" secs'); [|reflexivity]. destruct sy; [|reflexivity].
  rewrite (filter_kernel_names secs secs' _ H).
  destruct (String.eqb name ""); [|apply load_named_names, H].
  destruct (filter _ _) as [|k [|]]; try reflexivity. apply load_named_names, H.
Qed.

Lemma sec_same_names secs secs' : Forall2 sec_same secs secs' -> map s_name secs = map s_name secs'.
Proof. induction 1 as [|s s' l l' [Hn _] _ IH]; simpl; [reflexivity|]. rewrite Hn, IH. reflexivity. Qed.

Lemma sec_same_find n secs secs' :
  n = ".text"%string \/ n = ".rodata"%string ->
  Forall2 sec_same secs secs' -> find_section n secs = find_section n secs'.
Proof.
  intros Hn. induction 1 as [|s s' l l' [Hname [Haddr Hdata]] _ IH]; [reflexivity|].
  unfold find_section in *. simpl. rewrite Hname.
  destruct (String.eqb_spec (s_name s) n) as [E|E]; [|exact IH].
  destruct s, s'; simpl in *. subst. rewrite Hdata by (destruct Hn; auto). reflexivity.
Qed.

Lemma load_sec_same secs secs' sy name :
  Forall2 sec_same secs secs' -> load (mkView secs sy) name = load (mkView secs' sy) name.
Proof.
  intros H. apply load_names_same; [apply sec_same_names, H|apply sec_same_find; auto..].
Qed.

(** ------------------------------------------------- appended material *)
Lemma slice_app d e a b x : slice d a b = Some x -> slice (d ++ e) a b = Some x.
Proof.
  unfold slice. rewrite !lenN_spec, app_length.
  destruct ((a <=? b) && (b <=? N.of_nat (List.length d))) eqn:C; [|discriminate].
  apply andb_true_iff in C as [C1 C2]. apply N.leb_le in C1, C2.
  replace ((a <=? b) && (b <=? N.of_nat (List.length d + List.length e))) with true
    by (symmetry; apply andb_true_iff; split; apply N.leb_le; lia).
  intros E. injection E as E. subst x. f_equal.
  rewrite skipn_app. replace (N.to_nat a - List.length d)%nat with O by lia.
  rewrite firstn_app, skipn_length. simpl skipn.
  replace (N.to_nat (b - a) - (List.length d - N.to_nat a))%nat with O by lia.
  simpl. rewrite app_nil_r. reflexivity.
Qed.

Lemma sec_ext_names secs secs' : Forall2 sec_ext secs secs' -> map s_name secs = map s_name secs'.
Proof. induction 1 as [|s s' l l' [Hn _] _ IH]; simpl; [reflexivity|]. rewrite Hn, IH. reflexivity. Qed.

Lemma sec_ext_find n secs secs' :
  Forall2 sec_ext secs secs' ->
  match find_section n secs with
  | Some t => exists t', find_section n secs' = Some t' /\ sec_ext t t'
  | None => find_section n secs' = None
  end.
Proof.
  induction 1 as [|s s' l l' Hs _ IH]; [reflexivity|].
  unfold find_section in *. simpl. destruct Hs as [Hname Hrest]. rewrite Hname.
  destruct (String.eqb (s_name s) n); [|exact IH].
  exists s'. split; [reflexivity|]. split; auto.
Qed.

Lemma load_appended secs secs' syms name o :
  name <> ""%string ->
  Forall2 sec_ext secs secs' ->
  kd_oob (mkView secs (Some syms)) name = false ->
  load (mkView secs (Some syms)) name = Loaded o ->
  load (mkView secs' (Some syms)) name = Loaded o.
Proof.
  intros Hn HF Hoob. rewrite !load_explicit by assumption.
  pose proof (sec_ext_names _ _ HF) as Hnames.
  pose proof (sec_ext_find ".text" _ _ HF) as Ht.
  pose proof (sec_ext_find ".rodata" _ _ HF) as Hr.
  destruct (find_section ".text" secs) as [t|]; [|discriminate].
  destruct Ht as [t' [Ht' [_ [Hta [et Htd]]]]]. rewrite Ht'.
  rewrite <- (load_named_names secs secs' _ _ _ _ Hnames).
  unfold load_named. destruct (find _ _) as [y|]; [|discriminate].
  unfold load_symbol. rewrite Hta, Htd.
  destruct (slice (s_data t) _ _) as [sl|] eqn:Hs; [|discriminate].
  rewrite (slice_app _ et _ _ _ Hs).
  assert (Hk : find_kd name syms secs (find_section ".rodata" secs) = KdPanic \/
               find_kd name syms secs (find_section ".rodata" secs') =
               find_kd name syms secs (find_section ".rodata" secs)).
  { unfold kd_oob in Hoob. cbn [v_secs v_syms] in Hoob. unfold find_kd.
    destruct (find_section ".rodata" secs) as [ro|].
    - destruct Hr as [ro' [Hr' [_ [Hra [er Hrd]]]]]. rewrite Hr'.
      destruct (find (is_kd_sym name) syms) as [ky|]; [|right; reflexivity].
      unfold kd_of_symbol. destruct (nth_error secs _) as [sc|]; [|right; reflexivity].
      destruct (String.eqb (s_name sc) ".rodata"); [|right; reflexivity]. simpl in Hoob.
      apply negb_false_iff in Hoob. rewrite Hoob, Hra.
      assert (Hle : (w64 (sub64 (y_value ky) (s_addr ro) + 64) <=? lenN (s_data ro')) = true).
      { apply N.leb_le. apply N.leb_le in Hoob. rewrite Hrd, lenN_spec, app_length.
        rewrite lenN_spec in Hoob. lia. }
      rewrite Hle, Hrd. destruct (slice (s_data ro) _ _) eqn:Hs2.
      + rewrite (slice_app _ er _ _ _ Hs2). right. reflexivity.
      + left. reflexivity.
    - rewrite Hr. right. reflexivity. }
  destruct Hk as [Hk|Hk]; [rewrite Hk; discriminate|]. rewrite Hk. auto.
Qed.

(** ------------------------------------------------------- isV2V3Header *)
Lemma is_v2v3_header_spec d :
  is_v2v3_header d = true <->
  256 <= lenN d /\ le d 0 4 = 1 /\ le d 4 4 <= 2 /\ le d 8 2 = 1 /\
  7 <= le d 10 2 <= 9 /\ le d 16 8 = 256.
Proof.
  unfold is_v2v3_header.
  destruct (N.ltb_spec (lenN d) 256); [split; [discriminate|lia]|].
  destruct (N.eqb_spec (le d 0 4) 1), (N.ltb_spec 2 (le d 4 4)), (N.eqb_spec (le d 8 2) 1);
    cbn [negb orb]; try (split; [discriminate|lia]).
  destruct (N.ltb_spec (le d 10 2) 7), (N.ltb_spec 9 (le d 10 2));
    cbn [negb orb]; try (split; [discriminate|lia]).
  destruct (N.eqb_spec (le d 16 8) 256); cbn [negb]; split; try discriminate; try lia.
Qed.

Lemma from_entire_spec d y :
  from_entire d y =
  if is_v2v3_header d then mkObj 3 (skipn 256 d) y (parse_hdr d <| entry_off := 0 |>)
  else mkObj 5 d y zero_meta.
Proof.
  unfold from_entire. destruct (is_v2v3_header d) eqn:E; [|rewrite andb_false_r; reflexivity].
  apply is_v2v3_header_spec in E as [E _]. apply N.leb_le in E. rewrite E. reflexivity.
Qed.

(** ------------------------------------- what a successful load returns *)
Definition kd_found (r : kd_result) : bool := match r with KdMeta _ => true | _ => false end.

Lemma load_result secs syms name o :
  name <> ""%string ->
  load (mkView secs (Some syms)) name = Loaded o ->
  exists text y sl,
    find_section ".text" secs = Some text /\
    find (has_name name) (filter (is_kernel_sym secs) syms) = Some y /\
    slice (s_data text) (sub64 (y_value y) (s_addr text))
          (w64 (sub64 (y_value y) (s_addr text) + y_size y)) = Some sl /\
    o_sym o = Some y /\
    match find_kd name syms secs (find_section ".rodata" secs) with
    | KdMeta m => o_version o = 5 /\ o_data o = sl /\ o_meta o = override name syms m
    | _ => if is_v2v3_header sl
           then o_version o = 3 /\ o_data o = skipn 256 sl /\
                o_meta o = parse_hdr sl <| entry_off := 0 |>
           else o_version o = 5 /\ o_data o = sl /\ o_meta o = zero_meta
    end.
Proof.
  intros Hn. rewrite load_explicit by assumption.
  destruct (find_section ".text" secs) as [text|]; [|discriminate].
  unfold load_named. destruct (find _ _) as [y|]; [|discriminate].
  unfold load_symbol. destruct (slice _ _ _) as [sl|] eqn:Hs; [|discriminate].
  intros H. exists text, y, sl. repeat split; try assumption;
  destruct (find_kd _ _ _ _); try discriminate; injection H as H; subst o; cbn;
    try rewrite from_entire_spec; try destruct (is_v2v3_header sl); cbn; auto.
Qed.

(** the slice, for a symbol that lies inside its section *)
Lemma slice_in_bounds (text : section) (y : symbol) :
  s_addr text <= y_value y -> y_value y < 18446744073709551616 ->
  y_value y - s_addr text + y_size y <= lenN (s_data text) ->
  lenN (s_data text) < 18446744073709551616 ->
  slice (s_data text) (sub64 (y_value y) (s_addr text))
        (w64 (sub64 (y_value y) (s_addr text) + y_size y)) =
  Some (firstn (N.to_nat (y_size y)) (skipn (N.to_nat (y_value y - s_addr text)) (s_data text))).
Proof.
  intros Ha Hv Hb Hl.
  assert (E1 : sub64 (y_value y) (s_addr text) = y_value y - s_addr text).
  { unfold sub64, w64. rewrite (N.mod_small (s_addr text)) by lia.
    replace (y_value y + 18446744073709551616 - s_addr text)
      with ((y_value y - s_addr text) + 1 * 18446744073709551616) by lia.
    rewrite N.mod_add by lia. apply N.mod_small. lia. }
  rewrite E1. unfold w64. rewrite (N.mod_small (_ + _)) by lia.
  unfold slice.
  replace ((_ <=? _) && (_ <=? _)) with true
    by (symmetry; apply andb_true_iff; split; apply N.leb_le; lia).
  do 3 f_equal. lia.
Qed.

(** -------------------------------------------------- little-endian fields *)
Lemma le_list_enc n v : le_list (enc n v) = v mod 256 ^ N.of_nat n.
Proof.
  revert v. induction n; intros v.
  - simpl. rewrite N.mod_1_r. reflexivity.
  - cbn [enc le_list]. rewrite IHn. rewrite Nat2N.inj_succ, N.pow_succ_r'.
    rewrite (N.mul_comm 256), N.mod_mul_r by (try apply N.pow_nonzero; lia). lia.
Qed.

Lemma enc_length n v : List.length (enc n v) = n.
Proof. revert v; induction n; intros; simpl; auto. Qed.

(** reading the field that sits right after [pre] *)
Lemma le_field pre n v post :
  le (pre ++ enc n v ++ post) (List.length pre) n = v mod 256 ^ N.of_nat n.
Proof.
  unfold le. rewrite skipn_app, skipn_all, Nat.sub_diag. simpl skipn. simpl app.
  rewrite firstn_app, enc_length, Nat.sub_diag. simpl firstn. rewrite app_nil_r.
  rewrite <- (enc_length n v) at 1. rewrite firstn_all. apply le_list_enc.
Qed.

(** ------------------------------------------------------ flag bits *)
Lemma land_pow2 x k : N.land x (2 ^ k) = if N.testbit x k then 2 ^ k else 0.
Proof.
  apply N.bits_inj. intros n. rewrite N.land_spec, N.pow2_bits_eqb.
  destruct (N.eqb_spec k n) as [->|Hne].
  - destruct (N.testbit x n) eqn:E; [rewrite N.pow2_bits_true|rewrite N.bits_0]; reflexivity.
  - rewrite andb_false_r. destruct (N.testbit x k); [rewrite N.pow2_bits_false by auto|rewrite N.bits_0];
      reflexivity.
Qed.

Lemma bit_set_testbit x k : bit_set x k = N.testbit x k.
Proof.
  unfold bit_set. rewrite N.shiftl_1_l, land_pow2.
  destruct (N.testbit x k); [|reflexivity].
  destruct (N.eqb_spec (2 ^ k) 0) as [E|E]; [|reflexivity].
  exfalso. revert E. apply N.pow_nonzero. lia.
Qed.

Lemma tb_fl_0 b x : N.testbit (fl b x) 0 = b.
Proof. unfold fl. apply N.testbit_0_r. Qed.

Lemma tb_fl_pos b x p : N.testbit (fl b x) (Npos p) = N.testbit x (N.pred (Npos p)).
Proof.
  unfold fl. rewrite <- (N.succ_pred (Npos p)) at 1 by discriminate. apply N.testbit_succ_r.
Qed.

Lemma b2n_le1 b : N.b2n b <= 1.
Proof. destruct b; simpl; lia. Qed.

Lemma flags_word_bound h : h_flags_hi h < 4194304 -> flags_word h < 4294967296.
Proof.
  intros H. unfold flags_word, fl.
  repeat match goal with |- context [N.b2n ?b] =>
    let H := fresh in pose proof (b2n_le1 b) as H; generalize dependent (N.b2n b); intros end.
  lia.
Qed.

(** -------------------------------------------------- header round trip *)
Lemma le2 a : le_list [a mod 256; a / 256 mod 256] = a mod 65536.
Proof. exact (le_list_enc 2 a). Qed.
Lemma le4 a : le_list [a mod 256; a / 256 mod 256; a / 256 / 256 mod 256; a / 256 / 256 / 256 mod 256]
              = a mod 4294967296.
Proof. exact (le_list_enc 4 a). Qed.
Lemma le8 a : le_list [a mod 256; a / 256 mod 256; a / 256 / 256 mod 256; a / 256 / 256 / 256 mod 256;
                       a / 256 / 256 / 256 / 256 mod 256; a / 256 / 256 / 256 / 256 / 256 mod 256;
                       a / 256 / 256 / 256 / 256 / 256 / 256 mod 256;
                       a / 256 / 256 / 256 / 256 / 256 / 256 / 256 mod 256]
              = a mod 18446744073709551616.
Proof. exact (le_list_enc 8 a). Qed.

Lemma parse_hdr_encode h code :
  hdr_wf h -> parse_hdr (encode_hdr h ++ code) = meta_of_hdr h.
Proof.
  intros W. unfold hdr_wf, u16, u32, u64 in W.
  destruct W as (W1 & W2 & W3 & W4 & W5 & W6 & W7 & W8 & W9 & W10 & W11 & W12 & W13 & W14 & W15 & _).
  pose proof (flags_word_bound h W10) as WF.
  unfold parse_hdr, meta_of_hdr, encode_hdr, le.
  cbn [enc app skipn firstn]. rewrite !le2, !le4, !le8.
  rewrite !N.mod_small by assumption.
  rewrite !bit_set_testbit. unfold flags_word.
  repeat (rewrite tb_fl_pos; simpl N.pred). rewrite !tb_fl_0. reflexivity.
Qed.

Lemma encode_hdr_length h : hdr_wf h -> List.length (encode_hdr h) = 256%nat.
Proof.
  intros W. unfold hdr_wf in W. unfold encode_hdr. rewrite !app_length, !enc_length.
  replace (List.length (h_tail h)) with 168%nat by (symmetry; apply W). reflexivity.
Qed.

(** --------------------------------------------------------- extractBits *)
Lemma extract_bits_spec x lo hi :
  lo <= hi -> extract_bits x lo hi = (x / 2 ^ lo) mod 2 ^ (hi - lo + 1).
Proof.
  intros H. unfold extract_bits. rewrite N.shiftl_1_l, N.sub_1_r, <- N.ones_equiv.
  rewrite <- N.shiftr_div_pow2, <- N.land_ones.
  apply N.bits_inj. intros n.
  rewrite N.shiftr_spec', !N.land_spec, N.shiftr_spec', N.shiftl_spec_high' by lia.
  rewrite N.add_sub. reflexivity.
Qed.

(** ----------------------------------------- the rewriting of rsrc2 *)
Lemma land3_zero x : (N.land x 3 =? 0) = negb (N.testbit x 0) && negb (N.testbit x 1).
Proof.
  change 3 with (N.ones 2). rewrite N.land_ones, !N.testbit_eqb.
  change (2 ^ 0) with 1. change (2 ^ 1) with 2. change (2 ^ 2) with 4.
  rewrite N.div_1_r.
  destruct (N.eqb_spec (x mod 4) 0), (N.eqb_spec (x mod 2) 1), (N.eqb_spec (x / 2 mod 2) 1);
    simpl; try reflexivity; exfalso; lia.
Qed.

Lemma small_const_bits c n : N.log2 c < n -> N.testbit c n = false.
Proof. apply N.bits_above_log2. Qed.

Ltac bits_simpl :=
  repeat first [rewrite N.lor_spec | rewrite N.ldiff_spec | rewrite N.land_spec].

Lemma fix_rsrc2_spec ka r n :
  N.testbit (fix_rsrc2 ka r) n = rsrc2_spec ka (N.testbit r) n.
Proof.
  unfold fix_rsrc2.
  change (N.shiftl 31 1) with 62. change (N.shiftl 2 1) with 4. change (N.shiftl 1 7) with 128.
  change (N.shiftl 1 8) with 256. change (N.shiftl 3 11) with 6144. change (N.shiftl 1 11) with 2048.
  set (r0 := if ka then N.lor (N.ldiff (N.ldiff r 1) 62) 4 else N.ldiff r 1).
  set (r1 := N.lor (N.lor r0 128) 256).
  rewrite land3_zero, !N.shiftr_spec'. change (0 + 11) with 11. change (1 + 11) with 12.
  assert (E11 : N.testbit r1 11 = N.testbit r 11).
  { subst r1 r0. destruct ka; bits_simpl; simpl; rewrite ?orb_false_r, ?andb_true_r; reflexivity. }
  assert (E12 : N.testbit r1 12 = N.testbit r 12).
  { subst r1 r0. destruct ka; bits_simpl; simpl; rewrite ?orb_false_r, ?andb_true_r; reflexivity. }
  rewrite E11, E12.
  assert (R1 : forall k, N.testbit r1 k =
            if k =? 0 then false
            else if (1 <=? k) && (k <=? 5) then (if ka then N.testbit 2 (k - 1) else N.testbit r k)
            else if (k =? 7) || (k =? 8) then true else N.testbit r k).
  { intros k. subst r1 r0. destruct (N.ltb_spec k 13) as [Hk|Hk].
    - assert (Hc : k = 0 \/ k = 1 \/ k = 2 \/ k = 3 \/ k = 4 \/ k = 5 \/ k = 6 \/ k = 7 \/ k = 8 \/
                   k = 9 \/ k = 10 \/ k = 11 \/ k = 12) by lia.
      repeat (destruct Hc as [->|Hc]); try subst k; destruct ka; bits_simpl; simpl;
        rewrite ?orb_false_r, ?andb_true_r, ?andb_false_r, ?orb_true_r; reflexivity.
    - destruct (N.eqb_spec k 0); [lia|]. destruct (N.leb_spec k 5); [lia|]. rewrite andb_false_r.
      destruct (N.eqb_spec k 7); [lia|]. destruct (N.eqb_spec k 8); [lia|]. simpl.
      destruct ka; bits_simpl;
        rewrite ?(small_const_bits 1 k), ?(small_const_bits 62 k), ?(small_const_bits 4 k),
                ?(small_const_bits 128 k), ?(small_const_bits 256 k) by (simpl; lia);
        simpl; rewrite ?orb_false_r, ?andb_true_r; reflexivity. }
  unfold rsrc2_spec.
  destruct (negb (N.testbit r 11) && negb (N.testbit r 12)) eqn:C.
  - (* work-item id field was 0: it becomes 1 *)
    apply andb_true_iff in C as [C1 C2]. apply negb_true_iff in C1, C2.
    bits_simpl. rewrite R1.
    destruct (N.eqb_spec n 11) as [->|N11].
    + simpl. rewrite C1, C2. reflexivity.
    + destruct (N.eqb_spec n 12) as [->|N12].
      * simpl. rewrite C2. reflexivity.
      * assert (T1 : N.testbit 6144 n = false).
        { change 6144 with (N.lor (2 ^ 11) (2 ^ 12)). rewrite N.lor_spec, !N.pow2_bits_false by auto.
          reflexivity. }
        assert (T2 : N.testbit 2048 n = false).
        { change 2048 with (2 ^ 11). apply N.pow2_bits_false. auto. }
        rewrite T1, T2. simpl. rewrite orb_false_r, andb_true_r. reflexivity.
  - rewrite R1. destruct (N.eqb_spec n 11) as [->|N11]; [|reflexivity].
    simpl. apply andb_false_iff in C as [C|C]; apply negb_false_iff in C; rewrite C;
      [reflexivity|simpl; rewrite orb_false_r; reflexivity].
Qed.

(** ---------------------------------------------- descriptor round trip *)
Lemma parse_kd_encode k :
  kd_wf k ->
  parse_kd (encode_kd k) = meta_of_kd k (fix_rsrc2 (0 <? k_kernarg k) (k_rsrc2 k)).
Proof.
  intros W. unfold kd_wf, u32, u64 in W.
  destruct W as (W1 & W2 & W3 & W4 & W5 & W6 & W7 & W8 & W9).
  assert (WR : rsrc1_word k < 4294967296) by (unfold rsrc1_word; lia).
  unfold parse_kd, meta_of_kd, encode_kd, le.
  cbn [enc app skipn firstn]. rewrite !le4, !le8.
  rewrite !N.mod_small by assumption.
  rewrite !extract_bits_spec by lia.
  change (2 ^ 0) with 1. change (2 ^ (5 - 0 + 1)) with 64. change (2 ^ 6) with 64.
  change (2 ^ (9 - 6 + 1)) with 16. rewrite N.div_1_r.
  assert (EV : rsrc1_word k mod 64 = k_gran_vgpr k) by (unfold rsrc1_word; lia).
  assert (ES : rsrc1_word k / 64 mod 16 = k_gran_sgpr k) by (unfold rsrc1_word; lia).
  rewrite EV, ES. unfold w16. rewrite !N.mod_small by lia. reflexivity.
Qed.

(** --------------------------- "a header is stripped only when it is one" *)
(** what the non-descriptor path makes of the producer's content *)
Lemma from_entire_header h code y :
  hdr_wf h -> hdr_sig_ok h ->
  from_entire (bytes_of (CHeader h code)) y =
  mkObj 3 code y (meta_of_hdr h <| entry_off := 0 |>).
Proof.
  intros W S. rewrite from_entire_spec.
  change (bytes_of (CHeader h code)) with (encode_hdr h ++ code)%list.
  assert (L : List.length (encode_hdr h) = 256%nat) by (apply encode_hdr_length, W).
  assert (P : parse_hdr (encode_hdr h ++ code) = meta_of_hdr h) by (apply parse_hdr_encode, W).
  assert (Hh : is_v2v3_header (encode_hdr h ++ code) = true).
  { apply is_v2v3_header_spec.
    set (X := (encode_hdr h ++ code)%list) in *.
    assert (P1 : le X 0 4 = h_major h)
      by (change (code_version_major (parse_hdr X) = code_version_major (meta_of_hdr h)); rewrite P; reflexivity).
    assert (P2 : le X 4 4 = h_minor h)
      by (change (code_version_minor (parse_hdr X) = code_version_minor (meta_of_hdr h)); rewrite P; reflexivity).
    assert (P3 : le X 8 2 = h_kind h)
      by (change (machine_kind (parse_hdr X) = machine_kind (meta_of_hdr h)); rewrite P; reflexivity).
    assert (P4 : le X 10 2 = h_mvmajor h)
      by (change (machine_version_major (parse_hdr X) = machine_version_major (meta_of_hdr h)); rewrite P; reflexivity).
    assert (P5 : le X 16 8 = h_entry h)
      by (change (entry_off (parse_hdr X) = entry_off (meta_of_hdr h)); rewrite P; reflexivity).
    rewrite P1, P2, P3, P4, P5. destruct S as (S1 & S2 & S3 & S4 & S5).
    repeat split; try assumption; try apply S4.
    subst X. rewrite lenN_spec, app_length, L. lia. }
  rewrite Hh, P. f_equal.
  rewrite skipn_app, <- L, skipn_all, Nat.sub_diag. reflexivity.
Qed.

Lemma from_entire_code code y :
  is_v2v3_header code = false -> from_entire (bytes_of (CCode code)) y = mkObj 5 code y zero_meta.
Proof. intros H. rewrite from_entire_spec. simpl. rewrite H. reflexivity. Qed.

Lemma from_entire_mimic code y :
  is_v2v3_header code = true ->
  o_data (from_entire (bytes_of (CCode code)) y) = skipn 256 code.
Proof. intros H. rewrite from_entire_spec. simpl. rewrite H. reflexivity. Qed.

(** ------------------------------------------------ history independence *)
Lemma load_seq_nth l k v name :
  nth_error l k = Some (v, name) -> nth_error (load_seq l) k = Some (load v name).
Proof.
  revert k. induction l as [|[v' n'] l IH]; intros [|k] H; simpl in *; try discriminate.
  - injection H as -> ->. reflexivity.
  - apply IH, H.
Qed.

Lemma load_seq_app pre post : load_seq (pre ++ post) = (load_seq pre ++ load_seq post)%list.
Proof. induction pre as [|[v n] pre IH]; simpl; [reflexivity|]. rewrite IH. reflexivity. Qed.

(** ------------------------------------------------------------- decoys *)
Lemma load_named_effective secs text ro syms name :
  load_named secs text ro (filter (effective secs name) syms) name = load_named secs text ro syms name.
Proof.
  unfold load_named.
  assert (Hf : find (has_name name) (filter (is_kernel_sym secs) (filter (effective secs name) syms)) =
               find (has_name name) (filter (is_kernel_sym secs) syms)).
  { rewrite !find_filter_and. apply find_ext. intros y. unfold effective.
    destruct (is_kernel_sym secs y), (has_name name y); simpl; try reflexivity;
      apply andb_false_r. }
  rewrite Hf. clear Hf.
  destruct (find (has_name name) (filter (is_kernel_sym secs) syms)); [|reflexivity]. unfold load_symbol.
  assert (Hk : find_kd name (filter (effective secs name) syms) secs ro = find_kd name syms secs ro).
  { unfold find_kd. destruct ro; [|reflexivity].
    rewrite (find_filter_irrel (is_kd_sym name) (effective secs name)); [reflexivity|].
    intros y H. unfold effective. rewrite H. rewrite orb_true_r. reflexivity. }
  rewrite Hk. clear Hk. destruct (slice _ _ _); [|reflexivity].
  destruct (find_kd name syms secs ro); try reflexivity.
  unfold override. rewrite fold_left_filter_irrel; [reflexivity|].
  intros m' y H. unfold effective in H.
  apply orb_false_iff in H as [H Hv]. apply orb_false_iff in H as [H Hs].
  unfold override_step. rewrite Hs, Hv. reflexivity.
Qed.

Lemma load_same_effective secs l1 l2 name :
  name <> ""%string ->
  filter (effective secs name) l1 = filter (effective secs name) l2 ->
  load (mkView secs (Some l1)) name = load (mkView secs (Some l2)) name.
Proof.
  intros Hn H. rewrite !load_explicit by assumption.
  destruct (find_section ".text" secs); [|reflexivity].
  rewrite <- (load_named_effective _ _ _ l1), <- (load_named_effective _ _ _ l2), H. reflexivity.
Qed.

(** ------------------------------------------------- empty name, one kernel *)
Lemma load_auto_single secs syms k :
  filter (is_kernel_sym secs) syms = [k] ->
  load (mkView secs (Some syms)) "" = load (mkView secs (Some syms)) (y_name k).
Proof.
  intros H. unfold load. cbn [v_secs v_syms]. destruct (find_section ".text" secs); [|reflexivity].
  rewrite H. simpl String.eqb.
  destruct (String.eqb_spec (y_name k) "") as [E|E]; [|reflexivity]. rewrite E. reflexivity.
Qed.
