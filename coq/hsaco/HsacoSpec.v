(** Specification-side definitions for C13 (no proofs): encoders written from
    the documented layouts (amd_kernel_code_t of code object V2; the 64-byte
    kernel descriptor of the LLVM AMDGPU back-end, "Code Object V3 Kernel
    Descriptor"), the notions "symbols that belong to a kernel name",
    "sections extended by appended material", "what the producer put at the
    kernel symbol". *)
From Coq Require Import NArith List String Bool.
From VHsaco Require Import Hsaco.
Import ListNotations.
Open Scope N_scope.

(** n little-endian bytes of v *)
Fixpoint enc (n : nat) (v : N) : bytes :=
  match n with O => [] | S n => (v mod 256) :: enc n (v / 256) end.

Definition is_byte (b : N) : Prop := b < 256.

(** ---------------------------------------------------- amd_kernel_code_t *)
Record hdr := mkHdr {
  h_major : N; h_minor : N;                         (* 0, 4   : u32 *)
  h_kind : N; h_mvmajor : N; h_mvminor : N; h_mvstep : N;   (* 8..16 : u16 *)
  h_entry : N;                                      (* 16 : u64 kernel_code_entry_byte_offset *)
  h_prefetch_off : N; h_prefetch_size : N; h_max_scratch : N;  (* 24, 32, 40 : u64 *)
  h_rsrc1 : N; h_rsrc2 : N;                         (* 48, 52 : u32 *)
  hf_private_segment_buffer : bool; hf_dispatch_ptr : bool; hf_queue_ptr : bool;
  hf_kernarg_segment_ptr : bool; hf_dispatch_id : bool; hf_flat_scratch_init : bool;
  hf_private_segment_size : bool; hf_grid_wg_count_x : bool; hf_grid_wg_count_y : bool;
  hf_grid_wg_count_z : bool;                        (* 56 : bits 0..9 of the u32 flags word *)
  h_flags_hi : N;                                   (* bits 10..31 of the flags word *)
  h_private : N; h_group : N; h_gds : N;            (* 60, 64, 68 : u32 *)
  h_kernarg : N;                                    (* 72 : u64 *)
  h_wgf_barrier : N;                                (* 80 : u32 *)
  h_wf_sgpr : N; h_wi_vgpr : N;                     (* 84, 86 : u16 *)
  h_tail : bytes                                    (* 88..256 *)
}.

Definition fl (b : bool) (x : N) : N := 2 * x + N.b2n b.

Definition flags_word (h : hdr) : N :=
  fl (hf_private_segment_buffer h) (fl (hf_dispatch_ptr h) (fl (hf_queue_ptr h)
  (fl (hf_kernarg_segment_ptr h) (fl (hf_dispatch_id h) (fl (hf_flat_scratch_init h)
  (fl (hf_private_segment_size h) (fl (hf_grid_wg_count_x h) (fl (hf_grid_wg_count_y h)
  (fl (hf_grid_wg_count_z h) (h_flags_hi h)))))))))).

Definition encode_hdr (h : hdr) : bytes :=
  (enc 4 (h_major h) ++ enc 4 (h_minor h) ++ enc 2 (h_kind h) ++ enc 2 (h_mvmajor h) ++
  enc 2 (h_mvminor h) ++ enc 2 (h_mvstep h) ++ enc 8 (h_entry h) ++ enc 8 (h_prefetch_off h) ++
  enc 8 (h_prefetch_size h) ++ enc 8 (h_max_scratch h) ++ enc 4 (h_rsrc1 h) ++ enc 4 (h_rsrc2 h) ++
  enc 4 (flags_word h) ++ enc 4 (h_private h) ++ enc 4 (h_group h) ++ enc 4 (h_gds h) ++
  enc 8 (h_kernarg h) ++ enc 4 (h_wgf_barrier h) ++ enc 2 (h_wf_sgpr h) ++ enc 2 (h_wi_vgpr h) ++
  h_tail h)%list.

Definition u16 (x : N) := x < 65536.
Definition u32 (x : N) := x < 4294967296.
Definition u64 (x : N) := x < 18446744073709551616.

Definition hdr_wf (h : hdr) : Prop :=
  u32 (h_major h) /\ u32 (h_minor h) /\ u16 (h_kind h) /\ u16 (h_mvmajor h) /\ u16 (h_mvminor h) /\
  u16 (h_mvstep h) /\ u64 (h_entry h) /\ u32 (h_rsrc1 h) /\ u32 (h_rsrc2 h) /\
  h_flags_hi h < 4194304 /\ u32 (h_private h) /\ u32 (h_group h) /\ u64 (h_kernarg h) /\
  u16 (h_wf_sgpr h) /\ u16 (h_wi_vgpr h) /\ List.length (h_tail h) = 168%nat.

(** the metadata a V2/V3 header stands for *)
Definition meta_of_hdr (h : hdr) : kmeta :=
  {| rsrc1 := h_rsrc1 h; rsrc2 := h_rsrc2 h; rsrc3 := 0;
     kernarg_size := h_kernarg h; group_size := h_group h; private_size := h_private h;
     entry_off := h_entry h;
     en_private_segment_buffer := hf_private_segment_buffer h; en_dispatch_ptr := hf_dispatch_ptr h;
     en_queue_ptr := hf_queue_ptr h; en_kernarg_segment_ptr := hf_kernarg_segment_ptr h;
     en_dispatch_id := hf_dispatch_id h; en_flat_scratch_init := hf_flat_scratch_init h;
     en_private_segment_size := hf_private_segment_size h; en_grid_wg_count_x := hf_grid_wg_count_x h;
     en_grid_wg_count_y := hf_grid_wg_count_y h; en_grid_wg_count_z := hf_grid_wg_count_z h;
     code_version_major := h_major h; code_version_minor := h_minor h; machine_kind := h_kind h;
     machine_version_major := h_mvmajor h; machine_version_minor := h_mvminor h;
     machine_version_stepping := h_mvstep h;
     wf_sgpr_count := h_wf_sgpr h; wi_vgpr_count := h_wi_vgpr h |}.

(** the five fields isV2V3Header looks at, on the record *)
Definition hdr_sig_ok (h : hdr) : Prop :=
  h_major h = 1 /\ h_minor h <= 2 /\ h_kind h = 1 /\ 7 <= h_mvmajor h <= 9 /\ h_entry h = 256.

(** ------------------------------------------- kernel descriptor (64 bytes) *)
Record kdesc := mkKd {
  k_group : N; k_private : N; k_kernarg : N;        (* 0, 4, 8 : u32 *)
  k_res12 : N;                                      (* 12 : 4 reserved bytes *)
  k_entry : N;                                      (* 16 : i64 kernel_code_entry_byte_offset *)
  k_res24 : N;                                      (* 24..44 : 20 reserved bytes, as one number *)
  k_rsrc3 : N;                                      (* 44 : u32 *)
  k_gran_vgpr : N;                                  (* rsrc1 bits 0..5 *)
  k_gran_sgpr : N;                                  (* rsrc1 bits 6..9 *)
  k_rsrc1_hi : N;                                   (* rsrc1 bits 10..31 *)
  k_rsrc2 : N;                                      (* 52 : u32 *)
  k_props : N; k_preload : N;                       (* 56, 58 : u16 *)
  k_res60 : N                                       (* 60 : 4 reserved bytes *)
}.

Definition rsrc1_word (k : kdesc) : N := k_gran_vgpr k + 64 * (k_gran_sgpr k + 16 * k_rsrc1_hi k).

Definition encode_kd (k : kdesc) : bytes :=
  (enc 4 (k_group k) ++ enc 4 (k_private k) ++ enc 4 (k_kernarg k) ++ enc 4 (k_res12 k) ++
  enc 8 (k_entry k) ++ enc 20 (k_res24 k) ++ enc 4 (k_rsrc3 k) ++ enc 4 (rsrc1_word k) ++
  enc 4 (k_rsrc2 k) ++ enc 2 (k_props k) ++ enc 2 (k_preload k) ++ enc 4 (k_res60 k))%list.

Definition kd_wf (k : kdesc) : Prop :=
  u32 (k_group k) /\ u32 (k_private k) /\ u32 (k_kernarg k) /\ u64 (k_entry k) /\
  u32 (k_rsrc3 k) /\ k_gran_vgpr k < 64 /\ k_gran_sgpr k < 16 /\
  k_rsrc1_hi k < 4194304 /\ u32 (k_rsrc2 k).

(** The normalisations documented in parseV5KernelDescriptor, bit by bit, on
    compute_pgm_rsrc2: [b] is the stored word. *)
Definition rsrc2_spec (kernarg_ptr : bool) (b : N -> bool) (n : N) : bool :=
  if n =? 0 then false                               (* private-segment wave offset: deprecated *)
  else if (1 <=? n) && (n <=? 5)
       then (if kernarg_ptr then N.testbit 2 (n - 1) else b n)   (* user_sgpr_count := 2 *)
  else if (n =? 7) || (n =? 8) then true             (* work-group id X, Y forced *)
  else if n =? 11 then b 11 || negb (b 12)           (* work-item id field at least 1 *)
  else b n.

(** the metadata a descriptor stands for, after the documented normalisations
    (rsrc2 is specified separately, by [rsrc2_spec]) *)
Definition meta_of_kd (k : kdesc) (r2 : N) : kmeta :=
  {| rsrc1 := rsrc1_word k; rsrc2 := r2; rsrc3 := k_rsrc3 k;
     kernarg_size := k_kernarg k; group_size := k_group k; private_size := k_private k;
     entry_off := k_entry k;
     en_private_segment_buffer := false; en_dispatch_ptr := false; en_queue_ptr := false;
     en_kernarg_segment_ptr := 0 <? k_kernarg k;
     en_dispatch_id := false; en_flat_scratch_init := false; en_private_segment_size := false;
     en_grid_wg_count_x := false; en_grid_wg_count_y := false; en_grid_wg_count_z := false;
     code_version_major := 0; code_version_minor := 0; machine_kind := 0;
     machine_version_major := 0; machine_version_minor := 0; machine_version_stepping := 0;
     wf_sgpr_count := (k_gran_sgpr k + 1) * 8; wi_vgpr_count := (k_gran_vgpr k + 1) * 4 |}.

(** --------------------------------------- symbols that belong to a kernel *)
Definition relevant (name : string) (y : symbol) : bool :=
  String.eqb (y_name y) name || String.eqb (y_name y) (kd_sym name) ||
  String.eqb (y_name y) (sgpr_sym name) || String.eqb (y_name y) (vgpr_sym name).

(** ------------------------------------- sections with appended material *)
Definition sec_ext (s s' : section) : Prop :=
  s_name s' = s_name s /\ s_addr s' = s_addr s /\ exists extra, s_data s' = (s_data s ++ extra)%list.

(** a descriptor symbol exists, points into .rodata, and fails the bounds test *)
Definition kd_oob (v : view) (name : string) : bool :=
  match find_section ".rodata" (v_secs v), v_syms v with
  | Some ro, Some syms =>
    match find (is_kd_sym name) syms with
    | Some y =>
      match nth_error (v_secs v) (N.to_nat (y_shndx y)) with
      | Some sec => String.eqb (s_name sec) ".rodata" &&
                    negb (w64 (sub64 (y_value y) (s_addr ro) + 64) <=? lenN (s_data ro))
      | None => false
      end
    | None => false
    end
  | _, _ => false
  end.

(** sections that agree wherever the loader looks *)
Definition sec_same (s s' : section) : Prop :=
  s_name s' = s_name s /\ s_addr s' = s_addr s /\
  (s_name s = ".text"%string \/ s_name s = ".rodata"%string -> s_data s' = s_data s).

(** -------------------------- what the producer of the file put at a symbol *)
Inductive content :=
| CHeader (h : hdr) (code : bytes)     (* V2/V3: amd_kernel_code_t followed by instructions *)
| CCode (code : bytes).                (* instructions only *)

Definition bytes_of (c : content) : bytes :=
  match c with CHeader h code => (encode_hdr h ++ code)%list | CCode code => code end.
Definition code_of (c : content) : bytes :=
  match c with CHeader _ code => code | CCode code => code end.

(** ------------------------------------- a process performing several loads *)
(** The loader has no state: what a process obtains from a sequence of loads
    is, by definition of the model, the list of the individual results. *)
Fixpoint load_seq (l : list (view * string)) : list outcome :=
  match l with
  | [] => []
  | (v, name) :: r => load v name :: load_seq r
  end.

(** ------------------------------------------------ decoys / the real symbols *)
(** The symbols the loader can act on for a kernel name: the kernel symbols of
    that name (positive size, in a section called .text), the symbols called
    name.kd of size 64, the metadata symbols.  Same-named symbols of other
    sizes or in other sections ("decoys") are not among them. *)
Definition effective (secs : list section) (name : string) (y : symbol) : bool :=
  (is_kernel_sym secs y && has_name name y) || is_kd_sym name y ||
  String.eqb (y_name y) (sgpr_sym name) || String.eqb (y_name y) (vgpr_sym name).
