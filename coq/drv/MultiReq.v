(* One driver command queue whose head command is a unified multi-GPU kernel
   launch: the command is split into c_n requests (one per member GPU); the
   queue becomes idle and the command is dequeued when the LAST reply arrives.
   Go: amd/driver/driver.go processNewCommandFromCmdQueue,
   processUnifiedMultiGPULaunchKernelCommand, processLaunchKernelReturn.
   Definitions only (executable). *)
From Coq Require Import List NArith Bool Arith Lia.
Import ListNotations.

Record cmd := mkCmd { c_id : nat; c_n : nat }.       (* c_n = number of requests (member GPUs) *)
Inductive rule := LastReply | FirstReply.              (* when IsRunning is cleared *)

Record st := mkSt {
  queue : list cmd;            (* CommandQueue.commands, head first *)
  running : bool;              (* CommandQueue.IsRunning *)
  reqs : list (nat * nat);     (* cmd.Reqs of the head command: (request id, member index) *)
  next : nat;                  (* fresh request id *)
  nstarted : nat;              (* ghost: number of starts *)
  ndone : nat;                 (* ghost: number of Dequeues *)
  sent : list (nat * nat)      (* ghost log: (position of the command, member index) *)
}.

Inductive ev := EStart | EReply (k : nat).

Definition init (q0 : list cmd) : st := mkSt q0 false [] 0 0 0 [].

Fixpoint remove_nth {A : Type} (k : nat) (l : list A) : list A :=
  match l with
  | [] => []
  | x :: t => match k with
              | 0 => t
              | S k' => x :: remove_nth k' t
              end
  end.

Definition step (r : rule) (s : st) (e : ev) : option st :=
  match e with
  | EStart =>
      match queue s with
      | [] => None
      | c :: _ =>
          if running s then None
          else Some (mkSt (queue s)
                          (match c_n c with 0 => running s | S _ => true end)
                          (reqs s ++ map (fun i => (next s + i, i)) (seq 0 (c_n c)))
                          (next s + c_n c)
                          (S (nstarted s))
                          (ndone s)
                          (sent s ++ map (pair (ndone s)) (seq 0 (c_n c))))
      end
  | EReply k =>
      if k <? length (reqs s) then
        match queue s with
        | [] => None
        | c :: rest =>
            match remove_nth k (reqs s) with
            | [] => Some (mkSt rest false [] (next s) (nstarted s) (S (ndone s)) (sent s))
            | x :: t =>
                Some (mkSt (queue s)
                           (match r with LastReply => running s | FirstReply => false end)
                           (x :: t) (next s) (nstarted s) (ndone s) (sent s))
            end
        end
      else None
  end.

(* disabled events are skipped: every list of events is a schedule *)
Fixpoint run (r : rule) (s : st) (evs : list ev) : st :=
  match evs with
  | [] => s
  | e :: t => match step r s e with
              | Some s' => run r s' t
              | None => run r s t
              end
  end.

Definition expected_sent (q0 : list cmd) (k : nat) : list (nat * nat) :=
  flat_map (fun i => map (pair i) (seq 0 (c_n (nth i q0 (mkCmd 0 0))))) (seq 0 k).

(* ---- correspondence with the real driver ---- *)
Definition obs := (nat * bool * nat * nat)%type.  (* length queue, running, length reqs, length sent *)
Definition observe (s : st) : obs :=
  (length (queue s), running s, length (reqs s), length (sent s)).

Definition obs_eqb (a b : obs) : bool :=
  match a, b with
  | (a1, a2, a3, a4), (b1, b2, b3, b4) =>
      Nat.eqb a1 b1 && Bool.eqb a2 b2 && Nat.eqb a3 b3 && Nat.eqb a4 b4
  end.

Definition mcase := (list cmd * list (ev * obs))%type.

Fixpoint check_from (s : st) (i : nat) (l : list (ev * obs)) : nat :=
  match l with
  | [] => 0
  | (e, o) :: t =>
      match step LastReply s e with
      | None => S i
      | Some s' => if obs_eqb (observe s') o then check_from s' (S i) t else S i
      end
  end.

(* index+1 of the first event that is not enabled or whose observation differs; 0 = agrees *)
Definition check_mcase (c : mcase) : nat := check_from (init (fst c)) 0 (snd c).

Fixpoint mm_from (i : nat) (l : list mcase) : list (N * N) :=
  match l with
  | [] => []
  | c :: t =>
      match check_mcase c with
      | 0 => mm_from (S i) t
      | S m => (N.of_nat i, N.of_nat (S m)) :: mm_from (S i) t
      end
  end.

Definition multi_mismatches (l : list mcase) : list (N * N) := mm_from 0 l.

Definition witness_q0 := [mkCmd 1 2; mkCmd 2 1].
Definition witness_evs := [EStart; EReply 0; EStart].
