(** Model of the page-migration handshake of amd/driver/driver.go:
    parseFromMMU / initiateRDMADrain -> processRDMADrainRsp / sendShootDownReqs
    -> processShootdownCompleteRsp (page requests queued) -> sendMigrationReqToCP
    (one at a time) / processPageMigrationRspFromCP -> prepareGPURestartReqs +
    preparePageMigrationRspToMMU -> handleGPURestartRsp / prepareRDMARestartReqs
    -> processRDMARestartRspToDriver, inside Driver.Tick's stage order, with
    the MMU port (capacity 1) and the GPU port.  Page-table effects are in
    Migration.v; here only who is told what, and when.  Definitions only. *)
From Coq Require Export List NArith Bool Lia.
Export ListNotations.
From RecordUpdate Require Import RecordSet.
Import RecordSetNotations.
Open Scope N_scope.

(** a vm.PageMigrationReqToDriver: GPUs are numbered from 1 as in the driver *)
Record mreq := mkMReq {
  mr_src : N;                          (* the MMU port that asked *)
  mr_accessing : list N;               (* CurrAccessingGPUs *)
  mr_groups : list (N * list N);       (* GPUReqToVAddrMap as (GPU number, pages), ascending GPU number *)
  mr_host : N;                         (* CurrPageHostGPU *)
  mr_pid : N; mr_pagesize : N; mr_top : bool;
  mr_order : list N;
  mr_rorder : list N }.
(** [mr_order], [mr_rorder]: the orders (GPU numbers) in which Go's map iteration
    `for gpuID, vAddrs := range pageVaddrs` visited the groups in
    processShootdownCompleteRsp and in preparePageMigrationRspToMMU; not
    deterministic, so part of the scenario (observed by the harness). *)

(** messages on the GPU port, [g] = index into Driver.GPUs (from 0) *)
Inductive cmd :=
| CDrain (g : N) | CShoot (g : N) (vaddrs : list N) (pid : N)
| CMig (g : N) (host : N) (pagesize : N) (vaddr : N)
| CRestart (g : N) | CRdmaRestart (g : N).
Inductive rsp := RDrain | RShoot | RMig | RRestart | RRdmaRestart | ROther.
(** vm.PageMigrationRspFromDriver *)
Record mrsp := mkMRsp { ms_dst : N; ms_vaddrs : list N; ms_top : bool }.

Record hs := mkHs {
  h_ngpu : N;                         (* len(d.GPUs) = len(d.RemotePMCPorts) *)
  h_cur : option mreq;                (* currentPageMigrationReq *)
  h_handling : bool;                  (* isCurrentlyHandlingMigrationReq *)
  h_tosend : list cmd;                (* requestsToSend *)
  h_migq : list cmd;                  (* migrationReqToSendToCP *)
  h_one : bool;                       (* isCurrentlyMigratingOnePage *)
  h_tommu : option mrsp;              (* toSendToMMU *)
  h_ndrain : N; h_nshoot : N; h_nmig : N; h_nrestart : N; h_nrdma : N;   (* num*ACK *)
  h_gpu_in : list rsp; h_gpu_out : list cmd;      (* gpuPort buffers (very large) *)
  h_mmu_in : list mreq; h_mmu_out : list mrsp;    (* mmuPort buffers, capacity 1 *)
  h_crashed : bool;
  (* ghost: history of the current request *)
  g_sent : list cmd;                  (* everything pushed to the GPU port, oldest first *)
  g_ack : list rsp                    (* responses processed, oldest first *)
}.
#[export] Instance eta_hs : Settable _ := settable! mkHs
  <h_ngpu; h_cur; h_handling; h_tosend; h_migq; h_one; h_tommu; h_ndrain; h_nshoot; h_nmig;
   h_nrestart; h_nrdma; h_gpu_in; h_gpu_out; h_mmu_in; h_mmu_out; h_crashed; g_sent; g_ack>.

Definition hs_init (n : N) : hs :=
  mkHs n None false [] [] false None 0 0 0 0 0 [] [] [] [] false [] [].

Definition gpus (n : N) : list N := map N.of_nat (seq 0 (N.to_nat n)).

(* sendToGPUs *)
Definition send_to_gpus (s : hs) : hs :=
  match h_tosend s with
  | [] => s
  | c :: r => s <| h_tosend := r |> <| h_gpu_out := h_gpu_out s ++ [c] |> <| g_sent := g_sent s ++ [c] |>
  end.
(* sendToMMU *)
Definition send_to_mmu (s : hs) : hs :=
  match h_tommu s with
  | None => s
  | Some m => if Nat.ltb (length (h_mmu_out s)) 1
              then s <| h_tommu := None |> <| h_mmu_out := h_mmu_out s ++ [m] |> else s
  end.
(* sendMigrationReqToCP *)
Definition send_mig (s : hs) : hs :=
  match h_migq s with
  | [] => s
  | c :: r => if h_one s then s
              else s <| h_migq := r |> <| h_one := true |> <| h_gpu_out := h_gpu_out s ++ [c] |>
                     <| g_sent := g_sent s ++ [c] |>
  end.

Definition in_range (n g1 : N) : bool := (1 <=? g1) && (g1 <=? n).

(** only the keys 1..n of GPUReqToVAddrMap are ever looked at *)
Definition groups_of (n : N) (q : mreq) : list (N * list N) :=
  filter (fun gp => in_range n (fst gp)) (mr_groups q).
Definition pages_of (n : N) (q : mreq) : list N := flat_map snd (groups_of n q).

(** the five blocks of commands of one migration, in the order they are queued *)
Definition bD (n : N) : list cmd := map CDrain (gpus n).
Definition bS (n : N) (q : mreq) : list cmd :=
  map (fun g1 => CShoot (g1 - 1) (pages_of n q) (mr_pid q)) (mr_accessing q).
(** the groups in the order of the map iteration *)
Definition ordered_by (ord : list N) (gs : list (N * list N)) : list (N * list N) :=
  flat_map (fun g1 => filter (fun gp => fst gp =? g1) gs) ord.
Definition ordered_groups (n : N) (q : mreq) : list (N * list N) := ordered_by (mr_order q) (groups_of n q).
Definition mig_of (q : mreq) (gp : N * list N) : list cmd :=
  map (fun va => CMig (fst gp - 1) (mr_host q) (mr_pagesize q) va) (snd gp).
Definition bM (n : N) (q : mreq) : list cmd := flat_map (mig_of q) (ordered_groups n q).
Definition bR (q : mreq) : list cmd := map (fun g1 => CRestart (g1 - 1)) (mr_accessing q).
Definition bRR (n : N) : list cmd := map CRdmaRestart (gpus n).

(* sendShootDownReqs *)
Definition shoot_reqs (s : hs) (q : mreq) : hs :=
  if forallb (in_range (h_ngpu s)) (mr_accessing q) then
    s <| h_nshoot := N.of_nat (length (mr_accessing q)) |>
      <| h_tosend := h_tosend s ++ bS (h_ngpu s) q |>
  else s <| h_crashed := true |>.          (* d.GPUs[toShootdownGPU] out of range *)

(* the body of processShootdownCompleteRsp once the count reaches 0 *)
Definition page_reqs (s : hs) (q : mreq) : hs :=
  if in_range (h_ngpu s) (mr_host q) then           (* d.RemotePMCPorts[host-1] *)
    let reqs := bM (h_ngpu s) q in
    s <| h_migq := h_migq s ++ reqs |> <| h_nmig := h_nmig s + N.of_nat (length reqs) |>
  else s <| h_crashed := true |>.

Definition restart_and_answer (s : hs) (q : mreq) : hs :=
  s <| h_tosend := h_tosend s ++ bR q |>
    <| h_nrestart := h_nrestart s + N.of_nat (length (mr_accessing q)) |>
    <| h_tommu := Some (mkMRsp (mr_src q) (flat_map snd (ordered_by (mr_rorder q) (groups_of (h_ngpu s) q))) (mr_top q)) |>.

(* processReturnReq: one response per tick *)
Definition process_return (s : hs) : hs :=
  match h_gpu_in s with
  | [] => s
  | r :: rest =>
    let s1 := s <| h_gpu_in := rest |> <| g_ack := g_ack s ++ [r] |> in
    match r, h_cur s with
    | ROther, _ => s                                     (* left at the head of the port *)
    | _, None => s1 <| h_crashed := true |>              (* currentPageMigrationReq is nil *)
    | RDrain, Some q =>
      let s2 := s1 <| h_ndrain := h_ndrain s - 1 |> in
      if h_ndrain s - 1 =? 0 then shoot_reqs s2 q else s2
    | RShoot, Some q =>
      let s2 := s1 <| h_nshoot := h_nshoot s - 1 |> in
      if h_nshoot s - 1 =? 0 then page_reqs s2 q else s2
    | RMig, Some q =>
      let s2 := s1 <| h_nmig := h_nmig s - 1 |> <| h_one := false |> in
      if h_nmig s - 1 =? 0 then restart_and_answer s2 q else s2
    | RRestart, Some q =>
      let s2 := s1 <| h_nrestart := h_nrestart s - 1 |> in
      if h_nrestart s - 1 =? 0
      then s2 <| h_tosend := h_tosend s2 ++ bRR (h_ngpu s) |>
              <| h_nrdma := h_nrdma s2 + h_ngpu s |>
      else s2
    | RRdmaRestart, Some q =>
      let s2 := s1 <| h_nrdma := h_nrdma s - 1 |> in
      if h_nrdma s - 1 =? 0 then s2 <| h_cur := None |> <| h_handling := false |> else s2
    end
  end.

(* parseFromMMU + initiateRDMADrain *)
Definition parse_from_mmu (s : hs) : hs :=
  if h_handling s then s else
  match h_mmu_in s with
  | [] => s
  | q :: rest =>
    s <| h_mmu_in := rest |> <| h_cur := Some q |> <| h_handling := true |>
      <| h_tosend := h_tosend s ++ bD (h_ngpu s) |>
      <| h_ndrain := h_ndrain s + h_ngpu s |>
      <| g_sent := [] |> <| g_ack := [] |>
  end.

(** Driver.Tick restricted to the stages that take part in a migration *)
Definition seq2 (f g : hs -> hs) (s : hs) : hs :=
  let s1 := f s in if h_crashed s1 then s1 else g s1.
Definition htick (s : hs) : hs :=
  seq2 send_to_gpus (seq2 send_to_mmu (seq2 send_mig (seq2 process_return parse_from_mmu))) s.

Inductive hev :=
| HTick
| HDeliverMMU (q : mreq)     (* the MMU offers a request *)
| HTakeMMU                   (* ... and takes the answer *)
| HTakeGPU                   (* the connection takes the oldest command *)
| HDeliverGPU (r : rsp).     (* a command processor answers *)

Inductive hobs := HNone | HAcc (b : bool) | HCmd (c : option cmd) | HRsp (m : option mrsp) | HCrash.

Definition hstep (s : hs) (e : hev) : hs * hobs :=
  if h_crashed s then (s, HCrash) else
  match e with
  | HTick => let s' := htick s in (s', if h_crashed s' then HCrash else HNone)
  | HDeliverMMU q =>
    if Nat.ltb (length (h_mmu_in s)) 1 then (s <| h_mmu_in := h_mmu_in s ++ [q] |>, HAcc true)
    else (s, HAcc false)
  | HTakeMMU => match h_mmu_out s with [] => (s, HRsp None) | m :: r => (s <| h_mmu_out := r |>, HRsp (Some m)) end
  | HTakeGPU => match h_gpu_out s with [] => (s, HCmd None) | c :: r => (s <| h_gpu_out := r |>, HCmd (Some c)) end
  | HDeliverGPU r => (s <| h_gpu_in := h_gpu_in s ++ [r] |>, HAcc true)
  end.

Definition hrun (s : hs) (evs : list hev) : hs := fold_left (fun s e => fst (hstep s e)) evs s.
Fixpoint hrun_obs (s : hs) (evs : list hev) : list hobs :=
  match evs with [] => [] | e :: r => let '(s', o) := hstep s e in o :: hrun_obs s' r end.

(** * Correspondence *)
Fixpoint nl_eqb (a b : list N) : bool :=
  match a, b with [] , [] => true | x :: a', y :: b' => (x =? y) && nl_eqb a' b' | _, _ => false end.
Definition cmd_eqb (a b : cmd) : bool :=
  match a, b with
  | CDrain x, CDrain y | CRestart x, CRestart y | CRdmaRestart x, CRdmaRestart y => x =? y
  | CShoot g v p, CShoot g' v' p' => (g =? g') && nl_eqb v v' && (p =? p')
  | CMig g h ps va, CMig g' h' ps' va' => (g =? g') && (h =? h') && (ps =? ps') && (va =? va')
  | _, _ => false
  end.
Definition hobs_eqb (a b : hobs) : bool :=
  match a, b with
  | HNone, HNone | HCrash, HCrash => true
  | HAcc x, HAcc y => Bool.eqb x y
  | HCmd None, HCmd None | HRsp None, HRsp None => true
  | HCmd (Some x), HCmd (Some y) => cmd_eqb x y
  | HRsp (Some x), HRsp (Some y) => (ms_dst x =? ms_dst y) && nl_eqb (ms_vaddrs x) (ms_vaddrs y) && Bool.eqb (ms_top x) (ms_top y)
  | _, _ => false
  end.
Record hcase := mkHCase { hc_ngpu : N; hc_trace : list (hev * hobs) }.
Fixpoint hfirst_diff (i : N) (l1 l2 : list hobs) : option N :=
  match l1, l2 with
  | [], [] => None
  | a :: l1', b :: l2' => if hobs_eqb a b then hfirst_diff (i + 1) l1' l2' else Some i
  | _, _ => Some i
  end.
Definition hcheck (c : hcase) : option N :=
  hfirst_diff 0 (hrun_obs (hs_init (hc_ngpu c)) (map fst (hc_trace c))) (map snd (hc_trace c)).
Fixpoint hmismatches_from (i : N) (cs : list hcase) : list (N * N) :=
  match cs with
  | [] => []
  | c :: r => match hcheck c with None => hmismatches_from (i + 1) r | Some k => (i, k) :: hmismatches_from (i + 1) r end
  end.
Definition hmismatches := hmismatches_from 0.
