(** A complete, protocol-respecting handshake on the model (two GPUs, two
    accessing GPUs, two pages moved from GPU 1 to GPU 2). *)
From VDrv Require Import Handshake HandshakeProofs.
Open Scope N_scope.

Definition demo_q : mreq := mkMReq 50 [1; 2] [(2, [4096; 8192])] 1 7 4096 true [2] [2].
Definition demo_hs : list hev :=
  let T := HTick in
  [HDeliverMMU demo_q; T; T; T; HDeliverGPU RDrain; HDeliverGPU RDrain; T; T; T; T;
   HDeliverGPU RShoot; HDeliverGPU RShoot; T; T; T; HDeliverGPU RMig; T; T; HDeliverGPU RMig; T; T; T;
   HDeliverGPU RRestart; HDeliverGPU RRestart; T; T; T; T;
   HDeliverGPU RRdmaRestart; HDeliverGPU RRdmaRestart; T; T].

Lemma demo_hs_valid : hvalid (hs_init 2) demo_hs.
Proof. vm_compute. repeat split; try discriminate; try lia; auto. Qed.

Lemma demo_hs_result :
  let s := hrun (hs_init 2) demo_hs in
  h_cur s = None /\ h_crashed s = false /\
  g_sent s = [CDrain 0; CDrain 1; CShoot 0 [4096; 8192] 7; CShoot 1 [4096; 8192] 7;
              CMig 1 1 4096 4096; CMig 1 1 4096 8192; CRestart 0; CRestart 1;
              CRdmaRestart 0; CRdmaRestart 1] /\
  h_mmu_out s = [mkMRsp 50 [4096; 8192] true].
Proof. vm_compute. repeat split; reflexivity. Qed.

(** one request with two requesting GPUs (two pages and one page); the map
    iteration visits GPU 3's group first; stopped when both GPU restarts are out *)
Definition demo_q2 : mreq := mkMReq 51 [1; 2] [(2, [4096; 8192]); (3, [12288])] 1 7 4096 false [3; 2] [2; 3].
Definition demo_hs2 : list hev :=
  let T := HTick in
  [HDeliverMMU demo_q2; T; T; T; T; HDeliverGPU RDrain; HDeliverGPU RDrain; HDeliverGPU RDrain; T; T; T; T; T;
   HDeliverGPU RShoot; HDeliverGPU RShoot; T; T; T; HDeliverGPU RMig; T; T; HDeliverGPU RMig; T; T;
   HDeliverGPU RMig; T; T; T].
Lemma demo_hs2_valid : hvalid (hs_init 3) demo_hs2.
Proof. vm_compute. repeat split; try discriminate; try lia; auto. Qed.
Lemma demo_hs2_result :
  let s := hrun (hs_init 3) demo_hs2 in
  h_cur s = Some demo_q2 /\
  g_sent s = [CDrain 0; CDrain 1; CDrain 2; CShoot 0 [4096; 8192; 12288] 7; CShoot 1 [4096; 8192; 12288] 7;
              CMig 2 1 4096 12288; CMig 1 1 4096 4096; CMig 1 1 4096 8192; CRestart 0; CRestart 1] /\
  h_mmu_out s = [mkMRsp 51 [4096; 8192; 12288] false].
Proof. vm_compute. repeat split; reflexivity. Qed.

(** back-pressure: the MMU side leaves the first answer in the one-entry port
    during the whole second migration; the second answer waits in its slot and
    is sent once the port is free: both requests are answered, once each *)
Definition demo_q3 : mreq := mkMReq 51 [1] [(1, [12288])] 2 7 4096 false [1] [1].
Definition demo_hs3a : list hev :=
  let T := HTick in
  demo_hs ++ [HDeliverMMU demo_q3; T; T; T; HDeliverGPU RDrain; HDeliverGPU RDrain; T; T; T;
   HDeliverGPU RShoot; T; T; T; HDeliverGPU RMig; T; T; T; T].
Definition demo_hs3b : list hev :=
  let T := HTick in
  [HDeliverGPU RRestart; T; T; T; HDeliverGPU RRdmaRestart; HDeliverGPU RRdmaRestart; T; T; T;
   HTakeMMU; T; HTakeMMU; HTakeMMU].
Lemma demo_hs3_valid : hvalid (hs_init 2) (demo_hs3a ++ demo_hs3b).
Proof. vm_compute. repeat split; try discriminate; try lia; auto. Qed.
Lemma demo_hs3_waiting :
  let s := hrun (hs_init 2) demo_hs3a in
  h_tommu s = Some (mkMRsp 51 [12288] false) /\ h_mmu_out s = [mkMRsp 50 [4096; 8192] true].
Proof. vm_compute. split; reflexivity. Qed.
Lemma demo_hs3_answers :
  filter (fun o => match o with HRsp _ => true | _ => false end) (hrun_obs (hs_init 2) (demo_hs3a ++ demo_hs3b)) =
  [HRsp (Some (mkMRsp 50 [4096; 8192] true)); HRsp (Some (mkMRsp 51 [12288] false)); HRsp None].
Proof. vm_compute. reflexivity. Qed.
