(** Pure-function models of the arithmetic that spreads data and work over
    GPUs (property C18):
    - [distribute]   : amd/driver/distributor.go  distributorImpl.Distribute
    - [wg_dist], [wg_filter] : amd/driver/driver.go  distributeWGToGPUs and the
      WGFilter closure built in processUnifiedMultiGPULaunchKernelCommand.
    Definitions only; proofs are in DistributeProofs.v. *)
From Coq Require Import List NArith ZArith Bool.
Import ListNotations.

(** * Page distributor (uint64 arithmetic, modelled in N) *)
Module Pages.
Open Scope N_scope.

Definition W64 : N := 2 ^ 64.

(** One call of memAllocator.Remap(pid, addr, size, gpuIDs[idx]). *)
Record remap := mkRemap { r_addr : N; r_size : N; r_idx : nat }.

Record plan := mkPlan {
  p_pages   : N;          (* numPages *)
  p_per     : N;          (* numPagesPerGPU *)
  p_use     : N;          (* numGPUsToUse *)
  p_rem     : N;          (* remainingPages *)
  p_last    : N           (* lastAllocatedGPU after the first loop *)
}.

(** [(byteSize-1)/pageSize + 1] with the uint64 wrap of [byteSize-1]. *)
Definition num_pages (ps bytes : N) : N :=
  ((bytes + W64 - 1) mod W64) / ps + 1.

Definition mk_plan (ps bytes ngpu : N) : plan :=
  let np := num_pages ps bytes in
  let per := np / ngpu in
  let use0 := if 0 <? per then np / per else 0 in
  let use := if ngpu <? use0 then ngpu else use0 in
  mkPlan np per use (np mod ngpu) (if use =? 0 then 0 else use - 1).

(** the natural numbers 0 .. n-1 as N *)
Definition upto (n : N) : list N := map N.of_nat (seq 0 (N.to_nat n)).

Definition remaps (ps addr : N) (p : plan) : list remap :=
  map (fun i => mkRemap (addr + i * p_per p * ps) (p_per p * ps) (N.to_nat i)) (upto (p_use p))
  ++
  map (fun i => mkRemap (addr + (p_per p * p_use p + i) * ps) ps (N.to_nat (p_last p))) (upto (p_rem p)).

(** byteAllocatedOnEachGPU *)
Definition bytes_on (ps : N) (p : plan) (i : N) : N :=
  (if i <? p_use p then p_per p * ps else 0) + (if i =? p_last p then p_rem p * ps else 0).

(** [None] = the Go code panics (address not page aligned, or an empty GPU
    list: division by zero). *)
Definition distribute (log2ps addr bytes : N) (ngpu : nat) : option (list remap * list N) :=
  let ps := 2 ^ log2ps in
  if negb (addr mod ps =? 0) then None
  else if (ngpu =? 0)%nat then None
  else let p := mk_plan ps bytes (N.of_nat ngpu) in
       Some (remaps ps addr p, map (bytes_on ps p) (upto (N.of_nat ngpu))).

(** page indices (relative to the start of the buffer) covered by a remap *)
Definition pages_of (ps addr : N) (r : remap) : list N :=
  map (fun j => (r_addr r - addr) / ps + j) (upto (r_size r / ps)).

End Pages.

(** * Work-group split over the GPUs of a unified device (Go int / uint32) *)
Module Split.
Open Scope Z_scope.

Definition W32 : Z := 2 ^ 32.

(** [(GridSize-1)/uint32(WorkgroupSize) + 1] in uint32 *)
Definition num_wg (grid wg : Z) : Z := ((grid - 1) mod W32) / wg + 1.

Record geom := mkGeom { gx : Z; gy : Z; gz : Z; wx : Z; wy : Z; wz : Z }.

Definition nx (g : geom) := num_wg (gx g) (wx g).
Definition ny (g : geom) := num_wg (gy g) (wy g).
Definition nz (g : geom) := num_wg (gz g) (wz g).

(** [int(numWGX * numWGY * numWGZ)]: the product is taken in uint32 *)
Definition total_wg (g : geom) : Z := (nx g * ny g * nz g) mod W32.

Definition sumZ (l : list Z) : Z := fold_right Z.add 0 l.

(** Go integer division truncates toward zero: [Z.quot] *)
Definition wg_per_cu (g : geom) (cus : list Z) : Z :=
  Z.quot (total_wg g - 1) (sumZ cus) + 1.

(** prefix sums: wgDist[0] = 0, wgDist[i+1] = wgDist[i] + cu_i * wgPerCU *)
Fixpoint prefix (acc per : Z) (cus : list Z) : list Z :=
  match cus with
  | [] => [acc]
  | c :: r => acc :: prefix (acc + c * per) per r
  end.

(** [None] = panic (no compute unit at all: division by zero; or
    "not all wg allocated"; or a zero work-group dimension). *)
Definition wg_dist (g : geom) (cus : list Z) : option (list Z) :=
  if (sumZ cus =? 0) || (wx g =? 0) || (wy g =? 0) || (wz g =? 0) then None
  else let d := prefix 0 (wg_per_cu g cus) cus in
       if last d 0 <? total_wg g then None else Some d.

Definition flat_id (g : geom) (x y z : Z) : Z := z * nx g * ny g + y * nx g + x.

(** the WGFilter closure of GPU index [i] *)
Definition wg_filter (g : geom) (d : list Z) (i : nat) (x y z : Z) : bool :=
  (nth i d 0 <=? flat_id g x y z) && (flat_id g x y z <? nth (S i) d 0).

(** the launch loop skips a GPU whose range is empty *)
Definition launched (d : list Z) (i : nat) : bool := negb (nth (S i) d 0 - nth i d 0 =? 0).

End Split.

(** * Per-GPU slices of the benchmarks that split their own work
    (discrete GPUs, one queue per GPU) *)
Module Bench.
Import Pages.
Open Scope N_scope.

(** fir / relu (and aes, kmeans): GPU i of g handles the elements
    [i*n/g, (i+1)*n/g) — [first := gpuIndex * numWi / numGPUs] etc. *)
Definition bal_first (n g i : N) : N := i * n / g.
Definition bal_slice (n g i : N) : N * N :=
  (bal_first n g i, bal_first n g (i + 1) - bal_first n g i).

(** matrixtranspose exec(): ceil(n/g) work-group columns per GPU, the last
    GPUs get the remainder or nothing ([firstWGX >= numWGWidth -> break]). *)
Definition ceil_per (n g : N) : N := (n + g - 1) / g.
Definition ceil_slice (n g i : N) : N * N :=
  let f := ceil_per n g * i in
  (f, if n <=? f then 0 else N.min (ceil_per n g) (n - f)).

(** (first, length) of every GPU 0..g-1 *)
Definition slices (sl : N -> N * N) (g : N) : list (N * N) := map sl (upto g).

(** the items of a slice *)
Definition cells (s : N * N) : list N := map (fun j => fst s + j) (upto (snd s)).

(** the launches one expects to see: GPU index (from 1) and slice length of
    the GPUs with a non-empty slice *)
Definition launches (sl : N -> N * N) (g : N) : list (N * N) :=
  filter (fun p => negb (snd p =? 0)) (map (fun i => (i + 1, snd (sl i))) (upto g)).

End Bench.

(** * Correspondence records (filled by harness/cmd/c18) *)
Module Tie.
Import Pages Split.

Record dcase := mkDCase {
  d_log2ps : N; d_addr : N; d_bytes : N; d_ngpu : nat;
  d_panic : bool;
  d_remaps : list (N * N * nat);
  d_bytes_on : list N
}.

Definition remap_eqb (a : N * N * nat) (r : remap) : bool :=
  let '(x, y, z) := a in (x =? r_addr r)%N && (y =? r_size r)%N && Nat.eqb z (r_idx r).

Fixpoint list_eqb2 {A B} (f : A -> B -> bool) (a : list A) (b : list B) : bool :=
  match a, b with
  | [], [] => true
  | x :: a', y :: b' => f x y && list_eqb2 f a' b'
  | _, _ => false
  end.

Definition check_dcase (c : dcase) : bool :=
  match distribute (d_log2ps c) (d_addr c) (d_bytes c) (d_ngpu c) with
  | None => d_panic c
  | Some (rs, per) =>
    negb (d_panic c) && list_eqb2 remap_eqb (d_remaps c) rs && list_eqb2 N.eqb (d_bytes_on c) per
  end.

(** A split case records the geometry, the CU counts, the table the real
    code computed, and for sampled work-groups the list of filter verdicts
    (one per launched request, tagged with its GPU index). *)
Record scase := mkSCase {
  s_geom : geom; s_cus : list Z;
  s_panic : bool;
  s_dist : list Z;
  s_launched : list nat;
  s_probe : list (Z * Z * Z * list bool)   (* x y z, verdict of each launched filter *)
}.

Definition probe_ok (g : geom) (d : list Z) (ls : list nat) (p : Z * Z * Z * list bool) : bool :=
  let '(x, y, z, vs) := p in
  list_eqb2 Bool.eqb vs (map (fun i => wg_filter g d i x y z) ls).

Definition check_scase (c : scase) : bool :=
  match wg_dist (s_geom c) (s_cus c) with
  | None => s_panic c
  | Some d =>
    negb (s_panic c) && list_eqb2 Z.eqb (s_dist c) d &&
    list_eqb2 Nat.eqb (s_launched c)
      (filter (launched d) (seq 0 (length (s_cus c)))) &&
    forallb (probe_ok (s_geom c) d (s_launched c)) (s_probe c)
  end.

Fixpoint bad_from {A} (chk : A -> bool) (i : nat) (cs : list A) : list (nat * nat) :=
  match cs with
  | [] => []
  | c :: r => if chk c then bad_from chk (S i) r else (i, 0%nat) :: bad_from chk (S i) r
  end.
Definition dmismatches := bad_from check_dcase 0.
Definition smismatches := bad_from check_scase 0.

(** A benchmark run: [b_ceil] selects the split (false = balanced, true =
    ceil), [b_n] items over [b_g] GPUs, and the (GPU, length) pairs of the
    kernel launches the driver really sent, sorted by GPU. *)
Record bcase := mkBCase { b_ceil : bool; b_n : N; b_g : N; b_seen : list (N * N) }.

Definition pair_eqb (a b : N * N) : bool := (fst a =? fst b)%N && (snd a =? snd b)%N.

Definition check_bcase (c : bcase) : bool :=
  list_eqb2 pair_eqb (b_seen c)
    (Bench.launches (if b_ceil c then Bench.ceil_slice (b_n c) (b_g c) else Bench.bal_slice (b_n c) (b_g c)) (b_g c)).

Definition bmismatches := bad_from check_bcase 0.
End Tie.
