(** Model of the host-device copy commands of the driver:
    amd/driver/memorycopy.go (default middleware: one MemCopy request per page
    piece, flush decision) and memorycopyglobalstorage.go ("magic" middleware:
    the same loop writing the global storage directly).  Definitions only. *)
From Coq Require Import List NArith Bool.
From VLib Require Import Chunks.
From VMem Require Import StorageAccessor.
From VDrv Require Import CopyCmd.
Import ListNotations.
Open Scope N_scope.

(** One iteration of processMemCopyH2DCommand / D2HCommand (both middlewares):
      pAddr := page.PAddr + (addr - page.VAddr)
      sizeLeftInPage := page.PageSize - (addr - page.VAddr)            *)
Definition look_drv (lg : N) (pt : ptable) : lookup :=
  fun a => match pt (align lg a) with
           | Some pg => Some (pg_p pg + (a - pg_v pg), pg_size pg - (a - pg_v pg))
           | None => None
           end.

Definition split_pages (lg : N) (pt : ptable) (addr n : N) : res :=
  split (look_drv lg pt) addr n.

(** memRangeOverlap as found in the repository (kept for the refutation) ... *)
Definition mem_range_overlap_old (s1 e1 s2 e2 : N) : bool :=
  ((s1 <=? s2) && (s2 <? e1)) || ((s1 <? e2) && (e2 <=? e1)).
(** ... and after the repair (standard interval test). *)
Definition mem_range_overlap (s1 e1 s2 e2 : N) : bool :=
  (s1 <? e2) && (s2 <? e1).

Record buffer := mkBuf { b_start : N; b_size : N; b_dirty : bool }.

(** needFlushing *)
Definition need_flushing_with (ovl : N -> N -> N -> N -> bool) (bufs : list buffer) (a n : N) : bool :=
  existsb (fun b => ovl (b_start b) (b_start b + b_size b) a (a + n) && b_dirty b) bufs.
Definition need_flushing := need_flushing_with mem_range_overlap.

(** GetDeviceIDByPAddr over the registered devices (id, first address, size);
    the copy request goes to GPUs[id-1]. *)
Fixpoint device_of (devs : list (N * N * N)) (pa : N) : option N :=
  match devs with
  | [] => None
  | (id, lo, sz) :: r => if (lo <=? pa) && (pa <? lo + sz) then Some id else device_of r pa
  end.

(** The requests of one copy command in the default middleware: (gpu, pAddr, length). *)
Fixpoint reqs_of (devs : list (N * N * N)) (l : list piece) : option (list (N * N * N)) :=
  match l with
  | [] => Some []
  | p :: r =>
    match device_of devs (p_pa p), reqs_of devs r with
    | Some id, Some rs => if id =? 0 then None else Some ((id, p_pa p, p_len p) :: rs)
    | _, _ => None
    end
  end.

(** ---- executable case format of the correspondence check ---- *)

Inductive op :=
| OpH2D (addr : N) (data : list N)
| OpD2H (addr n : N)
| OpAccW (addr : N) (data : list N)     (* storage accessor write *)
| OpAccR (addr n : N).                  (* storage accessor read *)

(** What the harness saw: panic?, flush requested?, copy requests (default
    middleware only), bytes returned (D2H / accessor read). *)
Record oobs := mkOObs { o_crash : bool; o_flush : bool; o_reqs : list (N * N * N); o_data : list N }.

(** Completion of a command of the default middleware: the order in which the
    harness answered the requests (index into flushes ++ copy requests) and the
    number of responses after which the command left its queue. *)
Record cobs := mkCObs { co_order : list N; co_after : N }.

Record dcase := mkDCase {
  d_lg : N;
  d_magic : bool;
  d_pt : list (N * page);
  d_devs : list (N * N * N);
  d_ops : list (op * list buffer * oobs * cobs);
  d_windows : list (N * list N)      (* final storage content: (pAddr, bytes) *)
}.

(** Model of one operation on the flat memory: expected observation and new memory. *)
Definition zero : bytes := fun _ => 0.
Definition len (d : list N) : N := N.of_nat (length d).

(** The global-storage middleware flushes like the default one (flushCachesFirst:
    needFlushing, and only when GPUs are registered); the storage is touched when
    the last flush answer has arrived (at once when no flush is needed). *)
Definition magic_flush (c : dcase) (bufs : list buffer) (a n : N) : bool :=
  negb (Nat.leb (length (d_devs c)) 1) && need_flushing bufs a n.

Definition run_op (c : dcase) (pt : ptable) (o : op) (bufs : list buffer) (m : bytes) : oobs * bytes :=
  let crash := (mkOObs true false [] [], m) in
  match o with
  | OpH2D a data =>
    match split_pages (d_lg c) pt a (len data) with
    | Ok l =>
      if d_magic c then (mkOObs false (magic_flush c bufs a (len data)) [] [], h2d (of_list data) l m) else
      match reqs_of (d_devs c) l with
      | Some rs => (mkOObs false (need_flushing bufs a (len data)) rs [], h2d (of_list data) l m)
      | None => crash
      end
    | _ => crash
    end
  | OpD2H a n =>
    match split_pages (d_lg c) pt a n with
    | Ok l =>
      let out := to_list (d2h m l zero) 0 n in
      if d_magic c then (mkOObs false (magic_flush c bufs a n) [] out, m) else
      match reqs_of (d_devs c) l with
      | Some rs => (mkOObs false (need_flushing bufs a n) rs out, m)
      | None => crash
      end
    | _ => crash
    end
  | OpAccW a data =>
    match acc_write (d_lg c) pt a (of_list data) (len data) m with
    | Some m' => (mkOObs false false [] [], m')
    | None => crash
    end
  | OpAccR a n =>
    match acc_read (d_lg c) pt a n m with
    | Some b => (mkOObs false false [] (to_list b 0 n), m)
    | None => crash
    end
  end.

Fixpoint nl_eqb (a b : list N) : bool :=
  match a, b with
  | [], [] => true
  | x :: a', y :: b' => (x =? y) && nl_eqb a' b'
  | _, _ => false
  end.
Fixpoint rq_eqb (a b : list (N * N * N)) : bool :=
  match a, b with
  | [], [] => true
  | (x1, x2, x3) :: a', (y1, y2, y3) :: b' => (x1 =? y1) && (x2 =? y2) && (x3 =? y3) && rq_eqb a' b'
  | _, _ => false
  end.
Definition oobs_eqb (a b : oobs) : bool :=
  if o_crash a || o_crash b then Bool.eqb (o_crash a) (o_crash b) else
  Bool.eqb (o_flush a) (o_flush b) && rq_eqb (o_reqs a) (o_reqs b) && nl_eqb (o_data a) (o_data b).

(** index (from 1) of the first operation whose observation differs; the
    windows are compared after the last operation (index = number of ops + 1) *)
Definition after_ok (c : dcase) (o : op) (exp : oobs) (co : cobs) : bool :=
  match o with
  | OpH2D _ _ | OpD2H _ _ =>
    if o_crash exp then true else
    let nflush := if o_flush exp then (length (d_devs c) - 1)%nat else 0%nat in
    co_after co =? expect_after nflush (length (o_reqs exp)) (co_order co)
  | _ => true
  end.

Fixpoint run_ops (c : dcase) (pt : ptable) (i : nat) (ops : list (op * list buffer * oobs * cobs)) (m : bytes)
  : option nat * bytes :=
  match ops with
  | [] => (None, m)
  | (o, bufs, seen, co) :: r =>
    let '(exp, m') := run_op c pt o bufs m in
    if oobs_eqb exp seen && after_ok c o exp co then
      if o_crash exp then (None, m') else run_ops c pt (S i) r m'
    else (Some i, m')
  end.

Definition check_dcase (c : dcase) : option nat :=
  let pt := pt_of_list (d_pt c) in
  let '(r, m) := run_ops c pt 1%nat (d_ops c) zero in
  match r with
  | Some i => Some i
  | None =>
    if forallb (fun w => nl_eqb (to_list m (fst w) (len (snd w))) (snd w)) (d_windows c)
    then None else Some (S (length (d_ops c)))
  end.

Fixpoint dmismatches_from (i : nat) (cs : list dcase) : list (nat * nat) :=
  match cs with
  | [] => []
  | c :: r => match check_dcase c with
              | None => dmismatches_from (S i) r
              | Some k => (i, k) :: dmismatches_from (S i) r
              end
  end.
Definition dmismatches := dmismatches_from 0.

(** memRangeOverlap samples: (s1, e1, s2, e2, observed) *)
Fixpoint omismatches_from (i : nat) (cs : list (N * N * N * N * bool)) : list (nat * nat) :=
  match cs with
  | [] => []
  | (s1, e1, s2, e2, b) :: r =>
    if Bool.eqb (mem_range_overlap s1 e1 s2 e2) b then omismatches_from (S i) r
    else (i, 0%nat) :: omismatches_from (S i) r
  end.
Definition omismatches := omismatches_from 0.
