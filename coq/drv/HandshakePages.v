(** Every page of a migration request is requested from a command processor
    exactly once: by the time the driver sends the first GPU restart, the page
    requests it has sent are -- as a multiset -- one per (requesting GPU, page)
    of the request, whatever order Go's map iteration visited the groups in. *)
From Coq Require Import Permutation ZifyN ZifyNat ZifyBool.
From VDrv Require Import Handshake HandshakeProofs.
Open Scope N_scope.

Definition is_mig (c : cmd) : bool := match c with CMig _ _ _ _ => true | _ => false end.

Lemma is_mig_kind c : is_mig c = rsp_eqb RMig (kindof c).
Proof. destruct c; reflexivity. Qed.

Lemma len_filter_mig l : length (filter is_mig l) = sentk RMig l.
Proof.
  unfold sentk, cnt. induction l as [|c l IH]; [reflexivity|].
  cbn [filter map]. rewrite is_mig_kind. destruct (rsp_eqb RMig (kindof c)); cbn [length]; congruence.
Qed.

Lemma filter_block B K : map kindof B = repeat K (length B) ->
  filter is_mig B = if rsp_eqb RMig K then B else [].
Proof.
  induction B as [|c B IH]; intros E; [destruct (rsp_eqb RMig K); reflexivity|].
  cbn in E. injection E as E1 E2. specialize (IH E2).
  cbn [filter]. rewrite is_mig_kind, E1, IH.
  destruct (rsp_eqb RMig K); reflexivity.
Qed.

Lemma mig_sent_all n q (sent X : list cmd) :
  (exists rest, (sent ++ X) ++ rest = bD n ++ bS n q ++ bM n q ++ bR q ++ bRR n) ->
  sentk RMig sent = length (bM n q) -> filter is_mig sent = bM n q.
Proof.
  intros [rest E] HL. apply (f_equal (filter is_mig)) in E.
  rewrite !filter_app in E.
  rewrite (filter_block _ _ (kinds_bD n)), (filter_block _ _ (kinds_bS n q)), (filter_block _ _ (kinds_bM n q)),
          (filter_block _ _ (kinds_bR q)), (filter_block _ _ (kinds_bRR n)) in E.
  cbn [rsp_eqb app] in E. rewrite app_nil_r in E.
  pose proof (f_equal (@length cmd) E) as EL. rewrite !app_length, len_filter_mig in EL.
  assert (H1 : filter is_mig X = []) by (apply length_zero_iff_nil; lia).
  assert (H2 : filter is_mig rest = []) by (apply length_zero_iff_nil; lia).
  rewrite H1, H2, !app_nil_r in E. exact E.
Qed.

(** ** the order of the map iteration does not matter *)
Lemma filter_key_absent k (gs : list (N * list N)) :
  ~ In k (map fst gs) -> filter (fun gp => fst gp =? k) gs = [].
Proof.
  induction gs as [|a gs IH]; intros H; [reflexivity|]. cbn [filter].
  destruct (fst a =? k) eqn:E.
  - apply N.eqb_eq in E. exfalso. apply H. left. exact E.
  - apply IH. intros Hi. apply H. right. exact Hi.
Qed.

Lemma ordered_by_skip a gs : forall ord, ~ In (fst a) ord -> ordered_by ord (a :: gs) = ordered_by ord gs.
Proof.
  induction ord as [|x ord IH]; intros H; [reflexivity|].
  unfold ordered_by in *. cbn [flat_map filter].
  destruct (fst a =? x) eqn:E.
  - apply N.eqb_eq in E. exfalso. apply H. left. auto.
  - f_equal. apply IH. intros Hi. apply H. right. exact Hi.
Qed.

Lemma ordered_by_keys gs : NoDup (map fst gs) -> ordered_by (map fst gs) gs = gs.
Proof.
  induction gs as [|a gs IH]; intros H; [reflexivity|].
  cbn [map] in *. inversion H as [|x l Hn Hd]; subst.
  change (ordered_by (fst a :: map fst gs) (a :: gs))
    with (filter (fun gp => fst gp =? fst a) (a :: gs) ++ ordered_by (map fst gs) (a :: gs)).
  cbn [filter]. rewrite N.eqb_refl, (filter_key_absent _ _ Hn), ordered_by_skip, IH; auto.
Qed.

Definition map_order_ok (n : N) (q : mreq) : Prop :=
  NoDup (map fst (groups_of n q)) /\ Permutation (mr_order q) (map fst (groups_of n q)).

Lemma bM_perm n q : map_order_ok n q ->
  Permutation (bM n q) (flat_map (mig_of q) (groups_of n q)).
Proof.
  intros [Hd Hp]. unfold bM, ordered_groups. apply Permutation_flat_map.
  rewrite <- (ordered_by_keys _ Hd) at 2. unfold ordered_by. apply Permutation_flat_map. exact Hp.
Qed.

Theorem every_page_once : forall n evs,
  hvalid (hs_init n) evs ->
  let s := hrun (hs_init n) evs in
  match h_cur s with
  | None => True
  | Some q =>
    (0 < sentk RRestart (g_sent s))%nat -> map_order_ok n q ->
    Permutation (filter is_mig (g_sent s)) (flat_map (mig_of q) (groups_of n q))
  end.
Proof.
  intros n evs Hv s. pose proof (handshake_order n evs Hv) as H. fold s in H. cbv zeta in H.
  destruct H as [_ H]. destruct (h_cur s) as [q|]; [|exact I].
  destruct H as (Hpre & _ & _ & _ & Hall & _). intros Hr Hok.
  destruct (Hall Hr) as [_ Hk].
  rewrite (mig_sent_all n q (g_sent s) (h_tosend s ++ h_migq s) Hpre Hk).
  apply bM_perm. exact Hok.
Qed.
