(** C12 — the ranking function of the repaired protocol (definitions only;
    the proof that it decreases on every transition is in QueueTerm.v).  The
    check also evaluates it along every replayed schedule as a cross-check of
    the model against the runs of the real driver. *)
From Coq Require Import List NArith Bool Arith.
Import ListNotations.
From VDrv Require Import Queue Handoff.

Definition sum (l : list nat) : nat := fold_right Nat.add 0 l.
Definition b2nat (b : bool) : nat := if b then 1 else 0.

(** every queued command is worth 5 event handlings: start (1), the tick that sends the request (1), the GPU's
    answer (2), completion (1) *)
Definition cmdw (c : cmd) : nat := 5.
Definition is_enq (o : op) : nat := match o with OEnq _ _ => 1 | _ => 0 end.
Definition is_drain (o : op) : nat := match o with ODrain _ => 1 | _ => 0 end.
Definition opw (o : op) : nat := match o with OEnq _ _ => 2 | ODrain _ => 7 end.
Definition op_cmdw (o : op) : nat := match o with OEnq _ c => cmdw c | _ => 0 end.

Definition pcw (p : apc) : nat :=
  match p with
  | AIdle => 0 | AEnqNotify _ => 1 | AUnsub _ => 1 | AClose _ => 2
  | AParked _ => 3 | AWait _ => 4 | ACheck _ => 5 | ASignal _ => 6
  end.
Definition at_enq_notify (p : apc) : nat := match p with AEnqNotify _ => 1 | _ => 0 end.
Definition at_signal (p : apc) : nat := match p with ASignal _ => 1 | _ => 0 end.

(** notifications still to come *)
Definition notifies_left (s : state) : nat :=
  sum (map (fun a => 2 * sum (map is_enq (a_prog a)) + at_enq_notify (a_pc a)) (apps s))
  + sum (map (fun q => length (q_cmds q)) (queues s))
  + match eng s with Some (ERetNotify _) | Some (EQNotify _) | Some (EEmptyNotify _) => 1 | _ => 0 end.

(** rendezvous on enqueueSignal still to come *)
Definition signals_left (s : state) : nat :=
  sum (map (fun a => sum (map is_drain (a_prog a)) + at_signal (a_pc a)) (apps s)).

Definition eng_mp (e : option epc) : nat :=
  match e with
  | Some (ESend true) | Some (EEmpty true) | Some (EEmptyNotify _) | Some (ERet true) | Some (ERetNotify _) | Some (EQ _ true) | Some (EQNotify _) | Some (EEnd true) => 1
  | _ => 0
  end.

(** event handlings still to come *)
Definition events_left (s : state) : nat :=
  b2nat (tick s) + 3 * length (tosend s) + 2 * length (gpu s)
  + signals_left s + match ra s with RPause | RTick => 1 | _ => 0 end
  + sum (map (fun a => sum (map op_cmdw (a_prog a))) (apps s))
  + sum (map (fun q => sum (map cmdw (q_cmds q)) - (if q_running q then 4 else 0)) (queues s))
  + eng_mp (eng s) + b2nat (mw0 s).

Definition appw (a : app) : nat :=
  sum (map opw (a_prog a)) + pcw (a_pc a) + (if a_tok a then 2 else 0).
Definition raw (r : rapc) : nat :=
  match r with RSelect => 0 | RTop => 1 | RTest => 6 | RCont => 7 | RTick => 8 | RPause => 9 end.
Definition engw (nq : nat) (e : option epc) : nat :=
  match e with
  | None => 0
  | Some EExit => 1 | Some EReturned => 2 | Some ECheck => 3 | Some ELock => 2 | Some EPop => 1
  | Some (ESend _) => 2 * nq + 9 | Some (EEmpty _) => 2 * nq + 8 | Some (EEmptyNotify _) => 2 * nq + 9
  | Some (ERet _) => 2 * nq + 7 | Some (ERetNotify _) => 2 * nq + 6
  | Some (EQ i _) => 5 + 2 * (nq - i) | Some (EQNotify i) => 4 + 2 * (nq - i)
  | Some (EEnd _) => 4
  end.

Definition local_left (s : state) : nat :=
  sum (map appw (apps s)) + raw (ra s) + engw (length (queues s)) (eng s) + 4 * ewait s + 2 * b2nat (rerun s)
  + 2 * length (empties s).

Definition rank (s : state) : nat :=
  (4 * length (apps s) + 1) * notifies_left s
  + (2 * length (queues s) + 10) * events_left s
  + 10 * signals_left s
  + local_left s.

(** number of transitions of the schedule (counted from 1) at which [rank]
    does not strictly decrease; 0 steps are reported as [] *)
Fixpoint rank_bad (c : cfg) (s : state) (k : nat) (l : list tstep) : list nat :=
  match l with
  | [] => []
  | x :: r => match step c s x with
              | None => []
              | Some s' => (if Nat.ltb (rank s') (rank s) then [] else [k]) ++ rank_bad c s' (S k) r
              end
  end.

Fixpoint rank_mism_from (i : nat) (l : list case) : list (N * N) :=
  match l with
  | [] => []
  | k :: r =>
    match rank_bad (k_cfg k) (init (k_nq k) (k_progs k)) 1 (sched_of k) with
    | [] => rank_mism_from (S i) r
    | n :: _ => (N.of_nat i, N.of_nat n) :: rank_mism_from (S i) r
    end
  end.
Definition rank_violations (l : list case) : list (N * N) := rank_mism_from 0 l.

(** correspondence mismatches, and rank violations shifted by 1000000 *)
Definition check_all (l : list case) : list (N * N) :=
  mismatches l ++ map (fun p => (fst p, (snd p + 1000000)%N)) (rank_violations l).
