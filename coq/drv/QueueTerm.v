(** C12 — termination of the repaired protocol: the ranking function of
    QueueRank.v strictly decreases on every transition from a state that
    satisfies the invariant.  Hence every schedule is finite (bounded by the
    rank of the initial state) and, by deadlock freedom, can only end with all
    calls returned — whatever the scheduler does, as long as it does not stop
    while a step is enabled. *)
From Coq Require Import List NArith Bool Arith Lia.
Import ListNotations.
From RecordUpdate Require Import RecordSet.
Import RecordSetNotations.
From VDrv Require Import Queue Handoff QueueSafety QueueInv QueueLive QueueRank.

Lemma sum_map_upd {A} (f : A -> nat) i g l x :
  nth_error l i = Some x -> sum (map f (upd i g l)) + f x = sum (map f l) + f (g x).
Proof.
  revert i; induction l as [|y l IH]; intros [|i] H; simpl in *; try discriminate.
  - injection H as ->. lia.
  - specialize (IH _ H). lia.
Qed.

Lemma sum_map_ext_nth {A} (f : A -> nat) k : forall l l',
  length l' = length l ->
  (forall t a', nth_error l' t = Some a' -> exists a, nth_error l t = Some a /\ f a' <= f a + k) ->
  sum (map f l') <= sum (map f l) + k * length l.
Proof.
  induction l as [|x l IH]; intros [|x' l'] L H; simpl in *; try discriminate; try lia.
  injection L as L.
  destruct (H 0 x' eq_refl) as (a & Ha & Hle). simpl in Ha. injection Ha as <-.
  specialize (IH l' L (fun t a' Ht => H (S t) a' Ht)). lia.
Qed.

Lemma sum_map_eq_nth {A} (f : A -> nat) : forall l l',
  length l' = length l ->
  (forall t a', nth_error l' t = Some a' -> exists a, nth_error l t = Some a /\ f a' = f a) ->
  sum (map f l') = sum (map f l).
Proof.
  induction l as [|x l IH]; intros [|x' l'] L H; simpl in *; try discriminate; try lia.
  injection L as L.
  destruct (H 0 x' eq_refl) as (a & Ha & Hle). simpl in Ha. injection Ha as <-.
  specialize (IH l' L (fun t a' Ht => H (S t) a' Ht)). lia.
Qed.

(** measures that Notify does not change *)
Lemma notify_all_sum_same (f : app -> nat) ls ap :
  (forall a, f (n1 a) = f a) -> sum (map f (notify_all true ls ap)) = sum (map f ap).
Proof.
  intros Hf. apply sum_map_eq_nth; [apply notify_all_length|].
  intros t a' Ha. apply notify_all_spec in Ha. destruct Ha as (a & Ha & R & _).
  exists a. split; auto. destruct R as [ -> | [ -> | -> ] ]; rewrite ?Hf; reflexivity.
Qed.

Lemma n1_appw a : appw (n1 a) <= appw a + 2 /\ appw (n1 (n1 a)) <= appw a + 4.
Proof.
  unfold n1, notify1, appw. destruct a as [pc pr tok cl d r]. simpl.
  destruct cl; simpl; [lia|]. destruct pc, tok; simpl; lia.
Qed.

Lemma notify_all_appw ls ap :
  sum (map appw (notify_all true ls ap)) <= sum (map appw ap) + 4 * length ap.
Proof.
  apply sum_map_ext_nth; [apply notify_all_length|].
  intros t a' Ha. apply notify_all_spec in Ha. destruct Ha as (a & Ha & R & _).
  exists a. split; auto. pose proof (n1_appw a). destruct R as [ -> | [ -> | -> ] ]; lia.
Qed.

#[local] Arguments Nat.mul : simpl never.
#[local] Arguments Nat.add : simpl never.
#[local] Arguments Nat.sub : simpl never.

Lemma sum_app l1 l2 : sum (l1 ++ l2) = sum l1 + sum l2.
Proof. induction l1; simpl; auto. rewrite IHl1. lia. Qed.

Lemma remove_first_length q g : mem_nat q g = true -> length g = S (length (remove_first q g)).
Proof.
  induction g as [|x g IH]; simpl; [discriminate|].
  destruct (Nat.eqb x q); simpl; auto.
Qed.

Lemma b2nat_le b : b2nat b <= 1.
Proof. destruct b; simpl; lia. Qed.

Lemma rank_lt KA WE A A' B B' C C' D D' a b c :
  A = A' + a -> B = B' + b -> C = C' + c ->
  D' < D + KA * a + WE * b + 10 * c ->
  KA * A' + WE * B' + 10 * C' + D' < KA * A + WE * B + 10 * C + D.
Proof. intros -> -> -> H. rewrite !Nat.mul_add_distr_l. lia. Qed.

Ltac try_delta X X' k :=
  first [ assert (X = X' + 0) by lia; k 0 | assert (X = X' + 1) by lia; k 1 | assert (X = X' + 2) by lia; k 2
        | assert (X = X' + 3) by lia; k 3 | assert (X = X' + 4) by lia; k 4
        | assert (X = X' + 5) by lia; k 5 | assert (X = X' + 6) by lia; k 6 ].
Ltac rank_case :=
  match goal with
  | |- ?KA * ?A' + ?WE * ?B' + 10 * ?C' + ?D' < ?KA * ?A + ?WE * ?B + 10 * ?C + ?D =>
    try_delta A A' ltac:(fun a => try_delta B B' ltac:(fun b => try_delta C C' ltac:(fun c =>
      apply (rank_lt KA WE A A' B B' C C' D D' a b c); [assumption|assumption|assumption|lia])))
  end.

Ltac pose_upd :=
  repeat match goal with
  | |- context [sum (map ?f (upd ?i ?g ?l))] =>
    match goal with
    | H : nth_error l i = Some ?x |- _ =>
      let E := fresh "E" in
      pose proof (sum_map_upd f i g l x H) as E; cbv beta in E;
      generalize dependent (sum (map f (upd i g l))); intros
    end
  end.

Lemma n1_same (f : app -> nat) :
  (forall pc pr tok cl d r, f (mkApp pc pr tok cl d r) = f (mkApp (match pc with AParked q => ACheck q | _ => pc end) pr tok cl d r)) ->
  (forall pc pr tok cl d r, f (mkApp pc pr tok cl d r) = f (mkApp pc pr true cl d r)) ->
  forall a, f (n1 a) = f a.
Proof.
  intros H1 H2 [pc pr tok cl d r]. unfold n1, notify1. simpl. destruct cl; auto.
  destruct pc; simpl; try (destruct tok; simpl; auto; symmetry; apply H2).
  symmetry. apply (H1 (AParked q)).
Qed.

Ltac n1_inv_tac :=
  let a0 := fresh "a0" in
  intros a0; unfold n1, notify1; destruct a0 as [pc0 ? tok0 cl0 ? ?]; simpl; destruct cl0, pc0, tok0; reflexivity.

Ltac ltb_prop :=
  repeat match goal with
         | H : (_ <? _) = true |- _ => apply Nat.ltb_lt in H
         | H : (_ <? _) = false |- _ => apply Nat.ltb_ge in H
         | H : (_ <? _) = true \/ _ |- _ => destruct H as [H|H]; [|discriminate H]
         end.

Lemma step_rank s l s' : inv s -> step cfg_fixed s l = Some s' -> rank s' < rank s.
Proof.
  intros I H. pose proof (i_index s I) as Iidx.
  pose proof (step_crash _ _ _ I H) as NC.
  assert (HR : forall q qq, nth_error (queues s) q = Some qq -> q_running qq = true -> q_cmds qq <> []).
  { intros q qq Hq R. destruct (i_queues s I q qq Hq) as (_ & Hr). destruct (i_flight s I) as (_ & Hf).
    destruct (Hf q (Hr R)) as (qq' & E' & _ & C). congruence. }
  clear I.
  unfold rank. rewrite (step_apps_length _ _ _ _ H), (step_queues_length _ _ _ _ H).
  step_inv H; try discriminate NC; clear NC;
    unfold notifies_left, events_left, signals_left, local_left, eq_or_end in *; simpl in *;
    rewrite ?upd_length, ?notify_all_length in *.
  (* Enqueue's own NotifyAllSubscribers: make the notified record of the caller explicit *)
  all: try (match goal with
            | Ha : nth_error (apps ?s0) ?t = Some ?a |- context [upd ?t _ (notify_all true ?ls (apps ?s0))] =>
              destruct (nth_error (notify_all true ls (apps s0)) t) as [x'|] eqn:Ex';
              [| exfalso; apply nth_error_None in Ex'; rewrite notify_all_length in Ex';
                 apply nth_error_some_lt in Ha; lia];
              let Sx := fresh "Sx" in
              pose proof Ex' as Sx; apply notify_all_spec in Sx; destruct Sx as (a0 & Ha0 & R & _);
              assert (a0 = a) by congruence; subst a0;
              destruct a as [pc pr tok cl d r]; simpl in *; subst pc;
              destruct R as [ -> | [ -> | -> ] ]; unfold n1, notify1 in *; simpl in *; destruct cl, tok; simpl in *
            end).
  all: pose_upd.
  (* NotifyAllSubscribers: the counting measures do not change, the threads gain at most 4 each *)
  all: repeat match goal with
              | H : context [sum (map ?f (notify_all true ?ls ?ap))] |- _ =>
                rewrite (notify_all_sum_same f ls ap) in H by n1_inv_tac
              | |- context [sum (map ?f (notify_all true ?ls ?ap))] =>
                rewrite (notify_all_sum_same f ls ap) by n1_inv_tac
              end.
  all: try match goal with
           | H : context [sum (map appw (notify_all true ?ls ?ap))] |- _ =>
             pose proof (notify_all_appw ls ap) as NA; generalize dependent (sum (map appw (notify_all true ls ap))); intros
           | |- context [sum (map appw (notify_all true ?ls ?ap))] =>
             pose proof (notify_all_appw ls ap) as NA; generalize dependent (sum (map appw (notify_all true ls ap))); intros
           end.
  all: unfold appw, cmdw in *.
  all: simpl in *.
  all: repeat match goal with H : a_pc _ = _ |- _ => rewrite H in *; clear H end.
  all: repeat match goal with H : a_prog _ = _ |- _ => rewrite H in *; clear H end.
  all: try match goal with Hq : nth_error (queues _) _ = Some ?q0, Hr : q_running ?q0 = true |- _ => pose proof (HR _ _ Hq Hr) end.
  all: repeat match goal with H : q_cmds _ = _ |- _ => rewrite H in *; clear H end.
  all: repeat match goal with H : q_running _ = _ |- _ => rewrite H in *; clear H end.
  all: simpl in *.
  all: rewrite ?app_length, ?map_app, ?sum_app in *; simpl in *.
  all: rw_state; simpl in *.
  all: repeat match goal with H : tosend _ = _ |- _ => rewrite H in *; clear H end; simpl in *.
  all: repeat match goal with H : empties _ = _ |- _ => rewrite H in *; clear H end; simpl in *.
  all: pose proof (b2nat_le (tick s)) as Bt; pose proof (b2nat_le (rerun s)) as Br; pose proof (b2nat_le (mw0 s)) as Bm.
  all: try rank_case.
  all: unfold cmdw in *; simpl in *; try rank_case.
  all: try (destruct (tick s) eqn:?; simpl in *; rank_case).
  all: try (destruct (mw0 s) eqn:?; simpl in *; rank_case).
  all: try (destruct mp; simpl in *; rewrite ?orb_true_r, ?orb_false_r in *; simpl in *).
  all: repeat match goal with |- context [if ?b then _ else _] => destruct b eqn:?; simpl in * end.
  all: ltb_prop.
  all: try rank_case.
  all: try (destruct (tick s) eqn:?; simpl in *; rank_case).
  all: try (match goal with
            | Hq : nth_error (queues _) _ = Some ?q0, E : context [q_running ?q0] |- _ =>
              destruct (q_running q0) eqn:Rq;
              [pose proof (HR _ _ Hq Rq); destruct (q_cmds q0) eqn:?; [congruence|]; simpl in *|]; rank_case
            end).
  all: try (match goal with Ha : nth_error (apps _) _ = Some ?a |- _ => let T := fresh "T" in destruct (a_tok a) eqn:T; simpl in *; rewrite ?T in *; simpl in *; rank_case end).
  all: try (match goal with Hm : mem_nat _ _ = true |- _ => pose proof (remove_first_length _ _ Hm) end;
            destruct (tick s) eqn:?; simpl in *; rank_case).
  all: try (destruct (mw0 s) eqn:?; simpl in *; rank_case).
Qed.

Theorem run_rank l : forall s s', inv s -> run cfg_fixed s l = Some s' -> length l + rank s' <= rank s.
Proof.
  induction l as [|x l IH]; simpl; intros s s' I H.
  - injection H as <-. lia.
  - destruct (step cfg_fixed s x) as [s1|] eqn:E; [|discriminate].
    pose proof (step_rank _ _ _ I E). pose proof (step_preserves_inv _ _ _ I E) as I1.
    specialize (IH _ _ I1 H). lia.
Qed.

(** Every schedule from the initial state is at most [rank (init nq ps)] steps
    long; every continuation from a reachable state [s] is at most [rank s]
    steps long; and a schedule that cannot be continued has returned from all
    calls. *)
Theorem schedules_finite_and_complete_ctx cs ps sched s :
  progs_ok (length cs) ps = true -> run cfg_fixed (init_ctx cs ps) sched = Some s ->
  length sched + rank s <= rank (init_ctx cs ps) /\
  (forall sched2 s2, run cfg_fixed s sched2 = Some s2 -> length sched2 + rank s2 <= rank s) /\
  (stuck cfg_fixed s = true -> all_done s = true).
Proof.
  intros Hp Hr. pose proof (init_ctx_inv cs ps Hp) as I0. pose proof (run_inv sched _ _ I0 Hr) as I.
  split; [exact (run_rank sched _ _ I0 Hr)|]. split.
  - intros sched2 s2 H2. exact (run_rank sched2 _ _ I H2).
  - intros St. pose proof (inv_not_deadlocked s I) as D. unfold deadlocked in D. rewrite St in D. simpl in D.
    apply negb_false_iff in D. exact D.
Qed.

Theorem schedules_finite_and_complete nq ps sched s :
  progs_ok nq ps = true -> run cfg_fixed (init nq ps) sched = Some s ->
  length sched + rank s <= rank (init nq ps) /\
  (forall sched2 s2, run cfg_fixed s sched2 = Some s2 -> length sched2 + rank s2 <= rank s) /\
  (stuck cfg_fixed s = true -> all_done s = true).
Proof.
  intros Hp Hr. pose proof (init_inv nq ps Hp) as I0. pose proof (run_inv sched _ _ I0 Hr) as I.
  split; [exact (run_rank sched _ _ I0 Hr)|]. split.
  - intros sched2 s2 H2. exact (run_rank sched2 _ _ I H2).
  - intros St. pose proof (inv_not_deadlocked s I) as D. unfold deadlocked in D. rewrite St in D. simpl in D.
    apply negb_false_iff in D. exact D.
Qed.
